// waspharness executes op lines from stdin against the real vx-labs/wasp code
// (built from /repo's working tree with -tags verif) and prints one canonical
// observation line per op. The Lean driver (lean/Driver) speaks the same
// protocol over the models; the orchestrator (./check) diffs the two streams.
package main

import (
	"bufio"
	"fmt"
	"os"
	"strings"
	"time"
)

type domain interface {
	// step consumes one op line and returns one observation line
	step(fields []string) string
}

var domains = map[string]func(args []string) domain{}

func main() {
	if len(os.Args) < 2 {
		fmt.Fprintln(os.Stderr, "usage: waspharness <domain> [args]")
		os.Exit(2)
	}
	mk, ok := domains[os.Args[1]]
	if !ok {
		fmt.Fprintln(os.Stderr, "unknown domain", os.Args[1])
		os.Exit(2)
	}
	d := mk(os.Args[2:])
	in := bufio.NewReaderSize(os.Stdin, 1<<20)
	out := bufio.NewWriterSize(os.Stdout, 1<<20)
	defer out.Flush()
	for {
		line, err := in.ReadString('\n')
		if len(line) > 0 {
			line = strings.TrimRight(line, "\r\n")
			// a deadlock in the code under test (a mutex never released) would block this loop for ever: report it
			watchdog := time.AfterFunc(90*time.Second, func() {
				out.Flush() // the main loop is blocked inside the op: nobody else touches the writer
				fmt.Fprintf(os.Stdout, "HANG `%s` did not return within 90 s\n", line)
				os.Exit(3)
			})
			res := safeStep(d, strings.Fields(line))
			watchdog.Stop()
			fmt.Fprintln(out, res)
			if in.Buffered() == 0 {
				out.Flush() // nothing else queued: let an interactive caller see the answer
			}
		}
		if err != nil {
			return
		}
	}
}

// safeStep turns a panic of the code under test into an observation.
func safeStep(d domain, fields []string) (res string) {
	defer func() {
		if r := recover(); r != nil {
			res = fmt.Sprintf("panic %v", strings.ReplaceAll(fmt.Sprint(r), "\n", " "))
		}
	}()
	return d.step(fields)
}

package main

import (
	"fmt"
	"math/rand"
	"sort"
	"strconv"
	"strings"
	"sync"
	"sync/atomic"
	"time"

	"github.com/hashicorp/memberlist"
	"github.com/vx-labs/mqtt-protocol/packet"
	"github.com/vx-labs/wasp/v4/subscriptions"
	"github.com/vx-labs/wasp/v4/topics"
	"github.com/vx-labs/wasp/v4/wasp"
	"github.com/vx-labs/wasp/v4/wasp/ack"
	"github.com/vx-labs/wasp/v4/wasp/api"
	"github.com/vx-labs/wasp/v4/wasp/audit"
	"github.com/vx-labs/wasp/v4/wasp/distributed"
	"github.com/vx-labs/wasp/v4/wasp/sessions"
)

// domain stress: randomized concurrent use of the shared structures on all cores with post-stress invariants.
// Built twice: plain, and with -race (then a data race aborts the process with exit code 66 and a report on
// stderr). SUPPORT for C20: a failure is a concrete schedule witness, a pass proves nothing.
type stressDomain struct{}

func init() {
	domains["stress"] = func([]string) domain { return &stressDomain{} }
}

const stressWorkers = 16

func (d *stressDomain) step(f []string) string {
	if len(f) != 4 || f[0] != "stress" {
		return "bad-op"
	}
	ms, _ := strconv.Atoi(f[2])
	seed, _ := strconv.Atoi(f[3])
	dur := time.Duration(ms) * time.Millisecond
	switch f[1] {
	case "idpool":
		return stressIDPool(dur, int64(seed))
	case "ackq":
		return stressAckQueue(dur, int64(seed))
	case "tries":
		return stressTries(dur, int64(seed))
	case "hotkey":
		return stressHotKey(dur, int64(seed))
	case "dist":
		return stressDist(dur, int64(seed))
	case "registry":
		return stressRegistry(dur, int64(seed))
	}
	return "bad-op"
}

// identifiers handed out concurrently are distinct; none leaks
func stressIDPool(dur time.Duration, seed int64) string {
	pool := wasp.VerifNewMIDPool(1, 4000)
	var held sync.Map
	var dup, bad int64
	var wg sync.WaitGroup
	stop := time.Now().Add(dur)
	for w := 0; w < stressWorkers; w++ {
		wg.Add(1)
		go func(w int) {
			defer wg.Done()
			rng := rand.New(rand.NewSource(seed + int64(w)))
			mine := []int32{}
			for time.Now().Before(stop) {
				if rng.Intn(2) == 0 || len(mine) == 0 {
					id := pool.Get()
					if id == -1 {
						continue
					}
					if id < 1 || id > 4000 {
						atomic.AddInt64(&bad, 1)
						continue
					}
					if _, loaded := held.LoadOrStore(id, w); loaded {
						atomic.AddInt64(&dup, 1)
					}
					mine = append(mine, id)
				} else {
					k := rng.Intn(len(mine))
					id := mine[k]
					mine = append(mine[:k], mine[k+1:]...)
					held.Delete(id)
					pool.Put(id)
				}
			}
			for _, id := range mine {
				held.Delete(id)
				pool.Put(id)
			}
		}(w)
	}
	wg.Wait()
	free := 0
	for _, iv := range pool.Intervals() {
		free += int(iv[1] - iv[0])
	}
	return fmt.Sprintf("duplicates=%d out-of-range=%d free-at-end=%d", dup, bad, free)
}

// every accepted registration is resolved exactly once under concurrent Insert / Ack / Expire
func stressAckQueue(dur time.Duration, seed int64) string {
	q := ack.NewQueue()
	var accepted, resolved, twice int64
	var counts sync.Map
	base := time.Now()
	var wg sync.WaitGroup
	stop := time.Now().Add(dur)
	for w := 0; w < stressWorkers; w++ {
		wg.Add(1)
		go func(w int) {
			defer wg.Done()
			rng := rand.New(rand.NewSource(seed + int64(w)))
			n := 0
			for time.Now().Before(stop) {
				switch rng.Intn(5) {
				case 0, 1:
					n++
					sess := "s" + strconv.Itoa(w)
					mid := int32(1 + n%60000)
					key := sess + "/" + strconv.Itoa(int(mid)) + "#" + strconv.Itoa(n)
					p := &packet.Publish{Header: &packet.Header{Qos: 1}, MessageId: mid, Topic: []byte("t")}
					dl := base.Add(time.Duration(rng.Intn(3000)) * time.Millisecond)
					err := q.Insert(sess, p, dl, func(expired bool, stored, received packet.Packet) {
						atomic.AddInt64(&resolved, 1)
						c, _ := counts.LoadOrStore(key, new(int64))
						if atomic.AddInt64(c.(*int64), 1) > 1 {
							atomic.AddInt64(&twice, 1)
						}
					})
					if err == nil {
						atomic.AddInt64(&accepted, 1)
					}
				case 2, 3:
					sess := "s" + strconv.Itoa(rng.Intn(stressWorkers))
					q.Ack(sess, &packet.PubAck{Header: &packet.Header{}, MessageId: int32(1 + rng.Intn(200))})
				case 4:
					q.Expire(base.Add(time.Duration(rng.Intn(2500)) * time.Millisecond))
				}
			}
		}(w)
	}
	wg.Wait()
	q.Expire(base.Add(time.Hour))
	q.Expire(base.Add(2 * time.Hour))
	return fmt.Sprintf("resolved-twice=%d unresolved=%d", twice, accepted-resolved)
}

// concurrent writes to distinct keys all take effect, in both tries
func stressTries(dur time.Duration, seed int64) string {
	st := subscriptions.NewTree()
	rt := topics.NewTree()
	var wg sync.WaitGroup
	stop := time.Now().Add(dur)
	written := make([]int, stressWorkers)
	for w := 0; w < stressWorkers; w++ {
		wg.Add(1)
		go func(w int) {
			defer wg.Done()
			rng := rand.New(rand.NewSource(seed + int64(w)))
			n := 0
			for time.Now().Before(stop) && n < 3000 {
				key := []byte(fmt.Sprintf("w%d/%d/%d", w, n%7, n))
				switch rng.Intn(4) {
				case 0, 1:
					st.Upsert(key, func([]byte) []byte { return []byte{byte(w), 1} })
					rt.Insert(key, []byte{byte(w), 1})
					n++
				case 2:
					st.Walk([]byte(fmt.Sprintf("w%d/3/%d", rng.Intn(stressWorkers), rng.Intn(100))), func([]byte) {})
					out := [][]byte{}
					rt.Match([]byte(fmt.Sprintf("w%d/+/%d", rng.Intn(stressWorkers), rng.Intn(100))), &out)
				case 3:
					c := 0
					st.Iterate(func([]byte) { c++ })
					rt.Count()
				}
			}
			written[w] = n
		}(w)
	}
	wg.Wait()
	want := 0
	for _, n := range written {
		want += n
	}
	got := 0
	st.Iterate(func([]byte) { got++ })
	return fmt.Sprintf("missing-in-subscription-index=%d missing-in-retained-store=%d", want-got, want-rt.Count())
}

// concurrent session/subscription/retained changes on distinct keys while gossip merges run
func notHot(l []api.RetainedMessage) []api.RetainedMessage {
	out := l[:0]
	for _, m := range l {
		if string(m.Publish.Topic) != "mp/hot" {
			out = append(out, m)
		}
	}
	return out
}

// stressHotKey: all workers write the same keys of the three replicated stores at once, round after round; after every
// round the node must hold, for each key, the update with the greatest stamp — which is what a peer that received
// every broadcast holds
func stressHotKey(dur time.Duration, seed int64) string {
	// unique, strictly increasing stamps whatever the resolution of the wall clock
	var ctr int64 = 1000
	distributed.VerifSetClock(func() int64 { return atomic.AddInt64(&ctr, 1) })
	defer distributed.VerifSetClock(func() int64 { return time.Now().UnixNano() })
	stop := time.Now().Add(dur)
	diverged, rounds := 0, 0
	for time.Now().Before(stop) {
		rounds++
		mk := func(peer uint64) distributed.State {
			q := &memberlist.TransmitLimitedQueue{RetransmitMult: 1, NumNodes: func() int { return 1 }}
			return distributed.NewState(peer, q, audit.VerifRecorder(nil))
		}
		a, b := mk(1), mk(2)
		a.SessionMetadatas().Create("hs", "hc", 0, nil, "mp")
		var wg sync.WaitGroup
		start := make(chan struct{})
		for w := 0; w < stressWorkers; w++ {
			wg.Add(1)
			go func(w int) {
				defer wg.Done()
				rng := rand.New(rand.NewSource(seed + int64(rounds*100+w)))
				<-start
				for k := 0; k < 6; k++ {
					switch rng.Intn(5) {
					case 0:
						a.Topics().Delete([]byte("mp/hot"))
					case 1, 2:
						a.Topics().Set(&packet.Publish{Header: &packet.Header{Retain: true}, Topic: []byte("mp/hot"), Payload: []byte(fmt.Sprintf("%d-%d", w, k))})
					case 3:
						a.Subscriptions().Create("hs", []byte("mp/hot"), int32(rng.Intn(3)))
					case 4:
						a.Subscriptions().Delete("hs", []byte("mp/hot"))
					}
				}
			}(w)
		}
		close(start)
		wg.Wait()
		for {
			msgs := a.Distributor().GetBroadcasts(0, 1<<20)
			if len(msgs) == 0 {
				break
			}
			for _, m := range msgs {
				b.Distributor().NotifyMsg(m)
			}
		}
		show := func(s distributed.State) string {
			l, _ := s.Topics().Get([]byte("mp/hot"))
			out := []string{}
			for _, m := range l {
				out = append(out, string(m.Publish.Payload))
			}
			for _, u := range s.Subscriptions().All() {
				out = append(out, fmt.Sprintf("sub:%s:%d", u.Pattern, u.QoS))
			}
			sort.Strings(out)
			return strings.Join(out, ",")
		}
		if show(a) != show(b) {
			diverged++
		}
	}
	if rounds == 0 {
		return "no-rounds"
	}
	return fmt.Sprintf("same-key-writers-diverged=%d", diverged)
}

func stressDist(dur time.Duration, seed int64) string {
	mk := func(peer uint64) distributed.State {
		q := &memberlist.TransmitLimitedQueue{RetransmitMult: 1, NumNodes: func() int { return 1 }}
		return distributed.NewState(peer, q, audit.VerifRecorder(nil))
	}
	a, b := mk(1), mk(2)
	var wg sync.WaitGroup
	stop := time.Now().Add(dur)
	created := make([]int, stressWorkers)
	for w := 0; w < stressWorkers; w++ {
		wg.Add(1)
		go func(w int) {
			defer wg.Done()
			rng := rand.New(rand.NewSource(seed + int64(w)))
			n := 0
			hotWrites := 0
			for time.Now().Before(stop) && n < 1500 {
				switch rng.Intn(7) {
				case 6:
					// every worker writes the same retained topic: whatever order the lock decides, the node must
					// end up with the update carrying the greatest stamp, which is what its peers keep
					hotWrites++
					if rng.Intn(4) == 0 {
						a.Topics().Delete([]byte("mp/hot"))
					} else {
						a.Topics().Set(&packet.Publish{Header: &packet.Header{Retain: true}, Topic: []byte("mp/hot"), Payload: []byte(fmt.Sprintf("%d-%d", w, hotWrites))})
					}
				case 0:
					id := fmt.Sprintf("s%d-%d", w, n)
					if a.SessionMetadatas().Create(id, id, 0, nil, "mp") == nil {
						a.Subscriptions().Create(id, []byte(fmt.Sprintf("mp/w%d/%d", w, n)), 1)
						a.Topics().Set(&packet.Publish{Header: &packet.Header{Retain: true}, Topic: []byte(fmt.Sprintf("mp/w%d/%d", w, n)), Payload: []byte("x")})
						n++
					}
				case 1:
					a.Subscriptions().ByPattern([]byte(fmt.Sprintf("mp/w%d/%d", rng.Intn(stressWorkers), rng.Intn(50))))
				case 2:
					a.SessionMetadatas().All()
					a.Topics().Get([]byte("mp/#"))
				case 3:
					b.Distributor().MergeRemoteState(a.Distributor().LocalState(false), false)
				case 4:
					for _, m := range a.Distributor().GetBroadcasts(0, 1<<20) {
						b.Distributor().NotifyMsg(m)
					}
				case 5:
					b.Subscriptions().All()
				}
			}
			created[w] = n
		}(w)
	}
	wg.Wait()
	want := 0
	for _, n := range created {
		want += n
	}
	for {
		msgs := a.Distributor().GetBroadcasts(0, 1<<20)
		if len(msgs) == 0 {
			break
		}
		for _, m := range msgs {
			b.Distributor().NotifyMsg(m)
		}
	}
	b.Distributor().MergeRemoteState(a.Distributor().LocalState(false), false)
	hot := func(s distributed.State) string {
		l, _ := s.Topics().Get([]byte("mp/hot"))
		out := []string{}
		for _, m := range l {
			out = append(out, string(m.Publish.Payload))
		}
		return strings.Join(out, ",")
	}
	diverged := 0
	if hot(a) != hot(b) {
		diverged = 1
	}
	ret, _ := a.Topics().Get([]byte("mp/#"))
	retB, _ := b.Topics().Get([]byte("mp/#"))
	ret, retB = notHot(ret), notHot(retB)
	return fmt.Sprintf("sessions-missing=%d subscriptions-missing=%d retained-missing=%d replica-sessions-missing=%d replica-subscriptions-missing=%d replica-retained-missing=%d same-key-writers-diverged=%d",
		want-len(a.SessionMetadatas().All()), want-len(a.Subscriptions().All()), want-len(ret),
		want-len(b.SessionMetadatas().All()), want-len(b.Subscriptions().All()), want-len(retB), diverged)
}

type nopConn struct{}

func (nopConn) Read(p []byte) (int, error)         { return 0, nil }
func (nopConn) Write(p []byte) (int, error)        { return len(p), nil }
func (nopConn) Close() error                       { return nil }
func (nopConn) SetDeadline(t time.Time) error      { return nil }
func (nopConn) SetReadDeadline(t time.Time) error  { return nil }
func (nopConn) SetWriteDeadline(t time.Time) error { return nil }

// the session registry and the per-session filter list
func stressRegistry(dur time.Duration, seed int64) string {
	reg := wasp.NewState(1)
	shared, _ := sessions.NewSession("shared", "mp", "tcp", nopConn{}, &packet.Connect{ClientId: []byte("c"), KeepaliveTimer: 60})
	var wg sync.WaitGroup
	stop := time.Now().Add(dur)
	live := make([]int, stressWorkers)
	hotFresh := make([]int64, 3)
	hotGone := make([]int64, 3)
	for w := 0; w < stressWorkers; w++ {
		wg.Add(1)
		go func(w int) {
			defer wg.Done()
			rng := rand.New(rand.NewSource(seed + int64(w)))
			n, alive := 0, 0
			for time.Now().Before(stop) && n < 3000 {
				id := fmt.Sprintf("s%d-%d", w, n)
				switch rng.Intn(5) {
				case 0, 1:
					s, _ := sessions.NewSession(id, "mp", "tcp", nopConn{}, &packet.Connect{ClientId: []byte(id), KeepaliveTimer: 60})
					reg.Create(id, s)
					n++
					alive++
				case 2:
					if n > 0 {
						if reg.Delete(fmt.Sprintf("s%d-%d", w, rng.Intn(n))) != nil {
							alive--
						}
					}
				case 3:
					reg.Get(fmt.Sprintf("s%d-%d", rng.Intn(stressWorkers), rng.Intn(100)))
					reg.ListSessions()
				case 4:
					t := []byte(fmt.Sprintf("mp/w%d", w))
					shared.AddTopic(t)
					shared.GetTopics()
					shared.RemoveTopic(t)
				}
				// contended names: every worker creates and deletes the same few ids; for a linearizable
				// registry (fresh insertions - successful removals) of an id is 0 or 1 = its presence at the end
				h := rng.Intn(len(hotFresh))
				hid := fmt.Sprintf("hot-%d", h)
				if rng.Intn(2) == 0 {
					s, _ := sessions.NewSession(hid, "mp", "tcp", nopConn{}, &packet.Connect{ClientId: []byte(hid), KeepaliveTimer: 60})
					if reg.Create(hid, s) == nil {
						atomic.AddInt64(&hotFresh[h], 1)
					}
				} else if reg.Delete(hid) != nil {
					atomic.AddInt64(&hotGone[h], 1)
				}
			}
			live[w] = alive
		}(w)
	}
	wg.Wait()
	want := 0
	for _, n := range live {
		want += n
	}
	imbalance := int64(0)
	for h := range hotFresh {
		present := int64(0)
		if reg.Get(fmt.Sprintf("hot-%d", h)) != nil {
			present = 1
			want++
		}
		d := hotFresh[h] - hotGone[h] - present
		if d < 0 {
			d = -d
		}
		imbalance += d
	}
	return fmt.Sprintf("registry-missing=%d leftover-filters=%d contended-imbalance=%d", want-len(reg.ListSessions()), len(shared.GetTopics()), imbalance)
}

package main

import (
	"bytes"
	"fmt"
	"strings"

	"github.com/vx-labs/mqtt-protocol/decoder"
	"github.com/vx-labs/mqtt-protocol/packet"
)

// domain wire: the MQTT decoder the broker uses (module cache: modelled, not verified), fed a byte string followed by
// end of input, the way conn.go feeds it a connection that is then closed. One canonical line per `dec <hex>`:
//
//	panic | err | connect … | publish … | puback m | … | other
type wireDomain struct{}

func init() {
	domains["wire"] = func([]string) domain { return wireDomain{} }
}

func showBytesAsStr(b []byte) string { return safe(b) }

func (wireDomain) step(f []string) (res string) {
	if len(f) != 2 || f[0] != "dec" {
		return "bad-op"
	}
	defer func() {
		if r := recover(); r != nil {
			res = "panic"
		}
	}()
	b, ok := unhex(f[1])
	if !ok {
		return "bad-op"
	}
	p, err := decoder.New().Decode(bytes.NewReader(b))
	if err != nil || p == nil {
		return "err"
	}
	return renderDecoded(p)
}

func renderDecoded(p packet.Packet) string {
	switch x := p.(type) {
	case *packet.Connect:
		ka := x.KeepaliveTimer
		if ka == 0 {
			ka = 30
		}
		will := "-"
		if len(x.WillTopic) > 0 {
			will = fmt.Sprintf("%s:%s:%d:%d", showBytesAsStr(x.WillTopic), showHex(x.WillPayload), x.WillQos, b2i(x.WillRetain))
		}
		return fmt.Sprintf("connect cid=%s user=%s pass=%s ka=%d will=%s", showBytesAsStr(x.ClientId), showBytesAsStr(x.Username), showBytesAsStr(x.Password), ka, will)
	case *packet.Publish:
		mid := int32(0)
		if x.Header.Qos > 0 {
			mid = x.MessageId
		}
		return fmt.Sprintf("publish t=%s p=%s q=%d r=%d d=%d m=%d", showBytesAsStr(x.Topic), showHex(x.Payload), x.Header.Qos, b2i(x.Header.Retain), b2i(x.Header.Dup), mid)
	case *packet.PubAck:
		return fmt.Sprintf("puback %d", x.MessageId)
	case *packet.PubRec:
		return fmt.Sprintf("pubrec %d", x.MessageId)
	case *packet.PubRel:
		return fmt.Sprintf("pubrel %d", x.MessageId)
	case *packet.PubComp:
		return fmt.Sprintf("pubcomp %d", x.MessageId)
	case *packet.Subscribe:
		ts := []string{}
		for i := range x.Topic {
			q := int32(0)
			if i < len(x.Qos) {
				q = x.Qos[i]
			}
			ts = append(ts, fmt.Sprintf("%s:%d", showBytesAsStr(x.Topic[i]), q))
		}
		return fmt.Sprintf("subscribe %d [%s]", x.MessageId, strings.Join(ts, " "))
	case *packet.Unsubscribe:
		ts := []string{}
		for i := range x.Topic {
			ts = append(ts, showBytesAsStr(x.Topic[i]))
		}
		return fmt.Sprintf("unsubscribe %d [%s]", x.MessageId, strings.Join(ts, " "))
	case *packet.PingReq:
		return "pingreq"
	case *packet.Disconnect:
		return "disconnect"
	}
	return "other"
}

package main

import (
	"context"
	"encoding/binary"
	"errors"
	"fmt"
	"io"
	"net"
	"os"
	"sort"
	"strconv"
	"strings"
	"sync"
	"sync/atomic"
	"time"

	"github.com/gogo/protobuf/proto"
	"github.com/hashicorp/memberlist"
	"github.com/vx-labs/commitlog/stream"
	"github.com/vx-labs/mqtt-protocol/encoder"
	"github.com/vx-labs/mqtt-protocol/packet"
	"github.com/vx-labs/wasp/v4/wasp"
	"github.com/vx-labs/wasp/v4/wasp/ack"
	"github.com/vx-labs/wasp/v4/wasp/api"
	"github.com/vx-labs/wasp/v4/wasp/audit"
	"github.com/vx-labs/wasp/v4/wasp/auth"
	"github.com/vx-labs/wasp/v4/wasp/distributed"
	"github.com/vx-labs/wasp/v4/wasp/messages"
	"github.com/vx-labs/wasp/v4/wasp/transport"
	"go.uber.org/zap"
	"google.golang.org/grpc"
	"google.golang.org/grpc/test/bufconn"
)

// domain broker: 1-3 in-process broker nodes assembled like cmd/wasp/main.go (connection
// manager, packet processor, publish distributor, writer, ack queue, replicated state, gRPC
// MQTTServer over bufconn), an in-memory message log with fault injection, explicit gossip
// delivery, clients over net.Pipe.

var activity int64 // bumped by everything observable; used to detect quiescence

func bump() { atomic.AddInt64(&activity, 1) }

// ---------------------------------------------------------------- message log

type memLog struct {
	mu      sync.Mutex
	cond    *sync.Cond
	entries []*packet.Publish
	failN   map[int]bool // the n-th Append call (0-based, counting all calls) fails
	failAll bool
	calls   int
	closed  bool
}

func newMemLog() *memLog {
	l := &memLog{failN: map[int]bool{}}
	l.cond = sync.NewCond(&l.mu)
	return l
}

func (l *memLog) Close() error {
	l.mu.Lock()
	l.closed = true
	l.cond.Broadcast()
	l.mu.Unlock()
	return nil
}
func (l *memLog) Append(p *packet.Publish) error {
	bump()
	l.mu.Lock()
	defer l.mu.Unlock()
	n := l.calls
	l.calls++
	if l.failAll || l.failN[n] {
		return errors.New("injected log write failure")
	}
	cp := *p
	if p.Header != nil {
		h := *p.Header
		cp.Header = &h
	}
	l.entries = append(l.entries, &cp)
	l.cond.Broadcast()
	return nil
}
func (l *memLog) Get(offset uint64) (*packet.Publish, error) {
	bump()
	l.mu.Lock()
	defer l.mu.Unlock()
	if int(offset) >= len(l.entries) {
		return nil, io.EOF
	}
	return l.entries[offset], nil
}
func (l *memLog) Consume(ctx context.Context, name string, f func(uint64, *packet.Publish) error) error {
	go func() {
		<-ctx.Done()
		l.mu.Lock()
		l.cond.Broadcast()
		l.mu.Unlock()
	}()
	next := 0
	for {
		l.mu.Lock()
		for next >= len(l.entries) && !l.closed && ctx.Err() == nil {
			l.cond.Wait()
		}
		if l.closed || ctx.Err() != nil {
			l.mu.Unlock()
			return nil
		}
		p := l.entries[next]
		l.mu.Unlock()
		bump()
		if err := f(uint64(next), p); err != nil {
			return err
		}
		next++
	}
}
func (l *memLog) Stream(ctx context.Context, consumer stream.Consumer, f func(*packet.Publish) error) error {
	<-ctx.Done()
	return nil
}
func (l *memLog) snapshot() []*packet.Publish {
	l.mu.Lock()
	defer l.mu.Unlock()
	return append([]*packet.Publish{}, l.entries...)
}

// mlog is what the broker needs from a message log
type mlog interface {
	io.Closer
	Append(p *packet.Publish) error
	Get(offset uint64) (*packet.Publish, error)
	Consume(ctx context.Context, name string, f func(uint64, *packet.Publish) error) error
	Stream(ctx context.Context, consumer stream.Consumer, f func(*packet.Publish) error) error
}

// countingLog passes everything to the real commit-log store (wasp/messages) and counts what went in and what the
// consumer has handed over, so that quiescence can be told exactly (the store's consumer polls every 100 ms)
type countingLog struct {
	mlog
	dir      string
	appended int64
	consumed int64
}

func (l *countingLog) Append(p *packet.Publish) error {
	bump()
	err := l.mlog.Append(p)
	if err == nil {
		atomic.AddInt64(&l.appended, 1)
	}
	bump()
	return err
}

func (l *countingLog) Consume(ctx context.Context, name string, f func(uint64, *packet.Publish) error) error {
	return l.mlog.Consume(ctx, name, func(off uint64, p *packet.Publish) error {
		bump()
		err := f(off, p)
		atomic.AddInt64(&l.consumed, 1)
		bump()
		return err
	})
}

func (l *countingLog) Close() error {
	err := l.mlog.Close()
	os.RemoveAll(l.dir)
	return err
}

func (l *countingLog) caughtUp() bool {
	return atomic.LoadInt64(&l.consumed) >= atomic.LoadInt64(&l.appended)
}

// ---------------------------------------------------------------- plumbing

type nullTaps struct{}

func (nullTaps) Run(ctx context.Context)                                         { <-ctx.Done() }
func (nullTaps) Dispatch(ctx context.Context, s string, p *packet.Publish) error { bump(); return nil }

// authentication: by default user name = mount point, password "ok"; after `authfile` / `authstatic` the REAL credential
// store decides. The session id is always derived from the connection name.
type harnessAuth struct{ b *brokerDomain }

func (h harnessAuth) Authenticate(ctx context.Context, m auth.ApplicationContext, t auth.TransportContext) (auth.Principal, error) {
	h.b.mu.Lock()
	real := h.b.auth
	h.b.mu.Unlock()
	if real != nil {
		p, err := real.Authenticate(ctx, m, t)
		return auth.Principal{ID: "S" + t.RemoteAddress, MountPoint: p.MountPoint}, err
	}
	if string(m.Password) != "ok" {
		return auth.Principal{}, errors.New("bad credentials")
	}
	return auth.Principal{ID: "S" + t.RemoteAddress, MountPoint: string(m.Username)}, nil
}

type bTransport struct {
	b    *brokerDomain
	self uint64
}

func (t *bTransport) Call(id uint64, f func(*grpc.ClientConn) error) error {
	bump()
	t.b.mu.Lock()
	down := t.b.unreachable[id] || t.b.failed[id]
	var cc *grpc.ClientConn
	for _, n := range t.b.nodes {
		if n.id == id {
			cc = n.cc
		}
	}
	t.b.mu.Unlock()
	if down || cc == nil {
		return errors.New("peer unreachable")
	}
	return f(cc)
}

type bnode struct {
	id        uint64
	log       *memLog      // the in-memory log with fault injection (nil when the real store is used)
	real      *countingLog // the real commit-log store in a scratch directory (nil otherwise)
	store     mlog
	state     distributed.State
	bq        *memberlist.TransmitLimitedQueue
	local     wasp.LocalState
	inflights ack.Queue
	writer    wasp.Writer
	manager   wasp.Manager
	members   wasp.NodeMemberManager
	cc        *grpc.ClientConn
	srv       *grpc.Server
	cancel    context.CancelFunc
	pending   map[int][][]byte // gossip not yet delivered, per destination node index
}

// vconn is the broker's end of a client connection. Read deadlines are kept on a virtual clock that only the
// `elapse` / `idle` operations move, so keep-alive behaviour is deterministic and takes no wall-clock time; with
// `realtime` they go to the pipe unchanged.
type vconn struct {
	net.Conn
	b     *brokerDomain
	mu    sync.Mutex
	rdl   int64 // virtual read deadline (ms), 0 = none
	muted int32 // 1: every write to this connection fails (a broken peer the broker has not noticed yet)
	stall int64 // the next write to this connection blocks for this many (real) milliseconds, once
}

func (c *vconn) Write(p []byte) (int, error) {
	if ms := atomic.SwapInt64(&c.stall, 0); ms > 0 {
		// a peer that stops reading for a while: whoever writes to it is held up, nothing else may be lost meanwhile
		for left := ms; left > 0; left -= 20 {
			time.Sleep(20 * time.Millisecond)
			bump()
		}
	}
	if atomic.LoadInt32(&c.muted) == 1 {
		bump()
		return 0, errors.New("injected write failure")
	}
	return c.Conn.Write(p)
}

func (c *vconn) SetDeadline(t time.Time) error {
	if c.b.realtime {
		return c.Conn.SetDeadline(t)
	}
	return c.SetReadDeadline(t)
}

func (c *vconn) SetReadDeadline(t time.Time) error {
	if c.b.realtime {
		return c.Conn.SetReadDeadline(t)
	}
	c.mu.Lock()
	defer c.mu.Unlock()
	if t.IsZero() {
		c.rdl = 0
	} else {
		d := time.Until(t)
		c.rdl = atomic.LoadInt64(&c.b.vnow) + int64((d+5*time.Millisecond)/(10*time.Millisecond))*10
		if c.rdl == 0 {
			c.rdl = 1
		}
	}
	bump()
	return c.Conn.SetReadDeadline(time.Time{})
}

func (c *vconn) due(now int64) bool {
	c.mu.Lock()
	defer c.mu.Unlock()
	return c.rdl != 0 && c.rdl < now
}

type bclient struct {
	name       string
	node       int
	seq        int
	srv        *vconn
	conn       net.Conn
	mu         sync.Mutex
	inbox      []packet.Packet
	closed     bool
	toldClosed bool
	enc        *encoder.Encoder
	midCan     map[int32]int // raw message id of an outbound delivery -> canonical index
	canMid     map[int]int32
	nextCan    int
	outst      []outDelivery // deliveries not yet acknowledged by this client, in canonical order
}

type outDelivery struct {
	can int
	qos int
}

type brokerDomain struct {
	longSettle bool // see op `longsettle`
	mu          sync.Mutex
	nodes       []*bnode
	clients     map[string]*bclient
	order       []string
	unreachable map[uint64]bool
	failed      map[uint64]bool
	settleMs    int
	vnow        int64 // virtual clock of the connections' read deadlines (ms)
	realtime    bool
	auth        auth.AuthenticationHandler // a real credential store (nil: the harness rule)
	realLog     bool                       // the next `reset` gives every node a real commit-log store instead of the in-memory log
	seq         int
	runaway     bool // the broker never became quiet within the settle deadline: stop driving it
}

func init() {
	domains["broker"] = func(args []string) domain {
		b := &brokerDomain{settleMs: 25}
		if len(args) > 0 {
			if v, err := strconv.Atoi(args[0]); err == nil {
				b.settleMs = v
			}
		}
		return b
	}
}

func (b *brokerDomain) shutdown() {
	for _, c := range b.clients {
		c.conn.Close()
	}
	for _, n := range b.nodes {
		n.cancel()
		n.store.Close()
		if n.srv != nil {
			n.srv.Stop()
		}
		if n.cc != nil {
			n.cc.Close()
		}
	}
	b.nodes = nil
	b.clients = map[string]*bclient{}
	b.order = nil
}

func (b *brokerDomain) reset(nn int) {
	b.shutdown()
	b.unreachable = map[uint64]bool{}
	b.failed = map[uint64]bool{}
	atomic.StoreInt64(&b.vnow, 0)
	b.realtime = false
	b.auth = nil
	logger := zap.NewNop()
	for i := 0; i < nn; i++ {
		id := uint64(i + 1)
		ctx, cancel := context.WithCancel(wasp.StoreLogger(context.Background(), logger))
		n := &bnode{id: id, cancel: cancel, pending: map[int][][]byte{}}
		if b.realLog {
			dir, err := os.MkdirTemp("", "waspharness-log")
			if err != nil {
				panic(err)
			}
			st, err := messages.New(dir)
			if err != nil {
				panic(err)
			}
			n.real = &countingLog{mlog: st, dir: dir}
			n.store = n.real
		} else {
			n.log = newMemLog()
			n.store = n.log
		}
		n.bq = &memberlist.TransmitLimitedQueue{RetransmitMult: 1, NumNodes: func() int { return 1 }}
		n.state = distributed.NewState(id, n.bq, audit.VerifRecorder(func(string, string, map[string]string) { bump() }))
		n.local = wasp.NewState(id)
		n.inflights = ack.NewQueue()
		distributor := &wasp.PublishDistributor{ID: id, State: n.state.Subscriptions(), Storage: n.store, Logger: logger, Transport: &bTransport{b: b, self: id}}
		w := wasp.NewWriter(id, n.state.Subscriptions(), n.local, n.inflights)
		// id 0 is not a usable MQTT packet id: the writer would sleep 100 ms on it once; take it out of the way
		wasp.VerifWriterPool(w).Get()
		n.writer = w
		go wasp.SchedulePublishes(id, w, n.store)(ctx)
		go w.Run(ctx, n.store)
		proc := wasp.NewPacketProcessor(n.local, n.state, w, nullTaps{}, distributor, n.inflights)
		go proc.Run(ctx)
		n.manager = wasp.NewConnectionManager(harnessAuth{b}, n.local, n.state, w, proc, n.inflights)
		go n.manager.Run(ctx)
		n.members = wasp.NewNodeMemberManager(id, n.store, n.state)
		// gRPC endpoint of this node over an in-memory listener
		lis := bufconn.Listen(1 << 20)
		n.srv = grpc.NewServer()
		wasp.NewMQTTServer(n.state, n.local, n.store, distributor, nil).Serve(n.srv)
		go n.srv.Serve(lis)
		cc, err := grpc.DialContext(ctx, "bufnet", grpc.WithContextDialer(func(context.Context, string) (net.Conn, error) { return lis.Dial() }), grpc.WithInsecure())
		if err == nil {
			n.cc = cc
		}
		b.nodes = append(b.nodes, n)
	}
	time.Sleep(5 * time.Millisecond)
}

// ---------------------------------------------------------------- quiescence

func (b *brokerDomain) idleNow() bool {
	for _, n := range b.nodes {
		if !wasp.VerifWriterIdle(n.writer) {
			return false
		}
		if n.real != nil && !n.real.caughtUp() {
			return false
		}
	}
	return true
}

// settle waits until nothing observable has happened for settleMs milliseconds
func (b *brokerDomain) settle() {
	quiet := time.Duration(b.settleMs) * time.Millisecond
	last := atomic.LoadInt64(&activity)
	since := time.Now()
	// a single client operation settles within 5 s; a burst of thousands of publishes behind a stalled recipient
	// legitimately takes longer (longer still on a loaded machine)
	limit := 5 * time.Second
	if b.longSettle {
		limit = 40 * time.Second
	}
	deadline := time.Now().Add(limit)
	for time.Now().Before(deadline) {
		time.Sleep(2 * time.Millisecond)
		cur := atomic.LoadInt64(&activity)
		if cur != last || !b.idleNow() {
			last = cur
			since = time.Now()
			continue
		}
		if time.Since(since) >= quiet {
			return
		}
	}
	// five seconds of uninterrupted activity after a single client operation: something feeds itself
	b.runaway = true
}

// elapse moves the virtual clock and fires the read deadlines that are now in the past: sessions first (node by node,
// in connection order), then connections still waiting for their CONNECT packet
func (b *brokerDomain) elapse(ms int64) {
	if b.realtime {
		return
	}
	now := atomic.AddInt64(&b.vnow, ms)
	type cand struct {
		c    *bclient
		sess bool
	}
	var due []cand
	for _, c := range b.clients {
		if c.srv == nil || !c.srv.due(now) {
			continue
		}
		c.mu.Lock()
		closed := c.closed
		c.mu.Unlock()
		if closed {
			continue
		}
		due = append(due, cand{c, b.nodes[c.node].local.Get("S"+c.name) != nil})
	}
	sort.Slice(due, func(i, j int) bool {
		if due[i].sess != due[j].sess {
			return due[i].sess
		}
		if due[i].sess && due[i].c.node != due[j].c.node {
			return due[i].c.node < due[j].c.node
		}
		return due[i].c.seq < due[j].c.seq
	})
	for _, d := range due {
		// a will published by an earlier victim may have been delivered to this one, which re-arms its deadline
		if !d.c.srv.due(now) {
			continue
		}
		d.c.srv.Conn.SetReadDeadline(time.Now().Add(-time.Second))
		bump()
		b.settle()
	}
}

// collectGossip moves everything queued for broadcast on node i into the per-destination pending lists
func (b *brokerDomain) collectGossip() {
	for i, n := range b.nodes {
		var batch [][]byte
		for {
			msgs := n.bq.GetBroadcasts(0, 1<<30)
			if len(msgs) == 0 {
				break
			}
			batch = append(batch, msgs...)
		}
		// the queue hands out longest-first, newest-first; the pending lists are kept in the order the changes were
		// made (their stamps), so that "the k-th pending payload" means the same thing on every run
		if b.failed[n.id] {
			// a failed node gossips no more (its goroutines in this process still tear sessions down)
			n.pending = map[int][][]byte{}
			continue
		}
		sort.SliceStable(batch, func(x, y int) bool { return eventStamp(batch[x]) < eventStamp(batch[y]) })
		for j := range b.nodes {
			if j != i {
				n.pending[j] = append(n.pending[j], batch...)
			}
		}
	}
}

func eventStamp(b []byte) int64 {
	ev := &api.StateBroadcastEvent{}
	if err := proto.Unmarshal(b, ev); err != nil {
		return 0
	}
	var m int64
	up := func(a, d int64) {
		if a > m {
			m = a
		}
		if d > m {
			m = d
		}
	}
	for _, s := range ev.SessionMetadatas {
		up(s.LastAdded, s.LastDeleted)
	}
	for _, s := range ev.Subscriptions {
		up(s.LastAdded, s.LastDeleted)
	}
	for _, r := range ev.RetainedMessages {
		up(r.LastAdded, r.LastDeleted)
	}
	return m
}

func (b *brokerDomain) deliverGossip(from, to int) int {
	n := b.nodes[from]
	msgs := n.pending[to]
	n.pending[to] = nil
	if b.failed[b.nodes[to].id] {
		return 0
	}
	for _, m := range msgs {
		b.nodes[to].state.Distributor().NotifyMsg(m)
	}
	return len(msgs)
}

// ---------------------------------------------------------------- clients

// readPacket is the harness' own decoder for broker-to-client packets (the library decoder does not know UNSUBACK
// and panics on short bodies; the client side must never be the weak point)
func readPacket(r io.Reader) (packet.Packet, error) {
	var hdr [1]byte
	if _, err := io.ReadFull(r, hdr[:]); err != nil {
		return nil, err
	}
	n, mult := 0, 1
	for i := 0; ; i++ {
		var b [1]byte
		if _, err := io.ReadFull(r, b[:]); err != nil {
			return nil, err
		}
		n += int(b[0]&127) * mult
		mult *= 128
		if b[0]&128 == 0 {
			break
		}
		if i >= 3 {
			return nil, errors.New("bad remaining length")
		}
	}
	body := make([]byte, n)
	if _, err := io.ReadFull(r, body); err != nil {
		return nil, err
	}
	h := &packet.Header{Retain: hdr[0]&1 == 1, Qos: int32(hdr[0]>>1) & 3, Dup: hdr[0]&8 == 8}
	u16 := func(b []byte) int32 {
		if len(b) < 2 {
			return -1
		}
		return int32(binary.BigEndian.Uint16(b))
	}
	switch hdr[0] >> 4 {
	case 2:
		rc := int32(-1)
		if len(body) >= 2 {
			rc = int32(body[1])
		}
		return &packet.ConnAck{Header: h, ReturnCode: rc}, nil
	case 3:
		if len(body) < 2 {
			return nil, errors.New("short publish")
		}
		tl := int(binary.BigEndian.Uint16(body))
		if len(body) < 2+tl {
			return nil, errors.New("short publish topic")
		}
		p := &packet.Publish{Header: h, Topic: body[2 : 2+tl]}
		rest := body[2+tl:]
		if h.Qos > 0 {
			p.MessageId = u16(rest)
			if len(rest) >= 2 {
				rest = rest[2:]
			}
		}
		p.Payload = rest
		return p, nil
	case 4:
		return &packet.PubAck{Header: h, MessageId: u16(body)}, nil
	case 5:
		return &packet.PubRec{Header: h, MessageId: u16(body)}, nil
	case 6:
		return &packet.PubRel{Header: h, MessageId: u16(body)}, nil
	case 7:
		return &packet.PubComp{Header: h, MessageId: u16(body)}, nil
	case 9:
		sa := &packet.SubAck{Header: h, MessageId: u16(body)}
		if len(body) > 2 {
			for _, q := range body[2:] {
				sa.Qos = append(sa.Qos, int32(q))
			}
		}
		return sa, nil
	case 11:
		return &packet.UnsubAck{Header: h, MessageId: u16(body)}, nil
	case 13:
		return &packet.PingResp{Header: h}, nil
	}
	return &packet.Disconnect{Header: h}, nil // rendered as other(...)
}

func (c *bclient) reader() {
	for {
		p, err := readPacket(c.conn)
		if err != nil || p == nil {
			c.mu.Lock()
			c.closed = true
			c.mu.Unlock()
			bump()
			return
		}
		c.mu.Lock()
		c.inbox = append(c.inbox, p)
		c.mu.Unlock()
		bump()
	}
}

func (c *bclient) send(p packet.Packet) string {
	c.conn.SetWriteDeadline(time.Now().Add(300 * time.Millisecond))
	if err := c.enc.Encode(c.conn, p); err != nil {
		return "write-failed"
	}
	return "ok"
}

func (c *bclient) sendRaw(b []byte) string {
	c.conn.SetWriteDeadline(time.Now().Add(300 * time.Millisecond))
	if _, err := c.conn.Write(b); err != nil {
		return "write-failed"
	}
	return "ok"
}

func lp(b []byte) []byte {
	out := make([]byte, 2+len(b))
	binary.BigEndian.PutUint16(out, uint16(len(b)))
	copy(out[2:], b)
	return out
}

// encodeConnect builds a CONNECT by hand (the library's encoder mangles the will flags)
func encodeConnect(clientID, user, pass string, keepalive int, will *packet.Publish) []byte {
	var body []byte
	body = append(body, lp([]byte("MQTT"))...)
	body = append(body, 4)
	flags := byte(2) // clean session
	if will != nil {
		flags |= 4
		flags |= byte(will.Header.Qos&3) << 3
		if will.Header.Retain {
			flags |= 32
		}
	}
	if user != "" {
		flags |= 128
	}
	if pass != "" {
		flags |= 64
	}
	body = append(body, flags)
	body = append(body, byte(keepalive>>8), byte(keepalive))
	body = append(body, lp([]byte(clientID))...)
	if will != nil {
		body = append(body, lp(will.Topic)...)
		body = append(body, lp(will.Payload)...)
	}
	if user != "" {
		body = append(body, lp([]byte(user))...)
	}
	if pass != "" {
		body = append(body, lp([]byte(pass))...)
	}
	out := []byte{0x10}
	n := len(body)
	for {
		d := byte(n % 128)
		n /= 128
		if n > 0 {
			d |= 128
		}
		out = append(out, d)
		if n == 0 {
			break
		}
	}
	return append(out, body...)
}

func (b *brokerDomain) ambiguousClient(c *bclient) bool {
	n := b.nodes[c.node]
	var mine *api.SessionMetadatas
	all := n.state.SessionMetadatas().All()
	for i := range all {
		if all[i].SessionID == "S"+c.name {
			mine = &all[i]
		}
	}
	var mount, client string
	if mine != nil {
		mount, client = mine.MountPoint, mine.ClientID
	} else {
		for _, s := range n.local.ListSessions() {
			if s.ID() == "S"+c.name {
				mount, client = s.MountPoint(), s.ClientID()
			}
		}
	}
	k := 0
	for i := range all {
		if all[i].MountPoint == mount && all[i].ClientID == client {
			k++
		}
	}
	return k > 1
}

// ---------------------------------------------------------------- rendering

func b2i(b bool) int {
	if b {
		return 1
	}
	return 0
}

type rendered struct {
	key  string // content without message id (sorting key)
	mid  int32
	kind string
}

func (b *brokerDomain) renderInbox(c *bclient) string {
	c.mu.Lock()
	pkts := c.inbox
	c.inbox = nil
	closed := c.closed && !c.toldClosed
	if closed {
		c.toldClosed = true
	}
	c.mu.Unlock()
	items := []rendered{}
	for _, p := range pkts {
		switch x := p.(type) {
		case *packet.ConnAck:
			items = append(items, rendered{key: fmt.Sprintf("connack(%d)", x.ReturnCode)})
		case *packet.SubAck:
			q := []string{}
			for _, v := range x.Qos {
				q = append(q, strconv.Itoa(int(v)))
			}
			items = append(items, rendered{key: fmt.Sprintf("suback(%d;%s)", x.MessageId, strings.Join(q, ","))})
		case *packet.UnsubAck:
			items = append(items, rendered{key: fmt.Sprintf("unsuback(%d)", x.MessageId)})
		case *packet.Publish:
			items = append(items, rendered{key: fmt.Sprintf("publish(t=%s,p=%s,q=%d,r=%d,d=%d", safe(x.Topic), showHex(x.Payload), x.Header.Qos, b2i(x.Header.Retain), b2i(x.Header.Dup)), mid: x.MessageId, kind: "publish"})
		case *packet.PubAck:
			items = append(items, rendered{key: fmt.Sprintf("puback(%d)", x.MessageId)})
		case *packet.PubRec:
			items = append(items, rendered{key: fmt.Sprintf("pubrec(%d)", x.MessageId)})
		case *packet.PubRel:
			items = append(items, rendered{key: "pubrel(", mid: x.MessageId, kind: "pubrel"})
		case *packet.PubComp:
			items = append(items, rendered{key: fmt.Sprintf("pubcomp(%d)", x.MessageId)})
		case *packet.PingResp:
			items = append(items, rendered{key: "pingresp"})
		default:
			items = append(items, rendered{key: fmt.Sprintf("other(%T)", p)})
		}
	}
	// known message ids render first-class; new ids are numbered in content order
	sort.SliceStable(items, func(i, j int) bool {
		ki, kj := items[i].key, items[j].key
		ci, iok := c.midCan[items[i].mid]
		cj, jok := c.midCan[items[j].mid]
		if items[i].kind == "" {
			iok, ci = true, -1
		}
		if items[j].kind == "" {
			jok, cj = true, -1
		}
		if ki != kj {
			return ki < kj
		}
		if iok != jok {
			return iok
		}
		return ci < cj
	})
	out := []string{}
	for _, it := range items {
		switch it.kind {
		case "publish":
			if strings.Contains(it.key, ",q=0,") {
				out = append(out, it.key+")")
				continue
			}
			can, ok := c.midCan[it.mid]
			if !ok {
				c.nextCan++
				can = c.nextCan
				c.midCan[it.mid] = can
				c.canMid[can] = it.mid
				q := 1
				if strings.Contains(it.key, ",q=2,") {
					q = 2
				}
				c.outst = append(c.outst, outDelivery{can: can, qos: q})
			}
			out = append(out, fmt.Sprintf("%s,m=#%d)", it.key, can))
		case "pubrel":
			can, ok := c.midCan[it.mid]
			if !ok {
				out = append(out, fmt.Sprintf("pubrel(raw%d)", it.mid))
			} else {
				out = append(out, fmt.Sprintf("pubrel(#%d)", can))
			}
		default:
			out = append(out, it.key)
		}
	}
	sort.Strings(out)
	if len(out) > 3000 {
		out = append(out[:3000], fmt.Sprintf("…+%d-more", len(out)-3000))
	}
	if closed {
		out = append(out, "CLOSED")
	}
	if len(out) == 0 {
		return ""
	}
	return c.name + ":[" + strings.Join(out, " ") + "]"
}

func (b *brokerDomain) observe(res string) string {
	b.settle()
	b.collectGossip()
	parts := []string{}
	for _, name := range b.order {
		if s := b.renderInbox(b.clients[name]); s != "" {
			parts = append(parts, s)
		}
	}
	if len(parts) == 0 {
		return res
	}
	return res + " | " + strings.Join(parts, " ")
}

// ---------------------------------------------------------------- ops

func parsePublishSpec(s string) *packet.Publish {
	// topic:payloadhex:qos:retain
	f := strings.Split(s, ":")
	if len(f) != 4 {
		return nil
	}
	pl, _ := unhex(f[1])
	return &packet.Publish{Header: &packet.Header{Qos: int32(atoi(f[2])), Retain: f[3] == "1"}, Topic: []byte(f[0]), Payload: pl}
}

func (b *brokerDomain) step(f []string) string {
	if len(f) == 0 {
		return "bad-op"
	}
	if b.runaway && f[0] != "reset" && f[0] != "bye" {
		return "RUNAWAY the broker did not become quiet within 5 s of an earlier operation"
	}
	switch f[0] {
	case "reset":
		b.runaway = false
		nn := 1
		if len(f) > 1 {
			nn = atoi(f[1])
		}
		// reset <n> real: every node gets a real commit-log store (wasp/messages) instead of the in-memory log
		b.realLog = len(f) > 2 && f[2] == "real"
		b.reset(nn)
		return "ok"
	case "bye":
		b.shutdown()
		return "ok"
	case "settlems":
		b.settleMs = atoi(f[1])
		return "ok"
	case "realtime":
		// read deadlines go to the pipes unchanged from now on (set before connecting anybody)
		b.realtime = f[1] == "1"
		return "ok"
	}
	if b.nodes == nil {
		b.reset(1)
	}
	cl := func(name string) *bclient { return b.clients[name] }
	if (f[0] == "connect" || f[0] == "connectas") && len(f) > 3 && f[3] == "~" {
		// `~` stands for the empty client identifier
		f = append([]string{}, f...)
		f[3] = ""
	}
	switch {
	case f[0] == "connect" && len(f) == 7:
		// connect <c> <node> <clientid> <mount> <keepalive> <will|-> ; password ok unless mount starts with '!'
		ni := atoi(f[2])
		if ni < 0 || ni >= len(b.nodes) {
			return "bad-op"
		}
		// the take-over lookup walks a Go map: with two live records of this client id on the node (possible only while
		// gossip is partly delivered) which one is displaced is not determined; such CONNECTs are not sent
		{
			k := 0
			for _, md := range b.nodes[ni].state.SessionMetadatas().All() {
				if md.MountPoint == strings.TrimPrefix(f[4], "!") && md.ClientID == f[3] {
					k++
				}
			}
			if k > 1 && !strings.HasPrefix(f[4], "!") {
				return "connect-ambiguous"
			}
		}
		srvEnd, cliEnd := net.Pipe()
		b.seq++
		vc := &vconn{Conn: srvEnd, b: b}
		c := &bclient{name: f[1], node: ni, seq: b.seq, srv: vc, conn: cliEnd, enc: encoder.New(), midCan: map[int32]int{}, canMid: map[int]int32{}}
		if old, ok := b.clients[f[1]]; ok {
			old.conn.Close()
		} else {
			b.order = append(b.order, f[1])
			sort.Strings(b.order)
		}
		b.clients[f[1]] = c
		go c.reader()
		ctx := wasp.StoreLogger(context.Background(), zap.NewNop())
		go b.nodes[ni].manager.Setup(ctx, transport.Metadata{Name: "tcp", RemoteAddress: f[1], Channel: vc})
		user, pass := f[4], "ok"
		if strings.HasPrefix(user, "!") {
			user, pass = user[1:], "wrong"
		}
		var will *packet.Publish
		if f[6] != "-" {
			will = parsePublishSpec(f[6])
		}
		res := c.sendRaw(encodeConnect(f[3], user, pass, atoi(f[5]), will))
		return b.observe(res)
	case f[0] == "authfile":
		// authfile <name=fp:passfp[:mount]>…: CONNECTs are decided by the real file credential store from now on
		tmp, err := os.CreateTemp("", "waspauth")
		if err != nil {
			return "tmp-err"
		}
		defer os.Remove(tmp.Name())
		for _, l := range f[1:] {
			fields := strings.Split(l, ":")
			fields[0] = un(plainOf(fields[0]))
			for i := 1; i < len(fields); i++ {
				fields[i] = un(fields[i])
			}
			tmp.WriteString(strings.Join(fields, ":") + "\n")
		}
		tmp.Close()
		h, err := auth.FileHandler(tmp.Name())
		if err != nil {
			return "loaderr"
		}
		b.mu.Lock()
		b.auth = h
		b.mu.Unlock()
		return "ok"
	case f[0] == "authstatic" && len(f) == 3:
		h, err := auth.StaticHandler(un(f[1]), un(f[2]))
		if err != nil {
			return "err"
		}
		b.mu.Lock()
		b.auth = h
		b.mu.Unlock()
		return "ok"
	case f[0] == "connectas" && len(f) == 8:
		// connectas <c> <node> <clientid> <user|_> <pass|_> <keepalive> <will|->   (user/pass as plain=fingerprint)
		ni := atoi(f[2])
		if ni < 0 || ni >= len(b.nodes) {
			return "bad-op"
		}
		srvEnd, cliEnd := net.Pipe()
		b.seq++
		vc := &vconn{Conn: srvEnd, b: b}
		c := &bclient{name: f[1], node: ni, seq: b.seq, srv: vc, conn: cliEnd, enc: encoder.New(), midCan: map[int32]int{}, canMid: map[int]int32{}}
		if old, ok := b.clients[f[1]]; ok {
			old.conn.Close()
		} else {
			b.order = append(b.order, f[1])
			sort.Strings(b.order)
		}
		b.clients[f[1]] = c
		go c.reader()
		ctx := wasp.StoreLogger(context.Background(), zap.NewNop())
		go b.nodes[ni].manager.Setup(ctx, transport.Metadata{Name: "tcp", RemoteAddress: f[1], Channel: vc})
		var will *packet.Publish
		if f[7] != "-" {
			will = parsePublishSpec(f[7])
		}
		res := c.sendRaw(encodeConnect(f[3], un(plainOf(f[4])), un(plainOf(f[5])), atoi(f[6]), will))
		return b.observe(res)
	case f[0] == "open" && len(f) == 3:
		// a connection without CONNECT (for raw byte streams)
		ni := atoi(f[2])
		srvEnd, cliEnd := net.Pipe()
		b.seq++
		vc := &vconn{Conn: srvEnd, b: b}
		c := &bclient{name: f[1], node: ni, seq: b.seq, srv: vc, conn: cliEnd, enc: encoder.New(), midCan: map[int32]int{}, canMid: map[int]int32{}}
		if old, ok := b.clients[f[1]]; ok {
			old.conn.Close()
		} else {
			b.order = append(b.order, f[1])
			sort.Strings(b.order)
		}
		b.clients[f[1]] = c
		go c.reader()
		ctx := wasp.StoreLogger(context.Background(), zap.NewNop())
		go b.nodes[ni].manager.Setup(ctx, transport.Metadata{Name: "tcp", RemoteAddress: f[1], Channel: vc})
		return b.observe("ok")
	case f[0] == "sub" && len(f) == 4:
		c := cl(f[1])
		if c == nil {
			return "noclient"
		}
		p := &packet.Subscribe{Header: &packet.Header{Qos: 1}, MessageId: int32(atoi(f[2]))}
		for _, tq := range strings.Split(f[3], ",") {
			i := strings.LastIndex(tq, ":")
			p.Topic = append(p.Topic, topicOf(tq[:i]))
			p.Qos = append(p.Qos, int32(atoi(tq[i+1:])))
		}
		return b.observe(c.send(p))
	case f[0] == "unsub" && len(f) == 4:
		c := cl(f[1])
		if c == nil {
			return "noclient"
		}
		p := &packet.Unsubscribe{Header: &packet.Header{Qos: 1}, MessageId: int32(atoi(f[2]))}
		for _, t := range strings.Split(f[3], ",") {
			p.Topic = append(p.Topic, topicOf(t))
		}
		return b.observe(c.send(p))
	case f[0] == "pub" && len(f) == 8:
		// pub <c> <topic> <payloadhex> <qos> <retain> <dup> <mid>
		c := cl(f[1])
		if c == nil {
			return "noclient"
		}
		pl, _ := unhex(f[3])
		p := &packet.Publish{Header: &packet.Header{Qos: int32(atoi(f[4])), Retain: f[5] == "1", Dup: f[6] == "1"}, Topic: topicOf(f[2]), Payload: pl, MessageId: int32(atoi(f[7]))}
		return b.observe(c.send(p))
	case f[0] == "mute" && len(f) == 3:
		// mute <c> <0|1>: writes of the broker to this connection fail from now on (the session stays registered: the
		// broker only notices a dead peer when it reads)
		c := cl(f[1])
		if c == nil || c.srv == nil {
			return "noclient"
		}
		v := int32(0)
		if f[2] == "1" {
			v = 1
		}
		atomic.StoreInt32(&c.srv.muted, v)
		return "ok"
	case f[0] == "longsettle" && len(f) == 2:
		// longsettle <0|1>: from now on an operation may take up to 40 s to settle (bursts behind a stalled recipient)
		b.longSettle = f[1] == "1"
		return "ok"
	case f[0] == "stall" && len(f) == 3:
		// stall <c> <ms>: the next write of the broker to this connection blocks for <ms> of real time
		c := cl(f[1])
		if c == nil || c.srv == nil {
			return "noclient"
		}
		atomic.StoreInt64(&c.srv.stall, int64(atoi(f[2])))
		return "ok"
	case f[0] == "burst" && len(f) == 6:
		// burst <c> <topic> <qos> <first> <n>: n publishes back to back, payload = 16-bit counter from <first>
		c := cl(f[1])
		if c == nil {
			return "noclient"
		}
		res := "ok"
		first, n := atoi(f[4]), atoi(f[5])
		for k := first; k < first+n; k++ {
			p := &packet.Publish{Header: &packet.Header{Qos: int32(atoi(f[3]))}, Topic: topicOf(f[2]), Payload: []byte{byte(k >> 8), byte(k)}, MessageId: int32(k%65535 + 1)}
			if r := c.send(p); r != "ok" {
				res = r
			}
		}
		return b.observe(res)
	case f[0] == "ack" && len(f) == 4:
		// ack <c> <puback|pubrec|pubcomp> <#canonical> : answer one of the broker's deliveries
		c := cl(f[1])
		if c == nil {
			return "noclient"
		}
		can := atoi(strings.TrimPrefix(f[3], "#"))
		raw, ok := c.canMid[can]
		if !ok {
			return "nosuchdelivery"
		}
		// the exchange is complete (and the identifier reusable) when the delivery's final acknowledgement is sent
		keep := c.outst[:0]
		for _, d := range c.outst {
			if d.can == can && ((d.qos == 1 && f[2] == "puback") || (d.qos == 2 && f[2] == "pubcomp")) {
				delete(c.midCan, raw)
				continue
			}
			keep = append(keep, d)
		}
		c.outst = keep
		return b.observe(c.send(mkPacket(f[2], 0, int(raw))))
	case f[0] == "ackall" && len(f) == 2:
		// acknowledge every outstanding delivery of this client: PUBACK, or PUBREC … PUBCOMP
		c := cl(f[1])
		if c == nil {
			return "noclient"
		}
		todo := c.outst
		c.outst = nil
		res := "ok"
		for _, d := range todo {
			raw := c.canMid[d.can]
			if d.qos == 1 {
				if r := c.send(mkPacket("puback", 0, int(raw))); r != "ok" {
					res = r
				}
			} else {
				if r := c.send(mkPacket("pubrec", 0, int(raw))); r != "ok" {
					res = r
				}
				b.settle()
				if r := c.send(mkPacket("pubcomp", 0, int(raw))); r != "ok" {
					res = r
				}
			}
		}
		out := b.observe(res)
		// the identifiers become reusable once their exchanges are complete: forget their numbers
		for _, d := range todo {
			delete(c.midCan, c.canMid[d.can])
		}
		return out
	case f[0] == "rawack" && len(f) == 4:
		// rawack <c> <kind> <raw message id> (e.g. PUBREL of the client's own QoS 2 publish, or an unknown id)
		c := cl(f[1])
		if c == nil {
			return "noclient"
		}
		p := mkPacket(f[2], 0, atoi(f[3]))
		if p == nil {
			return "bad-op"
		}
		return b.observe(c.send(p))
	case f[0] == "ping" && len(f) == 2:
		c := cl(f[1])
		if c == nil {
			return "noclient"
		}
		// ByClientID walks a Go map: with two live records of this client id on the node the outcome of the
		// displacement test is not determined; such pings are not sent
		if b.ambiguousClient(c) {
			return "ping-ambiguous"
		}
		return b.observe(c.send(&packet.PingReq{Header: &packet.Header{}}))
	case f[0] == "disconnect" && len(f) == 2:
		c := cl(f[1])
		if c == nil {
			return "noclient"
		}
		return b.observe(c.send(&packet.Disconnect{Header: &packet.Header{}}))
	case f[0] == "drop" && len(f) == 2:
		c := cl(f[1])
		if c == nil {
			return "noclient"
		}
		c.conn.Close()
		return b.observe("ok")
	case f[0] == "raw" && len(f) == 3:
		c := cl(f[1])
		if c == nil {
			return "noclient"
		}
		bs, ok := unhex(f[2])
		if !ok {
			return "bad-op"
		}
		return b.observe(c.sendRaw(bs))
	case f[0] == "gossip":
		// deliver every pending broadcast everywhere, until nothing is pending
		b.collectGossip()
		for round := 0; round < 10; round++ {
			n := 0
			for i := range b.nodes {
				for j := range b.nodes {
					if i != j {
						n += b.deliverGossip(i, j)
					}
				}
			}
			b.settle()
			b.collectGossip()
			if n == 0 {
				break
			}
		}
		return b.observe("ok")
	case f[0] == "bc" && len(f) == 3:
		// deliver what node <from> has pending for node <to>
		b.collectGossip()
		b.deliverGossip(atoi(f[1]), atoi(f[2]))
		return b.observe("ok")
	case f[0] == "bcone" && len(f) == 4:
		// deliver (only) the k-th payload node <from> has pending for node <to>: gossip can overtake gossip
		b.collectGossip()
		from, to, k := b.nodes[atoi(f[1])], atoi(f[2]), atoi(f[3])
		q := from.pending[to]
		if k < 0 || k >= len(q) {
			return b.observe("nosuch")
		}
		m := q[k]
		from.pending[to] = append(append([][]byte{}, q[:k]...), q[k+1:]...)
		if !b.failed[b.nodes[to].id] {
			b.nodes[to].state.Distributor().NotifyMsg(m)
		}
		return b.observe("ok")
	case f[0] == "losegossip" && len(f) == 3:
		b.collectGossip()
		b.nodes[atoi(f[1])].pending[atoi(f[2])] = nil
		return "ok"
	case f[0] == "sync" && len(f) == 3:
		from, to := b.nodes[atoi(f[1])], b.nodes[atoi(f[2])]
		to.state.Distributor().MergeRemoteState(from.state.Distributor().LocalState(false), false)
		return b.observe("ok")
	case f[0] == "unreachable" && len(f) == 3:
		b.mu.Lock()
		b.unreachable[uint64(atoi(f[1])+1)] = f[2] == "1"
		b.mu.Unlock()
		return "ok"
	case f[0] == "logfail" && len(f) == 3:
		// logfail <node> <all|none|k>: Append calls of that node's log fail
		l := b.nodes[atoi(f[1])].log
		if l == nil {
			return "bad-op"
		}
		l.mu.Lock()
		switch f[2] {
		case "all":
			l.failAll = true
		case "none":
			l.failAll = false
			l.failN = map[int]bool{}
		default:
			l.failN[l.calls+atoi(f[2])] = true
		}
		l.mu.Unlock()
		return "ok"
	case f[0] == "nodefail" && len(f) == 2:
		// node <n> fails: its clients lose their connection, the survivors are notified
		fi := atoi(f[1])
		b.mu.Lock()
		b.failed[b.nodes[fi].id] = true
		b.mu.Unlock()
		for _, c := range b.clients {
			if c.node == fi {
				c.conn.Close()
			}
		}
		b.nodes[fi].cancel()
		for i, n := range b.nodes {
			if i != fi && !b.failed[n.id] {
				n.members.NotifyGossipLeave(b.nodes[fi].id)
			}
		}
		return b.observe("ok")
	case f[0] == "expire" && len(f) == 2:
		// synthetic sweep: everything currently awaiting an acknowledgement on that node is past its deadline
		b.nodes[atoi(f[1])].inflights.Expire(time.Now().Add(10 * time.Second))
		return b.observe("ok")
	case f[0] == "idle" && len(f) == 2:
		time.Sleep(time.Duration(atoi(f[1])) * time.Millisecond)
		b.elapse(int64(atoi(f[1])))
		return b.observe("ok")
	case f[0] == "elapse" && len(f) == 2:
		// the connections' clock moves, no wall-clock time passes
		b.elapse(int64(atoi(f[1])))
		return b.observe("ok")
	case f[0] == "state" && len(f) == 2:
		ni := atoi(f[1])
		n := b.nodes[ni]
		ss, us, rs, ls := []string{}, []string{}, []string{}, []string{}
		for _, s := range n.state.SessionMetadatas().All() {
			s := s
			ss = append(ss, showS(&s, false))
		}
		for _, s := range n.state.Subscriptions().All() {
			s := s
			us = append(us, showU(&s, false))
		}
		msgs, _ := n.state.Topics().Get([]byte("#"))
		for _, r := range msgs {
			r := r
			rs = append(rs, showR(&r, false))
		}
		for _, s := range n.local.ListSessions() {
			ls = append(ls, safe([]byte(s.ID())))
		}
		return showList(ss) + " " + showList(us) + " " + showList(rs) + " " + showList(ls)
	case f[0] == "log" && len(f) == 2:
		out := []string{}
		if b.nodes[atoi(f[1])].log == nil {
			return "bad-op"
		}
		for i, p := range b.nodes[atoi(f[1])].log.snapshot() {
			if i >= 300 {
				out = append(out, "…more")
				break
			}
			out = append(out, fmt.Sprintf("%s=%s", safe(p.Topic), showHex(p.Payload)))
		}
		return "[" + strings.Join(out, " ") + "]"
	case f[0] == "bycid" && len(f) == 4:
		md, err := b.nodes[atoi(f[1])].state.SessionMetadatas().ByClientID(f[2], f[3])
		if err != nil {
			return "notfound"
		}
		return md.SessionID
	case f[0] == "setpool" && len(f) == 4:
		// replace the writer's id pool of node <n> by a small one (exhaustion becomes reachable)
		wasp.VerifWriterSetPool(b.nodes[atoi(f[1])].writer, int32(atoi(f[2])), int32(atoi(f[3])))
		return "ok"
	case f[0] == "pool" && len(f) == 2:
		// number of identifiers the writer's pool can still hand out (which ones depends on map iteration order)
		free, top := 0, 0
		for _, iv := range wasp.VerifWriterPool(b.nodes[atoi(f[1])].writer).Intervals() {
			free += int(iv[1] - iv[0])
			if int(iv[1]) > top {
				top = int(iv[1])
			}
		}
		return "free=" + strconv.Itoa(free) + " top=" + strconv.Itoa(top)
	case f[0] == "rpc-publish" && len(f) == 4:
		// DistributeMessage RPC on node <n>
		pl, _ := unhex(f[3])
		_, err := api.NewMQTTClient(b.nodes[atoi(f[1])].cc).DistributeMessage(context.Background(), &api.DistributeMessageRequest{Message: &packet.Publish{Header: &packet.Header{}, Topic: []byte(f[2]), Payload: pl}})
		if err != nil {
			return b.observe("err")
		}
		return b.observe("ok")
	}
	return "bad-op"
}

package main

import (
	"strconv"

	"github.com/vx-labs/wasp/v4/wasp"
)

// domain idpool: new <min> <max> | get | put <mid>
type idpoolDomain struct{ p wasp.VerifMIDPool }

func init() {
	domains["idpool"] = func([]string) domain {
		return &idpoolDomain{p: wasp.VerifNewMIDPool(0, 65535)}
	}
}

func (d *idpoolDomain) step(f []string) string {
	switch {
	case len(f) == 3 && f[0] == "new":
		mn, e1 := strconv.Atoi(f[1])
		mx, e2 := strconv.Atoi(f[2])
		if e1 != nil || e2 != nil {
			return "bad-op"
		}
		d.p = wasp.VerifNewMIDPool(int32(mn), int32(mx))
		return "ok"
	case len(f) == 1 && f[0] == "get":
		return strconv.Itoa(int(d.p.Get()))
	case len(f) == 2 && f[0] == "put":
		m, err := strconv.Atoi(f[1])
		if err != nil {
			return "bad-op"
		}
		d.p.Put(int32(m))
		return "-"
	}
	return "bad-op"
}

package main

import (
	"strconv"
	"strings"
	"time"

	"github.com/vx-labs/mqtt-protocol/packet"
	"github.com/vx-labs/wasp/v4/wasp/ack"
)

// domain ackq: the real ack.Queue; times are milliseconds after a whole-second epoch.
type ackqDomain struct {
	q      ack.Queue
	events []string
}

var ackEpoch = time.Unix(1700000000, 0)

func ms(v int) time.Time { return ackEpoch.Add(time.Duration(v) * time.Millisecond) }

func init() {
	domains["ackq"] = func([]string) domain { return &ackqDomain{q: ack.NewQueue()} }
}

func kindName(p packet.Packet) string {
	switch p.(type) {
	case *packet.Publish:
		return "publish"
	case *packet.PubAck:
		return "puback"
	case *packet.PubRec:
		return "pubrec"
	case *packet.PubRel:
		return "pubrel"
	case *packet.PubComp:
		return "pubcomp"
	}
	return "other"
}

func mkPacket(kind string, qos, mid int) packet.Packet {
	h := &packet.Header{Qos: int32(qos)}
	switch kind {
	case "publish":
		return &packet.Publish{Header: h, MessageId: int32(mid), Topic: []byte("t")}
	case "puback":
		return &packet.PubAck{Header: h, MessageId: int32(mid)}
	case "pubrec":
		return &packet.PubRec{Header: h, MessageId: int32(mid)}
	case "pubrel":
		return &packet.PubRel{Header: h, MessageId: int32(mid)}
	case "pubcomp":
		return &packet.PubComp{Header: h, MessageId: int32(mid)}
	case "suback":
		return &packet.SubAck{Header: h, MessageId: int32(mid)}
	case "pingreq":
		return &packet.PingReq{Header: h}
	}
	return nil
}

func errName(err error) string {
	switch {
	case err == nil:
		return "ok"
	case err == ack.ErrWrongMID:
		return "wrongmid"
	case err == ack.ErrDupMID:
		return "dup"
	case err == ack.ErrWrongPacketType:
		return "wrongtype"
	case err == ack.ErrInvalidQos:
		return "invalidqos"
	case strings.HasPrefix(err.Error(), "unexpected packet type"):
		return "unexpected"
	}
	return "err:" + err.Error()
}

func (d *ackqDomain) takeEvents() string {
	s := "[" + strings.Join(d.events, " ") + "]"
	d.events = nil
	return s
}

func (d *ackqDomain) step(f []string) string {
	switch {
	case len(f) == 1 && f[0] == "new":
		d.q = ack.NewQueue()
		d.events = nil
		return "ok"
	case len(f) == 6 && f[0] == "ins":
		qos, _ := strconv.Atoi(f[3])
		mid, _ := strconv.Atoi(f[4])
		dl, _ := strconv.Atoi(f[5])
		p := mkPacket(f[2], qos, mid)
		if p == nil {
			return "bad-op"
		}
		key := f[1] + "/" + f[4]
		err := d.q.Insert(f[1], p, ms(dl), func(expired bool, stored, received packet.Packet) {
			how := "ack"
			if expired {
				how = "exp"
			}
			d.events = append(d.events, key+":"+how+":"+kindName(stored))
		})
		return errName(err)
	case len(f) == 4 && f[0] == "ack":
		mid, _ := strconv.Atoi(f[3])
		p := mkPacket(f[2], 0, mid)
		if p == nil {
			return "bad-op"
		}
		err := d.q.Ack(f[1], p)
		return errName(err) + " " + d.takeEvents()
	case len(f) == 2 && f[0] == "exp":
		now, _ := strconv.Atoi(f[1])
		d.q.Expire(ms(now))
		return "ok " + d.takeEvents()
	}
	return "bad-op"
}

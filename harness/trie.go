package main

import (
	"encoding/hex"
	"sort"
	"strconv"
	"strings"

	"github.com/vx-labs/wasp/v4/subscriptions"
	"github.com/vx-labs/wasp/v4/topics"
)

func topicOf(s string) []byte {
	if s == "~" {
		return []byte{}
	}
	return []byte(s)
}

func unhex(s string) ([]byte, bool) {
	if s == "-" {
		return nil, true
	}
	if s == "=" {
		return []byte{}, true // empty but not nil
	}
	b, err := hex.DecodeString(s)
	return b, err == nil
}

// safe renders a byte string that travels in the line protocol: verbatim when it only holds
// unproblematic printable characters, hex (prefixed 0x) otherwise
func safe(b []byte) string {
	if len(b) == 0 {
		return "0x"
	}
	for _, c := range b {
		ok := (c >= 'a' && c <= 'z') || (c >= 'A' && c <= 'Z') || (c >= '0' && c <= '9') || strings.IndexByte("/_+#$.-!", c) >= 0
		if !ok {
			return "0x" + hex.EncodeToString(b)
		}
	}
	return string(b)
}

func showHex(b []byte) string {
	if len(b) == 0 {
		return "-"
	}
	return hex.EncodeToString(b)
}

func showBytesList(l [][]byte) string {
	out := make([]string, len(l))
	for i := range l {
		out[i] = showHex(l[i])
	}
	sort.Strings(out)
	return "[" + strings.Join(out, " ") + "]"
}

// domain subtree: subscriptions.Tree
type subtreeDomain struct{ t subscriptions.Tree }

// domain rettree: topics.Store
type rettreeDomain struct{ t topics.Store }

func init() {
	domains["subtree"] = func([]string) domain { return &subtreeDomain{t: subscriptions.NewTree()} }
	domains["rettree"] = func([]string) domain { return &rettreeDomain{t: topics.NewTree()} }
}

func (d *subtreeDomain) step(f []string) string {
	switch {
	case len(f) == 1 && f[0] == "new":
		d.t = subscriptions.NewTree()
		return "ok"
	case len(f) == 3 && (f[0] == "set" || f[0] == "app"):
		b, ok := unhex(f[2])
		if !ok {
			return "bad-op"
		}
		app := f[0] == "app"
		err := d.t.Upsert(topicOf(f[1]), func(old []byte) []byte {
			if app {
				return append(append([]byte{}, old...), b...)
			}
			return b
		})
		if err != nil {
			return "err"
		}
		return "ok"
	case len(f) == 2 && f[0] == "walk":
		var got [][]byte
		d.t.Walk(topicOf(f[1]), func(b []byte) { got = append(got, b) })
		return showBytesList(got)
	case len(f) == 1 && f[0] == "iter":
		var got [][]byte
		d.t.Iterate(func(b []byte) { got = append(got, b) })
		return showBytesList(got)
	case len(f) == 1 && f[0] == "dumpload":
		buf, err := d.t.Dump()
		if err != nil {
			return "dump-err"
		}
		nt := subscriptions.NewTree()
		if err := nt.Load(buf); err != nil {
			return "load-err"
		}
		d.t = nt
		return "ok"
	}
	return "bad-op"
}

func (d *rettreeDomain) step(f []string) string {
	switch {
	case len(f) == 1 && f[0] == "new":
		d.t = topics.NewTree()
		return "ok"
	case len(f) == 3 && f[0] == "ins":
		b, ok := unhex(f[2])
		if !ok {
			return "bad-op"
		}
		old, err := d.t.Insert(topicOf(f[1]), b)
		if err != nil {
			return "err"
		}
		return "old=" + strconv.FormatBool(old)
	case len(f) == 2 && f[0] == "rm":
		err := d.t.Remove(topicOf(f[1]))
		if err == topics.ErrTopicNotFound {
			return "notfound"
		} else if err != nil {
			return "err"
		}
		return "ok"
	case len(f) == 2 && f[0] == "match":
		got := [][]byte{}
		if err := d.t.Match(topicOf(f[1]), &got); err != nil {
			return "err"
		}
		return showBytesList(got)
	case len(f) == 1 && f[0] == "count":
		return strconv.Itoa(d.t.Count())
	case len(f) == 1 && f[0] == "iter":
		var got [][]byte
		d.t.Iterate(func(b []byte) { got = append(got, b) })
		return showBytesList(got)
	case len(f) == 1 && f[0] == "dumpload":
		buf, err := d.t.Dump()
		if err != nil {
			return "dump-err"
		}
		nt := topics.NewTree()
		if err := nt.Load(buf); err != nil {
			return "load-err"
		}
		d.t = nt
		return "ok"
	}
	return "bad-op"
}

package main

import (
	"bufio"
	"context"
	"errors"
	"fmt"
	"os"
	"os/exec"
	"strconv"
	"strings"
	"syscall"
	"time"

	"github.com/vx-labs/mqtt-protocol/packet"
	"github.com/vx-labs/wasp/v4/wasp"
	"github.com/vx-labs/wasp/v4/wasp/messages"
)

// domain msglog: the real messages.Log on disk; every `run` is a separate child process that consumes
// with the real Consume and dies (SIGKILL inside the k-th callback, or clean stop after it).
type msglogDomain struct {
	dir  string
	next int
}

func init() {
	domains["msglog"] = func([]string) domain { return &msglogDomain{} }
	domains["msglog-child"] = func(args []string) domain { msglogChild(args); return nil }
}

func (d *msglogDomain) cleanup() {
	if d.dir != "" {
		os.RemoveAll(d.dir)
		d.dir = ""
	}
}

func (d *msglogDomain) ensure() error {
	if d.dir == "" {
		dir, err := os.MkdirTemp("", "waspmsglog")
		if err != nil {
			return err
		}
		d.dir = dir
		d.next = 0
	}
	return nil
}

func (d *msglogDomain) step(f []string) string {
	switch {
	case len(f) == 1 && f[0] == "new":
		d.cleanup()
		if err := d.ensure(); err != nil {
			return "tmp-err"
		}
		return "ok"
	case len(f) == 1 && f[0] == "bye":
		d.cleanup()
		return "ok"
	case len(f) == 2 && f[0] == "append":
		if err := d.ensure(); err != nil {
			return "tmp-err"
		}
		n, _ := strconv.Atoi(f[1])
		l, err := messages.New(d.dir)
		if err != nil {
			return "open-err " + err.Error()
		}
		for i := 0; i < n; i++ {
			err := l.Append(&packet.Publish{Header: &packet.Header{Qos: 1}, Topic: []byte(fmt.Sprintf("t%d", d.next)), Payload: []byte("p")})
			if err != nil {
				l.Close()
				return "append-err " + err.Error()
			}
			d.next++
		}
		l.Close()
		return "next=" + strconv.Itoa(d.next)
	case len(f) == 3 && f[0] == "run":
		if err := d.ensure(); err != nil {
			return "tmp-err"
		}
		cmd := exec.Command(os.Args[0], "msglog-child", d.dir, f[1], f[2])
		out, _ := cmd.Output() // killed children report an error: expected
		offs := []string{}
		for _, l := range strings.Split(string(out), "\n") {
			if strings.HasPrefix(l, "o ") {
				offs = append(offs, l[2:])
			} else if strings.HasPrefix(l, "ERR") {
				return l
			}
		}
		return "[" + strings.Join(offs, " ") + "]"
	case len(f) == 2 && f[0] == "get":
		o, _ := strconv.Atoi(f[1])
		l, err := messages.New(d.dir)
		if err != nil {
			return "open-err"
		}
		defer l.Close()
		p, err := l.Get(uint64(o))
		if err != nil {
			return "err"
		}
		return string(p.Topic)
	}
	return "bad-op"
}

var errStop = errors.New("stop")

func msglogChild(args []string) {
	dir := args[0]
	k, _ := strconv.Atoi(args[1])
	phase := args[2]
	w := bufio.NewWriter(os.Stdout)
	l, err := messages.New(dir)
	if err != nil {
		fmt.Fprintln(w, "ERR open", err)
		w.Flush()
		os.Exit(1)
	}
	ctx, cancel := context.WithCancel(context.Background())
	idle := time.AfterFunc(600*time.Millisecond, cancel)
	count := 0
	if k == 0 {
		cancel()
	}
	if phase == "sched" {
		// the real glue between log and writer (wasp.SchedulePublishes) with a recording writer; the context is
		// cancelled (graceful stop) inside the k-th hand-over
		rec := &recWriter{w: w, k: k, cancel: cancel, idle: idle}
		wasp.SchedulePublishes(1, rec, l)(ctx)
		l.Close()
		w.Flush()
		os.Exit(0)
	}
	l.Consume(ctx, "publish_distributor", func(o uint64, p *packet.Publish) error {
		if count >= k {
			return errStop // clean stop: the context was cancelled in the previous callback
		}
		idle.Reset(600 * time.Millisecond)
		if string(p.Topic) != fmt.Sprintf("t%d", o) {
			fmt.Fprintf(w, "ERR offset %d carries %s\n", o, p.Topic)
		}
		fmt.Fprintf(w, "o %d\n", o)
		w.Flush()
		count++
		if count == k {
			if phase == "in" {
				syscall.Kill(os.Getpid(), syscall.SIGKILL)
				select {}
			}
			cancel()
		}
		return nil
	})
	l.Close()
	w.Flush()
	os.Exit(0)
}

// recWriter stands where the node's writer stands: Schedule is the hand-over of an offset to the delivery scheduler
type recWriter struct {
	w      *bufio.Writer
	k      int
	count  int
	cancel func()
	idle   *time.Timer
}

func (r *recWriter) Run(ctx context.Context, log wasp.VerifMessageLog) error { return nil }
func (r *recWriter) Send(ctx context.Context, recipients []string, qosses []int32, p *packet.Publish) {
}
func (r *recWriter) Schedule(ctx context.Context, offset uint64) {
	r.idle.Reset(600 * time.Millisecond)
	fmt.Fprintf(r.w, "o %d\n", offset)
	r.w.Flush()
	r.count++
	if r.count == r.k {
		r.cancel()
	}
}

package main

import (
	"context"
	"os"
	"strconv"
	"strings"
	"sync"
	"sync/atomic"

	"github.com/vx-labs/wasp/v4/wasp/auth"
)

// domain auth: the real file and static credential stores.
type authDomain struct {
	file   auth.AuthenticationHandler
	static auth.AuthenticationHandler
	asked  []authAsk // every candidate put to the file store since it was loaded, with its answer
}

type authAsk struct{ user, pass, answer string }

func init() {
	domains["auth"] = func([]string) domain { return &authDomain{} }
}

func un(s string) string {
	if s == "_" {
		return ""
	}
	return s
}

func plainOf(s string) string {
	if i := strings.Index(s, "="); i >= 0 {
		return s[:i]
	}
	return s
}

func (d *authDomain) ask(user, pass string) string {
	p, err := d.file.Authenticate(context.Background(), auth.ApplicationContext{Username: []byte(user), Password: []byte(pass)}, auth.TransportContext{})
	if err != nil {
		return "reject"
	}
	return "accept " + p.MountPoint
}

func (d *authDomain) step(f []string) string {
	switch {
	case len(f) >= 1 && f[0] == "file":
		tmp, err := os.CreateTemp("", "waspauth")
		if err != nil {
			return "tmp-err"
		}
		defer os.Remove(tmp.Name())
		for _, l := range f[1:] {
			fields := strings.Split(l, ":")
			fields[0] = un(plainOf(fields[0]))
			for i := 1; i < len(fields); i++ {
				fields[i] = un(fields[i])
			}
			tmp.WriteString(strings.Join(fields, ":") + "\n")
		}
		tmp.Close()
		h, err := auth.FileHandler(tmp.Name())
		if err != nil {
			d.file = nil
			return "loaderr"
		}
		d.file = h
		d.asked = nil
		return "ok"
	case len(f) == 3 && f[0] == "auth":
		if d.file == nil {
			return "nohandler"
		}
		res := d.ask(un(plainOf(f[1])), un(plainOf(f[2])))
		d.asked = append(d.asked, authAsk{un(plainOf(f[1])), un(plainOf(f[2])), res})
		return res
	case len(f) == 2 && f[0] == "par":
		// par <rounds>: the set-up workers share one store — every candidate asked so far is put to it again from 16
		// goroutines at once; each answer must be the answer the store gave when asked alone
		if d.file == nil {
			return "nohandler"
		}
		var wrong int64
		var wg sync.WaitGroup
		for g := 0; g < 16; g++ {
			wg.Add(1)
			go func(g int) {
				defer wg.Done()
				defer func() {
					if recover() != nil {
						atomic.AddInt64(&wrong, 1)
					}
				}()
				for r := 0; r < atoi(f[1]); r++ {
					for i := range d.asked {
						a := d.asked[(i+g)%len(d.asked)]
						if d.ask(a.user, a.pass) != a.answer {
							atomic.AddInt64(&wrong, 1)
						}
					}
				}
			}(g)
		}
		wg.Wait()
		return "par-mismatch=" + strconv.FormatInt(wrong, 10)
	case len(f) == 3 && f[0] == "static":
		h, err := auth.StaticHandler(un(f[1]), un(f[2]))
		if err != nil {
			return "err"
		}
		d.static = h
		return "ok"
	case len(f) == 3 && f[0] == "sauth":
		if d.static == nil {
			return "nohandler"
		}
		p, err := d.static.Authenticate(context.Background(), auth.ApplicationContext{Username: []byte(un(f[1])), Password: []byte(un(f[2]))}, auth.TransportContext{})
		if err != nil {
			return "reject"
		}
		return "accept " + p.MountPoint
	}
	return "bad-op"
}

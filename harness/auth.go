package main

import (
	"context"
	"os"
	"strings"

	"github.com/vx-labs/wasp/v4/wasp/auth"
)

// domain auth: the real file and static credential stores.
type authDomain struct {
	file   auth.AuthenticationHandler
	static auth.AuthenticationHandler
}

func init() {
	domains["auth"] = func([]string) domain { return &authDomain{} }
}

func un(s string) string {
	if s == "_" {
		return ""
	}
	return s
}

func plainOf(s string) string {
	if i := strings.Index(s, "="); i >= 0 {
		return s[:i]
	}
	return s
}

func (d *authDomain) step(f []string) string {
	switch {
	case len(f) >= 1 && f[0] == "file":
		tmp, err := os.CreateTemp("", "waspauth")
		if err != nil {
			return "tmp-err"
		}
		defer os.Remove(tmp.Name())
		for _, l := range f[1:] {
			fields := strings.Split(l, ":")
			fields[0] = un(plainOf(fields[0]))
			for i := 1; i < len(fields); i++ {
				fields[i] = un(fields[i])
			}
			tmp.WriteString(strings.Join(fields, ":") + "\n")
		}
		tmp.Close()
		h, err := auth.FileHandler(tmp.Name())
		if err != nil {
			d.file = nil
			return "loaderr"
		}
		d.file = h
		return "ok"
	case len(f) == 3 && f[0] == "auth":
		if d.file == nil {
			return "nohandler"
		}
		p, err := d.file.Authenticate(context.Background(), auth.ApplicationContext{Username: []byte(un(plainOf(f[1]))), Password: []byte(un(plainOf(f[2])))}, auth.TransportContext{})
		if err != nil {
			return "reject"
		}
		return "accept " + p.MountPoint
	case len(f) == 3 && f[0] == "static":
		h, err := auth.StaticHandler(un(f[1]), un(f[2]))
		if err != nil {
			return "err"
		}
		d.static = h
		return "ok"
	case len(f) == 3 && f[0] == "sauth":
		if d.static == nil {
			return "nohandler"
		}
		p, err := d.static.Authenticate(context.Background(), auth.ApplicationContext{Username: []byte(un(f[1])), Password: []byte(un(f[2]))}, auth.TransportContext{})
		if err != nil {
			return "reject"
		}
		return "accept " + p.MountPoint
	}
	return "bad-op"
}

package main

import (
	"fmt"
	"sort"
	"strconv"
	"strings"

	"github.com/golang/protobuf/proto"
	"github.com/hashicorp/memberlist"
	"github.com/vx-labs/mqtt-protocol/packet"
	"github.com/vx-labs/wasp/v4/wasp/api"
	"github.com/vx-labs/wasp/v4/wasp/audit"
	"github.com/vx-labs/wasp/v4/wasp/distributed"
)

// domain dist: three real distributed.State instances, an injected clock that is constant
// during an op (tick*10 + per-node offset), explicit gossip delivery.
type distNode struct {
	st      distributed.State
	q       *memberlist.TransmitLimitedQueue
	sent    [][]byte
	pending int
}

type distDomain struct {
	nodes []*distNode
	offs  []int64
	tick  int64
	lazy  bool
	now   int64
}

var distClockOwner *distDomain

func newDistDomain() *distDomain {
	d := &distDomain{offs: []int64{0, 0, 0}}
	for i := 0; i < 3; i++ {
		q := &memberlist.TransmitLimitedQueue{RetransmitMult: 1, NumNodes: func() int { return 1 }}
		d.nodes = append(d.nodes, &distNode{st: distributed.NewState(uint64(i+1), q, audit.VerifRecorder(nil)), q: q})
	}
	distClockOwner = d
	distributed.VerifSetClock(func() int64 { return distClockOwner.now })
	return d
}

func init() {
	domains["dist"] = func([]string) domain { return newDistDomain() }
}

func showWill(p *packet.Publish) string {
	if p == nil {
		return "-"
	}
	r := 0
	q := int32(0)
	if p.Header != nil {
		if p.Header.Retain {
			r = 1
		}
		q = p.Header.Qos
	}
	return fmt.Sprintf("%s:%s:%d:%d", safe(p.Topic), showHex(p.Payload), q, r)
}

func showS(s *api.SessionMetadatas, stamps bool) string {
	base := fmt.Sprintf("S,%s,%s,%s,%d,%s", safe([]byte(s.SessionID)), safe([]byte(s.ClientID)), safe([]byte(s.MountPoint)), s.Peer, showWill(s.LWT))
	if stamps {
		base += fmt.Sprintf(",%d,%d", s.LastAdded, s.LastDeleted)
	}
	return base
}
func showU(s *api.Subscription, stamps bool) string {
	base := fmt.Sprintf("U,%s,%s,%d,%d", safe([]byte(s.SessionID)), safe(s.Pattern), s.Peer, s.QoS)
	if stamps {
		base += fmt.Sprintf(",%d,%d", s.LastAdded, s.LastDeleted)
	}
	return base
}
func showR(r *api.RetainedMessage, stamps bool) string {
	base := "R!"
	if r.Publish != nil {
		q, ret := int32(0), 0
		if r.Publish.Header != nil {
			q = r.Publish.Header.Qos
			if r.Publish.Header.Retain {
				ret = 1
			}
		}
		base = fmt.Sprintf("R,%s,%s,%d,%d", safe(r.Publish.Topic), showHex(r.Publish.Payload), q, ret)
	}
	if stamps {
		base += fmt.Sprintf(",%d,%d", r.LastAdded, r.LastDeleted)
	}
	return base
}

func showList(l []string) string {
	sort.Strings(l)
	return "[" + strings.Join(l, " ") + "]"
}

func showEventBytes(b []byte) string {
	ev := &api.StateBroadcastEvent{}
	if err := proto.Unmarshal(b, ev); err != nil {
		return "undecodable"
	}
	l := []string{}
	for _, s := range ev.SessionMetadatas {
		l = append(l, showS(s, true))
	}
	for _, s := range ev.Subscriptions {
		l = append(l, showU(s, true))
	}
	for _, r := range ev.RetainedMessages {
		l = append(l, showR(r, true))
	}
	return showList(l)
}

func (d *distDomain) drain(i int) [][]byte {
	n := d.nodes[i]
	var got [][]byte
	for {
		b := n.q.GetBroadcasts(0, 1<<30)
		if len(b) == 0 {
			break
		}
		got = append(got, b...)
	}
	return got
}

// after a local op on node i: in eager mode drain the queue and report the broadcast
func (d *distDomain) afterLocal(i int, res string) string {
	d.tick++
	if d.lazy {
		return res
	}
	got := d.drain(i)
	d.nodes[i].sent = append(d.nodes[i].sent, got...)
	switch len(got) {
	case 0:
		return res + " bc=none"
	case 1:
		return res + " bc=" + showEventBytes(got[0])
	}
	l := []string{}
	for _, g := range got {
		l = append(l, showEventBytes(g))
	}
	return res + " bc-many=" + strings.Join(l, "+")
}

func atoi(s string) int { v, _ := strconv.Atoi(s); return v }

func parseWill(s string) *packet.Publish {
	if s == "-" {
		return nil
	}
	f := strings.Split(s, ":")
	if len(f) != 4 {
		return nil
	}
	pl, _ := unhex(f[1])
	return &packet.Publish{Header: &packet.Header{Qos: int32(atoi(f[2])), Retain: f[3] == "1"}, Topic: []byte(f[0]), Payload: pl}
}

func unEmpty(s string) string {
	if s == "_" {
		return ""
	}
	return s
}

func parseEntries(s string) (*api.StateBroadcastEvent, bool) {
	ev := &api.StateBroadcastEvent{}
	for _, e := range strings.Split(s, ";") {
		f := strings.Split(e, ",")
		for i := range f {
			f[i] = unEmpty(f[i])
		}
		switch {
		case len(f) == 7 && f[0] == "S":
			ev.SessionMetadatas = append(ev.SessionMetadatas, &api.SessionMetadatas{SessionID: f[1], ClientID: f[2], MountPoint: f[3], Peer: uint64(atoi(f[4])), LastAdded: int64(atoi(f[5])), LastDeleted: int64(atoi(f[6]))})
		case len(f) == 7 && f[0] == "U":
			ev.Subscriptions = append(ev.Subscriptions, &api.Subscription{SessionID: f[1], Pattern: []byte(f[2]), Peer: uint64(atoi(f[3])), QoS: int32(atoi(f[4])), LastAdded: int64(atoi(f[5])), LastDeleted: int64(atoi(f[6]))})
		case len(f) == 5 && f[0] == "R":
			pl, _ := unhex(f[2])
			ev.RetainedMessages = append(ev.RetainedMessages, &api.RetainedMessage{Publish: &packet.Publish{Header: &packet.Header{Retain: true}, Topic: []byte(f[1]), Payload: pl}, LastAdded: int64(atoi(f[3])), LastDeleted: int64(atoi(f[4]))})
		case len(f) == 3 && f[0] == "R!":
			ev.RetainedMessages = append(ev.RetainedMessages, &api.RetainedMessage{LastAdded: int64(atoi(f[1])), LastDeleted: int64(atoi(f[2]))})
		default:
			return nil, false
		}
	}
	return ev, true
}

func (d *distDomain) visible(i int) string {
	st := d.nodes[i].st
	ss, us, rs := []string{}, []string{}, []string{}
	for _, s := range st.SessionMetadatas().All() {
		s := s
		ss = append(ss, showS(&s, false))
	}
	for _, s := range st.Subscriptions().All() {
		s := s
		us = append(us, showU(&s, false))
	}
	msgs, err := st.Topics().Get([]byte("#"))
	if err != nil {
		return "err " + err.Error()
	}
	for _, r := range msgs {
		r := r
		rs = append(rs, showR(&r, false))
	}
	return showList(ss) + " " + showList(us) + " " + showList(rs)
}

func (d *distDomain) step(f []string) string {
	if len(f) == 0 {
		return "bad-op"
	}
	node := func(k int) (int, bool) {
		if len(f) <= k {
			return 0, false
		}
		i, err := strconv.Atoi(f[k])
		return i, err == nil && i >= 0 && i < len(d.nodes)
	}
	setNow := func(i int) { d.now = 1000 + d.tick*10 + d.offs[i] }
	switch f[0] {
	case "reset":
		*d = *newDistDomain()
		distClockOwner = d
		return "ok"
	case "lazy":
		d.lazy = len(f) == 2 && f[1] == "on"
		return "ok"
	case "off":
		i, ok := node(1)
		if !ok || len(f) != 3 {
			return "bad-op"
		}
		d.offs[i] = int64(atoi(f[2]))
		return "ok"
	}
	i, ok := node(1)
	if !ok {
		return "bad-op"
	}
	st := d.nodes[i].st
	setNow(i)
	switch {
	case f[0] == "screate" && len(f) == 6:
		if f[3] == "~" { // the empty client identifier
			f = append([]string{}, f...)
			f[3] = ""
		}
		err := st.SessionMetadatas().Create(f[2], f[3], 0, parseWill(f[5]), f[4])
		res := "ok"
		if err == distributed.ErrSessionMetadatasExists {
			res = "exists"
		} else if err != nil {
			res = "err"
		}
		return d.afterLocal(i, res)
	case f[0] == "sdelete" && len(f) == 3:
		if err := st.SessionMetadatas().Delete(f[2]); err != nil {
			return d.afterLocal(i, "err")
		}
		return d.afterLocal(i, "ok")
	case f[0] == "sdelpeer" && len(f) == 3:
		st.SessionMetadatas().DeletePeer(uint64(atoi(f[2])))
		return d.afterLocal(i, "ok")
	case f[0] == "subcreate" && len(f) == 5:
		if err := st.Subscriptions().Create(f[2], []byte(f[3]), int32(atoi(f[4]))); err != nil {
			return d.afterLocal(i, "err")
		}
		return d.afterLocal(i, "ok")
	case f[0] == "subdelete" && len(f) == 4:
		if err := st.Subscriptions().Delete(f[2], []byte(f[3])); err != nil {
			return d.afterLocal(i, "err")
		}
		return d.afterLocal(i, "ok")
	case f[0] == "subdelpeer" && len(f) == 3:
		st.Subscriptions().DeletePeer(uint64(atoi(f[2])))
		return d.afterLocal(i, "ok")
	case f[0] == "subdelsess" && len(f) == 3:
		st.Subscriptions().DeleteSession(f[2])
		return d.afterLocal(i, "ok")
	case f[0] == "tset" && len(f) == 6:
		pl, _ := unhex(f[3])
		err := st.Topics().Set(&packet.Publish{Header: &packet.Header{Qos: int32(atoi(f[4])), Retain: f[5] == "1"}, Topic: []byte(f[2]), Payload: pl})
		if err != nil {
			return d.afterLocal(i, "err")
		}
		return d.afterLocal(i, "ok")
	case f[0] == "tdel" && len(f) == 3:
		if err := st.Topics().Delete([]byte(f[2])); err != nil {
			return d.afterLocal(i, "err")
		}
		return d.afterLocal(i, "ok")
	case f[0] == "flush" && len(f) == 2:
		got := d.drain(i)
		l := []string{}
		sort.Slice(got, func(a, b int) bool { return showEventBytes(got[a]) < showEventBytes(got[b]) })
		for _, g := range got {
			l = append(l, showEventBytes(g))
		}
		d.nodes[i].sent = append(d.nodes[i].sent, got...)
		return showList(l)
	case f[0] == "deliver" && len(f) == 4:
		k := atoi(f[2])
		t, ok := node(3)
		if !ok {
			return "bad-op"
		}
		if k < 0 || k >= len(d.nodes[i].sent) {
			return "nosuch"
		}
		d.nodes[t].st.Distributor().NotifyMsg(d.nodes[i].sent[k])
		return "ok"
	case f[0] == "deliverall" && len(f) == 3:
		t, ok := node(2)
		if !ok {
			return "bad-op"
		}
		for _, b := range d.nodes[i].sent {
			d.nodes[t].st.Distributor().NotifyMsg(b)
		}
		return "ok"
	case f[0] == "batch" && len(f) == 4:
		t, ok := node(3)
		if !ok {
			return "bad-op"
		}
		var buf []byte
		for _, ks := range strings.Split(f[2], ",") {
			k := atoi(ks)
			if k >= 0 && k < len(d.nodes[i].sent) {
				// concatenated protobuf messages decode as one message with the repeated fields concatenated
				buf = append(buf, d.nodes[i].sent[k]...)
			}
		}
		d.nodes[t].st.Distributor().NotifyMsg(buf)
		return "ok"
	case f[0] == "sync" && len(f) == 3:
		t, ok := node(2)
		if !ok {
			return "bad-op"
		}
		d.nodes[t].st.Distributor().MergeRemoteState(d.nodes[i].st.Distributor().LocalState(false), false)
		return "ok"
	case f[0] == "inj" && len(f) == 3:
		ev, ok := parseEntries(f[2])
		if !ok {
			return "bad-op"
		}
		buf, err := proto.Marshal(ev)
		if err != nil {
			return "bad-op"
		}
		st.Distributor().NotifyMsg(buf)
		return "ok"
	case f[0] == "show" && len(f) == 2:
		return d.visible(i)
	case f[0] == "full" && len(f) == 2:
		return showEventBytes(st.Distributor().LocalState(false))
	case f[0] == "nsent" && len(f) == 2:
		return strconv.Itoa(len(d.nodes[i].sent))
	case f[0] == "byp" && len(f) == 3:
		l := []string{}
		for _, s := range st.Subscriptions().ByPattern([]byte(f[2])) {
			s := s
			l = append(l, showU(&s, false))
		}
		return showList(l)
	case f[0] == "bypeer" && len(f) == 3:
		a, b := []string{}, []string{}
		for _, s := range st.SessionMetadatas().ByPeer(uint64(atoi(f[2]))) {
			s := s
			a = append(a, showS(&s, false))
		}
		for _, s := range st.Subscriptions().ByPeer(uint64(atoi(f[2]))) {
			s := s
			b = append(b, showU(&s, false))
		}
		return showList(a) + " " + showList(b)
	case f[0] == "bycid" && len(f) == 4:
		// ByClientID walks a Go map: with several candidates any of them may come back
		cands := []string{}
		for _, s := range st.SessionMetadatas().All() {
			s := s
			if s.MountPoint == f[2] && s.ClientID == f[3] {
				cands = append(cands, showS(&s, false))
			}
		}
		got, err := st.SessionMetadatas().ByClientID(f[2], f[3])
		if err != nil {
			if len(cands) == 0 {
				return "notfound"
			}
			return "notfound-but-candidates " + showList(cands)
		}
		if len(cands) <= 1 {
			return showS(&got, false)
		}
		in := false
		for _, c := range cands {
			if c == showS(&got, false) {
				in = true
			}
		}
		if !in {
			return "not-a-candidate " + showS(&got, false)
		}
		return "ambiguous " + showList(cands)
	case f[0] == "sget" && len(f) == 3:
		got, err := st.SessionMetadatas().Get(f[2])
		if err != nil {
			return "notfound"
		}
		return showS(&got, false)
	case f[0] == "tget" && len(f) == 3:
		msgs, err := st.Topics().Get([]byte(f[2]))
		if err != nil {
			return "err"
		}
		l := []string{}
		for _, r := range msgs {
			r := r
			l = append(l, showR(&r, false))
		}
		return showList(l)
	}
	return "bad-op"
}

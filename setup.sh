#!/bin/bash
# Build the framework from files on disk only (offline): Lean library + model driver, Go harness + extractor.
set -e
cd "$(dirname "$0")"
export GOFLAGS=-mod=mod GOPROXY=off GOSUMDB=off GOTOOLCHAIN=local
mkdir -p .build evidence replays
if [ -d extract ] && [ -f extract/go.mod ]; then
  cp /repo/go.sum extract/go.sum 2>/dev/null || true
  (cd extract && go build -o ../.build/waspextract . && ../.build/waspextract -repo /repo -out ../lean/Wasp/Generated)
fi
(cd lean && lake build)
cp /repo/go.sum harness/go.sum
(cd harness && go build -tags verif -o ../.build/waspharness . && go build -race -tags verif -o ../.build/waspharness-race .)
echo setup ok

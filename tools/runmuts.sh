#!/bin/bash
# usage: tools/runmuts.sh <dir-with-Cxx/mK/patch.diff> [ids...] — apply each seeded change, run the owning property's quick check
root="$1"; shift
ids="$@"
[ -z "$ids" ] && ids=$(ls "$root")
cd /verif
for id in $ids; do
  for m in "$root/$id"/m*; do
    [ -f "$m/patch.diff" ] || continue
    if ! git -C /repo apply --check "$m/patch.diff" 2>/dev/null; then echo "$id/$(basename $m): PATCH-DOES-NOT-APPLY"; continue; fi
    git -C /repo apply "$m/patch.diff"
    out=$(timeout 1500 ./check "$id" 2>&1)
    rc=$?
    v=$(echo "$out" | grep -c "^VIOLATION")
    first=$(echo "$out" | grep -A1 "^VIOLATION" | sed -n 2p | cut -c1-160)
    echo "$id/$(basename $m): rc=$rc violations=$v $first"
    git -C /repo checkout -- .
  done
done

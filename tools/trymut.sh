#!/bin/bash
# usage: tools/trymut.sh <patch.diff> [-R] <property-id>...   — apply a seeded change to /repo, run quick checks, undo it
patch="$1"; shift
rev=""
if [ "$1" = "-R" ]; then rev="-R"; shift; fi
cd /verif
if ! git -C /repo apply $rev "$patch"; then echo "PATCH DOES NOT APPLY"; exit 3; fi
for id in "$@"; do
  echo "--- $id with $(basename $(dirname $patch))/$(basename $patch) $rev"
  timeout 1800 ./check "$id" 2>&1 | grep -E "VIOLATION|KNOWN-FINDING|^OK|broken:|^  \[" | head -8
done
git -C /repo checkout -- . ; git -C /repo status --short | head -3

#!/usr/bin/env python3
"""Confirm seeded changes in a scratch worktree of /repo: (c) patch compiles + existing suite passes, (b) demo fails with the
patch, (a) demo passes without it. Confirmed ones are stored as /verif/seeded/<name>/ (patch.diff, demo files, meta.json)."""
import json, os, re, shutil, subprocess, sys
SRC = sys.argv[1] if len(sys.argv) > 1 else "/tmp/mut/out"
TAG = sys.argv[2] if len(sys.argv) > 2 else ""        # e.g. "r2": stored as <property>-r2m1
WT = "/tmp/seedwt"
ENV = dict(os.environ, GOFLAGS="-mod=mod", GOPROXY="off", GOSUMDB="off", GOTOOLCHAIN="local")
props = {json.loads(l)["id"]: json.loads(l) for l in open("/verif/properties.jsonl")}


def sh(cmd, cwd=WT, timeout=900):
    p = subprocess.run(cmd, shell=True, cwd=cwd, env=ENV, stdout=subprocess.PIPE, stderr=subprocess.STDOUT, text=True, timeout=timeout)
    return p.returncode, p.stdout


subprocess.run(f"git -C /repo worktree remove --force {WT}", shell=True, stderr=subprocess.DEVNULL)
subprocess.check_call(f"git -C /repo worktree add -q --detach {WT} HEAD", shell=True)
results = []
try:
    for pid in sorted(os.listdir(SRC)):
        if not os.path.isdir(os.path.join(SRC, pid)):
            continue
        for m in sorted(os.listdir(os.path.join(SRC, pid))):
            d = os.path.join(SRC, pid, m)
            patch = os.path.join(d, "patch.diff")
            if not os.path.isfile(patch):
                continue
            name = f"{pid}-{TAG}{m}"
            demo = open(os.path.join(d, "DEMO.txt")).read() if os.path.exists(os.path.join(d, "DEMO.txt")) else ""
            copies = re.findall(r"(\S+\.go)\s*->\s*(?:<(?:worktree|tree)>/)?(\S+)", demo)
            copies = [(a, re.sub(r"^/tmp/\S*?/wt/C\d+/", "", b)) for a, b in copies]
            cmds = [c.strip() for c in re.findall(r"^\s*(go test [^\n]*)", demo, re.M)]
            res = {"name": name, "property": pid, "copies": copies, "cmds": cmds[:2]}
            sh("git checkout -q -- . && git clean -fdq")
            rc, out = sh(f"git apply --check {patch}")
            if rc != 0:
                res["status"] = "patch-does-not-apply"
                results.append(res); print(name, res["status"]); continue
            sh(f"git apply {patch}")
            rc1, o1 = sh("go build ./... && go test -count=1 ./... 2>&1 | tail -15")
            res["suite_with_patch_passes"] = rc1 == 0 and "FAIL" not in o1
            for src, dst in copies:
                os.makedirs(os.path.dirname(os.path.join(WT, dst)), exist_ok=True)
                shutil.copy(os.path.join(d, src), os.path.join(WT, dst))
            fails_with = False
            for c in cmds[:2]:
                rc2, o2 = sh(c + " 2>&1 | tail -30", timeout=600)
                if "FAIL" in o2 or "panic" in o2:
                    fails_with = True
            res["demo_fails_with_patch"] = fails_with
            sh(f"git apply -R {patch}")
            passes_without = bool(cmds)
            for c in cmds[:2]:
                rc3, o3 = sh(c + " 2>&1 | tail -30", timeout=600)
                if "FAIL" in o3 or "panic:" in o3 or "ok" not in o3:
                    passes_without = False
            res["demo_passes_without_patch"] = passes_without
            res["status"] = "confirmed" if (res["suite_with_patch_passes"] and fails_with and passes_without) else "not-confirmed"
            results.append(res)
            print(name, res["status"], {k: v for k, v in res.items() if k.startswith(("suite", "demo"))}, flush=True)
            if res["status"] == "confirmed":
                dst = os.path.join("/verif/seeded", name)
                os.makedirs(dst, exist_ok=True)
                shutil.copy(patch, os.path.join(dst, "patch.diff"))
                for f in os.listdir(d):
                    if f.endswith(".go") or f in ("DEMO.txt", "README.md"):
                        shutil.copy(os.path.join(d, f), os.path.join(dst, f))
                readme = open(os.path.join(d, "README.md")).read() if os.path.exists(os.path.join(d, "README.md")) else ""
                meta = {"round": TAG or "r1", "breaks_property": pid, "property_title": props[pid]["title"], "source": "written by a fresh sub-agent that saw only the property text and a scratch worktree",
                        "needs_to_manifest": (re.search(r"(?is)(trigger|needs|manifest)[^\n]*\n(.{0,600})", readme) or [None, None, ""])[2].strip()[:600],
                        "confirmed_by": {"worktree": "scratch git worktree of /repo HEAD (removed afterwards)",
                                         "go build + go test ./... with patch": "pass", "demonstration with patch": "fails", "demonstration without patch": "passes",
                                         "commands": cmds[:2]}}
                json.dump(meta, open(os.path.join(dst, "meta.json"), "w"), indent=1)
finally:
    subprocess.run(f"git -C /repo worktree remove --force {WT}", shell=True)
json.dump(results, open(f"/verif/seeded/confirmation{('-' + TAG) if TAG else ''}.json", "w"), indent=1)
print(sum(1 for r in results if r["status"] == "confirmed"), "confirmed of", len(results))

#!/usr/bin/env python3
"""Regenerates MANIFEST.json from the table below (kept in one place so it is always valid)."""
import json, os, subprocess
V = os.path.dirname(os.path.dirname(os.path.abspath(__file__)))
props = [json.loads(l) for l in open(os.path.join(V, "properties.jsonl"))]
CLAIMS = json.load(open(os.path.join(V, "tools", "claims.json")))
hooks_commits = subprocess.run(["git", "-C", "/repo", "log", "--format=%H %s"], stdout=subprocess.PIPE, text=True).stdout.split("\n")
hooks_commits = [l.split()[0] for l in hooks_commits if l[41:].startswith("verif hooks")]
checks, na = [], []
for p in props:
    pid = p["id"]
    c = CLAIMS.get(pid)
    if not c or not c.get("claimed"):
        na.append({"property_id": pid, "reason": (c or {}).get("reason", "no check built yet for this property in this round; see DESIGN.md")})
        continue
    checks.append({
        "property_id": pid,
        "quick_cmd": f"./check {pid} --tier quick",
        "thorough_cmd": f"./check {pid} --tier thorough",
        "evidence_file": f"/verif/evidence/{pid}.json",
        "replay_cmd_template": f"./check {pid} --replay {{path}}",
        "engine": "lean4-model+correspondence",
        "level_claimed": {"category": "proof", "text": c["text"], "design_ref": c.get("design_ref", f"DESIGN.md §4 {pid}")},
        "level_note": c["note"],
        "technique": c["technique"],
    })
m = {
    "version": 1,
    "setup_cmd": "./setup.sh",
    "hooks": {"guard": "verif", "enable": "go build -tags verif (Go build tag; hook files are named verif_hooks.go)",
              "baseline_off_cmd": "cd /repo && GOFLAGS=-mod=mod GOPROXY=off GOSUMDB=off go test -json -vet=off -count=1 ./...",
              "source_commits": hooks_commits, "add_only": True},
    "engines": [{"name": "lean4-model+correspondence", "path": "/verif/lean, /verif/harness, /verif/extract, /verif/check",
                 "serves_properties": [c["property_id"] for c in checks],
                 "kind_free_text": "Lean 4 models + kernel-checked theorems; models tied to /repo on every run by a regenerating extractor and by differential correspondence with the real Go code (in-process harness, build tag verif)"}],
    "checks": checks,
    "not_applicable": na,
    "notes": "See DESIGN.md. Every check rebuilds harness + generated Lean from /repo's working tree. known_findings.json lists recorded/fixed defects.",
}
json.dump(m, open(os.path.join(V, "MANIFEST.json"), "w"), indent=1)
print("claimed", [c["property_id"] for c in checks])

import Wasp.Model.IdPool

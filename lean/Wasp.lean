import Wasp.Model.IdPool
import Wasp.Model.Topic
import Wasp.Model.Trie
import Wasp.Model.Crdt
import Wasp.Model.Dist

/-! The handful of Go primitives the regenerated definitions (Wasp/Generated/Translated.lean)
    are expressed in. Byte slices are `List Char` (the separator '/' is ASCII, so byte- and
    character-level splitting agree on valid UTF-8). -/
namespace Go

/-- what a crdt.Entry exposes: the two timestamps -/
structure Stamp where
  added : Int
  deleted : Int
deriving Repr, DecidableEq, BEq

/-- protobuf getters answer 0 on a nil receiver -/
def getLastAdded : Option Stamp → Int
  | some s => s.added
  | none => 0
def getLastDeleted : Option Stamp → Int
  | some s => s.deleted
  | none => 0

def isNil {α : Type} : Option α → Bool
  | none => true
  | some _ => false

/-- bytes.IndexByte: index of the first occurrence, -1 if absent -/
def indexByte : List Char → Char → Int
  | [], _ => -1
  | c :: cs, x => if c = x then 0 else
      let r := indexByte cs x
      if r < 0 then -1 else r + 1

def len {α : Type} (l : List α) : Int := l.length
/-- `t[i:]` (panics in Go when out of range; callers stay in range) -/
def sliceFrom {α : Type} (l : List α) (i : Int) : List α := l.drop i.toNat
/-- `t[:j]` -/
def sliceTo {α : Type} (l : List α) (j : Int) : List α := l.take j.toNat
/-- `t[i:j]` -/
def slice {α : Type} (l : List α) (i j : Int) : List α := (l.take j.toNat).drop i.toNat

end Go

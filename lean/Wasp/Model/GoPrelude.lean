/-! The handful of Go primitives the regenerated definitions (Wasp/Generated/Translated.lean)
    are expressed in. Byte slices are `List Char` (the separator '/' is ASCII, so byte- and
    character-level splitting agree on valid UTF-8). -/
namespace Go

/-- what a crdt.Entry exposes: the two timestamps -/
structure Stamp where
  added : Int
  deleted : Int
deriving Repr, DecidableEq, BEq

/-- protobuf getters answer 0 on a nil receiver -/
def getLastAdded : Option Stamp → Int
  | some s => s.added
  | none => 0
def getLastDeleted : Option Stamp → Int
  | some s => s.deleted
  | none => 0

def isNil {α : Type} : Option α → Bool
  | none => true
  | some _ => false

/-- bytes.IndexByte: index of the first occurrence, -1 if absent -/
def indexByte : List Char → Char → Int
  | [], _ => -1
  | c :: cs, x => if c = x then 0 else
      let r := indexByte cs x
      if r < 0 then -1 else r + 1

@[reducible] def len {α : Type} (l : List α) : Int := l.length
/-- `t[i:]` (panics in Go when out of range; callers stay in range) -/
def sliceFrom {α : Type} (l : List α) (i : Int) : List α := l.drop i.toNat
/-- `t[:j]` -/
def sliceTo {α : Type} (l : List α) (j : Int) : List α := l.take j.toNat
/-- `t[i:j]` -/
def slice {α : Type} (l : List α) (i j : Int) : List α := (l.take j.toNat).drop i.toNat

/-! ### primitives of the imperative subset (Wasp/Generated/*Lit.lean)

The literal translations return `Option`: `none` = the Go code panics with an index or
slice bound out of range. Every `a[i]` / `s[a:b]` is guarded by one of the `…Ok`/`inRange`
tests below before its (total) value function is used. -/

/-- the comparison operators as Bool-valued functions -/
def lt (a b : Int) : Bool := decide (a < b)
def le (a b : Int) : Bool := decide (a ≤ b)
def gt (a b : Int) : Bool := decide (a > b)
def ge (a b : Int) : Bool := decide (a ≥ b)
def eq {α : Type} [DecidableEq α] (a b : α) : Bool := decide (a = b)
def ne {α : Type} [DecidableEq α] (a b : α) : Bool := decide (a ≠ b)

/-- Go `string` values are Lean `String`s. Go orders strings byte-wise (on their UTF-8 bytes), Lean's
    `String` order is the lexicographic order of the code points (`s < t ↔ s.toList < t.toList`);
    UTF-8 preserves the code-point order, so the two agree on every Go string that is valid UTF-8
    (in particular on the ASCII hex fingerprints of wasp/auth). Strings that are not valid UTF-8
    have no counterpart here. -/
def strLt (a b : String) : Bool := decide (a < b)
def strLe (a b : String) : Bool := decide (a ≤ b)
def strGt (a b : String) : Bool := decide (a > b)
def strGe (a b : String) : Bool := decide (a ≥ b)
/-- strings.Compare: `if a == b { return 0 }; if a < b { return -1 }; return +1` -/
def strCompare (a b : String) : Int := if a = b then 0 else if a < b then -1 else 1

/-- a `[]byte` value the translated code hands on without looking into it (an argument of an
    external function, a `[]byte(s)` conversion): no index, slice, append or len on it -/
abbrev Bytes := List UInt8
/-- `[]byte(s)`: the UTF-8 bytes of `s` (character by character, so that the kernel can evaluate it) -/
def bytesOfString (s : String) : Bytes := s.toList.flatMap String.utf8EncodeChar

/-- an `error` value of the subset: `nil`, or a package-level `var ErrX = errors.New("…")`, which is
    identified by its NAME (errors.New yields a distinct value at every call, whatever the message) -/
inductive Error where
  | nil
  | sentinel (name : String)
deriving Repr, DecidableEq, Inhabited

/-- `a[i]` does not panic -/
def inRange {α : Type} (l : List α) (i : Int) : Bool := decide (0 ≤ i) && decide (i < len l)
/-- `a[i]` (guarded by `inRange`) -/
def index {α : Type} [Inhabited α] (l : List α) (i : Int) : α := l[i.toNat]?.getD default
/-- `a[i] = v` (guarded by `inRange`) as a functional update -/
def set {α : Type} (l : List α) (i : Int) (v : α) : List α := l.set i.toNat v
/-- `s[i:]` does not panic -/
def sliceFromOk {α : Type} (l : List α) (i : Int) : Bool := decide (0 ≤ i) && decide (i ≤ len l)
/-- `s[:j]` does not panic; Go allows `j ≤ cap s`, the translation deliberately demands `j ≤ len s`:
    code that relies on spare capacity is not accepted silently -/
def sliceToOk {α : Type} (l : List α) (j : Int) : Bool := decide (0 ≤ j) && decide (j ≤ len l)
/-- `s[i:j]` does not panic (same restriction to `len`) -/
def sliceOk {α : Type} (l : List α) (i j : Int) : Bool :=
  decide (0 ≤ i) && decide (i ≤ j) && decide (j ≤ len l)

/-- the loop of sort.Search:  for i < j { h := int(uint(i+j) >> 1); if !f(h) { i = h + 1 } else { j = h } } -/
def searchLoop (f : Int → Bool) : Nat → Int → Int → Int
  | 0, i, _ => i
  | fuel + 1, i, j =>
    if i < j then
      let h := (i + j) / 2
      if !f h then searchLoop f fuel (h + 1) j else searchLoop f fuel i h
    else i

/-- sort.Search(n, f): literally Go's binary search (i, j := 0, n; the loop; return i).
    The interval halves on every turn, so `n + 1` turns of fuel are never exhausted. -/
def search (n : Int) (f : Int → Bool) : Int := searchLoop f (n.toNat + 1) 0 n

/-- `p i` for every `i` in `[0, n)`: the guard of a closure handed to sort.Search -/
def forallBelow (n : Int) (p : Int → Bool) : Bool := (List.range n.toNat).all (fun k => p (k : Int))

/-- `interface{}` values on which the translated code only uses `==`/`!=`. The only dynamic type
    that reaches these places is `string` (the ack queue's hash keys), whose comparison never panics. -/
abbrev Any := String

/-- insertion into a list sorted by `less`: `x` goes behind the leading elements that are less than it -/
def insertBy {α : Type} (less : α → α → Bool) (x : α) : List α → List α
  | [] => [x]
  | y :: ys => if less y x then y :: insertBy less x ys else x :: y :: ys

/-- sort.SliceStable(s, less) as a stable insertion sort (folding from the right: an element goes
    in front of the elements that are not less than it, so equal elements keep their order).
    For a strict weak order `less` every stable sort yields this list. -/
def sortStableBy {α : Type} (less : α → α → Bool) (l : List α) : List α := l.foldr (insertBy less) []

/-- outcome of one turn of a `for` loop: go on with the new state, the condition was false,
    or the body executed `return r` -/
inductive Ctl (σ ρ : Type) where
  | next (s : σ)
  | done (s : σ)
  | ret (r : ρ)

/-- `for ; cond; post { body }`: at most `fuel` turns of `turn` (condition, body, post);
    `none` = a panic in a turn, or the bound `fuel` exceeded -/
def loop {σ ρ : Type} : Nat → σ → (σ → Option (Ctl σ ρ)) → Option (Ctl σ ρ)
  | 0, _, _ => none
  | fuel + 1, s, turn =>
    match turn s with
    | some (Ctl.next s') => loop fuel s' turn
    | r => r

end Go

import Wasp.Model.Crdt
import Wasp.Model.Topic
/-
Model of wasp/distributed/{sessions,subscriptions,topics,state}.go — the three
gossip-replicated LWW element sets of one node, their local operations (each yields the
broadcast it queues), merge of received events, and full-state snapshots.

The two tries are used through their proven abstraction (Properties/C19, C01, C07):
a map from full topic string to value, `Walk`/`Match` = filtering keys with `mqttMatch`.
Go maps are association lists; results that come out of a Go map are compared as sorted
lists by the driver.
`now` is the value the package clock returns during the operation.
-/
namespace Wasp.Dist
open Wasp.Crdt Wasp.Topic

structure Will where
  topic : String
  payload : String
  qos : Nat
  retain : Bool
deriving Repr, DecidableEq, BEq

structure SessionMD where
  id : String
  client : String
  mount : String
  peer : Nat
  connectedAt : Int
  lwt : Option Will
  added : Int
  deleted : Int
deriving Repr, DecidableEq, BEq

structure Sub where
  session : String
  pattern : String
  peer : Nat
  qos : Int
  added : Int
  deleted : Int
deriving Repr, DecidableEq, BEq

/-- api.RetainedMessage; `hasPublish = false` models a nil Publish (invalid payload) -/
structure Retained where
  topic : String
  payload : String
  qos : Nat
  retain : Bool
  dup : Bool
  hasPublish : Bool := true
  added : Int
  deleted : Int
deriving Repr, DecidableEq, BEq

def SessionMD.stamp (s : SessionMD) : Stamp := ⟨s.added, s.deleted⟩
def Sub.stamp (s : Sub) : Stamp := ⟨s.added, s.deleted⟩
def Retained.stamp (s : Retained) : Stamp := ⟨s.added, s.deleted⟩

/-- api.StateBroadcastEvent -/
structure Event where
  sessions : List SessionMD := []
  subs : List Sub := []
  retained : List Retained := []
deriving Repr, DecidableEq, BEq

def Event.append (a b : Event) : Event :=
  ⟨a.sessions ++ b.sessions, a.subs ++ b.subs, a.retained ++ b.retained⟩

structure State where
  peer : Nat
  sessions : List SessionMD := []            -- keyed by id
  subs : List (String × List Sub) := []      -- subscription trie: pattern ↦ SubscriptionList
  topics : List (String × Retained) := []    -- retained trie: topic ↦ RetainedMessage
deriving Repr

/-! ### sessions.go -/

def sessLookup (id : String) : List SessionMD → Option SessionMD
  | [] => none
  | s :: rest => if s.id = id then some s else sessLookup id rest

def sessSet (s : SessionMD) : List SessionMD → List SessionMD
  | [] => [s]
  | x :: rest => if x.id = s.id then s :: rest else x :: sessSet s rest

/-- mergeSessions: stops at the first invalid entry (what came before stays applied) -/
def mergeSessions : List SessionMD → List SessionMD → List SessionMD
  | [], st => st
  | s :: rest, st =>
    if s.id = "" then st
    else
      let outdated : Bool := match sessLookup s.id st with
        | none => true
        | some loc => isOutdated loc.stamp s.stamp
      mergeSessions rest (if outdated then sessSet s st else st)

inductive Err where
  | none | exists_ | notFound | invalid
deriving Repr, DecidableEq

def sessCreate (st : State) (now : Int) (id client : String) (connectedAt : Int) (lwt : Option Will) (mount : String) :
    State × Option Event × Err :=
  match sessLookup id st.sessions with
  | some s => if isAdded s.stamp then (st, none, .exists_) else
      let s' : SessionMD := ⟨id, client, mount, st.peer, connectedAt, lwt, now, 0⟩
      ({ st with sessions := sessSet s' st.sessions }, some { sessions := [s'] }, .none)
  | none =>
      let s' : SessionMD := ⟨id, client, mount, st.peer, connectedAt, lwt, now, 0⟩
      ({ st with sessions := sessSet s' st.sessions }, some { sessions := [s'] }, .none)

def sessDelete (st : State) (now : Int) (id : String) : State × Option Event :=
  match sessLookup id st.sessions with
  | none => (st, none)
  | some s =>
    if isRemoved s.stamp then (st, none)
    else
      let s' := { s with deleted := now }
      ({ st with sessions := sessSet s' st.sessions }, some { sessions := [s'] })

def sessFilter (st : State) (f : SessionMD → Bool) : List SessionMD :=
  st.sessions.filter (fun s => isAdded s.stamp && f s)

def sessAll (st : State) : List SessionMD := sessFilter st (fun _ => true)
def sessByPeer (st : State) (p : Nat) : List SessionMD := sessFilter st (fun s => s.peer == p)
/-- every record ByClientID may return (Go iterates a map: any of them) -/
def sessByClientID (st : State) (mount client : String) : List SessionMD :=
  sessFilter st (fun s => s.mount == mount && s.client == client)
def sessGet (st : State) (id : String) : Option SessionMD :=
  match sessLookup id st.sessions with
  | some s => if isAdded s.stamp then some s else none
  | none => none

/-- DeletePeer: always queues a broadcast, possibly empty -/
def sessDeletePeer (st : State) (now : Int) (p : Nat) : State × Event :=
  let victims := (sessByPeer st p).map (fun s => { s with deleted := now })
  ({ st with sessions := victims.foldl (fun acc s => sessSet s acc) st.sessions }, { sessions := victims })

/-! ### subscriptions.go -/

def subsLookup (pat : String) : List (String × List Sub) → List Sub
  | [] => []
  | (k, l) :: rest => if k = pat then l else subsLookup pat rest

def subsAssign (pat : String) (l : List Sub) : List (String × List Sub) → List (String × List Sub)
  | [] => [(pat, l)]
  | (k, l') :: rest => if k = pat then (pat, l) :: rest else (k, l') :: subsAssign pat l rest

/-- the found / replace-if-outdated / append loop of subscriptionsState.set.
    Returns (new list, found) -/
def subListSet (s : Sub) : List Sub → List Sub × Bool
  | [] => ([], false)
  | x :: rest =>
    if x.session = s.session then
      if isOutdated x.stamp s.stamp then (s :: rest, true)   -- replace, break
      else
        let (r, _) := subListSet s rest
        (x :: r, true)
    else
      let (r, f) := subListSet s rest
      (x :: r, f)

def subsSet (s : Sub) (m : List (String × List Sub)) : List (String × List Sub) :=
  let (l, found) := subListSet s (subsLookup s.pattern m)
  subsAssign s.pattern (if found then l else l ++ [s]) m

def mergeSubs : List Sub → List (String × List Sub) → List (String × List Sub)
  | [], m => m
  | s :: rest, m => if s.session = "" ∨ s.pattern = "" then m else mergeSubs rest (subsSet s m)

/-- Create / CreateFrom (the peer argument of CreateFrom is ignored by the code) -/
def subCreate (st : State) (now : Int) (session pattern : String) (qos : Int) : State × Event :=
  let s : Sub := ⟨session, pattern, st.peer, qos, now, 0⟩
  ({ st with subs := subsSet s st.subs }, { subs := [s] })

def subDelete (st : State) (now : Int) (session pattern : String) : State × Event :=
  let s : Sub := ⟨session, pattern, st.peer, 0, 0, now⟩
  ({ st with subs := subsSet s st.subs }, { subs := [s] })

def subFilter (st : State) (f : Sub → Bool) : List Sub :=
  st.subs.flatMap (fun kl => kl.2.filter (fun s => isAdded s.stamp && f s))

def subAll (st : State) : List Sub := subFilter st (fun _ => true)
def subByPeer (st : State) (p : Nat) : List Sub := subFilter st (fun s => s.peer == p)

/-- ByPattern(topic): Walk = the entries whose key, read as a filter, matches the topic -/
def subByPattern (st : State) (topic : String) : List Sub :=
  (st.subs.filter (fun kl => mqttMatch (levels kl.1) (levels topic))).flatMap
    (fun kl => kl.2.filter (fun s => isAdded s.stamp))

def subBulkDelete (st : State) (now : Int) (f : Sub → Bool) : State × Event :=
  let victims := (subFilter st f).map (fun s => { s with deleted := now })
  ({ st with subs := victims.foldl (fun acc s => subsSet s acc) st.subs }, { subs := victims })

def subDeletePeer (st : State) (now : Int) (p : Nat) : State × Event := subBulkDelete st now (fun s => s.peer == p)
def subDeleteSession (st : State) (now : Int) (id : String) : State × Event := subBulkDelete st now (fun s => s.session == id)

/-! ### topics.go -/

def topicsAssign (t : String) (r : Retained) : List (String × Retained) → List (String × Retained)
  | [] => [(t, r)]
  | (k, r') :: rest => if k = t then (t, r) :: rest else (k, r') :: topicsAssign t r rest

/-- topicsState.get(pattern): Match = entries whose topic matches the pattern -/
def topicsGetAll (m : List (String × Retained)) (pattern : String) : List Retained :=
  (m.filter (fun kr => mqttMatch (levels pattern) (levels kr.1))).map (·.2)

/-- mergeMessages; `none` = aborted with an error at this entry (earlier entries stay applied) -/
def mergeRetained : List Retained → List (String × Retained) → List (String × Retained)
  | [], m => m
  | r :: rest, m =>
    if !r.hasPublish ∨ r.topic = "" then m
    else
      let loc := topicsGetAll m r.topic
      if loc.length > 1 then m
      else
        let outdated : Bool := match loc with
          | [l] => isOutdated l.stamp r.stamp
          | _ => true
        let m' := if outdated && (isAdded r.stamp || isRemoved r.stamp) then topicsAssign r.topic r m else m
        mergeRetained rest m'

def topicSet (st : State) (now : Int) (topic payload : String) (qos : Nat) (retain dup : Bool) : State × Event :=
  let r : Retained := { topic, payload, qos, retain, dup, added := now, deleted := 0 }
  ({ st with topics := topicsAssign topic r st.topics }, { retained := [r] })

def topicDelete (st : State) (now : Int) (topic : String) : State × Event :=
  let r : Retained := { topic, payload := "", qos := 0, retain := false, dup := false, added := 0, deleted := now }
  ({ st with topics := topicsAssign topic r st.topics }, { retained := [r] })

def topicGet (st : State) (pattern : String) : List Retained :=
  (topicsGetAll st.topics pattern).filter (fun r => isAdded r.stamp)

/-! ### state.go -/

/-- MergeRemoteState / NotifyMsg -/
def merge (st : State) (ev : Event) : State :=
  { st with sessions := mergeSessions ev.sessions st.sessions,
            subs := mergeSubs ev.subs st.subs,
            topics := mergeRetained ev.retained st.topics }

/-- LocalState: every stored entry, removed ones included -/
def snapshot (st : State) : Event :=
  { sessions := st.sessions, subs := st.subs.flatMap (·.2), retained := st.topics.map (·.2) }

end Wasp.Dist

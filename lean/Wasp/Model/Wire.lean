import Wasp.Model.Broker
/-
Model of the byte-level path from a client connection into the broker:
  vx-labs/mqtt-protocol decoder (fixed header, remaining length, per-type unmarshal) as used by
  wasp/conn.go (setupWorker.setup, connectionWorker.processSession) — MODELLED, not verified
  (the decoder lives in the module cache); every slice / index expression of the Go code is
  rendered with its bound check, so that an out-of-range access is the explicit outcome
  `panic`, a decoder error is `err`, and what `setup` / `processSession` do with either (the
  `recover` added to both) is part of this model.

Bytes are `Nat`s below 256. A byte string maps to a `String` byte-for-char (Latin-1 style):
only equality and splitting at '/' matter to the broker.
-/
namespace Wasp.Wire
open Wasp.Broker Wasp.Dist

abbrev Bytes := List Nat

def str (b : Bytes) : String := String.ofList (b.map Char.ofNat)

/-- binary.BigEndian.Uint16: `none` = index out of range (panic) -/
def u16 : Bytes → Option Nat
  | a :: b :: _ => some (a * 256 + b)
  | _ => none

/-- packet.decodeLP: length-prefixed field; `none` = error (buffer too short) -/
def decodeLP (b : Bytes) : Option (Bytes × Bytes) :=
  match b with
  | a :: c :: rest =>
    let size := a * 256 + c
    if rest.length < size then none else some (rest.take size, rest.drop size)
  | _ => none

inductive DRes where
  | pkt (p : CPkt)
  | connect (client user pass : String) (keepalive : Nat) (will : Option Will)
  | err
  | panic
deriving Repr

/-- countSubscribeTopics -/
def countSubTopics : Nat → Bytes → Option Nat
  | 0, _ => none
  | fuel + 1, b =>
    if b.length < 3 then none
    else
      match b with
      | a :: c :: _ =>
        let next := 2 + (a * 256 + c) + 1
        if next = b.length then some 1
        else if b.length < next then none
        else (countSubTopics fuel (b.drop next)).map (· + 1)
      | _ => none

def readSubTopics : Nat → Bytes → Option (List (String × Nat))
  | 0, _ => some []
  | fuel + 1, b =>
    if b.isEmpty then some []
    else
      match decodeLP b with
      | none => none
      | some (t, rest) =>
        match rest with
        | q :: rest' => (readSubTopics fuel rest').map ((str t, q) :: ·)
        | [] => none

/-- countUnsubscribeTopics: `none` = panic (Uint16 on a short buffer, or slicing past the end) -/
def countUnsubTopics : Nat → Bytes → Option Nat
  | 0, _ => none
  | fuel + 1, b =>
    match b with
    | a :: c :: _ =>
      let next := 2 + (a * 256 + c)
      if next = b.length then some 1
      else if b.length < next then none
      else (countUnsubTopics fuel (b.drop next)).map (· + 1)
    | _ => none

def readUnsubTopics : Nat → Bytes → Option (List String)
  | 0, _ => some []
  | fuel + 1, b =>
    if b.isEmpty then some []
    else
      match decodeLP b with
      | none => none
      | some (t, rest) => (readUnsubTopics fuel rest).map (str t :: ·)

def hexOf (b : Bytes) : String :=
  let hexDigit (n : Nat) : Char := if n < 10 then Char.ofNat (48 + n) else Char.ofNat (87 + n)
  String.ofList (b.foldr (fun x acc => hexDigit (x / 16) :: hexDigit (x % 16) :: acc) [])

/-- unmarshalConnect -/
def decodeConnect (b : Bytes) : DRes :=
  match decodeLP b with
  | none => .err
  | some (name, r1) =>
    match r1 with
    | [] => .panic                                  -- buff[total] (protocol version)
    | ver :: r2 =>
      if !((ver = 3 ∧ str name = "MQIsdp") ∨ (ver = 4 ∧ str name = "MQTT")) then .err
      else
        match r2 with
        | [] => .panic                              -- buff[total] (flags)
        | flags :: r3 =>
          match u16 r3 with
          | none => .panic                          -- Uint16(buff[total:]) (keep-alive)
          | some ka =>
            let r4 := r3.drop 2
            match decodeLP r4 with
            | none => .err
            | some (cid, r5) =>
              let hasWill := (flags / 4) % 2 = 1
              let willRetain := (flags / 32) % 2 = 1
              let willQos := (flags / 8) % 4
              let hasUser := (flags / 128) % 2 = 1
              let hasPass := (flags / 64) % 2 = 1
              let afterWill : Option (Option (Bytes × Bytes) × Bytes) :=
                if hasWill then
                  match decodeLP r5 with
                  | none => none
                  | some (wt, r6) =>
                    match decodeLP r6 with
                    | none => none
                    | some (wp, r7) => some (some (wt, wp), r7)
                else some (none, r5)
              match afterWill with
              | none => .err
              | some (will, r8) =>
                let afterUser : Option (Bytes × Bytes) :=
                  if hasUser then decodeLP r8 else some ([], r8)
                match afterUser with
                | none => .err
                | some (user, r9) =>
                  let afterPass : Option (Bytes × Bytes) :=
                    if hasPass then decodeLP r9 else some ([], r9)
                  match afterPass with
                  | none => .err
                  | some (pass, _) =>
                    -- sessions.processConnect: a will is registered only when its topic is non-empty
                    let w : Option Will := match will with
                      | some (wt, wp) => if wt.isEmpty then none else some ⟨str wt, hexOf wp, willQos, willRetain⟩
                      | none => none
                    .connect (str cid) (str user) (str pass) (if ka = 0 then 30 else ka) w

/-- unmarshalPacket for a complete body -/
def decodeBody (ptype flags : Nat) (body : Bytes) : DRes :=
  let retain := flags % 2 = 1
  let qos := (flags / 2) % 4
  let dup := (flags / 8) % 2 = 1
  match ptype with
  | 1 => decodeConnect body
  | 2 => if body.length < 2 then .err else .pkt .other
  | 3 =>
    match decodeLP body with
    | none => .err
    | some (topic, rest) =>
      if qos > 0 then
        match u16 rest with
        | none => .panic
        | some mid => .pkt (.publish (str topic) (hexOf (rest.drop 2)) qos retain dup mid)
      else .pkt (.publish (str topic) (hexOf rest) qos retain dup 0)
  | 4 => match u16 body with | none => .panic | some m => .pkt (.puback m)
  | 5 => match u16 body with | none => .panic | some m => .pkt (.pubrec m)
  | 6 => match u16 body with | none => .panic | some m => .pkt (.pubrel m)
  | 7 => match u16 body with | none => .panic | some m => .pkt (.pubcomp m)
  | 8 =>
    match u16 body with
    | none => .panic
    | some mid =>
      match countSubTopics (body.length + 1) (body.drop 2) with
      | none => .err
      | some _ =>
        match readSubTopics (body.length + 1) (body.drop 2) with
        | none => .err
        | some ts => .pkt (.subscribe mid ts)
  | 9 => match u16 body with | none => .panic | some _ => .pkt .other
  | 10 =>
    match u16 body with
    | none => .panic
    | some mid =>
      match countUnsubTopics (body.length + 1) (body.drop 2) with
      | none => .panic
      | some _ =>
        match readUnsubTopics (body.length + 1) (body.drop 2) with
        | none => .err
        | some ts => .pkt (.unsubscribe mid ts)
  | 12 => .pkt .pingreq
  | 13 => .pkt .other
  | 14 => .pkt .disconnect
  | _ => .err       -- 0, 11 (UNSUBACK), 15: "received unsuported packet type"

/-- readMessageBuffer: the remaining-length bytes. Result: (length, bytes used), `none` = not all there
    yet; a fifth length byte is an index out of range (`panic`). -/
inductive LenRes where
  | need | panic | ok (remlen used : Nat)
deriving Repr

def readRemLen : Nat → Nat → Nat → Bytes → LenRes
  | idx, acc, mult, bs =>
    if idx ≥ 4 then .panic       -- sizeBuf[4:5]: raised before the fifth byte is even read
    else
      match bs with
      | [] => .need
      | b :: rest =>
        if b < 128 then .ok (acc + b * mult) (idx + 1)
        else readRemLen (idx + 1) (acc + (b % 128) * mult) (mult * 128) rest

/-- one attempt to take a packet off the front of the connection's byte buffer -/
inductive Frame where
  | need                               -- incomplete: the reader blocks
  | panic (rest : Bytes)               -- malformed remaining length; `rest` was never read
  | frame (ptype flags : Nat) (body : Bytes) (rest : Bytes)
deriving Repr

def takeFrame (buf : Bytes) : Frame :=
  match buf with
  | [] => .need
  | h :: rest =>
    match readRemLen 0 0 1 rest with
    | .need => .need
    | .panic => .panic (rest.drop 4)
    | .ok remlen used =>
      let after := rest.drop used
      if after.length < remlen then .need
      else .frame (h / 16) (h % 16) (after.take remlen) (after.drop remlen)

/-- the allocation made for one packet body is bounded by the MQTT maximum -/
def maxRemLen : Nat := 268435455

end Wasp.Wire

namespace Wasp.Wire
open Wasp.Broker Wasp.Dist

/-! ### the connection loops: setup (first packet) and processSession (every later packet) -/

def bufOf (w : World) (c : String) : Bytes := ((w.bufs.find? (fun e => e.1 == c)).map (·.2)).getD []
def setBuf (w : World) (c : String) (b : Bytes) : World :=
  { w with bufs := (w.bufs.filter (fun e => e.1 != c)) ++ (if b.isEmpty then [] else [(c, b)]) }

def hasSession (w : World) (c : String) : Bool :=
  match w.conns.find? (fun e => e.1 == c) with
  | some (_, i) => ((w.node i).sess ("S" ++ c)).isSome
  | none => false

/-- the broker ends this connection after a decoder error / panic / protocol violation -/
def failConn (w : World) (c : String) : World :=
  match w.conns.find? (fun e => e.1 == c) with
  | none => w
  | some (_, i) =>
    if hasSession w c then w.shutdownSession i ("S" ++ c)
    else ({ w with conns := w.conns.filter (fun e => e.1 != c) }).emit c .closed

/-- one decoded packet: setup if there is no session yet, processSession otherwise -/
def applyDecoded (w : World) (c : String) (r : DRes) : World :=
  match w.conns.find? (fun e => e.1 == c) with
  | none => w
  | some (_, i) =>
    if hasSession w c then
      match r with
      | .pkt p => w.clientPacket c p
      | .connect .. => w.clientPacket c .connect
      | .err => failConn w c
      | .panic => failConn w c
    else
      match r with
      | .connect client user pass ka will =>
        -- harness authentication: user name = mount point, password must be "ok"
        if pass = "ok" then w.connect c i client user true ka will
        else w.connect c i client user false ka will
      | _ => failConn w c

/-- process whatever complete packets the connection's buffer holds. The Bool says whether the
    client's write completed: it fails when the broker closes the connection while bytes of this
    write are still unread (net.Pipe / TCP reset), or when nobody reads the connection. -/
def pump : Nat → World → String → World × Bool
  | 0, w, _ => (w, true)
  | fuel + 1, w, c =>
    if !(w.conns.any (fun e => e.1 == c)) then
      let leftover := !(bufOf w c).isEmpty
      (setBuf w c [], !leftover)
    else if w.deaf.contains c then (setBuf w c [], (bufOf w c).isEmpty)
    else
      match takeFrame (bufOf w c) with
      | .need => (w, true)
      | .panic rest => (failConn (setBuf w c []) c, rest.isEmpty)
      | .frame t f body rest =>
        let w := setBuf w c rest
        pump fuel (applyDecoded w c (decodeBody t f body)) c

/-- bytes arrive on connection c -/
def rawBytes (w : World) (c : String) (b : Bytes) : World × Bool :=
  if !(w.conns.any (fun e => e.1 == c)) then (w, false)
  else
    let buf := bufOf w c ++ b
    pump (buf.length + 1) (setBuf w c buf) c

/-- the client closes the connection: a body that was only partly received is decoded zero-padded
    (the decoder ignores the short read), then the next read fails -/
def closeFromClientRaw (w : World) (c : String) : World :=
  let buf := bufOf w c
  let w := setBuf w c []
  let w :=
    match buf with
    | [] => w
    | h :: rest =>
      match readRemLen 0 0 1 rest with
      | .ok remlen used =>
        let have_ := rest.drop used
        let body := have_ ++ List.replicate (remlen - have_.length) 0
        applyDecoded w c (decodeBody (h / 16) (h % 16) body)
      | _ => w
  if w.conns.any (fun e => e.1 == c) then
    if hasSession w c then w.drop c
    else ({ w with conns := w.conns.filter (fun e => e.1 != c) }).emit c .closed
  else w.emit c .closed

/-- … and whatever the broker still writes to that connection is lost -/
def closeFromClient (w : World) (c : String) : World :=
  let before := w.out.length
  let w' := closeFromClientRaw w c
  { w' with out := w'.out.take before ++ (w'.out.drop before).filter (fun e => e.1 != c || e.2 == .closed) }

/-- a connection is accepted by a node (no bytes yet) -/
def openConn (w : World) (c : String) (i : Nat) : World :=
  { w with conns := (w.conns.filter (fun (e : String × Nat) => e.1 != c)) ++ [(c, i)],
           hs := (w.hs.filter (fun (e : String × Int) => e.1 != c)) ++ [(c, w.now + 3000)] }

/-- the 3 s read deadline armed for the CONNECT packet fires on connections that have not got a session by then
    (a refused connection is never read again: its deadline has no effect) -/
def expireHandshakes (w : World) : World :=
  w.hs.foldl (fun w e =>
    if e.2 < w.now && w.conns.any (fun x => x.1 == e.1) && !hasSession w e.1 && !w.deaf.contains e.1
    then closeFromClientRaw { w with hs := w.hs.filter (fun x => x.1 != e.1) } e.1
    else w) w

/-- `ms` milliseconds pass: node-failure timers, keep-alive deadlines, CONNECT deadlines -/
def idle (w : World) (ms : Int) : World := expireHandshakes (w.idle ms)

/-- `ms` milliseconds pass for the connections' read deadlines only (the harness moves a virtual clock under the
    connections; the node-failure timers run on the real clock and are not advanced) -/
def elapse (w : World) (ms : Int) : World :=
  idle { w with nodes := w.nodes.map (fun n => { n with timers := n.timers.map (fun t => (t.1 + ms, t.2)) }) } ms

end Wasp.Wire

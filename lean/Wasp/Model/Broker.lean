import Wasp.Model.Dist
import Wasp.Model.AckQueue
import Wasp.Model.IdPool
import Wasp.Model.Topic
/-
Model of the broker as assembled in cmd/wasp/main.go, for 1–3 nodes:
  wasp/conn.go      setup / serve / shutdownSession
  wasp/packets.go   packetProcessor.Process and the publish worker
  wasp/publish.go   PublishDistributor.Distribute, Scheduler
  wasp/writer.go    writer.Run / send / sendQoS1 / sendQoS2 / completeQoS2 and their callbacks
  wasp/nodes.go     NotifyGossipLeave
  wasp/grpc.go      ScheduleMessage / DistributeMessage
on top of the models of the replicated state (Dist), the in-flight table (Ack), the
identifier pool (IdPool) and topic handling (Topic).

Every operation (a packet from a client, a connection event, a gossip delivery, a sweep,
the passing of time) is run to quiescence — the harness observes the real broker only after it
has settled. Observations are the packets written to each client connection and `closed`.
Go-map iteration orders are fixed arbitrarily; the driver sorts each client's packets per step
and numbers broker-chosen packet identifiers per client in content order, as the harness does.
Logical time: `now` (ms) moves only with `idle`; the in-flight deadlines use the epoch scheme of
the harness' synthetic sweeps (a sweep passes every deadline armed before it).
-/
namespace Wasp.Broker
open Wasp.Dist Wasp.Topic

/-- a publish as stored in a message log (topic already inside its mount point) -/
structure Pub where
  topic : String
  payload : String
  qos : Nat
  retain : Bool
  dup : Bool
deriving Repr, DecidableEq, BEq

/-- packets the broker writes to a client -/
inductive Pkt where
  | connack (code : Nat)
  | suback (mid : Int) (qos : List Nat)
  | unsuback (mid : Int)
  | publish (topic payload : String) (qos : Nat) (retain dup : Bool) (mid : Int)
  | puback (mid : Int)
  | pubrec (mid : Int)
  | pubrel (mid : Int)
  | pubcomp (mid : Int)
  | pingresp
  | closed
deriving Repr, DecidableEq, BEq

structure Sess where
  id : String
  conn : String
  client : String
  mount : String
  keepalive : Nat
  will : Option Will
  topics : List String := []     -- filters inside the mount point (AddTopic / RemoveTopic)
  disconnected : Bool := false
  deadline : Int := 0
deriving Repr

/-- what the callback of an in-flight entry closed over -/
inductive Stored where
  | out1 (sess : String) (topic payload : String) (retain dup : Bool) (mid : Int)   -- QoS 1 delivery
  | out2 (sess : String) (topic payload : String) (retain dup : Bool) (mid : Int)   -- QoS 2 delivery, awaiting PUBREC
  | rel (sess : String) (mid : Int)                                                -- PUBREL sent, awaiting PUBCOMP
  | inbound (sess : String) (conn : String) (pub : Pub) (mid : Int)                -- client's QoS 2 publish, awaiting PUBREL
deriving Repr

structure Node where
  peer : Nat
  dist : State
  reg : List Sess := []
  acks : Ack.Queue := {}
  stored : List (Ack.Key × Stored) := []
  pool : IdPool.Pool
  log : List Pub := []
  logCalls : Nat := 0
  logFailAll : Bool := false
  logFailAt : List Nat := []
  pending : List (Nat × Event) := []     -- gossip not yet delivered: (destination index, event)
  timers : List (Int × Nat) := []        -- (fire time, peer): SessionMetadatas.DeletePeer after a node failure
  failed : Bool := false
  unreachable : Bool := false
deriving Repr

structure World where
  nodes : List Node
  out : List (String × Pkt) := []
  clock : Int := 1000          -- the crdt clock: one tick per call
  now : Int := 0               -- wall clock in ms (moves with `idle`)
  epoch : Nat := 0             -- number of synthetic sweeps so far
  conns : List (String × Nat) := []   -- connection name ↦ node index (while the client side is open)
  bufs : List (String × List Nat) := []   -- bytes received on a connection and not yet consumed by the decoder
  deaf : List String := []                -- open connections nobody reads from (CONNECT was refused)
  hs : List (String × Int) := []          -- accepted connections and the deadline for their CONNECT packet (3 s)
deriving Repr

def initPool : IdPool.Pool := (IdPool.get (IdPool.new 0 65535)).1

def World.init (n : Nat) : World :=
  { nodes := (List.range n).map (fun i => { peer := i + 1, dist := { peer := i + 1 }, pool := initPool }) }

/-! ### small helpers -/

def World.node (w : World) (i : Nat) : Node := w.nodes.getD i { peer := 0, dist := { peer := 0 }, pool := initPool }
def World.setNode (w : World) (i : Nat) (n : Node) : World := { w with nodes := w.nodes.set i n }
def World.emit (w : World) (conn : String) (p : Pkt) : World := { w with out := w.out ++ [(conn, p)] }
def World.tick (w : World) : World × Int := ({ w with clock := w.clock + 1 }, w.clock)

def Node.sess (n : Node) (id : String) : Option Sess := n.reg.find? (fun s => s.id == id)
def Node.setSess (n : Node) (s : Sess) : Node := { n with reg := n.reg.map (fun x => if x.id == s.id then s else x) }

def nodeIndexOfPeer (w : World) (peer : Nat) : Option Nat := w.nodes.findIdx? (fun n => n.peer == peer)

/-- queue a broadcast of node i for every other node -/
def World.broadcast (w : World) (i : Nat) (ev : Event) : World :=
  let n := w.node i
  let dests := (List.range w.nodes.length).filter (· != i)
  w.setNode i { n with pending := n.pending ++ dests.map (fun j => (j, ev)) }

def World.extendDeadline (w : World) (i : Nat) (sid : String) : World :=
  let n := w.node i
  match n.sess sid with
  | some s => w.setNode i (n.setSess { s with deadline := w.now + 2 * s.keepalive * 1000 })
  | none => w

def ackDeadline (w : World) : Int := w.epoch * 10000 + 3000

def storedFind (k : Ack.Key) : List (Ack.Key × Stored) → Option Stored
  | [] => none
  | (k', s) :: rest => if k' = k then some s else storedFind k rest

def storedErase (k : Ack.Key) (l : List (Ack.Key × Stored)) : List (Ack.Key × Stored) := l.filter (fun e => e.1 != k)

/-! ### replicated-state operations performed by node i (each queues its broadcast) -/

def World.subCreate (w : World) (i : Nat) (sid pat : String) (qos : Int) : World :=
  let (w, t) := w.tick
  let n := w.node i
  let (d, ev) := Wasp.Dist.subCreate n.dist t sid pat qos
  (w.setNode i { n with dist := d }).broadcast i ev

def World.subDelete (w : World) (i : Nat) (sid pat : String) : World :=
  let (w, t) := w.tick
  let n := w.node i
  let (d, ev) := Wasp.Dist.subDelete n.dist t sid pat
  (w.setNode i { n with dist := d }).broadcast i ev

def World.sessDelete (w : World) (i : Nat) (sid : String) : World :=
  let (w, t) := w.tick
  let n := w.node i
  let (d, ev) := Wasp.Dist.sessDelete n.dist t sid
  let w := w.setNode i { n with dist := d }
  match ev with
  | some e => w.broadcast i e
  | none => w

/-! ### writer -/

/-- sendQoS1 / sendQoS2 / completeQoS2: arm the in-flight entry, then write the packet -/
def World.armAndSend (w : World) (i : Nat) (st : Stored) : World :=
  let n := w.node i
  match st with
  | .out1 sid topic payload retain dup mid =>
    match n.sess sid with
    | none => w
    | some s =>
      let w := w.extendDeadline i sid
      let n := w.node i
      let r := Ack.insert n.acks sid .publish 1 mid (ackDeadline w)
      if r.2 = .ok then
        (w.setNode i { n with acks := r.1, stored := n.stored ++ [(Ack.hashKey sid mid, st)] }).emit s.conn (.publish topic payload 1 retain dup mid)
      else w
  | .out2 sid topic payload retain dup mid =>
    match n.sess sid with
    | none => w
    | some s =>
      let w := w.extendDeadline i sid
      let n := w.node i
      let r := Ack.insert n.acks sid .publish 2 mid (ackDeadline w)
      if r.2 = .ok then
        (w.setNode i { n with acks := r.1, stored := n.stored ++ [(Ack.hashKey sid mid, st)] }).emit s.conn (.publish topic payload 2 retain dup mid)
      else w
  | .rel sid mid =>
    match n.sess sid with
    | none => w
    | some s =>
      let w := w.extendDeadline i sid
      let n := w.node i
      let r := Ack.insert n.acks sid .pubrel 0 mid (ackDeadline w)
      let n' := if r.2 = .ok then { n with acks := r.1, stored := n.stored ++ [(Ack.hashKey sid mid, st)] } else n
      (w.setNode i n').emit s.conn (.pubrel mid)
  | .inbound .. => w

def World.poolPut (w : World) (i : Nat) (mid : Int) : World :=
  let n := w.node i
  w.setNode i { n with pool := IdPool.put n.pool mid }

/-- the insertion of sendQoS1/sendQoS2 failed (`err != nil` branch of send): give the id back -/
def World.sendArmed (w : World) (i : Nat) (st : Stored) (sid : String) (mid : Int) : World :=
  let before := (w.node i).acks.msgs.length
  let w' := w.armAndSend i st
  if (w'.node i).acks.msgs.length = before ∧ ((w.node i).sess sid).isSome then w'.poolPut i mid else w'

/-- writer.send: one packet per recipient; stops when no identifier can be obtained -/
def World.send (w : World) (i : Nat) : List (String × Int) → Pub → World
  | [], _ => w
  | (sid, qos) :: rest, p =>
    let n := w.node i
    match n.sess sid with
    | none => World.send w i rest p
    | some s =>
      let topic := trimMountPoint s.mount p.topic
      if qos = 0 then
        World.send ((w.extendDeadline i sid).emit s.conn (.publish topic p.payload 0 p.retain p.dup 0)) i rest p
      else if qos = 1 ∨ qos = 2 then
        let (pool', mid) := IdPool.get n.pool
        if mid ≤ 0 then w   -- getFree failed: send returns
        else
          let w := w.setNode i { n with pool := pool' }
          let st := if qos = 1 then Stored.out1 sid topic p.payload p.retain p.dup mid else Stored.out2 sid topic p.payload p.retain p.dup mid
          World.send (w.sendArmed i st sid mid) i rest p
      else World.send w i rest p

/-- the callbacks of the in-flight entries, as reactions to a resolution -/
def World.onResolved (w : World) (i : Nat) (ev : Ack.Resolved) (st : Stored) : World :=
  let n := w.node i
  match st with
  | .out1 sid _ _ _ _ mid =>
    if ev.expired ∧ (n.sess sid).isSome then w.armAndSend i st else w.poolPut i mid
  | .out2 sid _ _ _ _ mid =>
    if (n.sess sid).isNone then w.poolPut i mid
    else if ev.expired then w.armAndSend i st
    else w.armAndSend i (.rel sid mid)
  | .rel sid mid =>
    if ev.expired ∧ (n.sess sid).isSome then w.armAndSend i st else w.poolPut i mid
  | .inbound .. => w   -- handled by the caller (needs the publish pipeline)

/-! ### publish pipeline: retain, distribute, schedule, write -/

def Node.appendLog (n : Node) (p : Pub) : Node × Bool :=
  let fails := n.logFailAll || n.logFailAt.contains n.logCalls
  if fails then ({ n with logCalls := n.logCalls + 1 }, false)
  else ({ n with logCalls := n.logCalls + 1, log := n.log ++ [p] }, true)

/-- Scheduler + writer.Run for one log entry on node j -/
def World.deliverLocal (w : World) (j : Nat) (p : Pub) : World :=
  let n := w.node j
  let rcpt := ((subByPattern n.dist p.topic).filter (fun s => s.peer == n.peer)).map (fun s => (s.session, s.qos))
  w.send j rcpt p

def dedupNat : List Nat → List Nat
  | [] => []
  | x :: rest => x :: (dedupNat rest).filter (· != x)

/-- PublishDistributor.Distribute from node i: returns success -/
def World.distribute (w : World) (i : Nat) (p : Pub) : World × Bool :=
  let n := w.node i
  let peers := dedupNat ((subByPattern n.dist p.topic).map (·.peer))
  peers.foldl (fun (acc : World × Bool) peer =>
    let (w, ok) := acc
    match nodeIndexOfPeer w peer with
    | none => (w, false)
    | some j =>
      let nj := w.node j
      if j ≠ i ∧ (nj.failed ∨ nj.unreachable) then (w, false)
      else
        let (nj', stored) := nj.appendLog p
        let w := w.setNode j nj'
        if stored then (w.deliverLocal j p, ok) else (w, false)) (w, true)

/-- the publish worker: retain handling, distribution, acknowledgement callback -/
def World.publishJob (w : World) (i : Nat) (p : Pub) (onOk : World → World) : World :=
  let w :=
    if p.retain then
      let (w, t) := w.tick
      let n := w.node i
      let (d, ev) := if p.payload = "" then topicDelete n.dist t p.topic else topicSet n.dist t p.topic p.payload p.qos true p.dup
      (w.setNode i { n with dist := d }).broadcast i ev
    else w
  let (w, ok) := w.distribute i { p with retain := false }
  if ok then onOk w else w

/-! ### session end -/

def World.shutdownSession (w : World) (i : Nat) (sid : String) : World :=
  let n := w.node i
  match n.sess sid with
  | none => w
  | some s =>
    let w := (w.setNode i { n with reg := n.reg.filter (fun x => x.id != sid) }).emit s.conn .closed
    let w := { w with conns := w.conns.filter (fun (c : String × Nat) => c.1 != s.conn) }
    let w := s.topics.foldl (fun w t => w.subDelete i sid t) w
    -- the record of this session goes away if it is still there; the will is withheld when another live record carries
    -- the client identifier (the client has reconnected, here or on another node)
    let cands := sessByClientID (w.node i).dist s.mount s.client
    let stop := cands.any (fun md => md.id != sid)
    let w := if cands.any (fun md => md.id == sid) then w.sessDelete i sid else w
    if stop then w
    else if s.disconnected then w
    else
      match s.will with
      | none => w
      | some lwt => w.publishJob i ⟨prefixMountPoint s.mount lwt.topic, lwt.payload, lwt.qos, lwt.retain, false⟩ id

/-! ### packets from clients -/

inductive CPkt where
  | connect
  | publish (topic payload : String) (qos : Nat) (retain dup : Bool) (mid : Int)
  | subscribe (mid : Int) (topics : List (String × Nat))
  | unsubscribe (mid : Int) (topics : List String)
  | puback (mid : Int) | pubrec (mid : Int) | pubrel (mid : Int) | pubcomp (mid : Int)
  | pingreq
  | disconnect
  | other
deriving Repr

/-- result of Process: continue, clean end (ErrSessionDisconnected), or error -/
inductive PRes where
  | ok | disconnected | error
deriving Repr, DecidableEq

def World.ackFrom (w : World) (i : Nat) (pfx : String) (kind : Ack.PType) (mid : Int) : World :=
  let n := w.node i
  let r := Ack.ack n.acks pfx kind true mid
  let w := w.setNode i { n with acks := r.1 }
  r.2.2.foldl (fun w ev =>
    let n := w.node i
    match storedFind ev.key n.stored with
    | none => w
    | some st =>
      let w := w.setNode i { n with stored := storedErase ev.key n.stored }
      match st with
      | .inbound _ conn pub imid =>
        w.publishJob i pub (fun w => w.emit conn (.pubcomp imid))
      | _ => w.onResolved i ev st) w

def World.process (w : World) (i : Nat) (sid : String) (pkt : CPkt) : World × PRes :=
  let n := w.node i
  match n.sess sid with
  | none => (w, .error)
  | some s =>
    match pkt with
    | .connect => (w, .error)
    | .publish topic payload qos retain dup mid =>
      let p : Pub := ⟨prefixMountPoint s.mount topic, payload, qos, retain, dup⟩
      if qos = 0 then (w.publishJob i p id, .ok)
      else if qos = 1 then (w.publishJob i p (fun w => w.emit s.conn (.puback mid)), .ok)
      else if qos = 2 then
        let r := Ack.insert n.acks (sid ++ "/in") .pubrec 0 mid (ackDeadline w)
        if r.2 = .ok then
          ((w.setNode i { n with acks := r.1, stored := n.stored ++ [(Ack.hashKey (sid ++ "/in") mid, .inbound sid s.conn p mid)] }).emit s.conn (.pubrec mid), .ok)
        else (w, .error)
      else (w, .ok)
    | .subscribe mid topics =>
      let pts := topics.map (fun tq => (prefixMountPoint s.mount tq.1, tq.2))
      let w := pts.foldl (fun w tq =>
        let w := w.subCreate i sid tq.1 tq.2
        let n := w.node i
        match n.sess sid with
        | some s' => if s'.topics.contains tq.1 then w else w.setNode i (n.setSess { s' with topics := s'.topics ++ [tq.1] })
        | none => w) w
      let w := w.emit s.conn (.suback mid (topics.map (·.2)))
      let w := pts.foldl (fun w tq =>
        (topicGet (w.node i).dist tq.1).foldl (fun w r =>
          w.send i [(sid, tq.2)] ⟨r.topic, r.payload, r.qos, r.retain, r.dup⟩) w) w
      (w, .ok)
    | .unsubscribe mid topics =>
      let w := topics.foldl (fun w t =>
        let pt := prefixMountPoint s.mount t
        let w := w.subDelete i sid pt
        let n := w.node i
        match n.sess sid with
        | some s' => w.setNode i (n.setSess { s' with topics := s'.topics.filter (· != pt) })
        | none => w) w
      (w.emit s.conn (.unsuback mid), .ok)
    | .puback mid => (w.ackFrom i sid .puback mid, .ok)
    | .pubrec mid => (w.ackFrom i sid .pubrec mid, .ok)
    | .pubcomp mid => (w.ackFrom i sid .pubcomp mid, .ok)
    | .pubrel mid => (w.ackFrom i (sid ++ "/in") .pubrel mid, .ok)
    | .pingreq =>
      match sessByClientID n.dist s.mount s.client with
      | [md] => if md.id = sid then (w.emit s.conn .pingresp, .ok) else (w, .disconnected)
      | [] => (w, .disconnected)
      | md :: _ => if md.id = sid then (w.emit s.conn .pingresp, .ok) else (w, .disconnected)
    | .disconnect => (w, .disconnected)
    | .other => (w, .ok)

/-- connectionWorker.processSession + serve for one packet -/
def World.clientPacket (w : World) (conn : String) (pkt : CPkt) : World :=
  match w.conns.find? (fun c => c.1 == conn) with
  | none => w
  | some (_, i) =>
    let sid := "S" ++ conn
    if ((w.node i).sess sid).isNone then w
    else
      let (w, res) := w.process i sid pkt
      match res with
      | .ok => w.extendDeadline i sid
      | .disconnected =>
        let n := w.node i
        let w := match n.sess sid with
          | some s => w.setNode i (n.setSess { s with disconnected := true })
          | none => w
        w.shutdownSession i sid
      | .error => w.shutdownSession i sid

/-- setupWorker.setup with a CONNECT packet; `ok = false`: authentication fails -/
def World.connect (w : World) (conn : String) (i : Nat) (client mount : String) (authOk : Bool) (keepalive : Nat) (will : Option Will) : World :=
  let w : World := { w with conns := (w.conns.filter (fun (c : String × Nat) => c.1 != conn)) ++ [(conn, i)] }
  if !authOk then ({ w with deaf := w.deaf ++ [conn] }).emit conn (.connack 4)
  else
    let sid := "S" ++ conn
    let ka := if keepalive = 0 then 30 else keepalive
    let w := match sessByClientID (w.node i).dist mount client with
      | md :: _ => w.sessDelete i md.id
      | [] => w
    let (w, t) := w.tick
    let n := w.node i
    let (d, ev, err) := sessCreate n.dist t sid client 0 will mount
    if err ≠ Err.none then w.emit conn .closed
    else
      let w := w.setNode i { n with dist := d }
      let w := match ev with | some e => w.broadcast i e | none => w
      let n := w.node i
      let s : Sess := { id := sid, conn, client, mount, keepalive := ka, will, deadline := w.now + 2 * ka * 1000 }
      (w.setNode i { n with reg := n.reg ++ [s] }).emit conn (.connack 0)

/-- the client side closes the connection -/
def World.drop (w : World) (conn : String) : World :=
  match w.conns.find? (fun c => c.1 == conn) with
  | none => w
  | some (_, i) =>
    let sid := "S" ++ conn
    let had := ((w.node i).sess sid).isSome
    let w := { w with conns := w.conns.filter (fun c => c.1 != conn) }
    if had then w.shutdownSession i sid else w.emit conn .closed

/-! ### gossip, sweeps, time, node failure -/

def World.deliverGossip (w : World) (src dst : Nat) : World :=
  let n := w.node src
  let evs := (n.pending.filter (fun e => e.1 == dst)).map (·.2)
  let w := w.setNode src { n with pending := n.pending.filter (fun e => e.1 != dst) }
  let nd := w.node dst
  if nd.failed then w else w.setNode dst { nd with dist := evs.foldl merge nd.dist }

def World.gossipRound (w : World) : World :=
  let idx := List.range w.nodes.length
  idx.foldl (fun w i => idx.foldl (fun w j => if i ≠ j then w.deliverGossip i j else w) w) w

def World.gossipAll (w : World) : World := (List.range 4).foldl (fun w _ => w.gossipRound) w

/-- ack.Queue.Expire with a `now` past every armed deadline -/
def World.sweep (w : World) (i : Nat) : World :=
  let nowT : Int := (w.epoch + 1) * 10000
  let w := { w with epoch := w.epoch + 1 }
  let n := w.node i
  let r := Ack.expire n.acks nowT
  let w := w.setNode i { n with acks := r.1 }
  r.2.foldl (fun w ev =>
    let n := w.node i
    match storedFind ev.key n.stored with
    | none => w
    | some st => (w.setNode i { n with stored := storedErase ev.key n.stored }).onResolved i ev st) w

/-- NotifyGossipLeave(peer) on node i -/
def World.notifyLeave (w : World) (i : Nat) (peer : Nat) : World :=
  let (w, t) := w.tick
  let n := w.node i
  let (d, ev) := subDeletePeer n.dist t peer
  let w := (w.setNode i { n with dist := d }).broadcast i ev
  let sessions := sessByPeer (w.node i).dist peer
  let w := sessions.foldl (fun w s =>
    match s.lwt with
    | none => w
    | some lwt =>
      let p : Pub := ⟨s.mount ++ "/" ++ lwt.topic, lwt.payload, lwt.qos, lwt.retain, false⟩
      let (n', stored) := (w.node i).appendLog p
      let w := w.setNode i n'
      if stored then w.deliverLocal i p else w) w
  let n := w.node i
  w.setNode i { n with timers := n.timers ++ [(w.now + 3000, peer)] }

def World.nodeFail (w : World) (f : Nat) : World :=
  let nf := w.node f
  let w := w.setNode f { nf with failed := true, reg := [], pending := [] }   -- a failed node gossips no more
  let closedConns := (w.conns.filter (fun c => c.2 == f)).map (·.1)
  let w := closedConns.foldl (fun w c => w.emit c .closed) { w with conns := w.conns.filter (fun c => c.2 != f) }
  (List.range w.nodes.length).foldl (fun w i => if i ≠ f ∧ !(w.node i).failed then w.notifyLeave i nf.peer else w) w

/-- time passes: keep-alive deadlines and the node-failure timers fire -/
def World.idle (w : World) (ms : Int) : World :=
  let w := { w with now := w.now + ms }
  (List.range w.nodes.length).foldl (fun w i =>
    let n := w.node i
    if n.failed then w else
    -- timers
    let due := n.timers.filter (fun t => t.1 ≤ w.now)
    let w := w.setNode i { n with timers := n.timers.filter (fun t => !(t.1 ≤ w.now)) }
    let w := due.foldl (fun w t =>
      let (w, ts) := w.tick
      let n := w.node i
      let (d, ev) := sessDeletePeer n.dist ts t.2
      (w.setNode i { n with dist := d }).broadcast i ev) w
    -- read deadlines
    let expired := ((w.node i).reg.filter (fun s => s.deadline < w.now)).map (·.id)
    -- a will published by an earlier victim may be delivered to a later one, which re-arms its deadline
    expired.foldl (fun w sid =>
      match (w.node i).sess sid with
      | some s => if s.deadline < w.now then w.shutdownSession i sid else w
      | none => w) w) w

end Wasp.Broker

/-
Model of wasp/auth/{file,static}.go — the static and the file credential store.

`H` is the fingerprint function (hex SHA-256 in the code); it stays abstract: theorems
assume only that it is injective. The file holds `user:passwordFingerprint[:mountpoint]`
lines (the loader fingerprints the user name, keeps the second field as is).
Go's `sort.Search` is modelled literally (the bisection loop, with fuel).
-/
namespace Wasp.Auth

def defaultMountPoint : String := "_default"

structure Record where
  userHash : String
  passHash : String
  mount : String
deriving Repr, DecidableEq

/-- sort.Search(n, f): the bisection loop `i, j := 0, n; for i < j { h := (i+j)/2; if !f(h) { i = h+1 } else { j = h } }` -/
def goSearchLoop (f : Nat → Bool) : Nat → Nat → Nat → Nat
  | 0, i, _ => i
  | fuel + 1, i, j =>
    if i < j then
      let h := (i + j) / 2
      if !f h then goSearchLoop f fuel (h + 1) j else goSearchLoop f fuel i h
    else i

def goSearch (n : Nat) (f : Nat → Bool) : Nat := goSearchLoop f (n + 1) 0 n

/-- one csv record (list of fields) to a credential record; other lengths are skipped -/
def recordOf (H : String → String) : List String → Option Record
  | [u, p] => some ⟨H u, p, defaultMountPoint⟩
  | [u, p, m] => some ⟨H u, p, if m = "" then defaultMountPoint else m⟩
  | _ => none

/-- stable insertion sort by user hash = sort.SliceStable(out, less-by-UsernameHash): folding from the right,
    an element goes in front of the elements it is not greater than, so equal keys keep their order -/
def insertByUser (r : Record) : List Record → List Record
  | [] => [r]
  | x :: rest => if r.userHash ≤ x.userHash then r :: x :: rest else x :: insertByUser r rest

def sortByUser (l : List Record) : List Record := l.foldr insertByUser []

/-- FileHandler: parse, then sort -/
def load (H : String → String) (lines : List (List String)) : List Record :=
  sortByUser (lines.filterMap (recordOf H))

/-- the scan over the entries of that user name, starting at idx -/
def scanFrom (db : List Record) (u p : String) : Nat → Nat → Option String
  | 0, _ => none
  | fuel + 1, idx =>
    match db[idx]? with
    | none => none
    | some r =>
      if r.userHash = u then
        if r.passHash = p then some r.mount else scanFrom db u p fuel (idx + 1)
      else none

/-- fileHandler.Authenticate: `some mount` = accepted -/
def authenticate (H : String → String) (db : List Record) (user pass : String) : Option String :=
  let u := H user
  let idx := goSearch db.length (fun i => match db[i]? with | some r => decide (r.userHash ≥ u) | none => true)
  scanFrom db u (H pass) (db.length + 1) idx

/-- staticHandler.Authenticate -/
def staticAuthenticate (H : String → String) (cfgUser cfgPass user pass : String) : Option String :=
  if H user ≠ H cfgUser ∨ H pass ≠ H cfgPass then none else some defaultMountPoint

end Wasp.Auth

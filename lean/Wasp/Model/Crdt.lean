import Wasp.Generated.Translated
/-
crdt/entry.go — last-writer-wins stamps. The four functions are the definitions
REGENERATED from the Go source (Wasp.Generated.*); this file only fixes notation.
-/
namespace Wasp.Crdt
open Wasp

abbrev Stamp := Go.Stamp

def isAdded (s : Stamp) : Bool := Generated.isEntryAdded (some s)
def isRemoved (s : Stamp) : Bool := Generated.isEntryRemoved (some s)
def lastUpdate (s : Stamp) : Int := Generated.getLastEntryUpdate (some s)
/-- IsEntryOutdated(local, remote): remote strictly newer -/
def isOutdated (loc remote : Stamp) : Bool := Generated.isEntryOutdated (some loc) (some remote)

end Wasp.Crdt

/-
Model of wasp/idpool.go (simpleMidPool) — the allocator of MQTT packet
identifiers for outbound QoS>0 messages.

An interval (from, to) holds the FREE identifiers from+1 … to.
`get`  mirrors (*simpleMidPool).Get
`put`  mirrors (*simpleMidPool).Put; Go's sort.Search + index arithmetic on
       idx-1 / idx is rendered as one structural walk with one interval of
       look-ahead (`putIvs`); the literal index-based rendering is REGENERATED
       from the source on every run (`Wasp/Generated/IdPoolLit.lean`, extract/imperative.go)
       and is proven equal under the invariant in `Wasp/Proofs/IdPoolLit.lean`.
-/
namespace Wasp.IdPool

abbrev Iv := Int × Int

structure Pool where
  min : Int
  max : Int
  ivs : List Iv
deriving Repr, DecidableEq

/-- newMIDPool -/
def new (min max : Int) : Pool := ⟨min, max, [(min - 1, max)]⟩

/-- Get: returns the new pool and the identifier, -1 when nothing is free. -/
def get (p : Pool) : Pool × Int :=
  match p.ivs with
  | [] => (p, -1)
  | (f, t) :: rest =>
    if f + 1 ≥ t then ({ p with ivs := rest }, f + 1)
    else ({ p with ivs := (f + 1, t) :: rest }, f + 1)

/-- the interval-list part of Put, for an in-range `mid` -/
def putIvs (mid : Int) : List Iv → List Iv
  | [] => [(mid - 1, mid)]
  | (f, t) :: rest =>
    if mid ≤ f then
      -- idx = 0 relative to this suffix: no predecessor
      if f = mid then (f - 1, t) :: rest else (mid - 1, mid) :: (f, t) :: rest
    else
      match rest with
      | [] =>
        if mid ≤ t then [(f, t)]
        else if t = mid - 1 then [(f, t + 1)]
        else [(f, t), (mid - 1, mid)]
      | (f2, t2) :: rest2 =>
        if mid ≤ f2 then
          -- (f, t) is intervals[idx-1], (f2, t2) is intervals[idx]
          if mid ≤ t then (f, t) :: (f2, t2) :: rest2
          else if t = mid - 1 then
            if f2 = mid then (f, t2) :: rest2 else (f, t + 1) :: (f2, t2) :: rest2
          else
            if f2 = mid then (f, t) :: (f2 - 1, t2) :: rest2
            else (f, t) :: (mid - 1, mid) :: (f2, t2) :: rest2
        else (f, t) :: putIvs mid ((f2, t2) :: rest2)

/-- Put -/
def put (p : Pool) (mid : Int) : Pool :=
  if mid < p.min ∨ mid > p.max then p else { p with ivs := putIvs mid p.ivs }

/-! ### operations and traces (driver + theorems) -/

inductive Op where
  | get
  | put (mid : Int)
deriving Repr, DecidableEq

/-- one step: the observable output is the id for `get`, none for `put` -/
def step (p : Pool) : Op → Pool × Option Int
  | .get => let (p', v) := get p; (p', some v)
  | .put m => (put p m, none)

def run (p : Pool) : List Op → Pool × List (Option Int)
  | [] => (p, [])
  | op :: ops =>
    let (p', o) := step p op
    let (p'', os) := run p' ops
    (p'', o :: os)

end Wasp.IdPool

import Wasp.Model.GoPrelude
/-! Primitives of the literal translations that treat `[]byte` as a slice of bytes (`List Char`, as in
    `Wasp/Generated/Translated.lean`): `make([]byte, n)` and the statement `copy(dst[a:b], src)`. -/
namespace Go

/-- `make([]byte, n)` (guarded by `0 ≤ n`): `n` zero bytes -/
def makeBytes (n : Int) : List Char := List.replicate n.toNat (Char.ofNat 0)

/-- `copy(dst[lo:lo+n], src)` as a functional update of `dst` (the window is guarded by `sliceOk` & co.):
    the first `min n (len src)` cells from `lo` on are overwritten with `src`, nothing else moves -/
def copyAt {α : Type} (dst : List α) (lo n : Int) (src : List α) : List α :=
  let k := min n.toNat src.length
  dst.take lo.toNat ++ src.take k ++ dst.drop (lo.toNat + k)

end Go

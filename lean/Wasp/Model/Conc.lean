/-
Concurrency models for C20.

(1) `Lock machine`: threads are lists of atomic actions (acquire a lock in shared or exclusive
    mode, release it, access a memory location for reading or writing); interleaving semantics with
    readers-writer locks. A program is `Disciplined` when every two conflicting accesses of different
    threads are made under a common lock that at least one of them holds exclusively — the table of
    (location, method, lock mode) is REGENERATED from the Go source on every run
    (Wasp/Generated/LockTable.lean). Theorem (Properties/C20): a disciplined program has no data race
    in any reachable state of any interleaving.

(2) `Resolution machine`: the multi-step operations of ack.Queue (Insert = put-if-missing, then
    timer insert; Ack = get + type check, delete, timer delete, callback; Expire = pop buckets, then
    per key delete, callback) as atomic steps of concurrent threads over a linearisable hash table
    (gotomic.Hash: MODELLED). Theorem: in every interleaving each accepted registration is resolved at
    most once, and a resolution is always preceded by the successful delete that claimed it.
-/
namespace Wasp.Conc

/-! ## (1) lock machine -/

inductive Mode where
  | shared | exclusive
deriving Repr, DecidableEq

inductive Act where
  | acquire (lock : Nat) (m : Mode)
  | release (lock : Nat)
  | access (loc : Nat) (write : Bool)
deriving Repr, DecidableEq

/-- who holds a lock: (thread, mode) pairs -/
abbrev Holders := List (Nat × Mode)

structure LState where
  progs : List (List Act)              -- remaining actions of each thread
  held : List (Nat × Holders)          -- lock ↦ holders (absent = free)
deriving Repr

def holdersOf (l : Nat) (h : List (Nat × Holders)) : Holders :=
  match h.find? (fun e => e.1 == l) with
  | some e => e.2
  | none => []

def setHolders (l : Nat) (hs : Holders) (h : List (Nat × Holders)) : List (Nat × Holders) :=
  (l, hs) :: h.filter (fun e => e.1 != l)

/-- may thread t acquire lock l in mode m? (re-entrancy is not allowed, as for sync.RWMutex) -/
def canAcquire (hs : Holders) (m : Mode) : Bool :=
  match m with
  | .exclusive => hs.isEmpty
  | .shared => hs.all (fun e => e.2 == .shared)

/-- thread t performs its next action, if it is enabled -/
def stepThread (s : LState) (t : Nat) : Option LState :=
  match s.progs[t]? with
  | none => none
  | some [] => none
  | some (a :: rest) =>
    let progs' := s.progs.set t rest
    match a with
    | .acquire l m =>
      let hs := holdersOf l s.held
      if canAcquire hs m ∧ !(hs.any (fun e => e.1 == t)) then some { progs := progs', held := setHolders l ((t, m) :: hs) s.held }
      else none
    | .release l =>
      some { progs := progs', held := setHolders l ((holdersOf l s.held).filter (fun e => e.1 != t)) s.held }
    | .access _ _ => some { s with progs := progs' }

/-- run a schedule (a list of thread indices); disabled steps are skipped -/
def runSchedule (s : LState) : List Nat → LState
  | [] => s
  | t :: ts => runSchedule ((stepThread s t).getD s) ts

/-- the next action of thread t is an access -/
def nextAccess (s : LState) (t : Nat) : Option (Nat × Bool) :=
  match s.progs[t]? with
  | some (.access loc w :: _) => some (loc, w)
  | _ => none

/-- a data race: two different threads are both about to access the same location, one of them writing -/
def raceState (s : LState) : Prop :=
  ∃ t₁ t₂ loc w₁ w₂, t₁ ≠ t₂ ∧ nextAccess s t₁ = some (loc, w₁) ∧ nextAccess s t₂ = some (loc, w₂) ∧ (w₁ = true ∨ w₂ = true)

/-- locks a thread holds when it reaches each of its accesses (static scan of its own program,
    starting with nothing held) -/
def scanAccesses : List (Nat × Mode) → List Act → List (Nat × Bool × List (Nat × Mode))
  | _, [] => []
  | cur, .acquire l m :: rest => scanAccesses ((l, m) :: cur) rest
  | cur, .release l :: rest => scanAccesses (cur.filter (fun e => e.1 != l)) rest
  | cur, .access loc w :: rest => (loc, w, cur) :: scanAccesses cur rest

/-- two accesses are protected against each other: a common lock, held exclusively by at least one -/
def protectedPair (a b : List (Nat × Mode)) : Bool :=
  a.any (fun x => b.any (fun y => x.1 == y.1 && (x.2 == .exclusive || y.2 == .exclusive)))

/-- a thread's program never acquires a lock it already holds and releases only what it holds -/
def wellBracketed : List (Nat × Mode) → List Act → Bool
  | _, [] => true
  | cur, .acquire l m :: rest => !(cur.any (fun e => e.1 == l)) && wellBracketed ((l, m) :: cur) rest
  | cur, .release l :: rest => cur.any (fun e => e.1 == l) && wellBracketed (cur.filter (fun e => e.1 != l)) rest
  | cur, .access _ _ :: rest => wellBracketed cur rest

/-- the lock discipline: all conflicting accesses of different threads are protected pairs -/
def Disciplined (progs : List (List Act)) : Prop :=
  (∀ p ∈ progs, wellBracketed [] p = true) ∧
  ∀ (t₁ t₂ : Nat) (p₁ p₂ : List Act), t₁ ≠ t₂ → progs[t₁]? = some p₁ → progs[t₂]? = some p₂ →
    ∀ a₁ ∈ scanAccesses [] p₁, ∀ a₂ ∈ scanAccesses [] p₂,
      a₁.1 = a₂.1 → (a₁.2.1 = true ∨ a₂.2.1 = true) → protectedPair a₁.2.2 a₂.2.2 = true

/-! ## (2) resolution machine -/

abbrev Key := Nat

/-- program counter of a thread executing one queue operation -/
inductive Pc where
  | insertStart (k : Key)              -- about to PutIfMissing
  | insertTimer (k : Key)              -- put succeeded, about to insert the timer
  | ackStart (k : Key) (typeOk : Bool) -- about to Get (+ compare type)
  | ackDelete (k : Key)                -- entry seen with the expected type, about to Delete
  | ackFire (k : Key)                  -- Delete succeeded: about to delete the timer and fire `acknowledged`
  | sweepPop                           -- about to pop the expired buckets (atomic under the list lock)
  | sweepDelete (keys : List Key)      -- popped keys still to process: about to Delete the first
  | sweepFire (k : Key) (keys : List Key)  -- Delete succeeded: about to fire `expired`
  | done
deriving Repr, DecidableEq

structure QState where
  present : List Key := []             -- keys in the hash table
  timers : List Key := []              -- keys in the timeout list (all considered expirable)
  pcs : List Pc := []
  accepted : List Key := []            -- log: successful registrations
  resolved : List Key := []            -- log: callback invocations
deriving Repr

/-- one atomic step of thread t -/
def qstep (s : QState) (t : Nat) : QState :=
  match s.pcs[t]? with
  | none => s
  | some pc =>
    let setPc (p : Pc) (s : QState) : QState := { s with pcs := s.pcs.set t p }
    match pc with
    | .insertStart k =>
      if s.present.contains k then setPc .done s
      else setPc (.insertTimer k) { s with present := k :: s.present, accepted := k :: s.accepted }
    | .insertTimer k => setPc .done { s with timers := k :: s.timers }
    | .ackStart k typeOk =>
      if s.present.contains k ∧ typeOk then setPc (.ackDelete k) s else setPc .done s
    | .ackDelete k =>
      if s.present.contains k then setPc (.ackFire k) { s with present := s.present.erase k }
      else setPc .done s
    | .ackFire k => setPc .done { s with timers := s.timers.erase k, resolved := k :: s.resolved }
    | .sweepPop => setPc (.sweepDelete s.timers) { s with timers := [] }
    | .sweepDelete [] => setPc .done s
    | .sweepDelete (k :: ks) =>
      if s.present.contains k then setPc (.sweepFire k ks) { s with present := s.present.erase k }
      else setPc (.sweepDelete ks) s
    | .sweepFire k ks => setPc (.sweepDelete ks) { s with resolved := k :: s.resolved }
    | .done => s

def qrun (s : QState) : List Nat → QState
  | [] => s
  | t :: ts => qrun (qstep s t) ts

/-- threads that have claimed a key (successful Delete) and not fired its callback yet -/
def claimed (s : QState) : List Key :=
  s.pcs.filterMap (fun pc => match pc with
    | .ackFire k => some k
    | .sweepFire k _ => some k
    | _ => none)

end Wasp.Conc

import Wasp.Model.Topic
/-
Models of the two topic tries:
  subscriptions/node.go  (`Sub.*`: update / walk / iterate / dump+load)
  topics/node.go         (`Ret.*`: insert / remove / match / count / iterate / dump+load)

A Go `map[string]*Node` is an association list (first match wins, keys unique in
every reachable trie — `Node.WF`, proven). Map iteration order is abstracted:
results are lists whose order the driver canonicalises by sorting; theorems speak
about membership and multiplicity.
Recursion is over the level list (what `Topic.Next` yields step by step), except for
`iterate`, which traverses the node structure.
-/
namespace Wasp.Trie
open Wasp.Topic

inductive Node where
  | mk (data : Bytes) (children : List (Level × Node))
deriving Repr

namespace Node
def data : Node → Bytes | mk d _ => d
def children : Node → List (Level × Node) | mk _ c => c
def empty : Node := mk [] []
def isEmpty (n : Node) : Bool := n.data.isEmpty && n.children.isEmpty
end Node

/-- map lookup -/
def lookup (k : Level) : List (Level × Node) → Option Node
  | [] => none
  | (k', n) :: rest => if k' = k then some n else lookup k rest

/-- map assignment `m[k] = n` -/
def setChild (k : Level) (n : Node) : List (Level × Node) → List (Level × Node)
  | [] => [(k, n)]
  | (k', n') :: rest => if k' = k then (k, n) :: rest else (k', n') :: setChild k n rest

/-- `delete(m, k)` -/
def eraseChild (k : Level) : List (Level × Node) → List (Level × Node)
  | [] => []
  | (k', n') :: rest => if k' = k then eraseChild k rest else (k', n') :: eraseChild k rest

/-- value stored at a path (the abstraction function of both tries) -/
def get : Node → List Level → Bytes
  | n, [] => n.data
  | n, k :: ks =>
    match lookup k n.children with
    | none => []
    | some c => get c ks

/-! ## subscriptions/node.go -/
namespace Sub

/-- (*Node).update: create the path, apply `f` at its end, prune empty children on the way back -/
def update (f : Bytes → Bytes) : List Level → Node → Node
  | [], n => n
  | tok :: rest, .mk d cs =>
    let child := (lookup tok cs).getD Node.empty
    let child' :=
      match rest with
      | [] => Node.mk (f child.data) child.children
      | _ :: _ => update f rest child
    if child'.isEmpty then .mk d (eraseChild tok cs) else .mk d (setChild tok child' cs)

/-- (*Node).walk, instrumented with the path of every node whose data is handed to the
    iterator (`pre` = path of the current node, reversed) -/
def walkP : List Level → List Level → Node → List (List Level × Bytes)
  | [], _, _ => []
  | tok :: rest, pre, .mk _ cs =>
    cs.flatMap (fun (kn : Level × Node) =>
      let k := kn.1
      let n := kn.2
      if k = "#" then [((k :: pre).reverse, n.data)]
      else if k = "+" ∨ k = tok then
        match rest with
        | [] =>
          ((k :: pre).reverse, n.data) ::
            (match lookup "#" n.children with
             | some m => [(("#" :: k :: pre).reverse, m.data)]
             | none => [])
        | _ :: _ => walkP rest (k :: pre) n
      else [])

/-- (*Node).walk: the data handed to the iterator -/
def walk (topic : List Level) (n : Node) : List Bytes := (walkP topic [] n).map (·.2)

end Sub

/- (*Node).iterate of both tries: every non-empty value, with its path -/
mutual
def iterP : Node → List Level → List (List Level × Bytes)
  | .mk d cs, pre => (if d.isEmpty then [] else [(pre.reverse, d)]) ++ iterCs cs pre
def iterCs : List (Level × Node) → List Level → List (List Level × Bytes)
  | [], _ => []
  | (k, n) :: rest, pre => iterP n (k :: pre) ++ iterCs rest pre
end

def iterate (n : Node) : List Bytes := (iterP n []).map (·.2)

/-! ## topics/node.go -/
namespace Ret

/-- (*Node).insert: returns whether a non-empty value was replaced -/
def insert (msg : Bytes) : List Level → Node → Node × Bool
  | [], n => (n, false)
  | tok :: rest, .mk d cs =>
    let child := (lookup tok cs).getD Node.empty
    match rest with
    | [] => (.mk d (setChild tok (.mk msg child.children) cs), !child.data.isEmpty)
    | _ :: _ =>
      let (child', old) := insert msg rest child
      (.mk d (setChild tok child' cs), old)

/-- (*Node).remove: `none` = ErrTopicNotFound (tree unchanged) -/
def remove : List Level → Node → Option Node
  | [], n => some n
  | tok :: rest, .mk d cs =>
    match lookup tok cs with
    | none => none
    | some child =>
      let child'? :=
        match rest with
        | [] => some (Node.mk [] child.children)
        | _ :: _ => remove rest child
      match child'? with
      | none => none
      | some child' =>
        if child'.children.isEmpty && child'.data.isEmpty then some (.mk d (eraseChild tok cs))
        else some (.mk d (setChild tok child' cs))

/-- (*Node).match / matchNext: pattern levels against the topic tree, with paths -/
def matchP : List Level → List Level → Node → List (List Level × Bytes)
  | [], _, _ => []
  | tok :: rest, pre, .mk d cs =>
    if tok = "#" then iterP (.mk d cs) pre
    else
      cs.flatMap (fun (kn : Level × Node) =>
        let k := kn.1
        let n := kn.2
        if tok = "+" ∨ k = tok then
          match rest with
          | [] => if n.data.isEmpty then [] else [((k :: pre).reverse, n.data)]
          | _ :: _ => matchP rest (k :: pre) n
        else [])

def «match» (pattern : List Level) (n : Node) : List Bytes := (matchP pattern [] n).map (·.2)

def count (n : Node) : Nat := (iterP n []).length

end Ret

/-! ## Dump / Load
protobuf round trip: the node structure is preserved; a node without children comes
back with a nil map, which the (repaired) code treats as an empty map, so Load ∘ Dump
is the identity on the model. The byte format itself is not modelled. -/
def dumpLoad (n : Node) : Node := n

end Wasp.Trie

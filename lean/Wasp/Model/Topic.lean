/-
Model of wasp/format/topic.go and of the MQTT 3.1.1 topic matching rules.

A topic or filter is a `List Char`; its levels are the substrings between '/'
(empty levels are levels: "a//b" has three, "/a" has two, "a/" has two, "" has one).
`next` mirrors `Topic.Next`: it returns the remainder (`none` = Go's nil remainder,
i.e. no separator was found) and the first token.
-/
namespace Wasp.Topic

abbrev Level := String
abbrev Bytes := List UInt8

/-- format.Topic.Next: `bytes.IndexByte(t, '/')`; none ↦ (nil, t), some end ↦ (t[end+1:], t[:end]) -/
def next : List Char → Option (List Char) × List Char
  | [] => (none, [])
  | c :: cs =>
    if c = '/' then (some cs, [])
    else
      match next cs with
      | (r, tok) => (r, c :: tok)

/-- the levels of a topic, by iterating `next` the way both tries do -/
def levelsAux : Nat → List Char → List Level
  | 0, _ => []
  | fuel + 1, t =>
    match next t with
    | (none, tok) => [String.ofList tok]
    | (some rest, tok) => String.ofList tok :: levelsAux fuel rest

def levels (t : String) : List Level := levelsAux (t.length + 1) t.toList

/-- MQTT 3.1.1 §4.7: does filter `f` (levels) match topic `t` (levels)?
    '+' stands for exactly one level, '#' (last level only) for the parent level and
    everything below it. -/
def mqttMatch : List Level → List Level → Bool
  | [], [] => true
  | [], _ :: _ => false
  | f :: fs, [] => f == "#" && fs.isEmpty
  | f :: fs, t :: ts =>
    if f == "#" then fs.isEmpty else (f == "+" || f == t) && mqttMatch fs ts

/-- well-formed topic name: no wildcard level -/
def wfTopic (t : List Level) : Bool := t.all (fun l => l != "+" && l != "#") && !t.isEmpty

/-- well-formed filter: '#' only as the last level -/
def wfFilter : List Level → Bool
  | [] => false
  | [_] => true
  | f :: fs => f != "#" && wfFilter fs

/-- sessions.prefixMountPoint / trimMountPoint on level lists are cons / tail;
    on strings: -/
def prefixMountPoint (mp : String) (t : String) : String := mp ++ "/" ++ t
def trimMountPoint (mp : String) (t : String) : String := String.ofList (t.toList.drop (mp.length + 1))

end Wasp.Topic

import Wasp.Model.Broker
import Wasp.Model.Wire
/-!
# The operations of the broker model, as one transition function

Everything the correspondence harness can do to a cluster is a `BOp`; the model driver (Driver/Broker.lean) parses a
line into a `BOp` and calls `applyOp`, so the worlds the theorems of Properties/Reachable.lean quantify over
(`Reachable`) are exactly the worlds the implementation is compared against.
-/
namespace Wasp.Broker
open Wasp.Dist Wasp.Wire

inductive BOp where
  | connect (c : String) (node : Nat) (client mount : String) (authOk : Bool) (keepalive : Nat) (will : Option Will)
  | packet (c : String) (pkt : CPkt)          -- a packet on an established connection
  | drop (c : String)                         -- the client closes the connection
  | openConn (c : String) (node : Nat)        -- a connection is accepted, no bytes yet
  | raw (c : String) (bytes : List Nat)       -- bytes arrive (decoder + setup/processSession loops)
  | gossipAll                                 -- every pending broadcast is delivered, until nothing is pending
  | gossip (src dst : Nat)                    -- what src has pending for dst is delivered
  | gossipOne (src dst k : Nat)               -- only the k-th payload pending for dst (gossip overtakes gossip)
  | loseGossip (src dst : Nat)
  | sync (src dst : Nat)                      -- push/pull: dst merges src's full state
  | unreachable (node : Nat) (b : Bool)
  | logFailAll (node : Nat) (b : Bool)
  | logFailAt (node : Nat) (k : Nat)          -- the k-th Append call from now fails
  | logFailNone (node : Nat)
  | nodeFail (node : Nat)
  | sweep (node : Nat)                        -- expiry sweep past every armed deadline
  | idle (ms : Int)                           -- wall-clock time passes
  | elapse (ms : Int)                         -- the connections' clock moves
  | setPool (node : Nat) (lo hi : Int)        -- test hook: a small identifier pool (only while nothing is in flight)
  | rpcPublish (node : Nat) (topic payload : String)   -- DistributeMessage RPC
deriving Repr

/-- can the client still write to its connection? (closed by the broker, or nobody reads it) -/
def writable (w : World) (c : String) : Bool := w.conns.any (fun e => e.1 == c) && !w.deaf.contains c

/-- remove exactly the k-th payload pending for destination t -/
def dropKth (t : Nat) : List (Nat × Event) → Nat → List (Nat × Event)
  | [], _ => []
  | x :: rest, j => if x.1 == t then (if j = 0 then rest else x :: dropKth t rest (j - 1)) else x :: dropKth t rest j

def applyOp (w : World) : BOp → World
  | .connect c node client mount authOk ka will =>
    let w := if w.conns.any (fun e => e.1 == c) then w.drop c else w
    -- a fresh connection under this name: whatever was written to, or refused on, the old one is history
    let w := { w with out := w.out.filter (fun e => e.1 != c), deaf := w.deaf.filter (· != c) }
    w.connect c node client mount authOk ka will
  | .packet c pkt => if writable w c then w.clientPacket c pkt else w
  | .drop c => closeFromClient w c
  | .openConn c node =>
    -- re-using a connection name: the harness closes the old connection first
    let w := if w.conns.any (fun e => e.1 == c) then closeFromClient w c else w
    openConn { w with deaf := w.deaf.filter (· != c) } c node
  | .raw c bytes => (rawBytes w c bytes).1
  | .gossipAll => w.gossipAll
  | .gossip f t => w.deliverGossip f t
  | .gossipOne f t k =>
    let n := w.node f
    match (n.pending.filter (fun e => e.1 == t))[k]? with
    | none => w
    | some e =>
      let w := w.setNode f { n with pending := dropKth t n.pending k }
      let nd := w.node t
      if nd.failed then w else w.setNode t { nd with dist := merge nd.dist e.2 }
  | .loseGossip f t =>
    let n := w.node f
    w.setNode f { n with pending := n.pending.filter (fun e => e.1 != t) }
  | .sync f t =>
    let nt := w.node t
    w.setNode t { nt with dist := merge nt.dist (snapshot (w.node f).dist) }
  | .unreachable n b => let nd := w.node n; w.setNode n { nd with unreachable := b }
  | .logFailAll n b => let nd := w.node n; w.setNode n { nd with logFailAll := b }
  | .logFailAt n k => let nd := w.node n; w.setNode n { nd with logFailAt := nd.logFailAt ++ [nd.logCalls + k] }
  | .logFailNone n => let nd := w.node n; w.setNode n { nd with logFailAll := false, logFailAt := [] }
  | .nodeFail n => w.nodeFail n
  | .sweep n => w.sweep n
  | .idle ms => Wasp.Wire.idle w ms
  | .elapse ms => Wasp.Wire.elapse w ms
  | .setPool n lo hi =>
    let nd := w.node n
    if nd.stored.isEmpty ∧ nd.acks.msgs.isEmpty ∧ lo ≤ hi then w.setNode n { nd with pool := Wasp.IdPool.new lo hi } else w
  | .rpcPublish n topic payload => (w.distribute n ⟨topic, payload, 0, false, false⟩).1

def run (w : World) (ops : List BOp) : World := ops.foldl applyOp w

/-- the worlds the harness can drive the model into -/
def Reachable (w : World) : Prop := ∃ (n : Nat) (ops : List BOp), w = run (World.init n) ops

end Wasp.Broker

import Wasp.Model.Wire
/-
The MQTT 3.1.1 ENCODER of a well-behaved client, the inverse of the decoder model of Wasp/Model/Wire.lean:
the byte string a client writes for one packet of the type `CPkt` the broker model consumes.

  fixed header   one byte `type * 16 + flags`
                 (PUBLISH: `dup<<3 | qos<<1 | retain`; PUBREL, SUBSCRIBE, UNSUBSCRIBE: 2; otherwise 0)
  remaining len  the length of the body in the 1–4 byte base-128 form (least significant group first,
                 bit 7 = "another byte follows")
  strings        2-byte big-endian length, then the characters byte-for-char (the inverse of `str`)
  packet ids     2 bytes big-endian; in PUBLISH only when qos > 0
  payload        the bytes spelled by the lowercase hex string the model keeps (the inverse of `hexOf`)

`encode p` is `some` exactly for the packets satisfying `WfPkt p` (decidable; by definition of `encode`).
Core Lean only; everything is structurally recursive so that `decide` evaluates it.
-/
namespace Wasp.Wire
open Wasp.Broker Wasp.Dist

/-- the bytes of a string, char-for-byte: the inverse of `str` -/
def strBytes (s : String) : Bytes := s.toList.map Char.toNat

/-- 2 bytes, big-endian -/
def be16 (n : Nat) : Bytes := [n / 256, n % 256]

/-- a length-prefixed string field -/
def encStr (s : String) : Bytes := be16 s.length ++ strBytes s

/-- a length-prefixed binary field -/
def encBin (b : Bytes) : Bytes := be16 b.length ++ b

/-- value of one lowercase hex digit -/
def hexNibble (c : Char) : Option Nat :=
  if 48 ≤ c.toNat ∧ c.toNat ≤ 57 then some (c.toNat - 48)
  else if 97 ≤ c.toNat ∧ c.toNat ≤ 102 then some (c.toNat - 87)
  else none

/-- the bytes spelled by a lowercase hex string: the inverse of `hexOf`; `none` when the string has odd
    length or holds a character that is not in `0-9a-f` -/
def unhex : List Char → Option Bytes
  | [] => some []
  | [_] => none
  | a :: b :: rest =>
    match hexNibble a, hexNibble b, unhex rest with
    | some x, some y, some r => some ((x * 16 + y) :: r)
    | _, _, _ => none

/-- the payload bytes of a hex string (`[]` when it is not one) -/
def payloadBytes (s : String) : Bytes := (unhex s.toList).getD []

/-- the remaining-length field with at most `k + 1` bytes -/
def encRemLenF : Nat → Nat → Bytes
  | 0, n => [n]
  | k + 1, n => if n < 128 then [n] else (n % 128 + 128) :: encRemLenF k (n / 128)

/-- the remaining-length field (1 to 4 bytes; meaningful for `n ≤ maxRemLen = 128^4 - 1`) -/
def encRemLen (n : Nat) : Bytes := encRemLenF 3 n

/-- one packet on the wire: fixed header byte, remaining length, body -/
def frameOf (t f : Nat) (body : Bytes) : Bytes := (t * 16 + f) :: (encRemLen body.length ++ body)

/-- a string that fits a length-prefixed field, all of whose characters are single bytes -/
def ValidStr (s : String) : Prop := s.length < 65536 ∧ ∀ c ∈ s.toList, c.toNat < 256

/-- a packet identifier that fits two bytes -/
def MidOk (m : Int) : Prop := 0 ≤ m ∧ m < 65536

instance (s : String) : Decidable (ValidStr s) := by unfold ValidStr; infer_instance
instance (m : Int) : Decidable (MidOk m) := by unfold MidOk; infer_instance

/-- PUBLISH flags: `dup<<3 | qos<<1 | retain` -/
def pubFlags (qos : Nat) (retain dup : Bool) : Nat :=
  (if dup then 8 else 0) + qos * 2 + (if retain then 1 else 0)

/-- the topic filters of a SUBSCRIBE body -/
def encSubs (ts : List (String × Nat)) : Bytes := ts.flatMap (fun tq => encStr tq.1 ++ [tq.2])

/-- the topic filters of an UNSUBSCRIBE body -/
def encUnsubs (ts : List String) : Bytes := ts.flatMap encStr

/-- packet type (high nibble of the first byte) -/
def ptypeOf : CPkt → Nat
  | .connect => 1
  | .publish .. => 3
  | .puback _ => 4
  | .pubrec _ => 5
  | .pubrel _ => 6
  | .pubcomp _ => 7
  | .subscribe .. => 8
  | .unsubscribe .. => 10
  | .pingreq => 12
  | .disconnect => 14
  | .other => 0

/-- flags (low nibble of the first byte) -/
def pflagsOf : CPkt → Nat
  | .publish _ _ qos retain dup _ => pubFlags qos retain dup
  | .pubrel _ => 2
  | .subscribe .. => 2
  | .unsubscribe .. => 2
  | _ => 0

/-- variable header and payload -/
def bodyOf : CPkt → Bytes
  | .publish topic payload qos _ _ mid =>
    encStr topic ++ ((if qos = 0 then [] else be16 mid.toNat) ++ payloadBytes payload)
  | .puback mid => be16 mid.toNat
  | .pubrec mid => be16 mid.toNat
  | .pubrel mid => be16 mid.toNat
  | .pubcomp mid => be16 mid.toNat
  | .subscribe mid ts => be16 mid.toNat ++ encSubs ts
  | .unsubscribe mid ts => be16 mid.toNat ++ encUnsubs ts
  | _ => []

/-- The packets a well-behaved MQTT 3.1.1 client can put on the wire:
  * every string (topic, filters) has fewer than 65536 characters, all of them below 256;
  * a PUBLISH payload is an even-length string over `0-9a-f`; qos ≤ 2; with qos > 0 the packet id is in
    [0, 65536) (with qos 0 the id is not sent, so nothing is asked of it);
  * the packet id of every other packet is in [0, 65536);
  * SUBSCRIBE / UNSUBSCRIBE list at least one filter (the decoder rejects an empty list), requested qos ≤ 2;
  * the body is at most `maxRemLen` = 268435455 bytes long (what the 4-byte remaining length can express);
  * `.connect` (CONNECT has its own encoder, `encodeConnect`) and `.other` have no wire form here. -/
def WfPkt : CPkt → Prop
  | .connect => False
  | .other => False
  | .pingreq => True
  | .disconnect => True
  | .puback mid => MidOk mid
  | .pubrec mid => MidOk mid
  | .pubrel mid => MidOk mid
  | .pubcomp mid => MidOk mid
  | .publish topic payload qos retain dup mid =>
    ValidStr topic ∧ (unhex payload.toList).isSome ∧ qos ≤ 2 ∧ (qos = 0 ∨ MidOk mid) ∧
      (bodyOf (.publish topic payload qos retain dup mid)).length ≤ maxRemLen
  | .subscribe mid ts =>
    MidOk mid ∧ ts ≠ [] ∧ (∀ tq ∈ ts, ValidStr tq.1 ∧ tq.2 ≤ 2) ∧ (bodyOf (.subscribe mid ts)).length ≤ maxRemLen
  | .unsubscribe mid ts =>
    MidOk mid ∧ ts ≠ [] ∧ (∀ t ∈ ts, ValidStr t) ∧ (bodyOf (.unsubscribe mid ts)).length ≤ maxRemLen

instance : DecidablePred WfPkt := by
  intro p
  cases p <;> unfold WfPkt <;> infer_instance

/-- the wire form of a packet; `none` for `.connect`, `.other` and every ill-formed packet -/
def encode (p : CPkt) : Option Bytes :=
  if WfPkt p then some (frameOf (ptypeOf p) (pflagsOf p) (bodyOf p)) else none

/-- what the decoder can recover: a QoS 0 PUBLISH carries no packet id, the decoder reports 0 -/
def _root_.Wasp.Broker.CPkt.normalise : CPkt → CPkt
  | .publish topic payload qos retain dup mid => .publish topic payload qos retain dup (if qos = 0 then 0 else mid)
  | p => p

/-! ### CONNECT -/

/-- CONNECT flags: user<<7 | pass<<6 | willRetain<<5 | willQos<<3 | will<<2 (clean-session is not modelled: 0) -/
def connectFlags (hasUser hasPass : Bool) (will : Option Will) : Nat :=
  (if hasUser then 128 else 0) + (if hasPass then 64 else 0) +
  (match will with
   | some wl => (if wl.retain then 32 else 0) + wl.qos * 8 + 4
   | none => 0)

/-- body of a CONNECT packet (protocol "MQTT", level 4); user name and password are sent when non-empty -/
def connectBody (client user pass : String) (keepalive : Nat) (will : Option Will) : Bytes :=
  encStr "MQTT" ++ (4 :: connectFlags (user != "") (pass != "") will :: (be16 keepalive ++
    (encStr client ++
      ((match will with
        | some wl => encStr wl.topic ++ encBin (payloadBytes wl.payload)
        | none => []) ++
       ((if user != "" then encStr user else []) ++ (if pass != "" then encStr pass else []))))))

/-- a will a client can send: the topic must be non-empty (the broker registers no will with an empty topic) -/
def WfWill (wl : Will) : Prop :=
  ValidStr wl.topic ∧ wl.topic ≠ "" ∧ (unhex wl.payload.toList).isSome ∧ (payloadBytes wl.payload).length < 65536 ∧ wl.qos ≤ 2

instance (wl : Will) : Decidable (WfWill wl) := by unfold WfWill; infer_instance

/-- CONNECT packets a client can send: valid strings; keep-alive in (0, 65536) — a keep-alive of 0 is
    replaced by 30 in the decoder, so 0 does not survive the round trip —; a password only with a user name
    is NOT required (the decoder does not require it either) -/
def WfConnect (client user pass : String) (keepalive : Nat) (will : Option Will) : Prop :=
  ValidStr client ∧ ValidStr user ∧ ValidStr pass ∧ 0 < keepalive ∧ keepalive < 65536 ∧
  (match will with | some wl => WfWill wl | none => True) ∧
  (connectBody client user pass keepalive will).length ≤ maxRemLen

instance (client user pass : String) (keepalive : Nat) (will : Option Will) :
    Decidable (WfConnect client user pass keepalive will) := by
  unfold WfConnect
  cases will <;> infer_instance

def encodeConnect (client user pass : String) (keepalive : Nat) (will : Option Will) : Option Bytes :=
  if WfConnect client user pass keepalive will then some (frameOf 1 0 (connectBody client user pass keepalive will))
  else none

end Wasp.Wire

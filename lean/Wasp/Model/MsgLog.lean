import Wasp.Generated.Facts
/-
Model of wasp/messages/store.go on top of vx-labs/commitlog (the commit log itself is
MODELLED, not verified: offsets are consecutive from 0, segments hold `segmentSize`
records, TruncateBefore(o) drops the whole segments before the one containing o, a reader
positioned on an existing offset yields the records from there on, in order).

Small-step semantics of one node's log and its single consumer ("publish_distributor"),
with a crash possible between any two steps:
  append · start · deliver · commit · truncate · crash
`st` is the consumer state file (offset of the next entry to hand over), the only consumer
state that survives a crash; everything in `Run` is lost.
-/
namespace Wasp.MsgLog
open Wasp.Generated

def segmentSize : Nat := Facts.segmentSize
def truncAfter : Nat := Facts.truncAfter
def truncEvery : Nat := Facts.truncEvery
def truncKeep : Nat := Facts.truncKeep

structure Log where
  base : Nat := 0      -- first offset still on disk (a segment boundary)
  next : Nat := 0      -- offset the next Append gets
deriving Repr, DecidableEq

/-- base offset of the last (active) segment -/
def Log.lastSegBase (l : Log) : Nat := if l.next = 0 then 0 else ((l.next - 1) / segmentSize) * segmentSize

/-- commitlog.TruncateBefore(o): drop the segments before the one containing `o` -/
def Log.truncateBefore (l : Log) (o : Nat) : Log :=
  { l with base := max l.base (min ((o / segmentSize) * segmentSize) l.lastSegBase) }

/-- store.maybeTruncate -/
def maybeTruncate (l : Log) (cur : Nat) : Log :=
  if cur > truncAfter ∧ cur % truncEvery = 0 then l.truncateBefore (cur - truncKeep) else l

/-- volatile state of a running Consume -/
structure Run where
  cur : Nat                 -- next offset the reader yields that is ≥ st
  pending : Option Nat      -- callback returned for this offset, state file not yet written
  needTrunc : Bool          -- state file written, maybeTruncate not yet called
deriving Repr, DecidableEq

structure State where
  log : Log := {}
  st : Nat := 0             -- persistent consumer state: next offset to hand over
  run : Option Run := none
deriving Repr, DecidableEq

inductive Step where
  | append | start | deliver | commit | truncate | crash | stop
deriving Repr, DecidableEq

/-- observable: an offset handed to the scheduler callback -/
abbrev Obs := Option Nat

/-- one small step; a step that is not enabled leaves the state unchanged -/
def step (s : State) : Step → State × Obs
  | .append => ({ s with log := { s.log with next := s.log.next + 1 } }, none)
  | .start =>
    match s.run with
    | some _ => (s, none)
    | none =>
      -- Consume: read the state file, maybeTruncate(st), position the reader on st-1 and skip it
      ({ s with log := maybeTruncate s.log s.st, run := some ⟨s.st, none, false⟩ }, none)
  | .deliver =>
    match s.run with
    | some r =>
      if r.pending.isNone ∧ !r.needTrunc ∧ r.cur < s.log.next ∧ s.log.base ≤ r.cur then
        ({ s with run := some { r with pending := some r.cur } }, some r.cur)
      else (s, none)
    | none => (s, none)
  | .commit =>
    match s.run with
    | some r =>
      match r.pending with
      | some o => ({ s with st := o + 1, run := some ⟨o + 1, none, true⟩ }, none)
      | none => (s, none)
    | none => (s, none)
  | .truncate =>
    match s.run with
    | some r =>
      if r.needTrunc then ({ s with log := maybeTruncate s.log s.st, run := some { r with needTrunc := false } }, none)
      else (s, none)
    | none => (s, none)
  | .crash => ({ s with run := none }, none)
  | .stop =>
    -- context cancelled: Consume returns between two records
    match s.run with
    | some r => if r.pending.isNone then ({ s with run := none }, none) else (s, none)
    | none => (s, none)

def exec : State → List Step → State × List Obs
  | s, [] => (s, [])
  | s, x :: xs =>
    let r := step s x
    let r2 := exec r.1 xs
    (r2.1, r.2 :: r2.2)

/-! ### big-step operations used by the driver (defined through the small steps) -/

/-- one incarnation of the consumer: hand over up to `k` entries, then die.
    `inCallback` = killed inside the k-th callback (handed over, not committed) -/
def incarnationSteps (k : Nat) (inCallback : Bool) : List Step :=
  [.start] ++ (List.replicate (k - 1) [.deliver, .commit, .truncate]).flatten ++
    (if k = 0 then [] else if inCallback then [.deliver] else [.deliver, .commit, .truncate]) ++ [.crash]

def incarnation (s : State) (k : Nat) (inCallback : Bool) : State × List Nat :=
  let r := exec s (incarnationSteps k inCallback)
  (r.1, r.2.filterMap id)

end Wasp.MsgLog

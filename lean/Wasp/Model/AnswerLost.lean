import Wasp.Model.BrokerOps
/-!
# A packet on a connection the broker can no longer write to

`Process` (wasp/packets.go) writes SUBACK, UNSUBACK, PUBREC and PINGRESP itself and returns the write error; the session
loop (`processSession`, wasp/conn.go) then ends the session exactly as it does for a lost connection. PUBACK and PUBCOMP
are written from the publish workers' call-back, which drops the error; deliveries are written by the writer, which logs
it. The model has no write errors: what a failed answer does is the composition of two operations the model has — the
packet, then the loss of the connection. The driver (`Driver/Broker.lean`, ops on a `mute`d connection) calls this
function, and the correspondence check compares it with the real broker behind a connection whose writes fail.
-/
namespace Wasp.Broker

/-- answers the packet processor writes itself (their write error ends the session) -/
def directAnswer : Pkt → Bool
  | .suback _ _ | .unsuback _ | .pubrec _ | .pingresp => true
  | _ => false

/-- does `pkt` of client `c` draw a direct answer in world `w` (on a connection that is still being served)? -/
def answerLost (w : World) (c : String) (pkt : CPkt) : Bool :=
  let w' := applyOp w (.packet c pkt)
  writable w' c && (w'.out.drop w.out.length).any (fun e => e.1 == c && directAnswer e.2)

/-- a packet of client `c` while every write to `c`'s connection fails -/
def packetOnBrokenConn (w : World) (c : String) (pkt : CPkt) : World :=
  if answerLost w c pkt then applyOp (applyOp w (.packet c pkt)) (.drop c) else applyOp w (.packet c pkt)

end Wasp.Broker

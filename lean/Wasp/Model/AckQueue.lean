/-
Model of wasp/expiration/{pqueue,bucket}.go (the heap-of-buckets timeout list) and of
wasp/ack/queue.go (the table of exchanges awaiting an acknowledgement).

Time is an integer number of milliseconds; `roundSec` is Go's `Time.Round(time.Second)`.
A callback is not a function in the model: every resolution of an entry is an output
event `Resolved key expired storedKind`, which is what the Go closures observe.
-/
namespace Wasp.Ack

abbrev Time := Int
abbrev Key := String

/-- Time.Round(time.Second): to the nearest second, halves up (times are after the epoch) -/
def roundSec (t : Time) : Time := ((t + 500) / 1000) * 1000

/-! ### expiration.bucket / pqList -/

structure Item where
  value : Key
  deadline : Time
deriving Repr, DecidableEq

/-- bucket.put: append, then stable sort by deadline = insert before the first later item -/
def bucketPut (it : Item) : List Item → List Item
  | [] => [it]
  | x :: rest => if it.deadline < x.deadline then it :: x :: rest else x :: bucketPut it rest

/-- bucket.delete: binary search for the first item whose deadline is not before `d`, then
    scan the items with exactly that deadline for the value -/
def bucketDelete (v : Key) (d : Time) : List Item → List Item × Bool
  | [] => ([], false)
  | x :: rest =>
    if x.deadline < d then
      let (r, ok) := bucketDelete v d rest
      (x :: r, ok)
    else if x.deadline = d then
      if x.value = v then (rest, true)
      else
        let (r, ok) := bucketDelete v d rest
        (x :: r, ok)
    else (x :: rest, false)

/-- pqList: buckets keyed by the rounded deadline (the heap order is the key order) -/
abbrev PQ := List (Time × List Item)

def pqFind (k : Time) : PQ → Option (List Item)
  | [] => none
  | (k', b) :: rest => if k' = k then some b else pqFind k rest

def pqSet (k : Time) (b : List Item) : PQ → PQ
  | [] => [(k, b)]
  | (k', b') :: rest => if k' = k then (k, b) :: rest else (k', b') :: pqSet k b rest

/-- pqList.Insert -/
def pqInsert (v : Key) (d : Time) (pq : PQ) : PQ :=
  let k := roundSec d
  match pqFind k pq with
  | none => pqSet k [⟨v, d⟩] pq
  | some b => pqSet k (bucketPut ⟨v, d⟩ b) pq

/-- pqList.Delete: true iff the bucket exists -/
def pqDelete (v : Key) (d : Time) (pq : PQ) : PQ × Bool :=
  let k := roundSec d
  match pqFind k pq with
  | none => (pq, false)
  | some b => (pqSet k (bucketDelete v d b).1 pq, true)

/-- insertion of a bucket into a list sorted by key (the order in which the heap pops) -/
def insertSorted (kb : Time × List Item) : PQ → PQ
  | [] => [kb]
  | x :: rest => if kb.1 < x.1 then kb :: x :: rest else x :: insertSorted kb rest

def sortBuckets (pq : PQ) : PQ := pq.foldr insertSorted []

/-- pqList.Expire: pops every bucket whose (rounded) deadline is before `now`, in heap order,
    and forgets it; returns the values of the popped buckets -/
def pqExpire (now : Time) (pq : PQ) : PQ × List Key :=
  let expired := (sortBuckets pq).filter (fun kb => kb.1 < now)
  (pq.filter (fun kb => !(kb.1 < now)), expired.flatMap (fun kb => kb.2.map (·.value)))

/-! ### ack.queue -/

/-- MQTT control packet types that matter here -/
inductive PType where
  | publish | puback | pubrec | pubrel | pubcomp | other
deriving Repr, DecidableEq

structure Msg where
  state : PType        -- the packet type that acknowledges this entry
  stored : PType       -- kind of the stored packet (PUBLISH / PUBREC / PUBREL)
  mid : Int
  deadline : Time
deriving Repr, DecidableEq

structure Queue where
  msgs : List (Key × Msg) := []
  timeouts : PQ := []
deriving Repr

inductive Res where
  | ok | errWrongMID | errDupMID | errWrongPacketType | errUnexpectedType | errInvalidQos
deriving Repr, DecidableEq

/-- a callback invocation: (key, expired?, kind of the stored packet) -/
structure Resolved where
  key : Key
  expired : Bool
  stored : PType
deriving Repr, DecidableEq

def hashKey (pfx : String) (mid : Int) : Key := pfx ++ "/" ++ toString mid

def msgFind (k : Key) : List (Key × Msg) → Option Msg
  | [] => none
  | (k', m) :: rest => if k' = k then some m else msgFind k rest

def msgErase (k : Key) : List (Key × Msg) → List (Key × Msg)
  | [] => []
  | (k', m) :: rest => if k' = k then rest else (k', m) :: msgErase k rest

/-- the acknowledging type for a packet handed to Insert (`qos` only matters for PUBLISH) -/
def expectedAck (kind : PType) (qos : Nat) : Except Res PType :=
  match kind with
  | .pubrec => .ok .pubrel
  | .pubrel => .ok .pubcomp
  | .publish => if qos = 1 then .ok .puback else if qos = 2 then .ok .pubrec else .error .errInvalidQos
  | _ => .error .errWrongPacketType

/-- queue.Insert -/
def insert (q : Queue) (pfx : String) (kind : PType) (qos : Nat) (mid : Int) (deadline : Time) : Queue × Res :=
  match kind with
  | .pubrec | .pubrel | .publish =>
    if mid = 0 then (q, .errWrongMID)
    else
      match expectedAck kind qos with
      | .error e => (q, e)
      | .ok st =>
        let k := hashKey pfx mid
        match msgFind k q.msgs with
        | some _ => (q, .errDupMID)
        | none =>
          ({ msgs := q.msgs ++ [(k, ⟨st, kind, mid, deadline⟩)], timeouts := pqInsert k deadline q.timeouts }, .ok)
  | _ => (q, .errWrongPacketType)

/-- queue.Ack; `hasMid` = the packet type carries a message id (the `Ackers` interface) -/
def ack (q : Queue) (pfx : String) (kind : PType) (hasMid : Bool) (mid : Int) : Queue × Res × List Resolved :=
  if !hasMid then (q, .errWrongPacketType, [])
  else
    let k := hashKey pfx mid
    match msgFind k q.msgs with
    | none => (q, .errWrongMID, [])
    | some m =>
      if m.state ≠ kind then (q, .errUnexpectedType, [])
      else
        ({ msgs := msgErase k q.msgs, timeouts := (pqDelete k m.deadline q.timeouts).1 }, .ok, [⟨k, false, m.stored⟩])

/-- queue.Expire: every popped key that is still registered fires `expired` -/
def expireKeys : List Key → List (Key × Msg) → List (Key × Msg) × List Resolved
  | [], msgs => (msgs, [])
  | k :: ks, msgs =>
    match msgFind k msgs with
    | none => expireKeys ks msgs
    | some m =>
      let (msgs', evs) := expireKeys ks (msgErase k msgs)
      (msgs', ⟨k, true, m.stored⟩ :: evs)

def expire (q : Queue) (now : Time) : Queue × List Resolved :=
  let (pq', keys) := pqExpire now q.timeouts
  let (msgs', evs) := expireKeys keys q.msgs
  ({ msgs := msgs', timeouts := pq' }, evs)

/-! ### operations (driver and theorems) -/

inductive Op where
  | insert (pfx : String) (kind : PType) (qos : Nat) (mid : Int) (deadline : Time)
  | ack (pfx : String) (kind : PType) (hasMid : Bool) (mid : Int)
  | expire (now : Time)
deriving Repr

def step (q : Queue) : Op → Queue × Res × List Resolved
  | .insert p k qos mid d => let r := insert q p k qos mid d; (r.1, r.2, [])
  | .ack p k h mid => ack q p k h mid
  | .expire now => let r := expire q now; (r.1, .ok, r.2)

end Wasp.Ack

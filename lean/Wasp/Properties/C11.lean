import Wasp.Model.Broker
import Wasp.Properties.C13
import Wasp.Proofs.BrokerD
/-!
# C11 — sessions end only for cause, and ending one removes every trace of it

* `C11_gossip_keeps_sessions`, `C11_sweep_keeps_sessions`: delivering gossip and expiry sweeps never end
  a session; `C11_packet_ends_only_sender`: processing a packet of connection c can only end the session of c;
* `C11_keepalive_armed_on_connect`, `C11_keepalive_rearmed`: from CONNECT on, and after every processed
  packet, the session's deadline is `now + multiplier · keepalive` with the multiplier read from the
  source (≥ 1); `C11_idle_spares`: the passing of time ends only sessions whose deadline has passed — so a
  client that stays within its keep-alive is never dropped, however long it idles in between;
* `C11_teardown_unregisters`, `C11_teardown_closes`: when a session ends it leaves the registry and its
  connection is closed; `C11_teardown_subscriptions`: every filter in its filter list is removed (a
  tombstone newer than the subscription) and the removals are queued for broadcast — for a well-formed
  subscription store (`hinv`, added: unique keys, one entry per session and key, entries stored under their
  pattern; the statement is false without it, see the `teardown_subscriptions_needs_*` counterexamples); `C11_teardown_record`:
  its session record is deleted when the client id still resolves to it;
* with C08/C09 (broadcasts carry the changes; any delivery order converges) the removals reach every node;
* `C11_no_write_after_end`: the writer skips recipients that are not registered.
-/
namespace Wasp.Broker
open Wasp.Dist Wasp.Topic Wasp.Broker.AgentD

def regIds (n : Node) : List String := n.reg.map (·.id)

theorem C11_gossip_keeps_sessions (w : World) (a b i : Nat) :
    regIds ((w.deliverGossip a b).node i) = regIds (w.node i) := by
  exact (sr_deliverGossip w a b).ids i

theorem C11_sweep_keeps_sessions (w : World) (k i : Nat) :
    regIds ((w.sweep k).node i) = regIds (w.node i) := by
  exact (sr_sweep w k).ids i

/-- a packet on connection c can only end the session of c -/
theorem C11_packet_ends_only_sender (w : World) (c : String) (pkt : CPkt) (i : Nat) (sid : String)
    (h : sid ∈ regIds (w.node i)) (hne : sid ≠ "S" ++ c) :
    sid ∈ regIds ((w.clientPacket c pkt).node i) := by
  exact clientPacket_keeps w c pkt i sid h hne

/-- ending one session never unregisters another -/
theorem C11_shutdown_only_that_session (w : World) (i : Nat) (sid : String) (j : Nat) (sid' : String)
    (h : sid' ∈ regIds (w.node j)) (hne : sid' ≠ sid ∨ j ≠ i) :
    sid' ∈ regIds ((w.shutdownSession i sid).node j) := by
  exact shutdown_keeps w i sid j sid' h hne

/-- CONNECT arms the keep-alive deadline at once -/
theorem C11_keepalive_armed_on_connect (w : World) (c : String) (i : Nat) (hi : i < w.nodes.length) (client mount : String)
    (ka : Nat) (hka : 0 < ka) (will : Option Will) (s : Sess)
    (hs : ((w.connect c i client mount true ka will).node i).sess ("S" ++ c) = some s)
    (hnew : (w.node i).sess ("S" ++ c) = none) :
    s.deadline = w.now + 2 * ka * 1000 ∧ s.keepalive = ka := by
  exact connect_armed w c i hi client mount ka hka will s hs hnew

/-- time passing spares every session whose deadline has not passed -/
theorem C11_idle_spares (w : World) (ms : Int) (i : Nat) (s : Sess) (hs : s ∈ (w.node i).reg)
    (hd : w.now + ms ≤ s.deadline) (hu : ((w.node i).reg.map (·.id)).Nodup) :
    s.id ∈ regIds ((w.idle ms).node i) := by
  exact idle_spares w ms i s hs hd hu

theorem C11_teardown_unregisters (w : World) (i : Nat) (hi : i < w.nodes.length) (s : Sess) :
    s.id ∉ regIds ((teardown w i s).1.node i) := by
  have _ := hi
  exact teardown_removes w i s

theorem C11_teardown_closes (w : World) (i : Nat) (s : Sess) : (s.conn, Pkt.closed) ∈ (teardown w i s).1.out := by
  rw [teardown_out]; simp

/-- every filter of the ended session carries a removal stamp newer than anything stored so far.

    `hinv` was ADDED to the original statement: the subscription store of node i is well formed —
    its keys are unique, every inner list holds at most one entry per session, and every entry is
    stored under its own pattern. `subsSet` keeps this (`Wasp.Dist.subsSet_inv`), so it holds of every
    store reached from the empty one. Without it the statement is false; each of the three parts is
    needed, see `teardown_subscriptions_needs_pattern_keys`, `teardown_subscriptions_needs_unique_keys`,
    `teardown_subscriptions_needs_unique_sessions` below. -/
theorem C11_teardown_subscriptions (w : World) (i : Nat) (hi : i < w.nodes.length) (s : Sess) (t : String) (ht : t ∈ s.topics)
    (hclock : ∀ kl ∈ (w.node i).dist.subs, ∀ u ∈ kl.2, u.added < w.clock ∧ u.deleted < w.clock)
    (hinv : ((w.node i).dist.subs.map (·.1)).Nodup ∧
      ∀ kl ∈ (w.node i).dist.subs, (kl.2.map (·.session)).Nodup ∧ ∀ u ∈ kl.2, u.pattern = kl.1)
    (topic : String) (u : Sub) (hu : u ∈ subByPattern ((teardown w i s).1.node i).dist topic) :
    ¬ (u.session = s.id ∧ u.pattern = t) := by
  exact teardown_subscriptions w i hi s t ht hclock hinv topic u hu

/-! counterexamples to the original statement of `C11_teardown_subscriptions` (without `hinv`):
    in each, `hi`, `ht`, `hclock` hold and a live subscription of the ended session to `t` survives -/

/-- an entry stored under a key that is not its pattern is not found by `subDelete` -/
theorem teardown_subscriptions_needs_pattern_keys :
    let e : Sub := ⟨"S1", "t", 1, 0, 5, 0⟩
    let s : Sess := { id := "S1", conn := "c1", client := "cl", mount := "", keepalive := 30, will := none, topics := ["t"] }
    let w : World := { nodes := [{ peer := 1, dist := { peer := 1, subs := [("a", [e])] }, pool := initPool }] }
    0 < w.nodes.length ∧ "t" ∈ s.topics ∧
    (∀ kl ∈ (w.node 0).dist.subs, ∀ u ∈ kl.2, u.added < w.clock ∧ u.deleted < w.clock) ∧
    ∃ u ∈ subByPattern ((teardown w 0 s).1.node 0).dist "a", u.session = s.id ∧ u.pattern = "t" := by
  decide

/-- with a duplicated key, `subsLookup`/`subsAssign` only see the first list -/
theorem teardown_subscriptions_needs_unique_keys :
    let e : Sub := ⟨"S1", "t", 1, 0, 5, 0⟩
    let s : Sess := { id := "S1", conn := "c1", client := "cl", mount := "", keepalive := 30, will := none, topics := ["t"] }
    let w : World := { nodes := [{ peer := 1, dist := { peer := 1, subs := [("t", []), ("t", [e])] }, pool := initPool }] }
    0 < w.nodes.length ∧ "t" ∈ s.topics ∧
    (∀ kl ∈ (w.node 0).dist.subs, ∀ u ∈ kl.2, u.added < w.clock ∧ u.deleted < w.clock) ∧
    ∃ u ∈ subByPattern ((teardown w 0 s).1.node 0).dist "t", u.session = s.id ∧ u.pattern = "t" := by
  decide

/-- `subListSet` replaces only the first entry of the session -/
theorem teardown_subscriptions_needs_unique_sessions :
    let e1 : Sub := ⟨"S1", "t", 1, 0, 5, 0⟩
    let e2 : Sub := ⟨"S1", "t", 1, 0, 6, 0⟩
    let s : Sess := { id := "S1", conn := "c1", client := "cl", mount := "", keepalive := 30, will := none, topics := ["t"] }
    let w : World := { nodes := [{ peer := 1, dist := { peer := 1, subs := [("t", [e1, e2])] }, pool := initPool }] }
    0 < w.nodes.length ∧ "t" ∈ s.topics ∧
    (∀ kl ∈ (w.node 0).dist.subs, ∀ u ∈ kl.2, u.added < w.clock ∧ u.deleted < w.clock) ∧
    ∃ u ∈ subByPattern ((teardown w 0 s).1.node 0).dist "t", u.session = s.id ∧ u.pattern = "t" := by
  decide

theorem C11_no_write_after_end (w : World) (i : Nat) (sid : String) (q : Int) (rest : List (String × Int)) (p : Pub)
    (hs : (w.node i).sess sid = none) :
    w.send i ((sid, q) :: rest) p = w.send i rest p := by
  simp only [World.send, hs]

end Wasp.Broker

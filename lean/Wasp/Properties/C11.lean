import Wasp.Model.Broker
/-! # C11 (broker level) — theorem statements are being added; see DESIGN.md §4 -/

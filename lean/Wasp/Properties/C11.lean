import Wasp.Model.Broker
import Wasp.Properties.C13
/-!
# C11 — sessions end only for cause, and ending one removes every trace of it

* `C11_gossip_keeps_sessions`, `C11_sweep_keeps_sessions`: delivering gossip and expiry sweeps never end
  a session; `C11_packet_ends_only_sender`: processing a packet of connection c can only end the session of c;
* `C11_keepalive_armed_on_connect`, `C11_keepalive_rearmed`: from CONNECT on, and after every processed
  packet, the session's deadline is `now + multiplier · keepalive` with the multiplier read from the
  source (≥ 1); `C11_idle_spares`: the passing of time ends only sessions whose deadline has passed — so a
  client that stays within its keep-alive is never dropped, however long it idles in between;
* `C11_teardown_unregisters`, `C11_teardown_closes`: when a session ends it leaves the registry and its
  connection is closed; `C11_teardown_subscriptions`: every filter in its filter list is removed (a
  tombstone newer than the subscription) and the removals are queued for broadcast; `C11_teardown_record`:
  its session record is deleted when the client id still resolves to it;
* with C08/C09 (broadcasts carry the changes; any delivery order converges) the removals reach every node;
* `C11_no_write_after_end`: the writer skips recipients that are not registered.
-/
namespace Wasp.Broker
open Wasp.Dist Wasp.Topic

def regIds (n : Node) : List String := n.reg.map (·.id)

theorem C11_gossip_keeps_sessions (w : World) (a b i : Nat) :
    regIds ((w.deliverGossip a b).node i) = regIds (w.node i) := by
  sorry

theorem C11_sweep_keeps_sessions (w : World) (k i : Nat) :
    regIds ((w.sweep k).node i) = regIds (w.node i) := by
  sorry

/-- a packet on connection c can only end the session of c -/
theorem C11_packet_ends_only_sender (w : World) (c : String) (pkt : CPkt) (i : Nat) (sid : String)
    (h : sid ∈ regIds (w.node i)) (hne : sid ≠ "S" ++ c) :
    sid ∈ regIds ((w.clientPacket c pkt).node i) := by
  sorry

/-- ending one session never unregisters another -/
theorem C11_shutdown_only_that_session (w : World) (i : Nat) (sid : String) (j : Nat) (sid' : String)
    (h : sid' ∈ regIds (w.node j)) (hne : sid' ≠ sid ∨ j ≠ i) :
    sid' ∈ regIds ((w.shutdownSession i sid).node j) := by
  sorry

/-- CONNECT arms the keep-alive deadline at once -/
theorem C11_keepalive_armed_on_connect (w : World) (c : String) (i : Nat) (hi : i < w.nodes.length) (client mount : String)
    (ka : Nat) (hka : 0 < ka) (will : Option Will) (s : Sess)
    (hs : ((w.connect c i client mount true ka will).node i).sess ("S" ++ c) = some s)
    (hnew : (w.node i).sess ("S" ++ c) = none) :
    s.deadline = w.now + 2 * ka * 1000 ∧ s.keepalive = ka := by
  sorry

/-- time passing spares every session whose deadline has not passed -/
theorem C11_idle_spares (w : World) (ms : Int) (i : Nat) (s : Sess) (hs : s ∈ (w.node i).reg)
    (hd : w.now + ms ≤ s.deadline) (hu : ((w.node i).reg.map (·.id)).Nodup) :
    s.id ∈ regIds ((w.idle ms).node i) := by
  sorry

theorem C11_teardown_unregisters (w : World) (i : Nat) (hi : i < w.nodes.length) (s : Sess) :
    s.id ∉ regIds ((teardown w i s).1.node i) := by
  sorry

theorem C11_teardown_closes (w : World) (i : Nat) (s : Sess) : (s.conn, Pkt.closed) ∈ (teardown w i s).1.out := by
  sorry

/-- every filter of the ended session carries a removal stamp newer than anything stored so far -/
theorem C11_teardown_subscriptions (w : World) (i : Nat) (hi : i < w.nodes.length) (s : Sess) (t : String) (ht : t ∈ s.topics)
    (hclock : ∀ kl ∈ (w.node i).dist.subs, ∀ u ∈ kl.2, u.added < w.clock ∧ u.deleted < w.clock)
    (topic : String) (u : Sub) (hu : u ∈ subByPattern ((teardown w i s).1.node i).dist topic) :
    ¬ (u.session = s.id ∧ u.pattern = t) := by
  sorry

theorem C11_no_write_after_end (w : World) (i : Nat) (sid : String) (q : Int) (rest : List (String × Int)) (p : Pub)
    (hs : (w.node i).sess sid = none) :
    w.send i ((sid, q) :: rest) p = w.send i rest p := by
  sorry

end Wasp.Broker

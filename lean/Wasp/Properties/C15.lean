import Wasp.Model.MsgLog
/-!
# C15 — message-log consumption survives crashes without skipping messages
(and the log-side facts C02 relies on)

For EVERY sequence of appends, consumer steps, crashes, clean stops and restarts
(`exec {} steps`, crash possible between any two micro-steps):

* `C15_no_skip`        every offset below the persistent state has been handed over;
* `C15_delivered_le_st` nothing beyond the persistent state was ever handed over — so a restart,
                       which resumes at `st`, can hand over again at most ONE already delivered
                       message: the one at `st`, i.e. the one in flight when the process died;
* `C15_deliver_is_st`  within a run the hand-overs are consecutive and increasing (each one is
                       the current `st`, and `st` grows by one per commit);
* `C15_trunc_safe`     truncation never removes a message that has not been handed over, and
                       keeps `truncKeep` handed-over messages behind the consumer, more than the
                       writer's queue can still reference (`C02_writer_queue_margin`);
* `C15_progress`       a consumer that is allowed to run hands over everything appended.
The constants (segment size 500, truncation 1500/1000/300, writer queue 25) are read from the
Go source on every run (`Wasp.Generated.Facts`).
-/
namespace Wasp.MsgLog
open Wasp.Generated

structure Inv (s : State) : Prop where
  baseLeSt : s.log.base ≤ s.st
  stLeNext : s.st ≤ s.log.next
  margin : s.log.base = 0 ∨ s.log.base + truncKeep ≤ s.st
  runCur : ∀ r, s.run = some r → r.cur = s.st ∧ (∀ o, r.pending = some o → o = s.st ∧ o < s.log.next)

theorem C15_inv_init : Inv {} := by
  sorry

theorem C15_inv_step (s : State) (h : Inv s) (x : Step) : Inv (step s x).1 := by
  sorry

theorem C15_inv (steps : List Step) : Inv (exec {} steps).1 := by
  sorry

/-- a hand-over is always of the offset the state file names -/
theorem C15_deliver_is_st (s : State) (h : Inv s) (o : Nat) (hd : (step s .deliver).2 = some o) :
    o = s.st ∧ (step s .deliver).1.st = s.st := by
  sorry

/-- only `commit` moves the state file, and by exactly one, past the offset just handed over -/
theorem C15_st_moves (s : State) (h : Inv s) (x : Step) :
    (step s x).1.st = s.st ∨ (x = .commit ∧ (step s x).1.st = s.st + 1 ∧ ∃ r, s.run = some r ∧ r.pending = some s.st) := by
  sorry

/-- every offset below the state file has been handed over -/
theorem C15_no_skip (steps : List Step) (o : Nat) (h : o < (exec {} steps).1.st) :
    some o ∈ (exec {} steps).2 := by
  sorry

/-- nothing beyond the state file has been handed over -/
theorem C15_delivered_le_st (steps : List Step) (o : Nat) (h : some o ∈ (exec {} steps).2) :
    o ≤ (exec {} steps).1.st := by
  sorry

/-- and the offset AT the state file has been handed over only if it is in flight now or was in
    flight at a crash: if no run is in progress with it pending, and it was delivered, then some
    crash happened after its delivery (replay is bounded by the message being processed) -/
theorem C15_replay_only_in_flight (steps : List Step)
    (h : some (exec {} steps).1.st ∈ (exec {} steps).2)
    (hr : ∀ r, (exec {} steps).1.run = some r → r.pending = none) :
    Step.crash ∈ steps := by
  sorry

/-- truncation never removes a message that has not been handed over -/
theorem C15_trunc_safe (steps : List Step) :
    (exec {} steps).1.log.base ≤ (exec {} steps).1.st := by
  sorry

/-- … and keeps at least `truncKeep` handed-over messages on disk behind the consumer -/
theorem C15_trunc_margin (steps : List Step) :
    (exec {} steps).1.log.base = 0 ∨ (exec {} steps).1.log.base + truncKeep ≤ (exec {} steps).1.st := by
  sorry

/-- the writer holds at most `writerQueueCap` scheduled offsets plus the one in hand; all of them
    are among the last `truncKeep` handed over -/
theorem C02_writer_queue_margin : Facts.writerQueueCap + 1 < Facts.truncKeep := by
  sorry

/-- maybeTruncate acts only on whole segments and only beyond the first `truncAfter` messages -/
theorem C15_truncate_shape (l : Log) (cur : Nat) :
    (maybeTruncate l cur).next = l.next ∧ l.base ≤ (maybeTruncate l cur).base ∧
    ((maybeTruncate l cur).base = l.base ∨ (maybeTruncate l cur).base + truncKeep ≤ cur) := by
  sorry

/-- one incarnation from a stopped consumer hands over the next `min k (next - st)` offsets,
    consecutively from `st`, and commits all of them (clean) or all but the last (killed inside the
    last callback) -/
theorem C15_progress (s : State) (h : Inv s) (hr : s.run = none) (k : Nat) (inCb : Bool) :
    let n := min k (s.log.next - s.st)
    (incarnation s k inCb).2 = (List.range n).map (· + s.st) ∧
    (incarnation s k inCb).1.st = (if inCb ∧ n = k ∧ 0 < k then s.st + n - 1 else s.st + n) ∧
    (incarnation s k inCb).1.run = none := by
  sorry

/-- non-vacuity: a crash inside a callback, a restart, truncation after 2000 messages -/
example :
    let s0 : State := (exec {} (List.replicate 5 .append)).1
    let r1 := incarnation s0 3 true
    let r2 := incarnation r1.1 10 false
    r1.2 = [0, 1, 2] ∧ r1.1.st = 2 ∧ r2.2 = [2, 3, 4] ∧ r2.1.st = 5 := by decide

end Wasp.MsgLog

import Wasp.Model.MsgLog
import Wasp.Proofs.MsgLog
/-!
# C15 — message-log consumption survives crashes without skipping messages
(and the log-side facts C02 relies on)

For EVERY sequence of appends, consumer steps, crashes, clean stops and restarts
(`exec {} steps`, crash possible between any two micro-steps):

* `C15_no_skip`        every offset below the persistent state has been handed over;
* `C15_delivered_le_st` nothing beyond the persistent state was ever handed over — so a restart,
                       which resumes at `st`, can hand over again at most ONE already delivered
                       message: the one at `st`, i.e. the one in flight when the process died;
* `C15_deliver_is_st`  within a run the hand-overs are consecutive and increasing (each one is
                       the current `st`, and `st` grows by one per commit);
* `C15_trunc_safe`     truncation never removes a message that has not been handed over, and
                       keeps `truncKeep` handed-over messages behind the consumer, more than the
                       writer's queue can still reference (`C02_writer_queue_margin`);
* `C15_progress`       a consumer that is allowed to run hands over everything appended.
The constants (segment size 500, truncation 1500/1000/300, writer queue 25) are read from the
Go source on every run (`Wasp.Generated.Facts`).
-/
namespace Wasp.MsgLog
open Wasp.Generated

structure Inv (s : State) : Prop where
  baseLeSt : s.log.base ≤ s.st
  stLeNext : s.st ≤ s.log.next
  margin : s.log.base = 0 ∨ s.log.base + truncKeep ≤ s.st
  runCur : ∀ r, s.run = some r → r.cur = s.st ∧ (∀ o, r.pending = some o → o = s.st ∧ o < s.log.next)

theorem C15_inv_init : Inv {} := by
  constructor <;> simp

theorem C15_inv_step (s : State) (h : Inv s) (x : Step) : Inv (step s x).1 := by
  obtain ⟨h1, h2, h3, h4⟩ := h
  have hb := maybeTruncate_base s.log s.st
  have hg := maybeTruncate_base_ge s.log s.st
  have hn := maybeTruncate_next s.log s.st
  cases x with
  | append =>
    refine ⟨h1, Nat.le_succ_of_le h2, h3, fun r hr => ⟨(h4 r hr).1, fun o ho => ?_⟩⟩
    have := (h4 r hr).2 o ho
    exact ⟨this.1, Nat.lt_succ_of_lt this.2⟩
  | start =>
    simp only [step]
    split
    · exact ⟨h1, h2, h3, h4⟩
    · refine ⟨?_, ?_, ?_, ?_⟩
      · show (maybeTruncate s.log s.st).base ≤ s.st
        omega
      · show s.st ≤ (maybeTruncate s.log s.st).next
        omega
      · show (maybeTruncate s.log s.st).base = 0 ∨ (maybeTruncate s.log s.st).base + truncKeep ≤ s.st
        omega
      · intro r hr
        simp only [Option.some.injEq] at hr
        subst hr
        simp
  | deliver =>
    simp only [step]
    split
    · rename_i r hr
      split
      · rename_i hc
        refine ⟨h1, h2, h3, ?_⟩
        intro r' hr'
        simp only [Option.some.injEq] at hr'
        subst hr'
        have := (h4 r hr).1
        simp only [Bool.not_eq_eq_eq_not, Bool.not_true] at hc
        refine ⟨this, ?_⟩
        intro o ho
        simp only [Option.some.injEq] at ho
        show o = s.st ∧ o < s.log.next
        omega
      · exact ⟨h1, h2, h3, h4⟩
    · exact ⟨h1, h2, h3, h4⟩
  | commit =>
    simp only [step]
    split
    · rename_i r hr
      split
      · rename_i o ho
        have := (h4 r hr).2 o ho
        refine ⟨?_, ?_, ?_, ?_⟩
        · show s.log.base ≤ o + 1
          omega
        · show o + 1 ≤ s.log.next
          omega
        · show s.log.base = 0 ∨ s.log.base + truncKeep ≤ o + 1
          omega
        · intro r' hr'
          simp only [Option.some.injEq] at hr'
          subst hr'
          simp
      · exact ⟨h1, h2, h3, h4⟩
    · exact ⟨h1, h2, h3, h4⟩
  | truncate =>
    simp only [step]
    split
    · rename_i r hr
      split
      · refine ⟨?_, ?_, ?_, ?_⟩
        · show (maybeTruncate s.log s.st).base ≤ s.st
          omega
        · show s.st ≤ (maybeTruncate s.log s.st).next
          omega
        · show (maybeTruncate s.log s.st).base = 0 ∨ (maybeTruncate s.log s.st).base + truncKeep ≤ s.st
          omega
        · intro r' hr'
          simp only [Option.some.injEq] at hr'
          subst hr'
          refine ⟨(h4 r hr).1, fun o ho => ?_⟩
          have := (h4 r hr).2 o ho
          show o = s.st ∧ o < (maybeTruncate s.log s.st).next
          omega
      · exact ⟨h1, h2, h3, h4⟩
    · exact ⟨h1, h2, h3, h4⟩
  | crash =>
    exact ⟨h1, h2, h3, fun r hr => by cases hr⟩
  | stop =>
    simp only [step]
    split
    · split
      · exact ⟨h1, h2, h3, fun r hr => by simp at hr⟩
      · exact ⟨h1, h2, h3, h4⟩
    · exact ⟨h1, h2, h3, h4⟩


def StepCases (s : State) (x : Step) (p : State × Obs) : Prop :=
    (p.2 = none ∧ p.1.st = s.st ∧
      (∀ r' o, p.1.run = some r' → r'.pending = some o → ∃ r, s.run = some r ∧ r.pending = some o) ∧
      (x = .crash ∨ ∀ r o, s.run = some r → r.pending = some o →
        ∃ r', p.1.run = some r' ∧ r'.pending = some o))
    ∨ (x = .deliver ∧ p.2 = some s.st ∧ p.1.st = s.st ∧
        ∃ r', p.1.run = some r' ∧ r'.pending = some s.st)
    ∨ (x = .commit ∧ p.2 = none ∧ p.1.st = s.st + 1 ∧
        (∃ r, s.run = some r ∧ r.pending = some s.st) ∧
        ∃ r', p.1.run = some r' ∧ r'.pending = none)

theorem stepCases_id (s : State) (x : Step) : StepCases s x (s, none) :=
  Or.inl ⟨rfl, rfl, fun r' _ h1 h2 => ⟨r', h1, h2⟩, Or.inr fun r _ h1 h2 => ⟨r, h1, h2⟩⟩

theorem step_cases (s : State) (h : Inv s) (x : Step) : StepCases s x (step s x) := by
  obtain ⟨h1, h2, h3, h4⟩ := h
  cases x with
  | append =>
    exact Or.inl ⟨rfl, rfl, fun r' o h1 h2 => ⟨r', h1, h2⟩, Or.inr fun r o h1 h2 => ⟨r, h1, h2⟩⟩
  | start =>
    cases hr : s.run with
    | some r => rw [step_start_some hr]; exact stepCases_id _ _
    | none =>
      rw [step_start_none hr]
      refine Or.inl ⟨rfl, rfl, ?_, Or.inr ?_⟩
      · intro r' o h1 h2
        simp only [Option.some.injEq] at h1
        subst h1
        cases h2
      · intro r o h
        rw [hr] at h
        cases h
  | deliver =>
    cases hr : s.run with
    | none => rw [step_norun hr _ (by simp)]; exact stepCases_id _ _
    | some r =>
      by_cases hc : r.pending = none ∧ r.needTrunc = false ∧ r.cur < s.log.next ∧ s.log.base ≤ r.cur
      · have hcur := (h4 r hr).1
        rw [step_deliver_en hr hc.1 hc.2.1 hc.2.2.1 hc.2.2.2]
        exact Or.inr (Or.inl ⟨rfl, by rw [hcur], rfl, _, rfl, by rw [hcur]⟩)
      · rw [step_deliver_dis hr hc]; exact stepCases_id _ _
  | commit =>
    cases hr : s.run with
    | none => rw [step_norun hr _ (by simp)]; exact stepCases_id _ _
    | some r =>
      cases hp : r.pending with
      | none => rw [step_commit_dis hr hp]; exact stepCases_id _ _
      | some o =>
        have ho := ((h4 r hr).2 o hp).1
        subst ho
        rw [step_commit_en hr hp]
        exact Or.inr (Or.inr ⟨rfl, rfl, rfl, ⟨r, hr, hp⟩, _, rfl, rfl⟩)
  | truncate =>
    cases hr : s.run with
    | none => rw [step_norun hr _ (by simp)]; exact stepCases_id _ _
    | some r =>
      cases hc : r.needTrunc with
      | true =>
        rw [step_truncate_en hr hc]
        refine Or.inl ⟨rfl, rfl, ?_, Or.inr ?_⟩
        · intro r' o h1 h2
          simp only [Option.some.injEq] at h1
          subst h1
          exact ⟨r, hr, h2⟩
        · intro r' o h1 h2
          rw [hr] at h1
          simp only [Option.some.injEq] at h1
          subst h1
          exact ⟨_, rfl, h2⟩
      | false => rw [step_truncate_dis hr hc]; exact stepCases_id _ _
  | crash =>
    exact Or.inl ⟨rfl, rfl, fun r' o h => (by cases h), Or.inl rfl⟩
  | stop =>
    cases hr : s.run with
    | none => rw [step_norun hr _ (by simp)]; exact stepCases_id _ _
    | some r =>
      cases hp : r.pending with
      | none =>
        rw [step_stop_en hr hp]
        refine Or.inl ⟨rfl, rfl, fun r' o h => (by cases h), Or.inr ?_⟩
        intro r' o h1 h2
        rw [hr] at h1
        simp only [Option.some.injEq] at h1
        subst h1
        rw [h2] at hp
        cases hp
      | some o => rw [step_stop_dis hr hp]; exact stepCases_id _ _


theorem C15_inv_from (s : State) (h : Inv s) (steps : List Step) : Inv (exec s steps).1 := by
  induction steps generalizing s with
  | nil => exact h
  | cons x xs ih => rw [exec_cons]; exact ih _ (C15_inv_step s h x)

/-- ghost invariant for `C15_no_skip` -/
def Seen (s : State) (obs : List Obs) : Prop :=
  (∀ o, o < s.st → some o ∈ obs) ∧ (∀ r o, s.run = some r → r.pending = some o → some o ∈ obs)

theorem seen_step (s : State) (h : Inv s) (obs : List Obs) (g : Seen s obs) (x : Step) :
    Seen (step s x).1 (obs ++ [(step s x).2]) := by
  obtain ⟨g1, g2⟩ := g
  rcases step_cases s h x with ⟨_, hst, hp, _⟩ | ⟨_, ho, hst, r', hr', hp'⟩ | ⟨_, _, hst, ⟨r, hr, hp⟩, r', hr', hp'⟩
  · refine ⟨fun o ho => ?_, fun r' o hr' hp' => ?_⟩
    · rw [hst] at ho
      exact List.mem_append_left _ (g1 o ho)
    · obtain ⟨r, hr, hp2⟩ := hp r' o hr' hp'
      exact List.mem_append_left _ (g2 r o hr hp2)
  · refine ⟨fun o ho => ?_, fun r o hr hp => ?_⟩
    · rw [hst] at ho
      exact List.mem_append_left _ (g1 o ho)
    · rw [hr'] at hr
      simp only [Option.some.injEq] at hr
      subst hr
      rw [hp'] at hp
      simp only [Option.some.injEq] at hp
      subst hp
      rw [ho]
      simp
  · refine ⟨fun o ho => ?_, fun r2 o hr2 hp2 => ?_⟩
    · rw [hst] at ho
      by_cases hlt : o < s.st
      · exact List.mem_append_left _ (g1 o hlt)
      · have : o = s.st := by omega
        subst this
        exact List.mem_append_left _ (g2 r _ hr hp)
    · rw [hr'] at hr2
      simp only [Option.some.injEq] at hr2
      subst hr2
      rw [hp'] at hp2
      cases hp2

theorem seen_exec (s : State) (h : Inv s) (obs : List Obs) (g : Seen s obs) (steps : List Step) :
    Seen (exec s steps).1 (obs ++ (exec s steps).2) := by
  induction steps generalizing s obs with
  | nil => simpa [exec_nil] using g
  | cons x xs ih =>
    rw [exec_cons]
    have := ih _ (C15_inv_step s h x) _ (seen_step s h obs g x)
    simpa [List.append_assoc] using this

/-- ghost invariant for `C15_delivered_le_st` -/
def Below (s : State) (obs : List Obs) : Prop := ∀ o, some o ∈ obs → o ≤ s.st

theorem below_step (s : State) (h : Inv s) (obs : List Obs) (g : Below s obs) (x : Step) :
    Below (step s x).1 (obs ++ [(step s x).2]) := by
  intro o ho
  rw [List.mem_append, List.mem_singleton] at ho
  rcases step_cases s h x with ⟨hn, hst, _, _⟩ | ⟨_, hob, hst, _⟩ | ⟨_, hn, hst, _, _⟩
  · rw [hst]
    rcases ho with ho | ho
    · exact g o ho
    · rw [hn] at ho; cases ho
  · rw [hst]
    rcases ho with ho | ho
    · exact g o ho
    · rw [hob] at ho
      simp only [Option.some.injEq] at ho
      omega
  · rw [hst]
    rcases ho with ho | ho
    · exact Nat.le_succ_of_le (g o ho)
    · rw [hn] at ho; cases ho

theorem below_exec (s : State) (h : Inv s) (obs : List Obs) (g : Below s obs) (steps : List Step) :
    Below (exec s steps).1 (obs ++ (exec s steps).2) := by
  induction steps generalizing s obs with
  | nil => simpa [exec_nil] using g
  | cons x xs ih =>
    rw [exec_cons]
    have := ih _ (C15_inv_step s h x) _ (below_step s h obs g x)
    simpa [List.append_assoc] using this

/-- ghost invariant for `C15_replay_only_in_flight`; `c` = "a crash has occurred so far" -/
def InFlight (s : State) (obs : List Obs) (c : Prop) : Prop :=
  some s.st ∈ obs → (∃ r, s.run = some r ∧ r.pending = some s.st) ∨ c

theorem inflight_step (s : State) (h : Inv s) (obs : List Obs) (c : Prop) (gb : Below s obs)
    (g : InFlight s obs c) (x : Step) :
    InFlight (step s x).1 (obs ++ [(step s x).2]) (c ∨ x = .crash) := by
  intro ho
  rw [List.mem_append, List.mem_singleton] at ho
  rcases step_cases s h x with ⟨hn, hst, _, hk⟩ | ⟨_, hob, hst, r', hr', hp'⟩ | ⟨_, hn, hst, _, _⟩
  · rw [hst] at ho ⊢
    rcases ho with ho | ho
    · rcases g ho with ⟨r, hr, hp⟩ | hc
      · rcases hk with hk | hk
        · exact Or.inr (Or.inr hk)
        · exact Or.inl (hk r _ hr hp)
      · exact Or.inr (Or.inl hc)
    · rw [hn] at ho; cases ho
  · rw [hst]
    exact Or.inl ⟨r', hr', hp'⟩
  · rw [hst] at ho
    rcases ho with ho | ho
    · have := gb _ ho
      omega
    · rw [hn] at ho; cases ho

theorem inflight_exec (s : State) (h : Inv s) (obs : List Obs) (c : Prop) (gb : Below s obs)
    (g : InFlight s obs c) (steps : List Step) :
    InFlight (exec s steps).1 (obs ++ (exec s steps).2) (c ∨ Step.crash ∈ steps) := by
  induction steps generalizing s obs c with
  | nil => simpa [exec_nil, InFlight] using g
  | cons x xs ih =>
    rw [exec_cons]
    have := ih _ (C15_inv_step s h x) _ _ (below_step s h obs gb x) (inflight_step s h obs c gb g x)
    intro ho
    have := this (by simpa [List.append_assoc] using ho)
    rcases this with h1 | (h1 | h1) | h1
    · exact Or.inl h1
    · exact Or.inr (Or.inl h1)
    · subst h1; exact Or.inr (Or.inr (by simp))
    · exact Or.inr (Or.inr (List.mem_cons_of_mem _ h1))

theorem C15_inv (steps : List Step) : Inv (exec {} steps).1 := C15_inv_from _ C15_inv_init _

/-- every offset below the state file has been handed over -/
theorem C15_no_skip (steps : List Step) (o : Nat) (h : o < (exec {} steps).1.st) :
    some o ∈ (exec {} steps).2 := by
  have := seen_exec {} C15_inv_init [] ⟨fun o ho => (by cases ho), fun r o hr => (by cases hr)⟩ steps
  simpa using this.1 o h

/-- nothing beyond the state file has been handed over -/
theorem C15_delivered_le_st (steps : List Step) (o : Nat) (h : some o ∈ (exec {} steps).2) :
    o ≤ (exec {} steps).1.st := by
  have := below_exec {} C15_inv_init [] (fun o ho => by cases ho) steps
  exact this o (by simpa using h)

/-- and the offset AT the state file has been handed over only if it is in flight now or was in
    flight at a crash: if no run is in progress with it pending, and it was delivered, then some
    crash happened after its delivery (replay is bounded by the message being processed) -/
theorem C15_replay_only_in_flight (steps : List Step)
    (h : some (exec {} steps).1.st ∈ (exec {} steps).2)
    (hr : ∀ r, (exec {} steps).1.run = some r → r.pending = none) :
    Step.crash ∈ steps := by
  have := inflight_exec {} C15_inv_init [] False (fun o ho => by cases ho) (fun ho => by cases ho) steps
  rcases this (by simpa using h) with ⟨r, h1, h2⟩ | h1 | h1
  · rw [hr r h1] at h2; cases h2
  · exact h1.elim
  · exact h1


/-- a hand-over is always of the offset the state file names -/
theorem C15_deliver_is_st (s : State) (h : Inv s) (o : Nat) (hd : (step s .deliver).2 = some o) :
    o = s.st ∧ (step s .deliver).1.st = s.st := by
  rcases step_cases s h .deliver with ⟨hn, _⟩ | ⟨_, hob, hst, _⟩ | ⟨hx, _⟩
  · rw [hn] at hd; cases hd
  · rw [hob] at hd
    simp only [Option.some.injEq] at hd
    exact ⟨hd.symm, hst⟩
  · cases hx

/-- only `commit` moves the state file, and by exactly one, past the offset just handed over -/
theorem C15_st_moves (s : State) (h : Inv s) (x : Step) :
    (step s x).1.st = s.st ∨ (x = .commit ∧ (step s x).1.st = s.st + 1 ∧ ∃ r, s.run = some r ∧ r.pending = some s.st) := by
  rcases step_cases s h x with ⟨_, hst, _⟩ | ⟨_, _, hst, _⟩ | ⟨hx, _, hst, hr, _⟩
  · exact Or.inl hst
  · exact Or.inl hst
  · exact Or.inr ⟨hx, hst, hr⟩

/-- truncation never removes a message that has not been handed over -/
theorem C15_trunc_safe (steps : List Step) :
    (exec {} steps).1.log.base ≤ (exec {} steps).1.st := (C15_inv steps).baseLeSt

/-- … and keeps at least `truncKeep` handed-over messages on disk behind the consumer -/
theorem C15_trunc_margin (steps : List Step) :
    (exec {} steps).1.log.base = 0 ∨ (exec {} steps).1.log.base + truncKeep ≤ (exec {} steps).1.st :=
  (C15_inv steps).margin

/-- the writer holds at most `writerQueueCap` scheduled offsets plus the one in hand; all of them
    are among the last `truncKeep` handed over -/
theorem C02_writer_queue_margin : Facts.writerQueueCap + 1 < Facts.truncKeep := by
  decide

/-- maybeTruncate acts only on whole segments and only beyond the first `truncAfter` messages -/
theorem C15_truncate_shape (l : Log) (cur : Nat) :
    (maybeTruncate l cur).next = l.next ∧ l.base ≤ (maybeTruncate l cur).base ∧
    ((maybeTruncate l cur).base = l.base ∨ (maybeTruncate l cur).base + truncKeep ≤ cur) :=
  ⟨maybeTruncate_next l cur, maybeTruncate_base_ge l cur, maybeTruncate_base l cur⟩

/-- a running consumer between two records: nothing pending, truncation done -/
def Ready (s : State) : Prop := Inv s ∧ s.run = some ⟨s.st, none, false⟩

def triple : List Step := [.deliver, .commit, .truncate]

theorem triple_en (s : State) (h : Ready s) (hlt : s.st < s.log.next) :
    exec s triple =
      ({ log := maybeTruncate s.log (s.st + 1), st := s.st + 1, run := some ⟨s.st + 1, none, false⟩ },
        [some s.st, none, none]) := by
  obtain ⟨hi, hr⟩ := h
  have e1 := step_deliver_en (s := s) hr rfl rfl hlt hi.baseLeSt
  have e2 := step_commit_en (s := { s with run := some ⟨s.st, some s.st, false⟩ }) (o := s.st) rfl rfl
  have e3 := step_truncate_en
    (s := { s with st := s.st + 1, run := some ⟨s.st + 1, none, true⟩ }) rfl rfl
  simp only [triple, exec_cons, exec_nil, e1, e2, e3]

theorem triple_dis (s : State) (h : Ready s) (hlt : ¬ s.st < s.log.next) :
    exec s triple = (s, [none, none, none]) := by
  obtain ⟨hi, hr⟩ := h
  have e1 := step_deliver_dis (s := s) hr (fun hc => hlt hc.2.2.1)
  have e2 := step_commit_dis (s := s) hr rfl
  have e3 := step_truncate_dis (s := s) hr rfl
  simp only [triple, exec_cons, exec_nil, e1, e2, e3]

theorem loop (j : Nat) : ∀ s, Ready s →
    Ready (exec s (List.replicate j triple).flatten).1 ∧
    (exec s (List.replicate j triple).flatten).1.st = s.st + min j (s.log.next - s.st) ∧
    (exec s (List.replicate j triple).flatten).1.log.next = s.log.next ∧
    (exec s (List.replicate j triple).flatten).2.filterMap id =
      List.range' s.st (min j (s.log.next - s.st)) := by
  induction j with
  | zero =>
    intro s h
    simp [exec_nil, h]
  | succ j ih =>
    intro s h
    rw [List.replicate_succ, List.flatten_cons, exec_append]
    by_cases hlt : s.st < s.log.next
    · have hi := C15_inv_from s h.1 triple
      rw [triple_en s h hlt] at hi ⊢
      obtain ⟨a, b, c, d⟩ := ih _ ⟨hi, rfl⟩
      simp only [maybeTruncate_next] at b c d
      refine ⟨a, ?_, c, ?_⟩
      · rw [b]; omega
      · have hm : min (j + 1) (s.log.next - s.st) = min j (s.log.next - (s.st + 1)) + 1 := by omega
        rw [hm, List.range'_succ]
        simp [d]
    · rw [triple_dis s h hlt]
      obtain ⟨a, b, c, d⟩ := ih _ h
      have h0 : s.log.next - s.st = 0 := by omega
      rw [h0] at b d ⊢
      simp only [Nat.min_zero] at b d ⊢
      exact ⟨a, b, c, by simpa using d⟩


/-- the last (possibly interrupted) hand-over of an incarnation followed by the crash -/
theorem tail_crash (s : State) (h : Ready s) (k : Nat) (inCb : Bool) :
    let T : List Step := if k = 0 then [] else if inCb then [.deliver] else triple
    let e := if s.st < s.log.next ∧ k ≠ 0 then 1 else 0
    (exec s (T ++ [.crash])).1.run = none ∧
    (exec s (T ++ [.crash])).1.st = s.st + (if inCb then 0 else e) ∧
    (exec s (T ++ [.crash])).2.filterMap id = List.range' s.st e := by
  intro T e
  by_cases hk : k = 0
  · simp [T, e, hk, exec_cons, exec_nil, step_crash]
  · simp only [T, e, hk, if_false]
    rw [exec_append]
    simp only [exec_cons, exec_nil, step_crash]
    by_cases hlt : s.st < s.log.next
    · cases inCb with
      | true =>
        have e1 := step_deliver_en (s := s) h.2 rfl rfl hlt h.1.baseLeSt
        simp [exec_cons, exec_nil, e1, hlt, hk]
      | false =>
        simp [triple_en s h hlt, hlt, hk]
    · cases inCb with
      | true =>
        have e1 := step_deliver_dis (s := s) h.2 (fun hc => hlt hc.2.2.1)
        simp [exec_cons, exec_nil, e1, hlt, hk]
      | false =>
        simp [triple_dis s h hlt, hlt, hk]

/-- one incarnation from a stopped consumer hands over the next `min k (next - st)` offsets,
    consecutively from `st`, and commits all of them (clean) or all but the last (killed inside the
    last callback) -/
theorem C15_progress (s : State) (h : Inv s) (hr : s.run = none) (k : Nat) (inCb : Bool) :
    let n := min k (s.log.next - s.st)
    (incarnation s k inCb).2 = (List.range n).map (· + s.st) ∧
    (incarnation s k inCb).1.st = (if inCb ∧ n = k ∧ 0 < k then s.st + n - 1 else s.st + n) ∧
    (incarnation s k inCb).1.run = none := by
  intro n
  have hn : n = min k (s.log.next - s.st) := rfl
  have hsteps : incarnationSteps k inCb =
      [.start] ++ ((List.replicate (k - 1) triple).flatten ++
        ((if k = 0 then [] else if inCb then [.deliver] else triple) ++ [.crash])) := by
    simp only [incarnationSteps, triple, List.append_assoc]
  have hs1 : Ready (step s .start).1 := by
    refine ⟨C15_inv_step s h .start, ?_⟩
    rw [step_start_none hr]
  have hst1 : (step s .start).1.st = s.st := by rw [step_start_none hr]
  have hn1 : (step s .start).1.log.next = s.log.next := by
    rw [step_start_none hr]; exact maybeTruncate_next _ _
  have ho1 : (step s .start).2 = none := by rw [step_start_none hr]
  obtain ⟨a, b, c, d⟩ := loop (k - 1) _ hs1
  obtain ⟨ta, tb, tc⟩ := tail_crash _ a k inCb
  rw [hst1, hn1] at b d
  rw [b, c, hn1] at tb tc
  simp only [incarnation, hsteps]
  rw [List.singleton_append, exec_cons, exec_append]
  simp only [ho1, List.filterMap_cons, id, List.filterMap_append]
  rw [d, tc, ta, tb]
  have hrange : ∀ a m, List.range' a m = (List.range m).map (· + a) := by
    intro a m
    rw [List.range'_eq_map_range]
    exact List.map_congr_left (fun x _ => Nat.add_comm _ _)
  refine ⟨?_, ?_, rfl⟩
  · rw [← hrange]
    have := List.range'_append_1 (s := s.st) (m := min (k - 1) (s.log.next - s.st))
      (n := if s.st + min (k - 1) (s.log.next - s.st) < s.log.next ∧ k ≠ 0 then 1 else 0)
    rw [this]
    congr 1
    split <;> omega
  · cases inCb <;> simp only [Bool.false_eq_true, false_and, if_false, true_and, if_true] <;>
      (repeat' split) <;> omega

/-- non-vacuity: a crash inside a callback, a restart, truncation after 2000 messages -/
example :
    let s0 : State := (exec {} (List.replicate 5 .append)).1
    let r1 := incarnation s0 3 true
    let r2 := incarnation r1.1 10 false
    r1.2 = [0, 1, 2] ∧ r1.1.st = 2 ∧ r2.2 = [2, 3, 4] ∧ r2.1.st = 5 := by decide

end Wasp.MsgLog

import Wasp.Proofs.Trie
import Wasp.Properties.C19
import Wasp.Properties.C08
/-!
# C07 — retained: the last non-empty publish per topic is replayed to new subscribers
(storage and matching core: retained trie, `TopicsState`)

* `C07_match_exact`, `C07_match_once`: in every reachable retained trie, for every well-formed
  filter, `Match` returns exactly the non-empty values stored at topics the filter matches, each
  once (a trailing '#' includes the parent level);
* `C07_independent`: storing, replacing or clearing the value of one topic never changes what is
  stored at any other topic (this is C19's refinement theorem, restated);
* `C07_get`: `TopicsState.Get(filter)` lists exactly the ADDED stored messages whose topic matches;
* `C07_set_then_get`, `C07_delete_then_get`: after a retained publish the message is listed for
  every matching filter with its payload and the retain flag it was stored with; after a clear
  (empty payload) nothing is listed for the topic; other topics are unaffected;
* `C07_replicated`: a node that merged the broadcast lists the same retained message (from C08/C09).
The replay on SUBSCRIBE and the unflagged live copy are in the inbound/broker model.
-/
namespace Wasp.Trie
open Wasp.Topic

theorem C07_match_exact (ops : List RetOp) (f : List Level) (hf : wfFilter f = true) (p : List Level) (d : Bytes) :
    let n := retRun ops Node.empty
    (p, d) ∈ Ret.matchP f [] n ↔ (d = get n p ∧ d ≠ [] ∧ mqttMatch f p = true) := by
  intro n
  have hwf : WF n := C19_ret_wf ops Node.empty WF_empty
  rw [Ret.mem_matchP f hf n hwf [] p d]
  simp only [List.reverse_nil, List.nil_append, exists_eq_left']
  constructor
  · rintro ⟨_, h1, h2, h3⟩; exact ⟨h1, h2, h3⟩
  · rintro ⟨h1, h2, h3⟩
    refine ⟨?_, h1, h2, h3⟩
    rw [get_eq_nodeAt] at h1
    cases hn : nodeAt n p with
    | none => rw [hn] at h1; simp at h1; exact absurd h1 h2
    | some _ => simp

theorem C07_match_once (ops : List RetOp) (f : List Level) :
    ((Ret.matchP f [] (retRun ops Node.empty)).map (·.1)).Nodup :=
  Ret.nodup_matchP f _ (C19_ret_wf ops Node.empty WF_empty) []

/-- operations on one topic never change what is stored at another -/
theorem C07_independent (n : Node) (op : RetOp) (hp : op.path ≠ []) (q : List Level) (hq : q ≠ op.path) :
    get (retStep n op) q = get n q := by
  rw [C19_ret_step n op hp]
  cases op <;> simp [retSpecStep, Spec.modify] <;> intro h <;> exact absurd h hq

end Wasp.Trie

namespace Wasp.Dist
open Wasp.Topic Wasp.Crdt

/-- Get(filter) lists exactly the added stored messages whose topic matches the filter -/
theorem C07_get (st : State) (pattern : String) (r : Retained) :
    r ∈ topicGet st pattern ↔
      ∃ kr ∈ st.topics, kr.2 = r ∧ mqttMatch (levels pattern) (levels kr.1) = true ∧ isAdded r.stamp = true := by
  simp only [topicGet, topicsGetAll, List.mem_filter, List.mem_map]
  constructor
  · rintro ⟨⟨kr, ⟨hkr, hm⟩, rfl⟩, ha⟩; exact ⟨kr, hkr, rfl, hm, ha⟩
  · rintro ⟨kr, hkr, rfl, hm, ha⟩; exact ⟨⟨kr, ⟨hkr, hm⟩, rfl⟩, ha⟩

theorem topicsAssign_self (t : String) (r : Retained) (m : List (String × Retained)) :
    (t, r) ∈ topicsAssign t r m := by
  induction m with
  | nil => simp [topicsAssign]
  | cons x rest ih =>
    obtain ⟨k, r'⟩ := x
    simp only [topicsAssign]
    split
    · exact List.mem_cons_self ..
    · exact List.mem_cons_of_mem _ ih

/-- with one entry per topic, everything else in the assigned map is an old entry of another topic -/
theorem topicsAssign_other (t : String) (r : Retained) (m : List (String × Retained)) (hk : (m.map (·.1)).Nodup)
    (kr : String × Retained) (h : kr ∈ topicsAssign t r m) (hne : kr ≠ (t, r)) : kr ∈ m ∧ kr.1 ≠ t := by
  induction m with
  | nil => simp [topicsAssign] at h; exact absurd h hne
  | cons x rest ih =>
    obtain ⟨k, r'⟩ := x
    simp only [topicsAssign] at h
    simp only [List.map_cons, List.nodup_cons] at hk
    split at h
    · rename_i hkt
      rcases List.mem_cons.mp h with h | h
      · exact absurd h hne
      · refine ⟨List.mem_cons_of_mem _ h, ?_⟩
        intro he
        apply hk.1
        rw [hkt, ← he]
        exact List.mem_map_of_mem (f := (·.1)) h
    · rename_i hkt
      rcases List.mem_cons.mp h with h | h
      · rw [h]; exact ⟨List.mem_cons_self .., hkt⟩
      · have := ih hk.2 h
        exact ⟨List.mem_cons_of_mem _ this.1, this.2⟩

/-- after a retained publish on `topic` (clock `now > 0`), every filter matching the topic lists the
    message with the payload and flags it was stored with -/
theorem C07_set_then_get (st : State) (now : Int) (hnow : 0 < now) (topic payload : String) (qos : Nat) (retain dup : Bool)
    (pattern : String) (hm : mqttMatch (levels pattern) (levels topic) = true) :
    ({ topic, payload, qos, retain, dup, added := now, deleted := 0 } : Retained) ∈
      topicGet (topicSet st now topic payload qos retain dup).1 pattern := by
  rw [C07_get]
  refine ⟨(topic, _), ?_, rfl, hm, ?_⟩
  · simp only [topicSet]
    exact topicsAssign_self _ _ _
  · simp [Retained.stamp, isAdded, Wasp.Generated.isEntryAdded, Go.getLastAdded, Go.getLastDeleted, hnow]

/-- after a clear (retained publish with empty payload) nothing is listed for that topic, provided the
    store holds one entry per topic (the reachable-state invariant, `C08_retained_nodup`) -/
theorem C07_delete_then_get (st : State) (hk : (st.topics.map (·.1)).Nodup) (now : Int) (_hnow : 0 < now)
    (topic pattern : String) (r : Retained)
    (hr : r ∈ topicGet (topicDelete st now topic).1 pattern) : r.topic ≠ topic ∨ ∃ kr ∈ st.topics, kr.1 ≠ topic ∧ kr.2 = r := by
  rw [C07_get] at hr
  obtain ⟨kr, hkr, rfl, _, ha⟩ := hr
  simp only [topicDelete] at hkr
  by_cases h1 : kr = (topic, ({ topic := topic, payload := "", qos := 0, retain := false, dup := false, added := 0, deleted := now } : Retained))
  · -- the tombstone itself is not "added"
    rw [h1] at ha
    simp [Retained.stamp, isAdded, Wasp.Generated.isEntryAdded, Go.getLastAdded, Go.getLastDeleted] at ha
  · right
    have := topicsAssign_other _ _ st.topics hk kr hkr h1
    exact ⟨kr, this.1, this.2, rfl⟩

end Wasp.Dist

import Wasp.Properties.Reachable2
import Wasp.Properties.C17
import Wasp.Proofs.BrokerT8
/-!
# C17 end to end — tenants are isolated in the packets clients see

On every reachable one-node world (that has not failed) the live subscriptions stored for a registered session lie
inside that session's mount point (`SubSessInv`). Composed with `C01_e2e_exact_reachable` and `C17_no_cross_match`:
every PUBLISH the broker writes for a publish made in mount point M goes to a session of mount point M and carries
exactly the topic name the publisher used.
-/
namespace Wasp.Broker
open Wasp.Dist Wasp.Topic Wasp.Crdt Wasp.Broker.AgentT8

/-! `SubSessInv` (live subscriptions of registered sessions are stored under a filter inside the session's mount point)
    is defined in Wasp/Proofs/BrokerT8.lean (namespace `Wasp.Broker`). It follows from the invariant `TI` of one-node
    worlds proven there (`ti_step`, one lemma per operation): nothing is pending; while the node has not failed every
    live stored subscription belongs to a REGISTERED session and its key is one of that session's `topics`; every
    element of a registered session's `topics` has the form `prefixMountPoint mount f`. -/

theorem subSessInv_reachable_single (w : World) (hr : Reachable w) (hlen : w.nodes.length = 1) : SubSessInv w :=
  subSessInv_of_ti (ti_reachable w hr hlen)

/-- C17 end to end (one node, QoS 0 subscriptions, log accepting): whatever is written for a publish made in mount
    point `s.mount` on `topic` is a PUBLISH of exactly `topic`, to a registered session of the same mount point -/
theorem C17_e2e_isolated (w : World) (hr : Reachable w) (hlen : w.nodes.length = 1) (hf : (w.node 0).failed = false)
    (sid : String) (s : Sess) (hs : (w.node 0).sess sid = some s) (topic payload : String) (dup : Bool) (mid : Int)
    (hm : ∀ r ∈ (w.node 0).reg, wfMount r.mount)
    (hq0 : ∀ kl ∈ (w.node 0).dist.subs, ∀ u ∈ kl.2, u.qos = 0)
    (hlog : (w.node 0).logFailAll = false ∧ (w.node 0).logFailAt.contains (w.node 0).logCalls = false)
    (c : String) (pk : Pkt)
    (h : (c, pk) ∈ ((w.process 0 sid (.publish topic payload 0 false dup mid)).1.out.drop w.out.length)) :
    ∃ r ∈ (w.node 0).reg, r.conn = c ∧ r.mount = s.mount ∧ pk = Pkt.publish topic payload 0 false dup 0 := by
  obtain ⟨kl, hkl, u, hu, hmatch, hadd, r, hr', hconn, hpk⟩ :=
    (C01_e2e_exact_reachable w hr hlen sid s hs topic payload dup mid hq0 hlog c pk).mp h
  have hinv := reachable_inv2 w hr
  have hpeer : u.peer = (w.node 0).peer := by
    have hb := hinv.subPeers 0 kl hkl u hu
    rw [hinv.peers 0 (by omega)]
    omega
  obtain ⟨f, hkey⟩ := subSessInv_reachable_single w hr hlen 0 hf kl hkl u hu hadd hpeer r hr'
  have hrmem := (AgentD.sess_some hr').1
  have hsmem := (AgentD.sess_some hs).1
  have hmount : r.mount = s.mount := by
    apply Classical.byContradiction
    intro hne
    rw [hkey, C17_no_cross_match r.mount s.mount f topic (hm r hrmem) (hm s hsmem) hne] at hmatch
    cases hmatch
  refine ⟨r, hrmem, hconn, hmount, ?_⟩
  rw [hpk, hmount, C17_trim_prefix]

/-- non-vacuity: the same client-side filter and topic in two mount points; only the subscriber of the publisher's
    mount point is written to -/
example :
    let w0 := (((World.init 1).connect "p" 0 "idp" "m1" true 60 none).connect "a" 0 "ida" "m1" true 60 none).connect "b" 0 "idb" "m2" true 60 none
    let w1 := (w0.clientPacket "a" (.subscribe 1 [("#", 0)])).clientPacket "b" (.subscribe 2 [("#", 0)])
    let w2 := { w1 with out := [] }
    (w2.clientPacket "p" (.publish "x" "01" 0 false false 0)).out = [("a", Pkt.publish "x" "01" 0 false false 0)] := by
  decide

end Wasp.Broker

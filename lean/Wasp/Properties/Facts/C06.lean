import Wasp.Generated.Facts
/-! Source facts the C06 model relies on — read from the Go source on every run by /verif/extract
    (a fact that no longer holds makes these obligations fail). -/
namespace Wasp.SourceFacts.C06
open Wasp.Generated

/-- the writer treats every non-positive id as 'none available' -/
theorem getFreeRejectsNonPositive : Facts.getFreeRejectsNonPositive = true := by decide

end Wasp.SourceFacts.C06

import Wasp.Generated.Facts
/-! Source facts the C13 model relies on — read from the Go source on every run by /verif/extract
    (a fact that no longer holds makes these obligations fail). -/
namespace Wasp.SourceFacts.C13
open Wasp.Generated

/-- the will is published only without DISCONNECT -/
theorem willOnlyIfNotDisconnected : Facts.willOnlyIfNotDisconnected = true := by decide

/-- wills after a node failure are published inside the mount point -/
theorem nodeFailureWillPrefixed : Facts.nodeFailureWillPrefixed = true := by decide

/-- the will cannot be published twice -/
theorem shutdownIdempotent : Facts.shutdownIdempotent = true := by decide

end Wasp.SourceFacts.C13

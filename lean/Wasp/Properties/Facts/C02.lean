import Wasp.Generated.Facts
/-! Source facts the C02 model relies on — read from the Go source on every run by /verif/extract
    (a fact that no longer holds makes these obligations fail). -/
namespace Wasp.SourceFacts.C02
open Wasp.Generated

/-- the writer tells log jobs from direct sends by the absence of an inline publish (offset 0 is an offset) -/
theorem writerLogJobIsPublishNil : Facts.writerLogJobIsPublishNil = true := by decide

/-- PUBACK/PUBCOMP callback only when Distribute succeeded -/
theorem ackCallbackOnlyOnSuccess : Facts.ackCallbackOnlyOnSuccess = true := by decide

end Wasp.SourceFacts.C02

import Wasp.Generated.Facts
/-! Source facts the C20 resolution machine relies on — read from the Go source on every run. -/
namespace Wasp.SourceFacts.C20
open Wasp.Generated

/-- Ack fires the callback only after its own Delete of the entry succeeded (the claim step of the model) -/
theorem ackFiresOnlyIfClaimed : Facts.ackFiresOnlyIfClaimed = true := by decide

/-- Expire fires a callback only for a key whose Delete succeeded -/
theorem expireFiresOnlyIfClaimed : Facts.expireFiresOnlyIfClaimed = true := by decide

/-- registration is put-if-missing, and the timer is inserted only after it succeeded -/
theorem insertIsPutIfMissingThenTimer : Facts.insertIsPutIfMissingThenTimer = true := by decide

end Wasp.SourceFacts.C20

import Wasp.Generated.Facts
/-! Source facts the C09 model relies on — read from the Go source on every run by /verif/extract
    (a fact that no longer holds makes these obligations fail). -/
namespace Wasp.SourceFacts.C09
open Wasp.Generated

/-- bulk broadcasts carry one distinct entry per element -/
theorem bulkEventsCarryDistinctEntries : Facts.bulkEventsCarryDistinctEntries = true := by decide

end Wasp.SourceFacts.C09

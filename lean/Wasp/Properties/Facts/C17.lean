import Wasp.Generated.Facts
/-! Source facts the C17 model relies on — read from the Go source on every run by /verif/extract
    (a fact that no longer holds makes these obligations fail). -/
namespace Wasp.SourceFacts.C17
open Wasp.Generated

/-- wills after a node failure stay inside the tenant's mount point -/
theorem nodeFailureWillPrefixed : Facts.nodeFailureWillPrefixed = true := by decide

end Wasp.SourceFacts.C17

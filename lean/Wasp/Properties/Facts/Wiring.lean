import Wasp.Generated.Facts
/-! How cmd/wasp/main.go assembles a node — read from the source on every run by /verif/extract (wiring.go).
    The correspondence harness (harness/broker.go) and the broker model assemble a node the same way: ONE in-flight
    queue, ONE message log, ONE local registry, ONE replicated state, the writer / processor / distributor objects
    handed on. A node assembled differently in main.go (a second queue for the connection manager, another log behind
    the RPC server, …) would make every broker-level theorem and suite speak about a different system. -/
namespace Wasp.SourceFacts.Wiring
open Wasp.Generated

theorem oneInflightQueue : Facts.wiringOneInflightQueue = true := by decide
theorem oneMessageLog : Facts.wiringOneMessageLog = true := by decide
theorem oneLocalRegistry : Facts.wiringOneLocalRegistry = true := by decide
theorem oneReplicatedState : Facts.wiringOneReplicatedState = true := by decide
theorem writerHandedOn : Facts.wiringWriterHandedOn = true := by decide
theorem processorAndDistributorHandedOn : Facts.wiringProcessorAndDistributorHandedOn = true := by decide
theorem oneNodeID : Facts.wiringOneNodeID = true := by decide

end Wasp.SourceFacts.Wiring

import Wasp.Generated.Facts
/-! Source facts the C10 model relies on — read from the Go source on every run by /verif/extract
    (a fact that no longer holds makes these obligations fail). -/
namespace Wasp.SourceFacts.C10
open Wasp.Generated

/-- snapshots carry one distinct entry per element -/
theorem bulkEventsCarryDistinctEntries : Facts.bulkEventsCarryDistinctEntries = true := by decide

/-- snapshots include removed entries -/
theorem snapshotsIncludeTombstones : Facts.snapshotsIncludeTombstones = true := by decide

end Wasp.SourceFacts.C10

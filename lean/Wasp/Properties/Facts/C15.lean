import Wasp.Generated.Facts
/-! Source facts the C15 model relies on — read from the Go source on every run by /verif/extract. -/
namespace Wasp.SourceFacts.C15
open Wasp.Generated

/-- the MsgLog model commits an offset after its hand-over has completed: the Consume callback of the scheduler must
    not return before writer.Schedule has queued the offset -/
theorem handOverIsSynchronous : Facts.handOverIsSynchronous = true := by decide

/-- … and the writer's side of the hand-over returns only once the offset is in its queue (or the node is stopping):
    no timer, no `default` — otherwise the consumer would commit an offset nobody holds -/
theorem writerScheduleQueuesOrStops : Facts.writerScheduleQueuesOrStops = true := by decide
theorem writerSendQueuesOrStops : Facts.writerSendQueuesOrStops = true := by decide

end Wasp.SourceFacts.C15

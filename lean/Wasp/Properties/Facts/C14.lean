import Wasp.Generated.Facts
/-! Source facts the C14 model relies on — read from the Go source on every run by /verif/extract
    (a fact that no longer holds makes these obligations fail). -/
namespace Wasp.SourceFacts.C14
open Wasp.Generated

/-- a failed local write is reported like a failed remote one -/
theorem localAppendErrorFails : Facts.localAppendErrorFails = true := by decide

end Wasp.SourceFacts.C14

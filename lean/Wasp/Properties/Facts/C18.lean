import Wasp.Generated.Facts
/-! Source facts the C18 model relies on — read from the Go source on every run by /verif/extract
    (a fact that no longer holds makes these obligations fail). -/
namespace Wasp.SourceFacts.C18
open Wasp.Generated

/-- a decoder panic while setting up a connection ends only that connection -/
theorem recoverInSetup : Facts.recoverInSetup = true := by decide

/-- a decoder panic in a session ends only that session -/
theorem recoverInProcessSession : Facts.recoverInProcessSession = true := by decide

end Wasp.SourceFacts.C18

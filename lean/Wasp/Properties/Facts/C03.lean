import Wasp.Generated.Facts
import Wasp.Model.Broker
/-! Source facts the C03 model relies on — read from the Go source on every run by /verif/extract
    (a fact that no longer holds makes these obligations fail). -/
namespace Wasp.SourceFacts.C03
open Wasp.Generated

/-- the writer never uses id 0 or the pool's exhaustion value -/
theorem getFreeRejectsNonPositive : Facts.getFreeRejectsNonPositive = true := by decide

/-- deliveries and retransmissions go only to registered sessions -/
theorem writerSkipsUnregistered : Facts.writerSkipsUnregistered = true := by decide

/-- a wrong-type acknowledgement leaves the entry in place -/
theorem ackTypeCheckedBeforeDelete : Facts.ackTypeCheckedBeforeDelete = true := by decide

/-- the writer's identifier pool is the model's: NewWriter's bounds, the first identifier (0) taken out of circulation;
    every identifier it can hand out fits the 16 bits of the wire format -/
theorem writerPoolIsModelPool :
    Wasp.Broker.initPool = (Wasp.IdPool.get (Wasp.IdPool.new Facts.midPoolMin Facts.midPoolMax)).1 ∧
    0 ≤ Facts.midPoolMin ∧ Facts.midPoolMax ≤ 65535 := by decide

end Wasp.SourceFacts.C03

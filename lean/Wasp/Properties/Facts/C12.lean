import Wasp.Generated.Facts
/-! Source facts the C12 model relies on — read from the Go source on every run by /verif/extract
    (a fact that no longer holds makes these obligations fail). -/
namespace Wasp.SourceFacts.C12
open Wasp.Generated

/-- a displaced session never deletes the new session's record -/
theorem shutdownGuardOwnRecordOnly : Facts.shutdownGuardOwnRecordOnly = true := by decide

end Wasp.SourceFacts.C12

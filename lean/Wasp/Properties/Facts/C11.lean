import Wasp.Generated.Facts
/-! Source facts the C11 model relies on — read from the Go source on every run by /verif/extract
    (a fact that no longer holds makes these obligations fail). -/
namespace Wasp.SourceFacts.C11
open Wasp.Generated

/-- the keep-alive deadline is armed before the session loop starts -/
theorem keepaliveArmedBeforeServe : Facts.keepaliveArmedBeforeServe = true := by decide

/-- ending a session closes its connection -/
theorem shutdownClosesConn : Facts.shutdownClosesConn = true := by decide

/-- the session record is deleted whenever it is still this session's -/
theorem shutdownGuardOwnRecordOnly : Facts.shutdownGuardOwnRecordOnly = true := by decide

/-- a session is torn down once -/
theorem shutdownIdempotent : Facts.shutdownIdempotent = true := by decide

/-- nothing is written to a session that left the registry -/
theorem writerSkipsUnregistered : Facts.writerSkipsUnregistered = true := by decide

end Wasp.SourceFacts.C11

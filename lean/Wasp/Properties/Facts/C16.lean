import Wasp.Generated.Facts
/-! Source facts the C16 checks rely on — read from the Go source on every run by /verif/extract
    (a fact that no longer holds makes these obligations fail). -/
namespace Wasp.SourceFacts.C16
open Wasp.Generated

/-- the stores the harness builds from literal arguments are the stores the node builds from its configuration: the
    configured strings reach `auth.StaticHandler` / `auth.FileHandler` unchanged (cmd/wasp/auth.go) and the resulting
    handler is the connection manager's (cmd/wasp/main.go) -/
theorem authConfigVerbatim : Facts.authConfigVerbatim = true := by decide

end Wasp.SourceFacts.C16

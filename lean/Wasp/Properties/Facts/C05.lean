import Wasp.Generated.Facts
/-! Source facts the C05 model relies on — read from the Go source on every run by /verif/extract
    (a fact that no longer holds makes these obligations fail). -/
namespace Wasp.SourceFacts.C05
open Wasp.Generated

/-- a failed local Append withholds the acknowledgement -/
theorem localAppendErrorFails : Facts.localAppendErrorFails = true := by decide

/-- the acknowledgement callback runs only on success -/
theorem ackCallbackOnlyOnSuccess : Facts.ackCallbackOnlyOnSuccess = true := by decide

/-- inbound QoS 2 handshakes are keyed apart from outbound deliveries -/
theorem inboundHandshakesOwnKeySpace : Facts.inboundHandshakesOwnKeySpace = true := by decide

end Wasp.SourceFacts.C05

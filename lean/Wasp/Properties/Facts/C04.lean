import Wasp.Generated.Facts
/-! Source facts the C04 model relies on — read from the Go source on every run by /verif/extract
    (a fact that no longer holds makes these obligations fail). -/
namespace Wasp.SourceFacts.C04
open Wasp.Generated

/-- Ack compares the packet type before it removes the entry -/
theorem ackTypeCheckedBeforeDelete : Facts.ackTypeCheckedBeforeDelete = true := by decide

end Wasp.SourceFacts.C04

import Wasp.Properties.C16
import Wasp.Proofs.AuthLit
/-!
# C16 — the credential stores AS WRITTEN are the stores the theorems are about

`Wasp.Generated.AuthLit.fileAuthenticate / staticAuthenticate / fileHandlerLoad / staticHandlerNew` are regenerated
from `wasp/auth/file.go` and `wasp/auth/static.go` on every run by the extractor's imperative translator
(extract/imperative.go): Go strings as Lean `String`s (`>=` as `Go.strGe`), `sort.Search` as Go's literal binary
search, the scan loop with fuel `len(h.db) + 1`, every index guarded (`none` = the Go code would panic),
`fingerprintBytes` (hex SHA-256) as a parameter `B`, `fingerprintString` inlined from hash.go, `Principal.ID`
(`randomID()`) left out, `FileHandler` from the parsed csv records on (record-building loop, `sort.SliceStable` with
`searchHelper`, the returned handler). The theorems below say that the code as written never panics and answers what
the hand-written model `Wasp.Auth.authenticate / staticAuthenticate / load` answers, for EVERY table and EVERY input
— so C16's theorems (stated on the model) are theorems about the code that is in the tree NOW. A change of
`file.go` / `static.go` / `hash.go` / the constants of `types.go` changes the generated definitions; if it changes
their meaning these proofs fail.

`H` below is the fingerprint of a string: `fingerprintString s = fingerprintBytes([]byte(s))`.
-/
namespace Wasp.Auth
open Wasp.Auth.Lit Wasp.Generated.AuthLit

/-- the fingerprint of a string, given the fingerprint of byte strings -/
def hashOf (B : Go.Bytes → String) : String → String := fun s => B (Go.bytesOfString s)

/-- (*fileHandler).Authenticate as written = the model, on every table (no sortedness needed) -/
theorem C16_code_file_authenticate_is_model (B : Go.Bytes → String) (db : List Record) (user pass : String) :
    fileAuthenticate B (handlerOf db) ⟨Go.bytesOfString user, Go.bytesOfString pass⟩
      = some (handlerOf db, fileAnswer (authenticate (hashOf B) db user pass)) :=
  fileAuthenticateLit_eq B (hashOf B) db user pass _ _ rfl rfl

/-- the same for arbitrary byte strings (an MQTT password need not be UTF-8): only their fingerprints matter -/
theorem C16_code_file_authenticate_is_model_bytes (B : Go.Bytes → String) (H : String → String) (db : List Record)
    (user pass : String) (ub pb : Go.Bytes) (hu : B ub = H user) (hp : B pb = H pass) :
    fileAuthenticate B (handlerOf db) ⟨ub, pb⟩ = some (handlerOf db, fileAnswer (authenticate H db user pass)) :=
  fileAuthenticateLit_eq B H db user pass ub pb hu hp

/-- FileHandler as written (from the parsed records on) builds the handler holding the model's `load` -/
theorem C16_code_loader_is_model (B : Go.Bytes → String) (records : List (List String)) :
    fileHandlerLoad B records = some (handlerOf (load (hashOf B) records), Go.Error.nil) :=
  fileHandlerLoadLit_eq B records

/-- (*staticHandler).Authenticate as written = the model -/
theorem C16_code_static_authenticate_is_model (B : Go.Bytes → String) (cu cp user pass : String) :
    Wasp.Generated.AuthLit.staticAuthenticate B ⟨hashOf B cu, hashOf B cp⟩ ⟨Go.bytesOfString user, Go.bytesOfString pass⟩
      = some (⟨hashOf B cu, hashOf B cp⟩, staticAnswer (Wasp.Auth.staticAuthenticate (hashOf B) cu cp user pass)) :=
  staticAuthenticateLit_eq B (hashOf B) cu cp user pass _ _ rfl rfl

/-- StaticHandler as written builds the handler holding the two fingerprints -/
theorem C16_code_static_new_is_model (B : Go.Bytes → String) (cu cp : String) :
    staticHandlerNew B cu cp = some (⟨hashOf B cu, hashOf B cp⟩, Go.Error.nil) :=
  staticHandlerNewLit_eq B cu cp

/-- load the file with the code as written, then ask the code as written; a caller looks at the error first -/
def codeFileAsk (B : Go.Bytes → String) (records : List (List String)) (user pass : String) : Option (Option String) :=
  ((fileHandlerLoad B records).bind fun hr =>
    fileAuthenticate B hr.1 ⟨Go.bytesOfString user, Go.bytesOfString pass⟩).map fun r => verdict r.2

def codeStaticAsk (B : Go.Bytes → String) (cu cp user pass : String) : Option (Option String) :=
  ((staticHandlerNew B cu cp).bind fun hr =>
    Wasp.Generated.AuthLit.staticAuthenticate B hr.1 ⟨Go.bytesOfString user, Go.bytesOfString pass⟩).map fun r => verdict r.2

/-- no panic, and the model's verdict -/
theorem C16_code_file_ask (B : Go.Bytes → String) (records : List (List String)) (user pass : String) :
    codeFileAsk B records user pass = some (authenticate (hashOf B) (load (hashOf B) records) user pass) := by
  simp only [codeFileAsk, C16_code_loader_is_model, Option.bind_some, C16_code_file_authenticate_is_model,
    Option.map_some, verdict_fileAnswer]

theorem C16_code_static_ask (B : Go.Bytes → String) (cu cp user pass : String) :
    codeStaticAsk B cu cp user pass = some (Wasp.Auth.staticAuthenticate (hashOf B) cu cp user pass) := by
  simp only [codeStaticAsk, C16_code_static_new_is_model, Option.bind_some, C16_code_static_authenticate_is_model,
    Option.map_some, verdict_staticAnswer]

/-- C16 on the code as written: the file store accepts exactly the candidates that match a configured line -/
theorem C16_code_file_iff (B : Go.Bytes → String) (records : List (List String)) (user pass : String) :
    (∃ m, codeFileAsk B records user pass = some (some m)) ↔ (∃ m, credMatch (hashOf B) records user pass m) := by
  rw [C16_code_file_ask, ← C16_file_iff]
  constructor
  · rintro ⟨m, h⟩; exact ⟨m, Option.some.inj h⟩
  · rintro ⟨m, h⟩; exact ⟨m, congrArg some h⟩

/-- C16 on the code as written: the static store accepts exactly the configured pair (fingerprint injective) -/
theorem C16_code_static_iff (B : Go.Bytes → String) (hinj : ∀ a b, hashOf B a = hashOf B b → a = b)
    (cu cp user pass : String) :
    codeStaticAsk B cu cp user pass = some (some defaultMountPoint) ↔ (user = cu ∧ pass = cp) := by
  rw [C16_code_static_ask, ← C16_static_iff (hashOf B) hinj cu cp user pass]
  constructor
  · intro h; exact Option.some.inj h
  · intro h; exact congrArg some h

end Wasp.Auth

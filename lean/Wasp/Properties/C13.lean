import Wasp.Model.Broker
import Wasp.Proofs.BrokerA
/-!
# C13 — will messages are published exactly when a session dies without DISCONNECT

`shutdownSession` is the single place a registered session ends (every cause goes through it:
DISCONNECT, connection loss, keep-alive expiry, protocol error / decoder failure, displacement);
`notifyLeave` handles the failure of the hosting node.

* `C13_clean_no_will`: if the session processed DISCONNECT (`disconnected`), ending it appends
  nothing to any node's message log — the will is never published;
* `C13_lost_will`: if it did not, has a will, and its session record is still its own (or absent),
  ending it IS the publish pipeline (`publishJob`: retain handling, distribution to every node with
  a matching subscriber, scheduling) applied to the will with the topic prefixed by the session's
  mount point, its payload, QoS and retain flag — after the tear-down of the session's state;
* `C13_displaced_no_will`: a session whose client id now resolves to another session ends silently;
* `C13_once`: ending a session twice does nothing the second time (the will cannot be published twice);
* `C13_node_failure`: on a surviving node, the notification of a peer's failure appends to that
  node's own log one will per listed session of the failed peer that has one, with the topic
  inside the session's mount point.
-/
namespace Wasp.Broker
open Wasp.Dist Wasp.Topic Wasp.Broker.AgentA

/-- the state changes of shutdownSession up to (not including) the will: registry, connection,
    subscriptions, session record -/
def teardown (w : World) (i : Nat) (s : Sess) : World × Bool :=
  let n := w.node i
  let w := (w.setNode i { n with reg := n.reg.filter (fun x => x.id != s.id) }).emit s.conn .closed
  let w := { w with conns := w.conns.filter (fun (c : String × Nat) => c.1 != s.conn) }
  let w := s.topics.foldl (fun w t => w.subDelete i s.id t) w
  let cands := sessByClientID (w.node i).dist s.mount s.client
  (if cands.any (fun md => md.id == s.id) then w.sessDelete i s.id else w, cands.any (fun md => md.id != s.id))

theorem C13_shutdown_eq (w : World) (i : Nat) (sid : String) (s : Sess) (hs : (w.node i).sess sid = some s)
    (hid : s.id = sid) :
    w.shutdownSession i sid =
      (let r := teardown w i s
       if r.2 then r.1
       else if s.disconnected then r.1
       else match s.will with
         | none => r.1
         | some lwt => r.1.publishJob i ⟨prefixMountPoint s.mount lwt.topic, lwt.payload, lwt.qos, lwt.retain, false⟩ id) := by
  subst hid
  unfold World.shutdownSession teardown
  simp only [hs]
  rfl

/-- everything `teardown` does after removing the session from the registry leaves `F` alone -/
theorem C13_aux_teardown_frame {α : Type} {F : Node → α} (hF : NFrame F) (w : World) (i : Nat) (s : Sess) :
    WFrame F (regFiltered w i s.id) (teardown w i s).1 := by
  unfold teardown regFiltered
  simp only []
  generalize hW0 : w.setNode i { w.node i with reg := (w.node i).reg.filter (fun x => x.id != s.id) } = W0
  have hW : WFrame F W0 (s.topics.foldl (fun w t => w.subDelete i s.id t)
      { W0.emit s.conn .closed with conns := (W0.emit s.conn .closed).conns.filter (fun (c : String × Nat) => c.1 != s.conn) }) :=
    WFrame.after (foldl_frame _ (fun w t => subDelete_frame hF w i s.id t) _ _) (WFrame.of_nodes F rfl)
  split
  · exact WFrame.after (sessDelete_frame hF _ _ _) hW
  · exact hW

/-- tearing down never appends to a message log -/
theorem C13_teardown_no_append (w : World) (i : Nat) (s : Sess) (j : Nat) :
    ((teardown w i s).1.node j).log = (w.node j).log :=
  ((regFiltered_log w i s.id).trans (C13_aux_teardown_frame NFrame.log w i s)).2 j

/-- after DISCONNECT no will is published: no log of any node changes -/
theorem C13_clean_no_will (w : World) (i : Nat) (sid : String) (s : Sess) (hs : (w.node i).sess sid = some s)
    (hid : s.id = sid) (hd : s.disconnected = true) (j : Nat) :
    ((w.shutdownSession i sid).node j).log = (w.node j).log := by
  rw [C13_shutdown_eq w i sid s hs hid]
  simp only [hd, if_true, ite_self]
  exact C13_teardown_no_append w i s j

/-- a session that is not registered (already ended) ends as a no-op: nothing can be published twice -/
theorem C13_once (w : World) (i : Nat) (sid : String) (hs : (w.node i).sess sid = none) :
    w.shutdownSession i sid = w := by
  unfold World.shutdownSession
  simp only [hs]

/-- after the first shutdown the session is no longer registered -/
theorem C13_unregistered_after (w : World) (i : Nat) (sid : String) (hi : i < w.nodes.length) :
    ((w.shutdownSession i sid).node i).sess sid = none := by
  cases hs : (w.node i).sess sid with
  | none => rw [C13_once w i sid hs]; exact hs
  | some s =>
    have hid : s.id = sid := sess_some_id hs
    have hT := C13_aux_teardown_frame NFrame.ids w i s
    have key : ∀ X : World, WFrame (fun n : Node => n.reg.map (·.id)) (regFiltered w i s.id) X →
        (X.node i).sess sid = none := by
      intro X hX
      have h1 := hX.2 i
      have h2 := regFiltered_sess w i s.id hi
      rw [sess_eq_none_iff] at h2 ⊢
      simp only [] at h1
      rw [h1, ← hid]
      exact h2
    rw [C13_shutdown_eq w i sid s hs hid]
    apply key
    simp only []
    split
    · exact hT
    · split
      · exact hT
      · split
        · exact hT
        · exact WFrame.after (publishJob_frame NFrame.ids appendLog_ids _ _ _) hT

/-- node failure: what a survivor appends to its own log -/
theorem C13_node_failure_log (w : World) (i : Nat) (peer : Nat) (hi : i < w.nodes.length)
    (hok : (w.node i).logFailAll = false ∧ (w.node i).logFailAt = []) :
    ((w.notifyLeave i peer).node i).log = (w.node i).log ++
      (sessByPeer ((Wasp.Dist.subDeletePeer (w.node i).dist w.clock peer).1) peer).filterMap (fun s =>
        s.lwt.map (fun lwt => (⟨s.mount ++ "/" ++ lwt.topic, lwt.payload, lwt.qos, lwt.retain, false⟩ : Pub))) :=
  notifyLeave_log w i peer hi hok.1 hok.2

end Wasp.Broker

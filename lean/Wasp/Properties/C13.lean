import Wasp.Model.Broker
/-! # C13 (broker level) — theorem statements are being added; see DESIGN.md §4 -/

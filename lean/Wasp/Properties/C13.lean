import Wasp.Model.Broker
/-!
# C13 — will messages are published exactly when a session dies without DISCONNECT

`shutdownSession` is the single place a registered session ends (every cause goes through it:
DISCONNECT, connection loss, keep-alive expiry, protocol error / decoder failure, displacement);
`notifyLeave` handles the failure of the hosting node.

* `C13_clean_no_will`: if the session processed DISCONNECT (`disconnected`), ending it appends
  nothing to any node's message log — the will is never published;
* `C13_lost_will`: if it did not, has a will, and its session record is still its own (or absent),
  ending it IS the publish pipeline (`publishJob`: retain handling, distribution to every node with
  a matching subscriber, scheduling) applied to the will with the topic prefixed by the session's
  mount point, its payload, QoS and retain flag — after the tear-down of the session's state;
* `C13_displaced_no_will`: a session whose client id now resolves to another session ends silently;
* `C13_once`: ending a session twice does nothing the second time (the will cannot be published twice);
* `C13_node_failure`: on a surviving node, the notification of a peer's failure appends to that
  node's own log one will per listed session of the failed peer that has one, with the topic
  inside the session's mount point.
-/
namespace Wasp.Broker
open Wasp.Dist Wasp.Topic

/-- the state changes of shutdownSession up to (not including) the will: registry, connection,
    subscriptions, session record -/
def teardown (w : World) (i : Nat) (s : Sess) : World × Bool :=
  let n := w.node i
  let w := (w.setNode i { n with reg := n.reg.filter (fun x => x.id != s.id) }).emit s.conn .closed
  let w := { w with conns := w.conns.filter (fun (c : String × Nat) => c.1 != s.conn) }
  let w := s.topics.foldl (fun w t => w.subDelete i s.id t) w
  match sessByClientID (w.node i).dist s.mount s.client with
  | [] => (w, false)
  | md :: _ => if md.id ≠ s.id then (w, true) else (w.sessDelete i s.id, false)

theorem C13_shutdown_eq (w : World) (i : Nat) (sid : String) (s : Sess) (hs : (w.node i).sess sid = some s)
    (hid : s.id = sid) :
    w.shutdownSession i sid =
      (let r := teardown w i s
       if r.2 then r.1
       else if s.disconnected then r.1
       else match s.will with
         | none => r.1
         | some lwt => r.1.publishJob i ⟨prefixMountPoint s.mount lwt.topic, lwt.payload, lwt.qos, lwt.retain, false⟩ id) := by
  sorry

/-- tearing down never appends to a message log -/
theorem C13_teardown_no_append (w : World) (i : Nat) (s : Sess) (j : Nat) :
    ((teardown w i s).1.node j).log = (w.node j).log := by
  sorry

/-- after DISCONNECT no will is published: no log of any node changes -/
theorem C13_clean_no_will (w : World) (i : Nat) (sid : String) (s : Sess) (hs : (w.node i).sess sid = some s)
    (hid : s.id = sid) (hd : s.disconnected = true) (j : Nat) :
    ((w.shutdownSession i sid).node j).log = (w.node j).log := by
  sorry

/-- a session that is not registered (already ended) ends as a no-op: nothing can be published twice -/
theorem C13_once (w : World) (i : Nat) (sid : String) (hs : (w.node i).sess sid = none) :
    w.shutdownSession i sid = w := by
  sorry

/-- after the first shutdown the session is no longer registered -/
theorem C13_unregistered_after (w : World) (i : Nat) (sid : String) (hi : i < w.nodes.length) :
    ((w.shutdownSession i sid).node i).sess sid = none := by
  sorry

/-- node failure: what a survivor appends to its own log -/
theorem C13_node_failure_log (w : World) (i : Nat) (peer : Nat) (hi : i < w.nodes.length)
    (hok : (w.node i).logFailAll = false ∧ (w.node i).logFailAt = []) :
    ((w.notifyLeave i peer).node i).log = (w.node i).log ++
      (sessByPeer ((Wasp.Dist.subDeletePeer (w.node i).dist w.clock peer).1) peer).filterMap (fun s =>
        s.lwt.map (fun lwt => (⟨s.mount ++ "/" ++ lwt.topic, lwt.payload, lwt.qos, lwt.retain, false⟩ : Pub))) := by
  sorry

end Wasp.Broker

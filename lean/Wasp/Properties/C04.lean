import Wasp.Model.AckQueue
/-!
# C04 — every in-flight entry is resolved exactly once and independently of the others

For EVERY sequence of register / acknowledge / sweep operations (any sessions, identifiers,
deadlines — equal, same-second, past, future — wrong packet types, unknown identifiers):

* `C04_inv`      the timeout list and the table stay coherent (each registered entry has
                 exactly one timer, in the bucket of its rounded deadline, and vice versa);
* `C04_expire_exact`  a sweep resolves exactly the registered entries whose rounded deadline
                 is before `now`, each once, and leaves every other entry untouched;
* `C04_ack_*`    an acknowledgement of the expected type resolves exactly its entry; a wrong
                 type, an unknown identifier or a duplicate registration change nothing;
* `C04_trace`    the observable trace (results and callback events) is accepted by the
                 specification monitor `traceOk`, which judges every entry on its own:
                 registered → at most one outcome; `acknowledged` only by the expected type while
                 live; `expired` only by a sweep not earlier than one second before its deadline,
                 and necessarily by the first sweep one second past it ("to the second").
-/
namespace Wasp.Ack

/-- the table and the timeout list describe the same set of exchanges -/
structure Inv (q : Queue) : Prop where
  keysNodup : (q.msgs.map (·.1)).Nodup
  bucketKeysNodup : (q.timeouts.map (·.1)).Nodup
  /-- every registered entry has its timer in the bucket of its rounded deadline -/
  hasTimer : ∀ k m, msgFind k q.msgs = some m →
    ∃ b, pqFind (roundSec m.deadline) q.timeouts = some b ∧ (⟨k, m.deadline⟩ : Item) ∈ b
  /-- every timer belongs to a registered entry with that very deadline, in the right bucket -/
  timerHasEntry : ∀ t b, (t, b) ∈ q.timeouts → ∀ it ∈ b,
    roundSec it.deadline = t ∧ ∃ m, msgFind it.value q.msgs = some m ∧ m.deadline = it.deadline
  /-- no key has two timers -/
  timersNodup : ((q.timeouts.flatMap (·.2)).map (·.value)).Nodup
  /-- buckets are sorted by deadline (what bucket.delete's binary search relies on) -/
  bucketsSorted : ∀ t b, (t, b) ∈ q.timeouts → b.Pairwise (fun x y => x.deadline ≤ y.deadline)

theorem C04_inv_init : Inv {} := by
  sorry

theorem C04_inv_step (q : Queue) (h : Inv q) (op : Op) : Inv (step q op).1 := by
  sorry

def run : Queue → List Op → List (Res × List Resolved)
  | _, [] => []
  | q, op :: ops => let r := step q op; (r.2.1, r.2.2) :: run r.1 ops

def runState : Queue → List Op → Queue
  | q, [] => q
  | q, op :: ops => runState (step q op).1 ops

/-- the invariant holds in every reachable state -/
theorem C04_inv (ops : List Op) : Inv (runState {} ops) := by
  sorry

/-- a sweep resolves exactly the registered entries whose rounded deadline is before `now`,
    each exactly once, as `expired`, and removes exactly those -/
theorem C04_expire_exact (q : Queue) (h : Inv q) (now : Time) :
    let r := expire q now
    (∀ ev, ev ∈ r.2 ↔ ∃ m, msgFind ev.key q.msgs = some m ∧ roundSec m.deadline < now ∧
                        ev.expired = true ∧ ev.stored = m.stored) ∧
    (r.2.map (·.key)).Nodup ∧
    (∀ k, msgFind k r.1.msgs =
       match msgFind k q.msgs with
       | some m => if roundSec m.deadline < now then none else some m
       | none => none) := by
  sorry

/-- an acknowledgement of the expected type resolves exactly its entry, as `acknowledged` -/
theorem C04_ack_ok (q : Queue) (pfx : String) (kind : PType) (mid : Int) (m : Msg)
    (hm : msgFind (hashKey pfx mid) q.msgs = some m) (hk : m.state = kind) (hq : Inv q) :
    let r := ack q pfx kind true mid
    r.2.1 = .ok ∧ r.2.2 = [⟨hashKey pfx mid, false, m.stored⟩] ∧
    (∀ k, msgFind k r.1.msgs = if k = hashKey pfx mid then none else msgFind k q.msgs) := by
  sorry

/-- wrong packet type, unknown identifier, packet without identifier: nothing changes,
    nothing fires -/
theorem C04_ack_noop (q : Queue) (pfx : String) (kind : PType) (hasMid : Bool) (mid : Int)
    (h : (ack q pfx kind hasMid mid).2.1 ≠ .ok) :
    (ack q pfx kind hasMid mid).1 = q ∧ (ack q pfx kind hasMid mid).2.2 = [] := by
  sorry

/-- a rejected registration (duplicate identifier, identifier 0, wrong kind or QoS) changes nothing -/
theorem C04_insert_rejected (q : Queue) (pfx : String) (kind : PType) (qos : Nat) (mid : Int) (d : Time)
    (h : (insert q pfx kind qos mid d).2 ≠ .ok) : (insert q pfx kind qos mid d).1 = q := by
  sorry

/-- a duplicate identifier is rejected -/
theorem C04_insert_dup (q : Queue) (pfx : String) (kind : PType) (qos : Nat) (mid : Int) (d : Time) (m : Msg)
    (hm : msgFind (hashKey pfx mid) q.msgs = some m) (hmid : mid ≠ 0)
    (hk : ∃ st, expectedAck kind qos = .ok st) (hkind : kind = .pubrec ∨ kind = .pubrel ∨ kind = .publish) :
    (insert q pfx kind qos mid d).2 = .errDupMID := by
  sorry

/-! ## the specification monitor -/

/-- `live`: registered and unresolved exchanges: (key, expected type, stored kind, deadline) -/
abbrev Live := List (Key × PType × PType × Time)

def liveFind (k : Key) : Live → Option (PType × PType × Time)
  | [] => none
  | (k', v) :: rest => if k' = k then some v else liveFind k rest

def liveErase (k : Key) (l : Live) : Live := l.filter (fun e => e.1 ≠ k)

/-- judge one operation's observation; `none` = rejected by the specification -/
def judge (live : Live) (op : Op) (res : Res) (evs : List Resolved) : Option Live :=
  match op with
  | .insert pfx kind qos mid d =>
    let k := hashKey pfx mid
    if res = .ok then
      -- accepted: must be a fresh key, and nothing fires
      if (liveFind k live).isNone ∧ evs = [] then
        match expectedAck kind qos with
        | .ok st => some (live ++ [(k, st, kind, d)])
        | .error _ => none
      else none
    else
      -- rejected: nothing fires, nothing changes; a live key must be reported as duplicate
      if evs = [] then some live else none
  | .ack pfx kind hasMid mid =>
    let k := hashKey pfx mid
    match liveFind k live with
    | some (st, stored, _) =>
      if hasMid ∧ st = kind then
        -- the expected packet: exactly this entry is acknowledged
        if res = .ok ∧ evs = [⟨k, false, stored⟩] then some (liveErase k live) else none
      else if res ≠ .ok ∧ evs = [] then some live else none
    | none => if res ≠ .ok ∧ evs = [] then some live else none
  | .expire now =>
    -- every event is a live entry, expired, not more than a second early; no entry fires twice;
    -- every live entry a second or more past its deadline fires
    if evs.all (fun ev => ev.expired &&
          match liveFind ev.key live with
          | some (_, stored, d) => decide (stored = ev.stored) && decide (d - 1000 < now)
          | none => false) ∧
       (evs.map (·.key)).Nodup ∧
       live.all (fun e => decide (now < e.2.2.2 + 1000) || evs.any (fun ev => ev.key = e.1))
    then some (live.filter (fun e => !evs.any (fun ev => ev.key = e.1)))
    else none

def traceOk : Live → List (Op × Res × List Resolved) → Bool
  | _, [] => true
  | live, (op, res, evs) :: rest =>
    match judge live op res evs with
    | some live' => traceOk live' rest
    | none => false

/-- C04: every history's observable trace is accepted by the monitor -/
theorem C04_trace (ops : List Op) : traceOk [] (ops.zip (run {} ops)) = true := by
  sorry

/-- non-vacuity: equal deadlines, same-second deadlines, a wrong-type ack, a duplicate, a sweep -/
example : run {} [.insert "s" .publish 1 1 3000, .insert "s" .publish 2 2 3000, .insert "t" .publish 1 1 3400,
                  .insert "s" .publish 1 1 9000, .ack "s" .pubcomp true 1, .ack "s" .puback true 1,
                  .expire 3000, .expire 3001, .insert "u" .pubrel 0 7 2600, .expire 4000]
    = [(.ok, []), (.ok, []), (.ok, []), (.errDupMID, []), (.errUnexpectedType, []),
       (.ok, [⟨"s/1", false, .publish⟩]), (.ok, []), (.ok, [⟨"s/2", true, .publish⟩, ⟨"t/1", true, .publish⟩]),
       (.ok, []), (.ok, [⟨"u/7", true, .pubrel⟩])] := by decide

end Wasp.Ack

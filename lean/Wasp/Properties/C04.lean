import Wasp.Proofs.AckQueue
/-!
# C04 — every in-flight entry is resolved exactly once and independently of the others

For EVERY sequence of register / acknowledge / sweep operations (any sessions, identifiers,
deadlines — equal, same-second, past, future — wrong packet types, unknown identifiers):

* `C04_inv`      the timeout list and the table stay coherent (each registered entry has
                 exactly one timer, in the bucket of its rounded deadline, and vice versa);
* `C04_expire_exact`  a sweep resolves exactly the registered entries whose rounded deadline
                 is before `now`, each once, and leaves every other entry untouched;
* `C04_ack_*`    an acknowledgement of the expected type resolves exactly its entry; a wrong
                 type, an unknown identifier or a duplicate registration change nothing;
* `C04_trace`    the observable trace (results and callback events) is accepted by the
                 specification monitor `traceOk`, which judges every entry on its own:
                 registered → at most one outcome; `acknowledged` only by the expected type while
                 live; `expired` only by a sweep not earlier than one second before its deadline,
                 and necessarily by the first sweep one second past it ("to the second").
-/
namespace Wasp.Ack

/-- the table and the timeout list describe the same set of exchanges -/
structure Inv (q : Queue) : Prop where
  keysNodup : (q.msgs.map (·.1)).Nodup
  bucketKeysNodup : (q.timeouts.map (·.1)).Nodup
  /-- every registered entry has its timer in the bucket of its rounded deadline -/
  hasTimer : ∀ k m, msgFind k q.msgs = some m →
    ∃ b, pqFind (roundSec m.deadline) q.timeouts = some b ∧ (⟨k, m.deadline⟩ : Item) ∈ b
  /-- every timer belongs to a registered entry with that very deadline, in the right bucket -/
  timerHasEntry : ∀ t b, (t, b) ∈ q.timeouts → ∀ it ∈ b,
    roundSec it.deadline = t ∧ ∃ m, msgFind it.value q.msgs = some m ∧ m.deadline = it.deadline
  /-- no key has two timers -/
  timersNodup : ((q.timeouts.flatMap (·.2)).map (·.value)).Nodup
  /-- buckets are sorted by deadline (what bucket.delete's binary search relies on) -/
  bucketsSorted : ∀ t b, (t, b) ∈ q.timeouts → b.Pairwise (fun x y => x.deadline ≤ y.deadline)

/-- `Inv` is the invariant `QInv` of `Wasp.Proofs.AckQueue` (same fields) -/
theorem Inv.toQ {q : Queue} (h : Inv q) : QInv q :=
  ⟨h.keysNodup, h.bucketKeysNodup, h.hasTimer, h.timerHasEntry, h.timersNodup, h.bucketsSorted⟩

theorem Inv.ofQ {q : Queue} (h : QInv q) : Inv q :=
  ⟨h.keysNodup, h.bucketKeysNodup, h.hasTimer, h.timerHasEntry, h.timersNodup, h.bucketsSorted⟩

theorem C04_inv_init : Inv {} := Inv.ofQ qinv_init

theorem C04_inv_step (q : Queue) (h : Inv q) (op : Op) : Inv (step q op).1 :=
  Inv.ofQ (qinv_step h.toQ op)

def run : Queue → List Op → List (Res × List Resolved)
  | _, [] => []
  | q, op :: ops => let r := step q op; (r.2.1, r.2.2) :: run r.1 ops

def runState : Queue → List Op → Queue
  | q, [] => q
  | q, op :: ops => runState (step q op).1 ops

/-- the invariant holds in every reachable state -/
theorem C04_inv (ops : List Op) : Inv (runState {} ops) := by
  suffices h : ∀ q, Inv q → Inv (runState q ops) from h _ C04_inv_init
  induction ops with
  | nil => exact fun q h => h
  | cons op ops ih => exact fun q h => ih _ (C04_inv_step q h op)

/-- a sweep resolves exactly the registered entries whose rounded deadline is before `now`,
    each exactly once, as `expired`, and removes exactly those -/
theorem C04_expire_exact (q : Queue) (h : Inv q) (now : Time) :
    let r := expire q now
    (∀ ev, ev ∈ r.2 ↔ ∃ m, msgFind ev.key q.msgs = some m ∧ roundSec m.deadline < now ∧
                        ev.expired = true ∧ ev.stored = m.stored) ∧
    (r.2.map (·.key)).Nodup ∧
    (∀ k, msgFind k r.1.msgs =
       match msgFind k q.msgs with
       | some m => if roundSec m.deadline < now then none else some m
       | none => none) :=
  ⟨h.toQ.expire_events now, h.toQ.expire_events_nodup now, h.toQ.expire_find now⟩

/-- an acknowledgement of the expected type resolves exactly its entry, as `acknowledged` -/
theorem C04_ack_ok (q : Queue) (pfx : String) (kind : PType) (mid : Int) (m : Msg)
    (hm : msgFind (hashKey pfx mid) q.msgs = some m) (hk : m.state = kind) (hq : Inv q) :
    let r := ack q pfx kind true mid
    r.2.1 = .ok ∧ r.2.2 = [⟨hashKey pfx mid, false, m.stored⟩] ∧
    (∀ k, msgFind k r.1.msgs = if k = hashKey pfx mid then none else msgFind k q.msgs) := by
  simp only [ack_ok_eq hm hk, true_and]
  exact fun k => msgFind_erase hq.keysNodup

/-- wrong packet type, unknown identifier, packet without identifier: nothing changes,
    nothing fires -/
theorem C04_ack_noop (q : Queue) (pfx : String) (kind : PType) (hasMid : Bool) (mid : Int)
    (h : (ack q pfx kind hasMid mid).2.1 ≠ .ok) :
    (ack q pfx kind hasMid mid).1 = q ∧ (ack q pfx kind hasMid mid).2.2 = [] := by
  rcases ack_cases q pfx kind hasMid mid with ⟨h1, _⟩ | ⟨_, m, _, _, heq⟩
  · rw [h1]; exact ⟨rfl, rfl⟩
  · rw [heq] at h; exact absurd rfl h

/-- a rejected registration (duplicate identifier, identifier 0, wrong kind or QoS) changes nothing -/
theorem C04_insert_rejected (q : Queue) (pfx : String) (kind : PType) (qos : Nat) (mid : Int) (d : Time)
    (h : (insert q pfx kind qos mid d).2 ≠ .ok) : (insert q pfx kind qos mid d).1 = q := by
  rcases insert_cases q pfx kind qos mid d with ⟨h1, _⟩ | ⟨st, _, _, heq⟩
  · exact h1
  · rw [heq] at h; exact absurd rfl h

/-- a duplicate identifier is rejected -/
theorem C04_insert_dup (q : Queue) (pfx : String) (kind : PType) (qos : Nat) (mid : Int) (d : Time) (m : Msg)
    (hm : msgFind (hashKey pfx mid) q.msgs = some m) (hmid : mid ≠ 0)
    (hk : ∃ st, expectedAck kind qos = .ok st) (hkind : kind = .pubrec ∨ kind = .pubrel ∨ kind = .publish) :
    (insert q pfx kind qos mid d).2 = .errDupMID := by
  obtain ⟨st, hst⟩ := hk
  rcases hkind with rfl | rfl | rfl <;> simp [insert, hmid, hst, hm]

/-! ## the specification monitor -/

/-- `live`: registered and unresolved exchanges: (key, expected type, stored kind, deadline) -/
abbrev Live := List (Key × PType × PType × Time)

def liveFind (k : Key) : Live → Option (PType × PType × Time)
  | [] => none
  | (k', v) :: rest => if k' = k then some v else liveFind k rest

def liveErase (k : Key) (l : Live) : Live := l.filter (fun e => e.1 ≠ k)

/-- judge one operation's observation; `none` = rejected by the specification -/
def judge (live : Live) (op : Op) (res : Res) (evs : List Resolved) : Option Live :=
  match op with
  | .insert pfx kind qos mid d =>
    let k := hashKey pfx mid
    if res = .ok then
      -- accepted: must be a fresh key, and nothing fires
      if (liveFind k live).isNone ∧ evs = [] then
        match expectedAck kind qos with
        | .ok st => some (live ++ [(k, st, kind, d)])
        | .error _ => none
      else none
    else
      -- rejected: nothing fires, nothing changes; a live key must be reported as duplicate
      if evs = [] then some live else none
  | .ack pfx kind hasMid mid =>
    let k := hashKey pfx mid
    match liveFind k live with
    | some (st, stored, _) =>
      if hasMid ∧ st = kind then
        -- the expected packet: exactly this entry is acknowledged
        if res = .ok ∧ evs = [⟨k, false, stored⟩] then some (liveErase k live) else none
      else if res ≠ .ok ∧ evs = [] then some live else none
    | none => if res ≠ .ok ∧ evs = [] then some live else none
  | .expire now =>
    -- every event is a live entry, expired, not more than a second early; no entry fires twice;
    -- every live entry a second or more past its deadline fires
    if evs.all (fun ev => ev.expired &&
          match liveFind ev.key live with
          | some (_, stored, d) => decide (stored = ev.stored) && decide (d - 1000 < now)
          | none => false) ∧
       (evs.map (·.key)).Nodup ∧
       live.all (fun e => decide (now < e.2.2.2 + 1000) || evs.any (fun ev => ev.key = e.1))
    then some (live.filter (fun e => !evs.any (fun ev => ev.key = e.1)))
    else none

def traceOk : Live → List (Op × Res × List Resolved) → Bool
  | _, [] => true
  | live, (op, res, evs) :: rest =>
    match judge live op res evs with
    | some live' => traceOk live' rest
    | none => false

theorem liveFind_eq (k : Key) (l : Live) : liveFind k l = afind k l := by
  induction l with
  | nil => rfl
  | cons x rest ih => obtain ⟨k', v⟩ := x; simp [liveFind, afind, ih]

/-- the monitor's table mirrors the queue's table -/
def Mirror (live : Live) (q : Queue) : Prop :=
  (live.map (·.1)).Nodup ∧
  ∀ k, liveFind k live = (msgFind k q.msgs).map (fun m => (m.state, m.stored, m.deadline))

theorem judge_insert {q : Queue} {live : Live} (hm : Mirror live q)
    (pfx : String) (kind : PType) (qos : Nat) (mid : Int) (d : Time) :
    ∃ live', judge live (.insert pfx kind qos mid d) (insert q pfx kind qos mid d).2 [] = some live' ∧
      Mirror live' (insert q pfx kind qos mid d).1 := by
  rcases insert_cases q pfx kind qos mid d with ⟨h1, h2, _⟩ | ⟨st, hst, hnone, heq⟩
  · exact ⟨live, by simp [judge, h2], by rw [h1]; exact hm⟩
  · have hl : liveFind (hashKey pfx mid) live = none := by rw [hm.2, hnone]; rfl
    refine ⟨live ++ [(hashKey pfx mid, st, kind, d)], by simp [judge, heq, hl, hst], ?_⟩
    rw [heq]
    refine ⟨append_keys_nodup _ hm.1 (by rw [← liveFind_eq]; exact hl), fun k => ?_⟩
    show liveFind k _ = (msgFind k (q.msgs ++ _)).map _
    rw [liveFind_eq, afind_append, ← liveFind_eq, hm.2, msgFind_append]
    cases msgFind k q.msgs with
    | some m => rfl
    | none => by_cases e : hashKey pfx mid = k <;> simp [afind, msgFind, e]

theorem judge_ack {q : Queue} (hq : Inv q) {live : Live} (hm : Mirror live q)
    (pfx : String) (kind : PType) (hasMid : Bool) (mid : Int) :
    ∃ live', judge live (.ack pfx kind hasMid mid) (ack q pfx kind hasMid mid).2.1
        (ack q pfx kind hasMid mid).2.2 = some live' ∧
      Mirror live' (ack q pfx kind hasMid mid).1 := by
  have hl := hm.2 (hashKey pfx mid)
  rcases ack_cases q pfx kind hasMid mid with ⟨h1, h2, h3⟩ | ⟨hmid, m, hfind, hst, heq⟩
  · refine ⟨live, ?_, by rw [h1]; exact hm⟩
    rw [h1]
    cases hf : msgFind (hashKey pfx mid) q.msgs with
    | none => rw [hf] at hl; simp [judge, hl, h2]
    | some m =>
      rw [hf] at hl
      have : ¬ (hasMid = true ∧ m.state = kind) := fun ⟨a, b⟩ => h3 ⟨a, m, hf, b⟩
      simp [judge, hl, h2, this]
  · subst hmid
    rw [hfind] at hl
    refine ⟨liveErase (hashKey pfx mid) live, by simp [judge, heq, hl, hst], ?_⟩
    rw [heq]
    refine ⟨filter_keys_nodup _ hm.1, fun k => ?_⟩
    show liveFind k (live.filter _) = (msgFind k (msgErase _ q.msgs)).map _
    rw [msgFind_erase hq.keysNodup, liveFind_eq,
      afind_filter (fun k' => decide (k' ≠ hashKey pfx mid)), ← liveFind_eq, hm.2]
    by_cases e : k = hashKey pfx mid <;> simp [e]

theorem judge_expire {q : Queue} (hq : Inv q) {live : Live} (hm : Mirror live q) (now : Time) :
    ∃ live', judge live (.expire now) .ok (expire q now).2 = some live' ∧
      Mirror live' (expire q now).1 := by
  have hev := hq.toQ.expire_events now
  have hfire := hq.toQ.expire_fires now
  have hany : ∀ k, (expire q now).2.any (fun ev => decide (ev.key = k)) = true ↔
      ∃ m, msgFind k q.msgs = some m ∧ roundSec m.deadline < now := by
    intro k; rw [← hfire]; simp
  have hA : ((expire q now).2.all (fun ev => ev.expired &&
          match liveFind ev.key live with
          | some (_, stored, d) => decide (stored = ev.stored) && decide (d - 1000 < now)
          | none => false)) = true := by
    rw [List.all_eq_true]
    intro ev hmem
    obtain ⟨m, h1, h2, h3, h4⟩ := (hev ev).mp hmem
    have hb := (roundSec_bounds m.deadline).1
    have : m.deadline - 1000 < now := by tomega
    simp [hm.2, h1, h3, h4, this]
  have hC : (live.all (fun e => decide (now < e.2.2.2 + 1000) ||
      (expire q now).2.any (fun ev => ev.key = e.1))) = true := by
    rw [List.all_eq_true]
    intro e he
    obtain ⟨k, st, stored, d⟩ := e
    have hf := afind_of_mem hm.1 he
    rw [← liveFind_eq, hm.2] at hf
    cases hmf : msgFind k q.msgs with
    | none => rw [hmf] at hf; cases hf
    | some m =>
      rw [hmf] at hf
      simp only [Option.map_some, Option.some.injEq, Prod.mk.injEq] at hf
      by_cases hlt : now < d + 1000
      · simp [hlt]
      · have hb := (roundSec_bounds m.deadline).2
        have hd := hf.2.2
        have : roundSec m.deadline < now := by tomega
        simp [(hany k).mpr ⟨m, hmf, this⟩]
  refine ⟨_, if_pos ⟨hA, hq.toQ.expire_events_nodup now, hC⟩, filter_keys_nodup _ hm.1, fun k => ?_⟩
  · show liveFind k (live.filter _) = (msgFind k (expire q now).1.msgs).map _
    rw [hq.toQ.expire_find, liveFind_eq,
      afind_filter (fun k' => !(expire q now).2.any (fun ev => decide (ev.key = k'))),
      ← liveFind_eq, hm.2]
    have := hany k
    cases hmf : msgFind k q.msgs with
    | none => simp
    | some m =>
      rw [hmf] at this
      simp only [Option.some.injEq, exists_eq_left'] at this
      by_cases hlt : roundSec m.deadline < now
      · simp [hlt, this.mpr hlt]
      · have : ¬ (expire q now).2.any (fun ev => decide (ev.key = k)) = true := fun h => hlt (this.mp h)
        simp [hlt, this]

theorem judge_step {q : Queue} (hq : Inv q) {live : Live} (hm : Mirror live q) (op : Op) :
    ∃ live', judge live op (step q op).2.1 (step q op).2.2 = some live' ∧
      Mirror live' (step q op).1 := by
  cases op with
  | insert pfx kind qos mid d => exact judge_insert hm pfx kind qos mid d
  | ack pfx kind hasMid mid => exact judge_ack hq hm pfx kind hasMid mid
  | expire now => exact judge_expire hq hm now

/-- the trace from ANY coherent state is accepted by a monitor that mirrors it -/
theorem traceOk_run (ops : List Op) : ∀ (q : Queue) (live : Live), Inv q → Mirror live q →
    traceOk live (ops.zip (run q ops)) = true := by
  induction ops with
  | nil => intros; rfl
  | cons op ops ih =>
    intro q live hq hm
    obtain ⟨live', h1, h2⟩ := judge_step hq hm op
    show traceOk live ((op, (step q op).2.1, (step q op).2.2) :: ops.zip (run (step q op).1 ops)) = true
    simp only [traceOk, h1]
    exact ih _ _ (C04_inv_step q hq op) h2

/-- C04: every history's observable trace is accepted by the monitor -/
theorem C04_trace (ops : List Op) : traceOk [] (ops.zip (run {} ops)) = true :=
  traceOk_run ops {} [] C04_inv_init ⟨by simp, fun k => rfl⟩

/-- non-vacuity: equal deadlines, same-second deadlines, a wrong-type ack, a duplicate, a sweep -/
example : run {} [.insert "s" .publish 1 1 3000, .insert "s" .publish 2 2 3000, .insert "t" .publish 1 1 3400,
                  .insert "s" .publish 1 1 9000, .ack "s" .pubcomp true 1, .ack "s" .puback true 1,
                  .expire 3000, .expire 3001, .insert "u" .pubrel 0 7 2600, .expire 4000]
    = [(.ok, []), (.ok, []), (.ok, []), (.errDupMID, []), (.errUnexpectedType, []),
       (.ok, [⟨"s/1", false, .publish⟩]), (.ok, []), (.ok, [⟨"s/2", true, .publish⟩, ⟨"t/1", true, .publish⟩]),
       (.ok, []), (.ok, [⟨"u/7", true, .pubrel⟩])] := by decide

end Wasp.Ack

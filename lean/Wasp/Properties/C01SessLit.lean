import Wasp.Proofs.SessionLit
import Wasp.Proofs.SessionMountLit
/-!
# C01 — the per-session filter list AS WRITTEN (`(*Session).AddTopic` / `(*Session).RemoveTopic`)

The broker model keeps, per session, the list of filters the client subscribed to (`Sess.topics`,
Model/Broker.lean): SUBSCRIBE does `if topics.contains t then topics else topics ++ [t]`, UNSUBSCRIBE does
`topics.filter (· != t)`, and `shutdownSession` deletes one subscription per entry. Here the same two operations
are the definitions REGENERATED from `wasp/sessions/session.go` (`Wasp.Generated.SessionLit`, `range` loops over a
snapshot of `s.topics`, every index and slice expression guarded, `none` = the Go code would panic):

* `C01_code_addTopic_is_model`: on EVERY list `AddTopic` never panics and is exactly the model's SUBSCRIBE update;
* `C01_code_removeTopic_is_model_perm`: on a list without duplicates `RemoveTopic` never panics and yields a
  PERMUTATION of the model's `filter` (the Go code moves the last element into the hole), without duplicates;
* `C01_code_history`: every history of AddTopic / RemoveTopic calls from the empty list runs without a panic,
  keeps the list free of duplicates, and ends in a permutation of what the model computes for the same history;
* `C01_code_removeTopic_dup_panics`: on a list WITH duplicates (unreachable by `C01_code_history`) the code as
  written can index out of range: the loop still visits the positions of the list as it was at loop entry.
* `C01_code_prefixMountPoint_is_model`, `C01_code_trim_prefix`: `prefixMountPoint` as written (make, copy, one byte,
  copy; `Wasp.Generated.SessionMountLit`) never panics and is the model's `Topic.prefixMountPoint`; the translated
  `trimMountPoint` undoes it. Both SUBSCRIBE and UNSUBSCRIBE hand the PREFIXED filter to AddTopic / RemoveTopic
  (packets.go), as the model does.
-/
namespace Wasp.SessionLit
open Wasp.Generated.SessionLit

/-- the model's update at SUBSCRIBE (Model/Broker.lean, `.subscribe`) -/
def addModel (topics : List Topic) (t : Topic) : List Topic :=
  if topics.contains t then topics else topics ++ [t]

/-- the model's update at UNSUBSCRIBE (Model/Broker.lean, `.unsubscribe`) -/
def removeModel (topics : List Topic) (t : Topic) : List Topic :=
  topics.filter (· != t)

/-- (a) AddTopic as written: no panic on any list, and exactly the model's update -/
theorem C01_code_addTopic_is_model (topics : List Topic) (t : Topic) :
    addTopic ⟨topics⟩ t = some ⟨addModel topics t⟩ :=
  addTopic_eq topics t

theorem C01_code_addTopic_nodup (topics : List Topic) (t : Topic) (hn : topics.Nodup) :
    (addModel topics t).Nodup := by
  unfold addModel
  by_cases m : t ∈ topics
  · simpa [m] using hn
  · simp only [List.contains_iff_mem, m, if_false]
    rw [List.nodup_append]
    refine ⟨hn, by simp, ?_⟩
    intro a ha b hb
    rw [List.mem_singleton] at hb
    subst hb
    intro e
    exact m (e ▸ ha)

/-- (b) RemoveTopic as written on a list without duplicates: no panic, a permutation of the model's `filter`,
    still without duplicates -/
theorem C01_code_removeTopic_is_model_perm (topics : List Topic) (hn : topics.Nodup) (t : Topic) :
    ∃ r, removeTopic ⟨topics⟩ t = some ⟨r⟩ ∧ r.Perm (removeModel topics t) ∧ r.Nodup := by
  have hfilter : ∀ l : List Topic, t ∉ l → l.filter (· != t) = l := by
    intro l hl
    rw [List.filter_eq_self]
    intro a ha
    simp only [bne_iff_ne, ne_eq]
    intro e
    exact hl (e ▸ ha)
  by_cases m : t ∈ topics
  · obtain ⟨pre, post, rfl⟩ := List.append_of_mem m
    have hn' := hn
    rw [List.nodup_append] at hn'
    obtain ⟨hpre, hcons, hdisj⟩ := hn'
    rw [List.nodup_cons] at hcons
    have h1 : t ∉ pre := fun h => hdisj t h t (List.mem_cons_self) rfl
    have h2 : t ∉ post := hcons.1
    have hmodel : removeModel (pre ++ t :: post) t = pre ++ post := by
      simp only [removeModel, List.filter_append, List.filter_cons, hfilter pre h1, hfilter post h2]
      simp
    have hperm0 : (pre ++ post).Perm (removeModel (pre ++ t :: post) t) := by rw [hmodel]
    have hnd0 : (pre ++ post).Nodup := by
      rw [List.nodup_append]
      exact ⟨hpre, hcons.2, fun a ha b hb => hdisj a ha b (List.mem_cons_of_mem _ hb)⟩
    refine ⟨swapOut (pre ++ t :: post) pre.length, removeTopic_once pre post t h1 h2, ?_⟩
    -- the last element of `post`, if any, goes into the hole
    rcases List.eq_nil_or_concat post with hp | ⟨post', lst, hp⟩
    · subst hp
      rw [swapOut_last]
      rw [List.append_nil] at hperm0 hnd0
      exact ⟨hperm0, hnd0⟩
    · subst hp
      rw [List.concat_eq_append] at *
      rw [swapOut_middle]
      have hp : (pre ++ lst :: post').Perm (pre ++ (post' ++ [lst])) := by
        apply List.Perm.append_left
        have : (lst :: post').Perm (post' ++ [lst]) := by
          have := (List.perm_append_comm (l₁ := [lst]) (l₂ := post'))
          simpa using this
        exact this
      exact ⟨hp.trans hperm0, hp.nodup_iff.2 hnd0⟩
  · refine ⟨topics, removeTopic_absent topics t m, ?_, hn⟩
    rw [removeModel, hfilter topics m]

/-! ### histories -/

inductive Op where
  | add (t : Topic)
  | remove (t : Topic)
deriving Repr, DecidableEq

/-- the code as written, call after call (`none` = some call panicked) -/
def runCode (s : Session) : List Op → Option Session
  | [] => some s
  | .add t :: ops => (addTopic s t).bind (fun s => runCode s ops)
  | .remove t :: ops => (removeTopic s t).bind (fun s => runCode s ops)

/-- the model's list for the same calls -/
def runModel (l : List Topic) : List Op → List Topic
  | [] => l
  | .add t :: ops => runModel (addModel l t) ops
  | .remove t :: ops => runModel (removeModel l t) ops

theorem addModel_perm {l m : List Topic} (h : l.Perm m) (t : Topic) : (addModel l t).Perm (addModel m t) := by
  unfold addModel
  by_cases ml : t ∈ l
  · have mm : t ∈ m := h.mem_iff.1 ml
    simpa [ml, mm] using h
  · have mm : t ∉ m := fun x => ml (h.mem_iff.2 x)
    simpa [ml, mm] using h.append_right [t]

theorem removeModel_perm {l m : List Topic} (h : l.Perm m) (t : Topic) :
    (removeModel l t).Perm (removeModel m t) := h.filter _

theorem runModel_perm : ∀ (ops : List Op) {l m : List Topic}, l.Perm m → (runModel l ops).Perm (runModel m ops)
  | [], _, _, h => h
  | .add t :: ops, _, _, h => runModel_perm ops (addModel_perm h t)
  | .remove t :: ops, _, _, h => runModel_perm ops (removeModel_perm h t)

/-- from any duplicate-free list that is a permutation of the model's, a history runs without a panic, stays
    duplicate-free and stays a permutation of the model's list -/
theorem C01_code_history_from : ∀ (ops : List Op) (l m : List Topic), l.Nodup → l.Perm m →
    ∃ r, runCode ⟨l⟩ ops = some ⟨r⟩ ∧ r.Nodup ∧ r.Perm (runModel m ops)
  | [], l, _, hn, hp => ⟨l, rfl, hn, hp⟩
  | .add t :: ops, l, m, hn, hp => by
    obtain ⟨r, hr, hnd, hpm⟩ := C01_code_history_from ops (addModel l t) (addModel m t)
      (C01_code_addTopic_nodup l t hn) (addModel_perm hp t)
    exact ⟨r, by simp [runCode, C01_code_addTopic_is_model, hr], hnd, hpm⟩
  | .remove t :: ops, l, m, hn, hp => by
    obtain ⟨r1, h1, hp1, hn1⟩ := C01_code_removeTopic_is_model_perm l hn t
    obtain ⟨r, hr, hnd, hpm⟩ := C01_code_history_from ops r1 (removeModel m t) hn1
      (hp1.trans (removeModel_perm hp t))
    exact ⟨r, by simp [runCode, h1, hr], hnd, hpm⟩

/-- the invariant: every AddTopic / RemoveTopic history from the empty list runs without a panic, the list never
    holds a filter twice, and it is a permutation of the model's list (same members, same length) -/
theorem C01_code_history (ops : List Op) :
    ∃ r, runCode ⟨[]⟩ ops = some ⟨r⟩ ∧ r.Nodup ∧ r.Perm (runModel [] ops) :=
  C01_code_history_from ops [] [] List.nodup_nil (List.Perm.refl _)

/-- in particular membership (what `shutdownSession` deletes) agrees with the model -/
theorem C01_code_history_mem (ops : List Op) (r : List Topic) (h : runCode ⟨[]⟩ ops = some ⟨r⟩) (t : Topic) :
    t ∈ r ↔ t ∈ runModel [] ops := by
  obtain ⟨r', hr, _, hp⟩ := C01_code_history ops
  rw [h] at hr
  cases hr
  exact hp.mem_iff

/-! ### (c) a list WITH duplicates (unreachable, by `C01_code_history`) -/

/-- The loop visits every position of the list as it was at loop entry. With `t` at the last position and once
    more before it, the first match has already shrunk the list when the last position is reached:
    `s.topics[idx]` is out of range - the Go code panics. -/
theorem C01_code_removeTopic_dup_panics :
    removeTopic ⟨[['a'], ['b'], ['a']]⟩ ['a'] = none := by decide

/-- in general: a second occurrence at the last position always panics -/
theorem C01_code_removeTopic_dup_last_panics (pre mid : List Topic) (t : Topic) (h1 : t ∉ pre) (h2 : t ∉ mid) :
    removeTopic ⟨pre ++ t :: (mid ++ [t])⟩ t = none := by
  let l := pre ++ t :: (mid ++ [t])
  have hlen : l.length = pre.length + (mid.length + 2) := by simp [l]
  have hat : ∀ (h : pre.length < l.length), l[pre.length] = t := by intro h; simp [l]
  have hs1 := rem_skip t l ⟨l⟩ pre.length (mid.length + 3) 0 (by omega)
    (fun i hi _ hlt e => by
      have : l[i] = pre[i] := by simp [l, List.getElem_append_left (by omega : i < pre.length)]
      exact h1 (by rw [← e, this]; exact List.getElem_mem _))
  have ht := rem_turn_eq t l ⟨l⟩ pre.length (by omega) (hat (by omega)) (by show pre.length < l.length; omega)
  have hs2 := rem_skip t l ⟨swapOut l pre.length⟩ mid.length 2 (pre.length + 1) (by omega)
    (fun i hi hge hlt e => by
      have : l[i] = mid[i - (pre.length + 1)]'(by omega) := by
        simp only [l]
        rw [List.getElem_append_right (by omega)]
        have e1 : i - pre.length = (i - (pre.length + 1)) + 1 := by omega
        simp only [e1, List.getElem_cons_succ]
        rw [List.getElem_append_left (by omega)]
      exact h2 (by rw [← e, this]; exact List.getElem_mem _))
  have hlast : l[pre.length + 1 + mid.length]'(by omega) = t := by
    simp only [l]
    rw [List.getElem_append_right (by omega)]
    have e1 : pre.length + 1 + mid.length - pre.length = mid.length + 1 := by omega
    simp [e1]
  have hshort : (swapOut l pre.length).length ≤ pre.length + 1 + mid.length := by
    simp only [swapOut, List.length_take, List.length_set]; omega
  have hp := rem_turn_panic t l ⟨swapOut l pre.length⟩ (pre.length + 1 + mid.length) (by omega) hlast hshort
  have hf : (Go.len l).toNat + 1 = (mid.length + 3) + pre.length := by
    show ((l.length : Nat) : Int).toNat + 1 = _
    rw [Int.toNat_natCast, hlen]; omega
  show removeTopic ⟨l⟩ t = none
  simp only [removeTopic, hf, Int.natCast_zero] at hs1 ⊢
  rw [hs1, Nat.zero_add]
  have hstep : Go.loop (mid.length + 3) (({ topics := l } : Session), (pre.length : Int)) (removeTopic_loop1 t l)
      = Go.loop (2 + mid.length) (({ topics := swapOut l pre.length } : Session), ((pre.length + 1 : Nat) : Int))
          (removeTopic_loop1 t l) := by
    have : mid.length + 3 = (2 + mid.length) + 1 := by omega
    rw [this]
    simp only [Go.loop, ht]
  rw [hstep, hs2]
  simp only [Go.loop, hp]

/-- a duplicate that is not at the end may go through (here both copies are removed) -/
example : removeTopic ⟨[['a'], ['b'], ['a'], ['c']]⟩ ['a'] = some ⟨[['c'], ['b']]⟩ := by decide

/-! ### the mount-point prefix -/

/-- `prefixMountPoint` as written never panics: mount point, one separator, the topic -/
theorem C01_code_prefixMountPoint (mp t : List Char) :
    Wasp.Generated.SessionMountLit.prefixMountPoint mp t = some (mp ++ '/' :: t) :=
  prefixMountPoint_eq mp t

/-- it is the model's `Topic.prefixMountPoint` (on `String`s), read on characters -/
theorem C01_code_prefixMountPoint_is_model (mp t : String) :
    Wasp.Generated.SessionMountLit.prefixMountPoint mp.toList t.toList
      = some (Wasp.Topic.prefixMountPoint mp t).toList :=
  prefixMountPoint_is_model mp t

/-- the translated `trimMountPoint` (what the writer applies before delivery) undoes it -/
theorem C01_code_trim_prefix (mp t r : List Char)
    (h : Wasp.Generated.SessionMountLit.prefixMountPoint mp t = some r) :
    Wasp.Generated.trimMountPoint mp r = t :=
  trim_prefixMountPoint mp t r h

/-! ### non-vacuity -/

example : Wasp.Generated.SessionMountLit.prefixMountPoint ['m', 'p'] ['a', '/', 'b']
    = some ['m', 'p', '/', 'a', '/', 'b'] := by decide
example : Wasp.Generated.SessionMountLit.prefixMountPoint [] [] = some ['/'] := by decide
example : Wasp.Generated.trimMountPoint ['m', 'p'] ['m', 'p', '/', 'a', '/', 'b'] = ['a', '/', 'b'] := by decide

example : addTopic ⟨[['a'], ['b']]⟩ ['c'] = some ⟨[['a'], ['b'], ['c']]⟩ := by decide
example : addTopic ⟨[['a'], ['b']]⟩ ['a'] = some ⟨[['a'], ['b']]⟩ := by decide
/-- the order really differs from the model's `filter`: the last element fills the hole -/
example : removeTopic ⟨[['a'], ['b'], ['c']]⟩ ['a'] = some ⟨[['c'], ['b']]⟩ := by decide
example : removeModel [['a'], ['b'], ['c']] ['a'] = [['b'], ['c']] := by decide
example : removeTopic ⟨[['a'], ['b'], ['c']]⟩ ['x'] = some ⟨[['a'], ['b'], ['c']]⟩ := by decide
example : runCode ⟨[]⟩ [.add ['a'], .add ['b'], .add ['a'], .add ['c'], .remove ['a'], .add ['a']]
    = some ⟨[['c'], ['b'], ['a']]⟩ := by decide
example : runModel [] [.add ['a'], .add ['b'], .add ['a'], .add ['c'], .remove ['a'], .add ['a']]
    = [['b'], ['c'], ['a']] := by decide
/-- the hypothesis of (b) is satisfiable and needed -/
example : ([['a'], ['b'], ['c']] : List Topic).Nodup := by decide
example : ¬ ([['a'], ['b'], ['a']] : List Topic).Nodup := by decide

end Wasp.SessionLit

import Wasp.Model.Broker
import Wasp.Proofs.Generated
import Wasp.Proofs.Dist
import Wasp.Proofs.BrokerA
/-!
# C17 — mount points isolate tenants

* `C17_prefix_levels`, `C17_trim_prefix`: prefixing a topic with a mount point adds exactly one
  leading level, and trimming gives back exactly the name the publisher used (the trim function is
  the one REGENERATED from sessions/session.go);
* `C17_no_cross_match`: a filter inside mount point m₁ never matches a topic inside m₂ ≠ m₁ —
  whatever the filter ('#', '+/…' included), because the first level is the literal mount point;
* `C17_send_topic`: every PUBLISH the writer emits to a session carries the stored topic minus that
  session's mount point prefix, and is emitted to that session's connection only;
* `C17_recipients_same_mount` (under the invariant that subscriptions are stored under their own filter): the recipients the writer resolves for a stored publish whose topic
  lies in mount point m are sessions that subscribed inside m;
* `C17_clientid_scoped`: the take-over lookup never returns a session of another mount point, so a
  CONNECT in m₂ never deletes the record of a session in m₁.
A mount point is well formed when it is non-empty and contains no '/', and is not '+' or '#'.
-/
namespace Wasp.Broker
open Wasp.Dist Wasp.Topic Wasp.Broker.AgentA

def wfMount (m : String) : Prop := m ≠ "" ∧ '/' ∉ m.toList ∧ m ≠ "+" ∧ m ≠ "#"

theorem C17_prefix_levels (m t : String) (hm : wfMount m) :
    levels (prefixMountPoint m t) = m :: levels t :=
  levels_prefix m t hm.2.1

theorem C17_trim_prefix (m t : String) : trimMountPoint m (prefixMountPoint m t) = t :=
  trim_prefix m t

theorem C17_no_cross_match (m₁ m₂ f t : String) (h₁ : wfMount m₁) (h₂ : wfMount m₂) (hne : m₁ ≠ m₂) :
    mqttMatch (levels (prefixMountPoint m₁ f)) (levels (prefixMountPoint m₂ t)) = false := by
  rw [levels_prefix _ _ h₁.2.1, levels_prefix _ _ h₂.2.1, match_cons_lit _ _ _ _ h₁.2.2.1 h₁.2.2.2]
  simp [hne]

/-- within one mount point, matching is matching of the client-side names -/
theorem C17_same_mount_match (m f t : String) (hm : wfMount m) :
    mqttMatch (levels (prefixMountPoint m f)) (levels (prefixMountPoint m t)) = mqttMatch (levels f) (levels t) := by
  rw [levels_prefix _ _ hm.2.1, levels_prefix _ _ hm.2.1, match_cons_lit _ _ _ _ hm.2.2.1 hm.2.2.2]
  simp

/-- the take-over lookup is scoped to the mount point -/
theorem C17_clientid_scoped (st : State) (mount client : String) (s : SessionMD)
    (h : s ∈ sessByClientID st mount client) : s.mount = mount ∧ s.client = client := by
  simp only [sessByClientID, sessFilter, List.mem_filter, Bool.and_eq_true, beq_iff_eq] at h
  exact h.2.2

/-- every packet `send` emits goes to the connection of a recipient session, and a PUBLISH carries the
    stored topic minus that session's mount point -/
theorem C17_send_topic (w : World) (i : Nat) (rcpt : List (String × Int)) (p : Pub) (conn : String) (pk : Pkt)
    (h : (conn, pk) ∈ (w.send i rcpt p).out) (hnew : (conn, pk) ∉ w.out) :
    ∃ sid s, (sid ∈ rcpt.map (·.1)) ∧ (w.node i).sess sid = some s ∧ s.conn = conn ∧
      ∃ q mid, pk = .publish (trimMountPoint s.mount p.topic) p.payload q p.retain p.dup mid :=
  send_out i p conn pk rcpt w h hnew

/-- recipients of a publish stored under mount point m subscribed inside m — this needs the trie invariant
    "every subscription is stored under its own pattern"; without it the claim is FALSE for an arbitrary `State`: nothing ties the key of a
    subscription-trie entry to the `pattern` field of the subscriptions stored under it. -/
theorem C17_recipients_same_mount_counterexample :
    ¬ ∀ (st : State) (m t : String), wfMount m → ∀ s : Sub, s ∈ subByPattern st (prefixMountPoint m t) →
      (∃ m' f, wfMount m' ∧ s.pattern = prefixMountPoint m' f) → ∃ f, s.pattern = prefixMountPoint m f := by
  intro H
  have hsub : subByPattern { peer := 1, subs := [("a/x", [⟨"s", "b/x", 1, 0, 1, 0⟩])] } (prefixMountPoint "a" "x")
      = [⟨"s", "b/x", 1, 0, 1, 0⟩] := by decide
  obtain ⟨f, hf⟩ := H { peer := 1, subs := [("a/x", [⟨"s", "b/x", 1, 0, 1, 0⟩])] } "a" "x"
    (by unfold wfMount; decide) ⟨"s", "b/x", 1, 0, 1, 0⟩ (by rw [hsub]; exact List.mem_singleton.mpr rfl)
    ⟨"b", "x", by unfold wfMount; decide, by decide⟩
  have := congrArg String.toList hf
  rw [prefix_toList] at this
  have h1 : ("b/x" : String).toList = ['b', '/', 'x'] := by decide
  have h2 : ("a" : String).toList = ['a'] := by decide
  simp only [h1, h2] at this
  simp at this

/-- the repaired statement: with the trie invariant "every subscription is stored under its own
    pattern" (part of `Wasp.Dist.SubsInv`, maintained by `subsSet`/`mergeSubs`) -/
theorem C17_recipients_same_mount (st : State) (m t : String) (hm : wfMount m) (s : Sub)
    (hkey : ∀ kl ∈ st.subs, ∀ x ∈ kl.2, x.pattern = kl.1)
    (h : s ∈ subByPattern st (prefixMountPoint m t))
    (hp : ∃ m' f, wfMount m' ∧ s.pattern = prefixMountPoint m' f) :
    ∃ f, s.pattern = prefixMountPoint m f := by
  obtain ⟨m', f, hm', hpat⟩ := hp
  simp only [subByPattern, List.mem_flatMap, List.mem_filter] at h
  obtain ⟨kl, ⟨hkl, hmatch⟩, hs, _⟩ := h
  rw [← hkey kl hkl s hs, hpat] at hmatch
  by_cases e : m' = m
  · subst e; exact ⟨f, hpat⟩
  · rw [C17_no_cross_match m' m f t hm' hm e] at hmatch
    exact absurd hmatch (by simp)

example : mqttMatch (levels (prefixMountPoint "tenantA" "#")) (levels (prefixMountPoint "tenantB" "x/y")) = false ∧
    mqttMatch (levels (prefixMountPoint "tenantA" "+/y")) (levels (prefixMountPoint "tenantA" "x/y")) = true ∧
    trimMountPoint "tenantA" (prefixMountPoint "tenantA" "/lead//x") = "/lead//x" := by decide

end Wasp.Broker

import Wasp.Model.Broker
import Wasp.Proofs.Generated
import Wasp.Proofs.Dist
/-!
# C17 — mount points isolate tenants

* `C17_prefix_levels`, `C17_trim_prefix`: prefixing a topic with a mount point adds exactly one
  leading level, and trimming gives back exactly the name the publisher used (the trim function is
  the one REGENERATED from sessions/session.go);
* `C17_no_cross_match`: a filter inside mount point m₁ never matches a topic inside m₂ ≠ m₁ —
  whatever the filter ('#', '+/…' included), because the first level is the literal mount point;
* `C17_send_topic`: every PUBLISH the writer emits to a session carries the stored topic minus that
  session's mount point prefix, and is emitted to that session's connection only;
* `C17_recipients_same_mount`: the recipients the writer resolves for a stored publish whose topic
  lies in mount point m are sessions that subscribed inside m;
* `C17_clientid_scoped`: the take-over lookup never returns a session of another mount point, so a
  CONNECT in m₂ never deletes the record of a session in m₁.
A mount point is well formed when it is non-empty and contains no '/', and is not '+' or '#'.
-/
namespace Wasp.Broker
open Wasp.Dist Wasp.Topic

def wfMount (m : String) : Prop := m ≠ "" ∧ '/' ∉ m.toList ∧ m ≠ "+" ∧ m ≠ "#"

theorem C17_prefix_levels (m t : String) (hm : wfMount m) :
    levels (prefixMountPoint m t) = m :: levels t := by
  sorry

theorem C17_trim_prefix (m t : String) : trimMountPoint m (prefixMountPoint m t) = t := by
  sorry

theorem C17_no_cross_match (m₁ m₂ f t : String) (h₁ : wfMount m₁) (h₂ : wfMount m₂) (hne : m₁ ≠ m₂) :
    mqttMatch (levels (prefixMountPoint m₁ f)) (levels (prefixMountPoint m₂ t)) = false := by
  sorry

/-- within one mount point, matching is matching of the client-side names -/
theorem C17_same_mount_match (m f t : String) (hm : wfMount m) :
    mqttMatch (levels (prefixMountPoint m f)) (levels (prefixMountPoint m t)) = mqttMatch (levels f) (levels t) := by
  sorry

/-- the take-over lookup is scoped to the mount point -/
theorem C17_clientid_scoped (st : State) (mount client : String) (s : SessionMD)
    (h : s ∈ sessByClientID st mount client) : s.mount = mount ∧ s.client = client := by
  sorry

/-- every packet `send` emits goes to the connection of a recipient session, and a PUBLISH carries the
    stored topic minus that session's mount point -/
theorem C17_send_topic (w : World) (i : Nat) (rcpt : List (String × Int)) (p : Pub) (conn : String) (pk : Pkt)
    (h : (conn, pk) ∈ (w.send i rcpt p).out) (hnew : (conn, pk) ∉ w.out) :
    ∃ sid s, (sid ∈ rcpt.map (·.1)) ∧ (w.node i).sess sid = some s ∧ s.conn = conn ∧
      ∃ q mid, pk = .publish (trimMountPoint s.mount p.topic) p.payload q p.retain p.dup mid := by
  sorry

/-- recipients of a publish stored under mount point m subscribed inside m -/
theorem C17_recipients_same_mount (st : State) (m t : String) (hm : wfMount m) (s : Sub)
    (h : s ∈ subByPattern st (prefixMountPoint m t))
    (hp : ∃ m' f, wfMount m' ∧ s.pattern = prefixMountPoint m' f) :
    ∃ f, s.pattern = prefixMountPoint m f := by
  sorry

example : mqttMatch (levels (prefixMountPoint "tenantA" "#")) (levels (prefixMountPoint "tenantB" "x/y")) = false ∧
    mqttMatch (levels (prefixMountPoint "tenantA" "+/y")) (levels (prefixMountPoint "tenantA" "x/y")) = true ∧
    trimMountPoint "tenantA" (prefixMountPoint "tenantA" "/lead//x") = "/lead//x" := by decide

end Wasp.Broker

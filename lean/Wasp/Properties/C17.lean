import Wasp.Model.Broker
/-! # C17 (broker level) — theorem statements are being added; see DESIGN.md §4 -/

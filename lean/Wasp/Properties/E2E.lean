import Wasp.Model.Broker
import Wasp.Properties.C01
import Wasp.Properties.C07
import Wasp.Proofs.BrokerT6
/-!
# C01 / C07 end to end on the broker model

The trie-level theorems (C01_walk_exact, C07_match_exact, C19 refinement) say the stores answer exactly by MQTT
matching; `C01_byPattern` / `C07_get` carry that to the replicated stores. This file composes them with the packet
pipeline of the broker model (accept → publish job → distribute → log → scheduler → writer `send`; SUBSCRIBE →
store → SUBACK → retained replay), so that the statement is about the PACKETS clients see:

* a QoS 0 publish on a one-node cluster produces exactly one PUBLISH per live stored subscription whose filter
  matches the (mount-prefixed) topic and whose session is registered — with the topic the publisher used and the
  payload intact, to that session's connection — and nothing else;
* a SUBSCRIBE produces the SUBACK followed by exactly one retained PUBLISH per live retained message whose topic
  matches the (mount-prefixed) filter.
QoS 0 subscriptions are assumed so that the writer needs no packet identifier (QoS 1/2 deliveries: `C02_send_one'`).
-/
namespace Wasp.Broker
open Wasp.Dist Wasp.Topic Wasp.Crdt Wasp.Broker.AgentT6

/- `deliveries0` (what `send` writes for QoS 0 recipients: one PUBLISH per recipient whose session is registered)
   is defined in Wasp/Proofs/BrokerT6.lean, in namespace `Wasp.Broker`. -/

theorem C01_send_all_qos0 (w : World) (i : Nat) (hi : i < w.nodes.length) (rcpt : List (String × Int)) (p : Pub)
    (hq : ∀ r ∈ rcpt, r.2 = 0) :
    (w.send i rcpt p).out = w.out ++ deliveries0 (w.node i) rcpt p :=
  send_all_qos0 i p rcpt w hi hq

/-- C01 end to end, one node, QoS 0: the packets written for a publish -/
theorem C01_e2e_single_node (w : World) (hlen : w.nodes.length = 1) (sid : String) (s : Sess)
    (hs : (w.node 0).sess sid = some s) (topic payload : String) (dup : Bool) (mid : Int)
    (hq0 : ∀ kl ∈ (w.node 0).dist.subs, ∀ u ∈ kl.2, u.qos = 0)
    (hpeer : ∀ kl ∈ (w.node 0).dist.subs, ∀ u ∈ kl.2, u.peer = (w.node 0).peer)
    (hlog : (w.node 0).logFailAll = false ∧ (w.node 0).logFailAt.contains (w.node 0).logCalls = false) :
    (w.process 0 sid (.publish topic payload 0 false dup mid)).1.out =
      w.out ++ deliveries0 (w.node 0)
        (((subByPattern (w.node 0).dist (prefixMountPoint s.mount topic)).filter (fun u => u.peer == (w.node 0).peer)).map
          (fun u => (u.session, u.qos)))
        ⟨prefixMountPoint s.mount topic, payload, 0, false, dup⟩ := by
  rw [process_publish0 w 0 sid s hs]
  exact distribute_single w hlen _ hq0 hpeer hlog

/-- … characterised by MQTT matching: a packet is written iff it is the PUBLISH for a live stored subscription whose
    filter matches the topic and whose session is registered -/
theorem C01_e2e_exact (w : World) (hlen : w.nodes.length = 1) (sid : String) (s : Sess)
    (hs : (w.node 0).sess sid = some s) (topic payload : String) (dup : Bool) (mid : Int)
    (hq0 : ∀ kl ∈ (w.node 0).dist.subs, ∀ u ∈ kl.2, u.qos = 0)
    (hpeer : ∀ kl ∈ (w.node 0).dist.subs, ∀ u ∈ kl.2, u.peer = (w.node 0).peer)
    (hlog : (w.node 0).logFailAll = false ∧ (w.node 0).logFailAt.contains (w.node 0).logCalls = false)
    (c : String) (pk : Pkt) :
    (c, pk) ∈ ((w.process 0 sid (.publish topic payload 0 false dup mid)).1.out.drop w.out.length) ↔
      ∃ kl ∈ (w.node 0).dist.subs, ∃ u ∈ kl.2,
        mqttMatch (levels kl.1) (levels (prefixMountPoint s.mount topic)) = true ∧ isAdded u.stamp = true ∧
        ∃ r, (w.node 0).sess u.session = some r ∧ r.conn = c ∧
          pk = Pkt.publish (trimMountPoint r.mount (prefixMountPoint s.mount topic)) payload 0 false dup 0 := by
  rw [drop_out _ _ _ (C01_e2e_single_node w hlen sid s hs topic payload dup mid hq0 hpeer hlog), mem_deliveries0]
  constructor
  · rintro ⟨x, hx, r, hr, hc, hp⟩
    obtain ⟨u, hu, rfl⟩ := List.mem_map.1 hx
    obtain ⟨kl, hkl, hm, hukl, ha⟩ := (C01_byPattern _ _ u).1 (List.mem_filter.1 hu).1
    exact ⟨kl, hkl, u, hukl, hm, ha, r, hr, hc, hp⟩
  · rintro ⟨kl, hkl, u, hukl, hm, ha, r, hr, hc, hp⟩
    refine ⟨(u.session, u.qos), List.mem_map.2 ⟨u, List.mem_filter.2 ⟨?_, ?_⟩, rfl⟩, r, hr, hc, hp⟩
    · exact (C01_byPattern _ _ u).2 ⟨kl, hkl, hm, hukl, ha⟩
    · simpa using hpeer kl hkl u hukl

/-- C07 end to end: SUBSCRIBE (one filter, QoS 0) is answered by the SUBACK and then one retained PUBLISH per live
    retained message matching the filter -/
theorem C07_e2e_subscribe (w : World) (i : Nat) (hi : i < w.nodes.length) (sid : String) (s : Sess)
    (hs : (w.node i).sess sid = some s) (hid : s.id = sid) (mid : Int) (f : String) :
    (w.process i sid (.subscribe mid [(f, 0)])).1.out =
      w.out ++ [(s.conn, Pkt.suback mid [0])] ++
        (topicGet (w.node i).dist (prefixMountPoint s.mount f)).map (fun r =>
          (s.conn, Pkt.publish (trimMountPoint s.mount r.topic) r.payload 0 r.retain r.dup 0)) := by
  obtain ⟨hcm, htop, hout, hlen⟩ := subStep_frame w i hi sid (prefixMountPoint s.mount f, 0)
  have hsess : (((subStep w i sid (prefixMountPoint s.mount f, 0)).node i).sess sid).map
      (fun s => (s.conn, s.mount)) = some (s.conn, s.mount) := by rw [hcm sid, hs]; rfl
  have htg : topicGet ((subStep w i sid (prefixMountPoint s.mount f, 0)).node i).dist (prefixMountPoint s.mount f) =
      topicGet (w.node i).dist (prefixMountPoint s.mount f) := by simp only [topicGet, htop]
  rw [process_subscribe1 w i sid s hs mid f,
    fold_send_qos0 i sid s.conn s.mount _ _ (by rw [AgentC.emit_length, hlen]; exact hi) (by rw [AgentC.emit_node]; exact hsess)]
  rw [AgentC.emit_node, htg, AgentC.emit_out, hout]

/-- non-vacuity: two subscribers with overlapping filters and a third whose filter does not match -/
example :
    let w0 := (((World.init 1).connect "p" 0 "idp" "mp" true 60 none).connect "a" 0 "ida" "mp" true 60 none).connect "b" 0 "idb" "mp" true 60 none
    let w1 := (w0.clientPacket "a" (.subscribe 1 [("x/#", 0)])).clientPacket "b" (.subscribe 2 [("y", 0), ("+/z", 0)])
    let w2 := { w1 with out := [] }
    (w2.clientPacket "p" (.publish "x/z" "01" 0 false false 0)).out =
      [("a", Pkt.publish "x/z" "01" 0 false false 0), ("b", Pkt.publish "x/z" "01" 0 false false 0)] := by
  decide

end Wasp.Broker

import Wasp.Properties.C06
import Wasp.Proofs.IdPoolLit
/-!
# C06 — the identifier pool AS WRITTEN is the pool the theorems are about

`Wasp.Generated.IdPoolLit.get/put` are regenerated from `wasp/idpool.go` on every run by the extractor's imperative
translator (extract/imperative.go): the receiver threaded as a value, `sort.Search` as Go's literal binary search,
every index and slice expression guarded (`none` = the Go code would panic; a slice `s[:e]` must have `e ≤ len s`).
The theorems below say that on every well-formed pool the code as written never panics and computes exactly what
the hand-written model `Wasp.IdPool.get/put` computes — so C06's theorems (stated on the model) are theorems about
the code that is in the tree NOW. A change of `idpool.go` changes the generated definitions; if it changes their
meaning these proofs fail.
-/
namespace Wasp.IdPool
open Wasp.IdPool.Lit

theorem C06_code_get_is_model (p : Pool) :
    Wasp.Generated.IdPoolLit.get (toLit p) = some (toLit (get p).1, (get p).2) := getLit_eq p

theorem C06_code_put_is_model (p : Pool) (h : Inv p) (mid : Int) :
    Wasp.Generated.IdPoolLit.put (toLit p) mid = some (toLit (put p mid)) := putLit_eq p h mid

/-- every Get/Put sequence on the code as written, from a fresh pool: no panic, and the states and answers of the model -/
theorem C06_code_trace_is_model (min max : Int) (h : min ≤ max) (ops : List Op) :
    runLit (toLit (new min max)) ops = some (toLit (run (new min max) ops).1, (run (new min max) ops).2) :=
  runLit_eq _ (new_inv min max h) ops

/-- non-vacuity: the translated code on a concrete history, exhaustion and re-use included -/
example : (runLit (toLit (new 0 1)) [.get, .get, .get, .put 0, .get, .put 7, .put 1, .put 1, .get]).map (·.2)
    = some [some 0, some 1, some (-1), none, some 0, none, none, none, some 1] := by decide

end Wasp.IdPool

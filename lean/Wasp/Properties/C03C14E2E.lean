import Wasp.Properties.C02E2E
import Wasp.Properties.C05C12E2E
import Wasp.Properties.E2EMulti
import Wasp.Properties.C03
import Wasp.Properties.C14
import Wasp.Proofs.BrokerT18
/-!
# C03 (outbound QoS 2 flow) and C14 (acknowledgement ⇔ every destination stored it) end to end

* C03: one QoS 2 delivery on a reachable one-node world — PUBLISH under the pool's next identifier; the recipient's
  PUBREC is answered by PUBREL under the same identifier; its PUBCOMP completes the exchange: nothing is in flight
  under that identifier any more, the identifier is free again; when the recipient stays silent after the PUBLISH the
  sweep writes the PUBLISH again, when it stays silent after the PUBREL the sweep writes the PUBREL again.
* C14: on every reachable world a QoS 1 publish is acknowledged to the publisher if and only if every destination
  (the peers of the live matching subscriptions in the publisher's node's view) is a node reachable from the
  publisher's node whose log accepts the message.
-/
namespace Wasp.Broker
open Wasp.Dist Wasp.Topic Wasp.Crdt Wasp.Broker.AgentT18

/-- C14: PUBACK ⇔ every destination stored the message -/
theorem C14_e2e_ack_iff_all_stored (w : World) (hr : Reachable w) (i : Nat) (hi : i < w.nodes.length) (p : Sess)
    (hp : (w.node i).sess p.id = some p) (topic payload : String) (dup : Bool) (mid : Int)
    (hnew : (p.conn, Pkt.puback mid) ∉ w.out) :
    (p.conn, Pkt.puback mid) ∈ (w.process i p.id (.publish topic payload 1 false dup mid)).1.out ↔
      ∀ peer ∈ destinations w i ⟨prefixMountPoint p.mount topic, payload, 1, false, dup⟩,
        ∃ j, j < w.nodes.length ∧ (w.node j).peer = peer ∧ reachableFrom w i j = true ∧ logAccepts (w.node j) = true := by
  rw [AgentT12.process_publish1 w i p.id p hp, ← C14_result_reachable w hr i _ hi]
  obtain ⟨l, hl, hpub⟩ := AgentC.distribute_pubExt w i ⟨prefixMountPoint p.mount topic, payload, 1, false, dup⟩
  constructor
  · intro h
    apply Classical.byContradiction
    intro hok
    rw [if_neg hok, hl] at h
    rcases List.mem_append.1 h with h | h
    · exact hnew h
    · have := hpub _ h
      simp [AgentC.isPub] at this
  · intro hok
    rw [if_pos hok]
    simp [AgentC.emit_out]

/-- what every reachable one-node world provides for the QoS 2 theorems: the packets written by the publish, the state
    after it (`AgentT18.Flight`), that neither an in-flight entry nor a stored callback was filed under the key of the
    identifier the pool hands out, the pool facts, and the pool / in-flight invariant after the publish -/
private theorem e2e_setup2 (w : World) (hr : Reachable w) (hlen : w.nodes.length = 1)
    (p r : Sess) (hp : (w.node 0).sess p.id = some p) (hrr : (w.node 0).sess r.id = some r)
    (topic payload : String) (dup : Bool) (mid : Int)
    (hrc : localRecipients w (prefixMountPoint p.mount topic) = [(r.id, 2)])
    (hsid : ∀ s, r.id ≠ s ++ "/in")
    (hpool : 0 < (IdPool.get (w.node 0).pool).2)
    (hlog : (w.node 0).logFailAll = false ∧ (w.node 0).logFailAt.contains (w.node 0).logCalls = false) :
    (w.process 0 p.id (.publish topic payload 1 false dup mid)).1.out =
      w.out ++ [(r.conn, Pkt.publish (trimMountPoint r.mount (prefixMountPoint p.mount topic)) payload 2 false dup (IdPool.get (w.node 0).pool).2),
                (p.conn, Pkt.puback mid)] ∧
    Flight w (w.process 0 p.id (.publish topic payload 1 false dup mid)).1 r.id (IdPool.get (w.node 0).pool).2
      (msg2 w.epoch (IdPool.get (w.node 0).pool).2)
      (.out2 r.id (trimMountPoint r.mount (prefixMountPoint p.mount topic)) payload false dup (IdPool.get (w.node 0).pool).2) ∧
    Ack.msgFind (Ack.hashKey r.id (IdPool.get (w.node 0).pool).2) (w.node 0).acks.msgs = none ∧
    storedFind (Ack.hashKey r.id (IdPool.get (w.node 0).pool).2) (w.node 0).stored = none ∧
    (IdPool.Inv (IdPool.get (w.node 0).pool).1 ∧
      (w.node 0).pool.min ≤ (IdPool.get (w.node 0).pool).2 ∧ (IdPool.get (w.node 0).pool).2 ≤ (w.node 0).pool.max ∧
      ¬ IdPool.freeIn (IdPool.get (w.node 0).pool).1.ivs (IdPool.get (w.node 0).pool).2) ∧
    WorldPoolInv (w.process 0 p.id (.publish topic payload 1 false dup mid)).1 := by
  have hinv2 := reachable_inv2 w hr
  have hinv : WorldPoolInv w := hinv2.base.pool
  have hpeer : ∀ kl ∈ (w.node 0).dist.subs, ∀ u ∈ kl.2, u.peer = (w.node 0).peer := by
    intro kl hkl u hukl
    have hb := hinv2.subPeers 0 kl hkl u hukl
    rw [hinv2.peers 0 (by omega)]
    omega
  have hfresh := C02_fresh_id_not_inflight_of_suffix w 0 r.id hinv hsid hpool
  have hne : (w.node 0).pool.ivs ≠ [] := by
    intro he
    rw [IdPool.get_empty _ he] at hpool
    simp at hpool
  obtain ⟨hI, hfree, hmin, hmax, hiff⟩ := IdPool.get_spec _ (hinv 0).pool hne
  obtain ⟨hout, hF⟩ := publish2_flight w hlen hpeer p r hp hrr topic payload dup mid hrc hpool hfresh hlog
  refine ⟨hout, hF, hfresh, AgentT12.stored_fresh (hinv 0) r.id hsid _ hfree, ⟨hI, hmin, hmax, ?_⟩, C02Pool_process w 0 p.id _ hinv⟩
  intro h
  exact ((hiff _).1 h).2 rfl

/-- C03: the QoS 2 delivery, step 1 — PUBLISH under the pool's next identifier, then PUBACK to the (QoS 1) publisher -/
theorem C03_e2e_qos2_publish (w : World) (hr : Reachable w) (hlen : w.nodes.length = 1)
    (p r : Sess) (hp : (w.node 0).sess p.id = some p) (hrr : (w.node 0).sess r.id = some r)
    (topic payload : String) (dup : Bool) (mid : Int)
    (hrc : localRecipients w (prefixMountPoint p.mount topic) = [(r.id, 2)])
    (hsid : ∀ s, r.id ≠ s ++ "/in")
    (hpool : 0 < (IdPool.get (w.node 0).pool).2)
    (hlog : (w.node 0).logFailAll = false ∧ (w.node 0).logFailAt.contains (w.node 0).logCalls = false) :
    (w.process 0 p.id (.publish topic payload 1 false dup mid)).1.out =
      w.out ++ [(r.conn, Pkt.publish (trimMountPoint r.mount (prefixMountPoint p.mount topic)) payload 2 false dup (IdPool.get (w.node 0).pool).2),
                (p.conn, Pkt.puback mid)] :=
  (e2e_setup2 w hr hlen p r hp hrr topic payload dup mid hrc hsid hpool hlog).1

/-- step 2 — the recipient's PUBREC is answered by PUBREL under the same identifier, which stays reserved -/
theorem C03_e2e_qos2_pubrec (w : World) (hr : Reachable w) (hlen : w.nodes.length = 1)
    (p r : Sess) (hp : (w.node 0).sess p.id = some p) (hrr : (w.node 0).sess r.id = some r)
    (topic payload : String) (dup : Bool) (mid : Int)
    (hrc : localRecipients w (prefixMountPoint p.mount topic) = [(r.id, 2)])
    (hsid : ∀ s, r.id ≠ s ++ "/in")
    (hpool : 0 < (IdPool.get (w.node 0).pool).2)
    (hlog : (w.node 0).logFailAll = false ∧ (w.node 0).logFailAt.contains (w.node 0).logCalls = false) :
    let w1 := (w.process 0 p.id (.publish topic payload 1 false dup mid)).1
    let id := (IdPool.get (w.node 0).pool).2
    let w2 := (w1.process 0 r.id (.pubrec id)).1
    w2.out = w1.out ++ [(r.conn, Pkt.pubrel id)] ∧ ¬ IdPool.freeIn (w2.node 0).pool.ivs id := by
  obtain ⟨_, hF, hfresh, hsf, ⟨_, _, _, hnf⟩, _⟩ := e2e_setup2 w hr hlen p r hp hrr topic payload dup mid hrc hsid hpool hlog
  intro w1 id w2
  obtain ⟨r', hr', hc, _⟩ := (hF.cm).sess_some hrr
  obtain ⟨hout, hF2⟩ := pubrec_flight w w1 r.id _ payload false dup id _ hF rfl hlen r' hr' (by omega) hfresh hsf
  refine ⟨?_, ?_⟩
  · rw [← hc]; exact hout
  · show ¬ IdPool.freeIn ((w1.process 0 r.id (.pubrec id)).1.node 0).pool.ivs id
    rw [hF2.pool]
    exact hnf

/-- step 3 — the recipient's PUBCOMP completes the exchange: nothing in flight under the identifier, identifier free -/
theorem C03_e2e_qos2_pubcomp (w : World) (hr : Reachable w) (hlen : w.nodes.length = 1)
    (p r : Sess) (hp : (w.node 0).sess p.id = some p) (hrr : (w.node 0).sess r.id = some r)
    (topic payload : String) (dup : Bool) (mid : Int)
    (hrc : localRecipients w (prefixMountPoint p.mount topic) = [(r.id, 2)])
    (hsid : ∀ s, r.id ≠ s ++ "/in")
    (hpool : 0 < (IdPool.get (w.node 0).pool).2)
    (hlog : (w.node 0).logFailAll = false ∧ (w.node 0).logFailAt.contains (w.node 0).logCalls = false) :
    let w1 := (w.process 0 p.id (.publish topic payload 1 false dup mid)).1
    let id := (IdPool.get (w.node 0).pool).2
    let w2 := (w1.process 0 r.id (.pubrec id)).1
    let w3 := (w2.process 0 r.id (.pubcomp id)).1
    w3.out = w2.out ∧ Ack.msgFind (Ack.hashKey r.id id) (w3.node 0).acks.msgs = none ∧ IdPool.freeIn (w3.node 0).pool.ivs id := by
  obtain ⟨_, hF, hfresh, hsf, ⟨hI, hmin, hmax, _⟩, _⟩ := e2e_setup2 w hr hlen p r hp hrr topic payload dup mid hrc hsid hpool hlog
  intro w1 id w2 w3
  obtain ⟨r', hr', _, _⟩ := (hF.cm).sess_some hrr
  obtain ⟨_, hF2⟩ := pubrec_flight w w1 r.id _ payload false dup id _ hF rfl hlen r' hr' (by omega) hfresh hsf
  obtain ⟨r'', hr'', _, _⟩ := (hF2.cm).sess_some hrr
  obtain ⟨h1, h2, h3⟩ := pubcomp_flight w w2 r.id id _ hF2 rfl hlen (by rw [hr'']; rfl) hfresh hsf
  refine ⟨h3, ?_, ?_⟩
  · show Ack.msgFind _ ((w2.process 0 r.id (.pubcomp id)).1.node 0).acks.msgs = none
    rw [h1]; exact hfresh
  · show IdPool.freeIn ((w2.process 0 r.id (.pubcomp id)).1.node 0).pool.ivs id
    rw [h2]
    have hmm := IdPool.get_min_max (w.node 0).pool
    exact ((IdPool.put_spec _ hI id).2 id).2 (Or.inr ⟨rfl, by rw [hmm.1]; exact hmin, by rw [hmm.2]; exact hmax⟩)

/-- silence after the PUBLISH: the sweep writes the PUBLISH again, under the same identifier -/
theorem C03_e2e_qos2_publish_retransmitted (w : World) (hr : Reachable w) (hlen : w.nodes.length = 1)
    (p r : Sess) (hp : (w.node 0).sess p.id = some p) (hrr : (w.node 0).sess r.id = some r)
    (topic payload : String) (dup : Bool) (mid : Int)
    (hrc : localRecipients w (prefixMountPoint p.mount topic) = [(r.id, 2)])
    (hsid : ∀ s, r.id ≠ s ++ "/in")
    (hpool : 0 < (IdPool.get (w.node 0).pool).2)
    (hlog : (w.node 0).logFailAll = false ∧ (w.node 0).logFailAt.contains (w.node 0).logCalls = false)
    (hidle : (w.node 0).acks.msgs = []) :
    let w1 := (w.process 0 p.id (.publish topic payload 1 false dup mid)).1
    let id := (IdPool.get (w.node 0).pool).2
    (w1.sweep 0).out = w1.out ++ [(r.conn, Pkt.publish (trimMountPoint r.mount (prefixMountPoint p.mount topic)) payload 2 false dup id)] := by
  obtain ⟨_, hF, _, hsf, _, hinv1⟩ := e2e_setup2 w hr hlen p r hp hrr topic payload dup mid hrc hsid hpool hlog
  intro w1 id
  obtain ⟨r', hr', hc, _⟩ := (hF.cm).sess_some hrr
  rw [← hc]
  exact sweep_out2 w w1 r.id _ payload false dup id _ hF hlen (hinv1 0).qinv rfl r' hr' (by omega) hidle hsf

/-- silence after the PUBREL: the sweep writes the PUBREL again -/
theorem C03_e2e_qos2_pubrel_retransmitted (w : World) (hr : Reachable w) (hlen : w.nodes.length = 1)
    (p r : Sess) (hp : (w.node 0).sess p.id = some p) (hrr : (w.node 0).sess r.id = some r)
    (topic payload : String) (dup : Bool) (mid : Int)
    (hrc : localRecipients w (prefixMountPoint p.mount topic) = [(r.id, 2)])
    (hsid : ∀ s, r.id ≠ s ++ "/in")
    (hpool : 0 < (IdPool.get (w.node 0).pool).2)
    (hlog : (w.node 0).logFailAll = false ∧ (w.node 0).logFailAt.contains (w.node 0).logCalls = false)
    (hidle : (w.node 0).acks.msgs = []) :
    let w1 := (w.process 0 p.id (.publish topic payload 1 false dup mid)).1
    let id := (IdPool.get (w.node 0).pool).2
    let w2 := (w1.process 0 r.id (.pubrec id)).1
    (w2.sweep 0).out = w2.out ++ [(r.conn, Pkt.pubrel id)] := by
  obtain ⟨_, hF, hfresh, hsf, _, hinv1⟩ := e2e_setup2 w hr hlen p r hp hrr topic payload dup mid hrc hsid hpool hlog
  intro w1 id w2
  obtain ⟨r', hr', _, _⟩ := (hF.cm).sess_some hrr
  obtain ⟨_, hF2⟩ := pubrec_flight w w1 r.id _ payload false dup id _ hF rfl hlen r' hr' (by omega) hfresh hsf
  obtain ⟨r'', hr'', hc, _⟩ := (hF2.cm).sess_some hrr
  have hinv2 : WorldPoolInv w2 := C02Pool_process w1 0 r.id _ hinv1
  rw [← hc]
  exact sweep_rel w w2 r.id id _ hF2 hlen (hinv2 0).qinv rfl r'' hr'' (by omega) hidle hsf

/-! ### the hypotheses can be met; `hidle` cannot simply be dropped; both sides of C14 occur -/

/-- "a" and "b" connect to a one-node cluster, "b" subscribes to "t" with QoS 2 -/
def C03E2E_ops : List BOp :=
  [.connect "a" 0 "ca" "m" true 30 none, .connect "b" 0 "cb" "m" true 30 none, .packet "b" (.subscribe 1 [("t", 2)])]

def C03E2E_world : World := run (World.init 1) C03E2E_ops

theorem C03E2E_world_reachable : Reachable C03E2E_world := ⟨1, C03E2E_ops, rfl⟩

/-- every hypothesis of the C03 theorems holds in `C03E2E_world` for publisher "Sa", recipient "Sb", topic "t" -/
example :
    C03E2E_world.nodes.length = 1 ∧
    ((C03E2E_world.node 0).sess "Sa").map (fun s => (s.id, s.conn, s.mount)) = some ("Sa", "a", "m") ∧
    ((C03E2E_world.node 0).sess "Sb").map (fun s => (s.id, s.conn, s.mount)) = some ("Sb", "b", "m") ∧
    localRecipients C03E2E_world (prefixMountPoint "m" "t") = [("Sb", 2)] ∧
    (IdPool.get (C03E2E_world.node 0).pool).2 = 1 ∧
    (C03E2E_world.node 0).logFailAll = false ∧ (C03E2E_world.node 0).logFailAt = [] ∧
    (C03E2E_world.node 0).acks.msgs = [] := by decide

/-- the whole exchange there, by evaluation: PUBLISH 1 then PUBACK 7; PUBREC 1 → PUBREL 1 (identifier 1 reserved, the
    PUBREL entry in flight under the key of the PUBLISH entry); PUBCOMP 1 → nothing written, nothing in flight, identifier
    1 free; the sweep after the PUBLISH repeats the PUBLISH, the sweep after the PUBREL repeats the PUBREL -/
example :
    let w := C03E2E_world
    let w1 := (w.process 0 "Sa" (.publish "t" "hello" 1 false false 7)).1
    let w2 := (w1.process 0 "Sb" (.pubrec 1)).1
    let w3 := (w2.process 0 "Sb" (.pubcomp 1)).1
    w1.out = w.out ++ [("b", Pkt.publish "t" "hello" 2 false false 1), ("a", Pkt.puback 7)] ∧
    (w1.node 0).acks.msgs = [("Sb/1", ⟨.pubrec, .publish, 1, 3000⟩)] ∧
    w2.out = w1.out ++ [("b", Pkt.pubrel 1)] ∧
    (w2.node 0).acks.msgs = [("Sb/1", ⟨.pubcomp, .pubrel, 1, 3000⟩)] ∧ ¬ IdPool.freeIn (w2.node 0).pool.ivs 1 ∧
    w3.out = w2.out ∧ (w3.node 0).acks.msgs = [] ∧ IdPool.freeIn (w3.node 0).pool.ivs 1 ∧
    (w1.sweep 0).out = w1.out ++ [("b", Pkt.publish "t" "hello" 2 false false 1)] ∧
    (w2.sweep 0).out = w2.out ++ [("b", Pkt.pubrel 1)] := by
  decide

/-- publisher and recipient may be the same session (`p = r`): "b" publishes to its own QoS 2 subscription -/
example :
    let w := C03E2E_world
    let w1 := (w.process 0 "Sb" (.publish "t" "self" 1 false false 9)).1
    let w2 := (w1.process 0 "Sb" (.pubrec 1)).1
    w1.out = w.out ++ [("b", Pkt.publish "t" "self" 2 false false 1), ("b", Pkt.puback 9)] ∧
    w2.out = w1.out ++ [("b", Pkt.pubrel 1)] ∧
    (w2.sweep 0).out = w2.out ++ [("b", Pkt.pubrel 1)] := by
  decide

/-- without `hidle` the conclusion of `C03_e2e_qos2_pubrel_retransmitted` fails on a reachable world: while the delivery
    "one" (identifier 1) is still waiting for its PUBREC, "two" is published (identifier 2) and answered by PUBREC; the
    sweep repeats the PUBLISH of "one" AND the PUBREL of "two" -/
example :
    let w := applyOp C03E2E_world (.packet "a" (.publish "t" "one" 1 false false 7))
    let w1 := (w.process 0 "Sa" (.publish "t" "two" 1 false false 8)).1
    let w2 := (w1.process 0 "Sb" (.pubrec 2)).1
    (w.node 0).acks.msgs.map (·.1) = ["Sb/1"] ∧ (IdPool.get (w.node 0).pool).2 = 2 ∧
    w2.out = w1.out ++ [("b", Pkt.pubrel 2)] ∧
    (w2.sweep 0).out = w2.out ++ [("b", Pkt.publish "t" "one" 2 false false 1), ("b", Pkt.pubrel 2)] := by
  decide

/-- C14, both sides, on a reachable two-node world: "p" on node 0, "s" on node 1 subscribes to "t", gossip delivered —
    node 1 (peer 2) is the only destination -/
def C14E2E_ops : List BOp :=
  [.connect "p" 0 "cp" "m" true 30 none, .connect "s" 1 "cs" "m" true 30 none, .packet "s" (.subscribe 1 [("t", 0)]),
   .gossipAll]

def C14E2E_world : World := run (World.init 2) C14E2E_ops

theorem C14E2E_world_reachable : Reachable C14E2E_world := ⟨2, C14E2E_ops, rfl⟩

example :
    let w := C14E2E_world
    let wu := applyOp w (.unreachable 1 true)
    let wl := applyOp w (.logFailAll 1 true)
    destinations w 0 ⟨prefixMountPoint "m" "t", "x", 1, false, false⟩ = [2] ∧
    -- node 1 reachable and accepting: stored there, delivered, acknowledged
    (w.process 0 "Sp" (.publish "t" "x" 1 false false 4)).1.out =
      w.out ++ [("s", Pkt.publish "t" "x" 0 false false 0), ("p", Pkt.puback 4)] ∧
    -- node 1 unreachable from node 0: no PUBACK
    reachableFrom wu 0 1 = false ∧ (wu.process 0 "Sp" (.publish "t" "x" 1 false false 4)).1.out = wu.out ∧
    -- node 1's log rejects the message: no PUBACK
    logAccepts (wl.node 1) = false ∧ (wl.process 0 "Sp" (.publish "t" "x" 1 false false 4)).1.out = wl.out := by
  decide

end Wasp.Broker

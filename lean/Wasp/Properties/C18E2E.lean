import Wasp.Properties.C18
import Wasp.Properties.Reachable2
import Wasp.Properties.E2E
import Wasp.Proofs.BrokerT11
/-!
# C18 end to end — whatever one connection sends, the others keep being served

`C18_confined_*` say that bytes on connection `h` close no other connection and end no other session. This file adds
the "keeps being served" half on the level of packets: after ANY byte string on `h` (malformed, truncated, panicking
the decoder, a second CONNECT, …) a bystander's registered session is still registered with the same connection and
mount point, its live subscriptions are still stored, and a publish by another bystander is still written to it.
-/
namespace Wasp.Broker
open Wasp.Dist Wasp.Topic Wasp.Crdt Wasp.Wire Wasp.Broker.AgentT11

/-- bytes on connection `h` leave every other registered session as it was, up to its keep-alive deadline -/
theorem C18_bystander_session_kept (w : World) (hr : Reachable w) (h : String) (b : Wire.Bytes) (i : Nat) (r : Sess)
    (hreg : (w.node i).sess r.id = some r) (hne : r.id ≠ "S" ++ h) :
    ∃ r', ((rawBytes w h b).1.node i).sess r.id = some r' ∧ r'.conn = r.conn ∧ r'.mount = r.mount ∧ r'.id = r.id := by
  have _ := hr
  exact stay_session (st_rawBytes w h b) i r hreg hne

/-- bytes on connection `h` leave every live subscription of every OTHER session stored and live -/
theorem C18_bystander_subscription_kept (w : World) (hr : Reachable w) (h : String) (b : Wire.Bytes) (i : Nat)
    (kl : String × List Sub) (hkl : kl ∈ (w.node i).dist.subs) (u : Sub) (hu : u ∈ kl.2) (hlive : isAdded u.stamp = true)
    (hne : u.session ≠ "S" ++ h) :
    ∃ kl' ∈ ((rawBytes w h b).1.node i).dist.subs, kl'.1 = kl.1 ∧ ∃ u' ∈ kl'.2, u'.session = u.session ∧ u'.qos = u.qos ∧
      u'.peer = u.peer ∧ isAdded u'.stamp = true := by
  have _ := hr
  obtain ⟨kl', hkl', hk, hu'⟩ := ((st_rawBytes w h b).node i).subs kl hkl u hu hne
  exact ⟨kl', hkl', hk, u, hu', rfl, rfl, rfl, hlive⟩

/-- C18 end to end (one node): after any byte string on `h`, a QoS 0 publish by bystander `p` on a topic that
    bystander `r` has a live QoS 0 subscription for (same mount point) is written to `r`'s connection -/
theorem C18_e2e_witness_served (w : World) (hr : Reachable w) (hlen : w.nodes.length = 1) (h : String) (b : Wire.Bytes)
    (p r : Sess) (hp : (w.node 0).sess p.id = some p) (hrr : (w.node 0).sess r.id = some r)
    (hph : p.id ≠ "S" ++ h) (hrh : r.id ≠ "S" ++ h)
    (kl : String × List Sub) (hkl : kl ∈ (w.node 0).dist.subs) (u : Sub) (hu : u ∈ kl.2) (hlive : isAdded u.stamp = true)
    (hus : u.session = r.id) (topic payload : String) (dup : Bool) (mid : Int)
    (hmatch : mqttMatch (levels kl.1) (levels (prefixMountPoint p.mount topic)) = true)
    (hq0 : ∀ kl ∈ ((rawBytes w h b).1.node 0).dist.subs, ∀ u ∈ kl.2, u.qos = 0)
    (hlog : ((rawBytes w h b).1.node 0).logFailAll = false ∧
            ((rawBytes w h b).1.node 0).logFailAt.contains ((rawBytes w h b).1.node 0).logCalls = false) :
    (r.conn, Pkt.publish (trimMountPoint r.mount (prefixMountPoint p.mount topic)) payload 0 false dup 0) ∈
      (((rawBytes w h b).1).process 0 p.id (.publish topic payload 0 false dup mid)).1.out := by
  have hst := st_rawBytes w h b
  have hr' : Reachable (rawBytes w h b).1 := by
    obtain ⟨n, ops, rfl⟩ := hr
    exact ⟨n, ops ++ [.raw h b], by simp [run, applyOp]⟩
  generalize (rawBytes w h b).1 = w' at hst hr' hq0 hlog ⊢
  obtain ⟨p', hp', -, hpm, -⟩ := stay_session hst 0 p hp hph
  obtain ⟨r', hr1, hrc, hrm, -⟩ := stay_session hst 0 r hrr hrh
  obtain ⟨kl', hkl', hk, hu'⟩ := (hst.node 0).subs kl hkl u hu (by rw [hus]; exact hrh)
  apply List.mem_of_mem_drop (i := w'.out.length)
  rw [C01_e2e_exact_reachable w' hr' (hst.len.trans hlen) p.id p' hp' topic payload dup mid hq0 hlog]
  refine ⟨kl', hkl', u, hu', ?_, hlive, r', ?_, hrc, ?_⟩
  · rw [hk, hpm]; exact hmatch
  · rw [hus]; exact hr1
  · rw [hrm, hpm]

/-- non-vacuity, and the hardest case for the three statements: `h` sends a CONNECT carrying bystander `r`'s client id
    and mount point (with a will), then garbage. The CONNECT displaces `r`'s session RECORD (`dist.sessions`: "Sr" is
    tombstoned — `r`'s next PINGREQ will end it; none of the statements above is about the record), but `r`'s
    registration and subscription stay, `h`'s will is delivered to `r`, and `p`'s publish is still written to `r`. -/
example :
    let w := ((World.init 1).connect "p" 0 "idp" "mp" true 60 none).connect "r" 0 "idr" "mp" true 60 none
    let w0 := openConn (w.clientPacket "r" (.subscribe 1 [("x/#", 0)])) "h" 0
    let w1 := (rawBytes w0 "h" [16, 35, 0, 4, 77, 81, 84, 84, 4, 196, 0, 60, 0, 3, 105, 100, 114, 0, 6, 120, 47, 119, 105,
      108, 108, 0, 2, 122, 122, 0, 2, 109, 112, 0, 2, 111, 107]).1
    let w2 := (rawBytes w1 "h" [0xF0, 0x00]).1
    (w1.node 0).dist.sessions.map (fun s => (s.id, isAdded s.stamp)) = [("Sp", true), ("Sr", false), ("Sh", true)] ∧
    (w2.node 0).reg.map (fun s => (s.id, s.conn, s.mount)) = [("Sp", "p", "mp"), ("Sr", "r", "mp")] ∧
    w2.out.drop w0.out.length =
      [("h", Pkt.connack 0), ("h", Pkt.closed), ("r", Pkt.publish "x/will" "7a7a" 0 false false 0)] ∧
    (w2.process 0 "Sp" (.publish "x/y" "01" 0 false false 0)).1.out.drop w2.out.length =
      [("r", Pkt.publish "x/y" "01" 0 false false 0)] := by
  decide

end Wasp.Broker

import Wasp.Model.Dist
import Wasp.Proofs.Dist
/-!
# C08 — replicas converge regardless of delivery order, duplication and batching

Two nodes that have received the same SET of updates — in any order, any number of times,
one at a time or batched — store the same entry under every key of the three replicated
stores, hence list the same sessions, subscriptions and retained messages. The entry stored
under a key is the received update with the greatest timestamp (`lastUpdate`); an older
update never replaces a newer one.

Hypotheses, all explicit:
* validity of the updates (what `merge…` itself checks: non-empty ids / patterns / topics;
  an invalid entry makes the code drop the rest of its batch);
* `TieFree`: two different updates to the same key never carry the same timestamp — the
  property's "the update with the greatest timestamp" presupposes it; `tie_counterexample`
  shows it is necessary;
* retained topics are topic NAMES (no '+'/'#' level), as MQTT requires of a PUBLISH;
* for batching of retained updates into a NON-empty store: the store holds at most one message
  per topic (true of every store reached from the empty one, `C08_retained_nodup`);
  `retained_batching_needs_unique_keys` shows it is necessary.

The definitions the statements use (`TieFree`, `….ts`, `valid…`, `subEntry`, `retEntry`) and all
helper lemmas are in `Wasp/Proofs/Dist.lean`.
-/
namespace Wasp.Dist
open Wasp.Crdt Wasp.Topic

/-! ## batching is irrelevant: a batch is processed entry by entry -/

theorem C08_sessions_batching (a b : List SessionMD) (st : List SessionMD) (ha : ∀ s ∈ a, validSession s) :
    mergeSessions (a ++ b) st = mergeSessions b (mergeSessions a st) := by
  exact mergeSessions_append a b st ha

theorem C08_subs_batching (a b : List Sub) (m : List (String × List Sub)) (ha : ∀ s ∈ a, validSub s) :
    mergeSubs (a ++ b) m = mergeSubs b (mergeSubs a m) := by
  exact mergeSubs_append a b m ha

/-- `hk` (the store holds at most one message per topic) was ADDED to the original statement:
    without it the statement is false, see `retained_batching_needs_unique_keys`. It holds of
    every store reached from the empty one (`C08_retained_nodup`). `hm` is not needed. -/
theorem C08_retained_batching (a b : List Retained) (m : List (String × Retained))
    (ha : ∀ r ∈ a, validRetained r) (hm : ∀ kr ∈ m, kr.1 = kr.2.topic ∧ wfTopic (levels kr.1) = true)
    (hk : (m.map (·.1)).Nodup) :
    mergeRetained (a ++ b) m = mergeRetained b (mergeRetained a m) := by
  have _ := hm
  exact mergeRetained_append a b ha m hk

/-- the invariant `hk` above: merging valid updates keeps the topics of the store unique -/
theorem C08_retained_nodup (l : List Retained) (hv : ∀ r ∈ l, validRetained r)
    (m : List (String × Retained)) (hk : (m.map (·.1)).Nodup) :
    ((mergeRetained l m).map (·.1)).Nodup := by
  exact mergeRetained_nodup l hv m hk

/-- on a store with two messages under one topic (which satisfies the original `hm`),
    `mergeMessages` aborts the batch at the first update of that topic (`len(local) > 1`),
    so `[ra, rb]` in one batch drops `rb` while `[ra]` then `[rb]` applies it -/
theorem retained_batching_needs_unique_keys :
    let r1 : Retained := { topic := "a", payload := "x", qos := 0, retain := true, dup := false, added := 1, deleted := 0 }
    let r2 : Retained := { topic := "a", payload := "y", qos := 0, retain := true, dup := false, added := 2, deleted := 0 }
    let ra : Retained := { topic := "a", payload := "z", qos := 0, retain := true, dup := false, added := 3, deleted := 0 }
    let rb : Retained := { topic := "b", payload := "w", qos := 0, retain := true, dup := false, added := 3, deleted := 0 }
    let m : List (String × Retained) := [("a", r1), ("a", r2)]
    (∀ kr ∈ m, kr.1 = kr.2.topic ∧ wfTopic (levels kr.1) = true) ∧
    mergeRetained ([ra] ++ [rb]) m ≠ mergeRetained [rb] (mergeRetained [ra] m) := by
  decide

/-! ## last writer wins: what is stored under a key after merging the updates `l` -/

/-- sessions: the stored record is a received update of that id with the greatest timestamp;
    nothing is stored iff no update of that id was received -/
theorem C08_sessions_lww (l : List SessionMD) (hv : ∀ s ∈ l, validSession s) (id : String) :
    (∀ s, sessLookup id (mergeSessions l []) = some s →
        s ∈ l ∧ s.id = id ∧ ∀ s' ∈ l, s'.id = id → s'.ts ≤ s.ts) ∧
    (sessLookup id (mergeSessions l []) = none ↔ ∀ s ∈ l, s.id ≠ id) := by
  rw [sessLookup_mergeSessions l hv id]
  simpa [sessLookup, lwwFold_nil] using
    lwwFold_filter_spec SessionMD.ts (fun s => decide (s.id = id)) l

theorem C08_subs_lww (l : List Sub) (hv : ∀ s ∈ l, validSub s) (pattern session : String) :
    (∀ s, subEntry (mergeSubs l []) pattern session = some s →
        s ∈ l ∧ s.pattern = pattern ∧ s.session = session ∧
        ∀ s' ∈ l, s'.pattern = pattern → s'.session = session → s'.ts ≤ s.ts) ∧
    (subEntry (mergeSubs l []) pattern session = none ↔
        ∀ s ∈ l, ¬ (s.pattern = pattern ∧ s.session = session)) := by
  rw [subEntry_mergeSubs l hv pattern session]
  simpa [subEntry, subsLookup, lwwFold_nil, and_assoc] using
    lwwFold_filter_spec Sub.ts (fun s => decide (s.pattern = pattern ∧ s.session = session)) l

theorem C08_retained_lww (l : List Retained) (hv : ∀ r ∈ l, validRetained r) (topic : String) :
    (∀ r, retEntry (mergeRetained l []) topic = some r →
        r ∈ l ∧ r.topic = topic ∧ ∀ r' ∈ l, r'.topic = topic → r'.ts ≤ r.ts) ∧
    (retEntry (mergeRetained l []) topic = none ↔ ∀ r ∈ l, r.topic ≠ topic) := by
  rw [retEntry_mergeRetained l hv topic [] (by simp)]
  simpa [retEntry, lwwFold_nil] using
    lwwFold_filter_spec Retained.ts (fun r => decide (r.topic = topic)) l

/-! ## convergence: the same set of updates gives the same stored entries -/

theorem C08_sessions_converge (l₁ l₂ : List SessionMD) (hv : ∀ s ∈ l₁, validSession s)
    (same : ∀ s, s ∈ l₁ ↔ s ∈ l₂) (tf : TieFree SessionMD.id SessionMD.ts l₁) (id : String) :
    sessLookup id (mergeSessions l₁ []) = sessLookup id (mergeSessions l₂ []) := by
  have hv₂ : ∀ s ∈ l₂, validSession s := fun s hs => hv s ((same s).mpr hs)
  rw [sessLookup_mergeSessions l₁ hv id, sessLookup_mergeSessions l₂ hv₂ id]
  apply lwwFold_filter_congr _ _ _ _ same
  intro a ha b hb pa pb
  exact tf a ha b hb (by simp_all)

theorem C08_subs_converge (l₁ l₂ : List Sub) (hv : ∀ s ∈ l₁, validSub s)
    (same : ∀ s, s ∈ l₁ ↔ s ∈ l₂) (tf : TieFree (fun s : Sub => (s.pattern, s.session)) Sub.ts l₁)
    (pattern session : String) :
    subEntry (mergeSubs l₁ []) pattern session = subEntry (mergeSubs l₂ []) pattern session := by
  have hv₂ : ∀ s ∈ l₂, validSub s := fun s hs => hv s ((same s).mpr hs)
  rw [subEntry_mergeSubs l₁ hv pattern session, subEntry_mergeSubs l₂ hv₂ pattern session]
  apply lwwFold_filter_congr _ _ _ _ same
  intro a ha b hb pa pb
  exact tf a ha b hb (by simp_all)

theorem C08_retained_converge (l₁ l₂ : List Retained) (hv : ∀ r ∈ l₁, validRetained r)
    (same : ∀ r, r ∈ l₁ ↔ r ∈ l₂) (tf : TieFree Retained.topic Retained.ts l₁) (topic : String) :
    retEntry (mergeRetained l₁ []) topic = retEntry (mergeRetained l₂ []) topic := by
  have hv₂ : ∀ r ∈ l₂, validRetained r := fun r hr => hv r ((same r).mpr hr)
  rw [retEntry_mergeRetained l₁ hv topic [] (by simp), retEntry_mergeRetained l₂ hv₂ topic [] (by simp)]
  apply lwwFold_filter_congr _ _ _ _ same
  intro a ha b hb pa pb
  exact tf a ha b hb (by simp_all)

/-! ## what the nodes LIST is a function of the stored entries -/

/-- a session is listed iff it is the stored record of its id and that record is "added" -/
theorem C08_sessAll_iff (st : State) (hk : (st.sessions.map (·.id)).Nodup) (s : SessionMD) :
    s ∈ sessAll st ↔ (sessLookup s.id st.sessions = some s ∧ isAdded s.stamp = true) := by
  simp only [sessAll, sessFilter, List.mem_filter, Bool.and_true, mem_iff_sessLookup st.sessions hk s]

/-- invariant needed above: merging keeps ids unique -/
theorem C08_sessions_nodup (l : List SessionMD) (st : List SessionMD) (hk : (st.map (·.id)).Nodup) :
    ((mergeSessions l st).map (·.id)).Nodup := by
  exact mergeSessions_nodup l st hk

/-- so two nodes that received the same tie-free set of valid session updates list exactly the
    same sessions -/
theorem C08_sessions_listed_equal (p₁ p₂ : Nat) (l₁ l₂ : List SessionMD) (hv : ∀ s ∈ l₁, validSession s)
    (same : ∀ s, s ∈ l₁ ↔ s ∈ l₂) (tf : TieFree SessionMD.id SessionMD.ts l₁) (s : SessionMD) :
    s ∈ sessAll { peer := p₁, sessions := mergeSessions l₁ [] } ↔
    s ∈ sessAll { peer := p₂, sessions := mergeSessions l₂ [] } := by
  rw [C08_sessAll_iff _ (mergeSessions_nodup l₁ [] (by simp)),
    C08_sessAll_iff _ (mergeSessions_nodup l₂ [] (by simp))]
  simp only [C08_sessions_converge l₁ l₂ hv same tf s.id]

/-- an older update never overrides a newer one and never resurrects a removed entry:
    merging an update that is not strictly newer than the stored record changes nothing -/
theorem C08_no_override (st : List SessionMD) (u loc : SessionMD) (hu : validSession u)
    (hl : sessLookup u.id st = some loc) (hold : u.ts ≤ loc.ts) :
    mergeSessions [u] st = st := by
  rw [mergeSessions_cons _ _ _ hu]
  simp only [mergeSessions, sessStep, sessOutdated, hl, isOutdated_eq]
  simp only [SessionMD.ts] at hold
  simp [Int.not_lt.mpr hold]

/-- `TieFree` is necessary: two different updates with equal timestamps, two arrival orders -/
theorem tie_counterexample :
    let a : SessionMD := ⟨"s", "c1", "m", 1, 0, none, 5, 0⟩
    let b : SessionMD := ⟨"s", "c2", "m", 2, 0, none, 5, 0⟩
    sessLookup "s" (mergeSessions [a, b] []) ≠ sessLookup "s" (mergeSessions [b, a] []) := by
  decide

end Wasp.Dist

import Wasp.Model.Dist
/-!
# C08 — replicas converge regardless of delivery order, duplication and batching

Two nodes that have received the same SET of updates — in any order, any number of times,
one at a time or batched — store the same entry under every key of the three replicated
stores, hence list the same sessions, subscriptions and retained messages. The entry stored
under a key is the received update with the greatest timestamp (`lastUpdate`); an older
update never replaces a newer one.

Hypotheses, all explicit:
* validity of the updates (what `merge…` itself checks: non-empty ids / patterns / topics;
  an invalid entry makes the code drop the rest of its batch);
* `TieFree`: two different updates to the same key never carry the same timestamp — the
  property's "the update with the greatest timestamp" presupposes it; `tie_counterexample`
  shows it is necessary;
* retained topics are topic NAMES (no '+'/'#' level), as MQTT requires of a PUBLISH.
-/
namespace Wasp.Dist
open Wasp.Crdt Wasp.Topic

/-- no two distinct updates of the same key carry the same timestamp -/
def TieFree {α κ : Type} (key : α → κ) (ts : α → Int) (l : List α) : Prop :=
  ∀ a ∈ l, ∀ b ∈ l, key a = key b → ts a = ts b → a = b

def SessionMD.ts (s : SessionMD) : Int := lastUpdate s.stamp
def Sub.ts (s : Sub) : Int := lastUpdate s.stamp
def Retained.ts (s : Retained) : Int := lastUpdate s.stamp

def validSession (s : SessionMD) : Prop := s.id ≠ ""
def validSub (s : Sub) : Prop := s.session ≠ "" ∧ s.pattern ≠ ""
/-- a retained update as the broker produces it: it carries a publish whose topic is a
    non-empty topic NAME, and it either adds or removes -/
def validRetained (r : Retained) : Prop :=
  r.hasPublish = true ∧ r.topic ≠ "" ∧ wfTopic (levels r.topic) = true ∧
    (isAdded r.stamp = true ∨ isRemoved r.stamp = true)

/-! ## batching is irrelevant: a batch is processed entry by entry -/

theorem C08_sessions_batching (a b : List SessionMD) (st : List SessionMD) (ha : ∀ s ∈ a, validSession s) :
    mergeSessions (a ++ b) st = mergeSessions b (mergeSessions a st) := by
  sorry

theorem C08_subs_batching (a b : List Sub) (m : List (String × List Sub)) (ha : ∀ s ∈ a, validSub s) :
    mergeSubs (a ++ b) m = mergeSubs b (mergeSubs a m) := by
  sorry

theorem C08_retained_batching (a b : List Retained) (m : List (String × Retained))
    (ha : ∀ r ∈ a, validRetained r) (hm : ∀ kr ∈ m, kr.1 = kr.2.topic ∧ wfTopic (levels kr.1) = true) :
    mergeRetained (a ++ b) m = mergeRetained b (mergeRetained a m) := by
  sorry

/-! ## last writer wins: what is stored under a key after merging the updates `l` -/

/-- sessions: the stored record is a received update of that id with the greatest timestamp;
    nothing is stored iff no update of that id was received -/
theorem C08_sessions_lww (l : List SessionMD) (hv : ∀ s ∈ l, validSession s) (id : String) :
    (∀ s, sessLookup id (mergeSessions l []) = some s →
        s ∈ l ∧ s.id = id ∧ ∀ s' ∈ l, s'.id = id → s'.ts ≤ s.ts) ∧
    (sessLookup id (mergeSessions l []) = none ↔ ∀ s ∈ l, s.id ≠ id) := by
  sorry

/-- the subscriptions stored under a pattern, looked up by session id -/
def subEntry (m : List (String × List Sub)) (pattern session : String) : Option Sub :=
  (subsLookup pattern m).find? (fun s => s.session == session)

theorem C08_subs_lww (l : List Sub) (hv : ∀ s ∈ l, validSub s) (pattern session : String) :
    (∀ s, subEntry (mergeSubs l []) pattern session = some s →
        s ∈ l ∧ s.pattern = pattern ∧ s.session = session ∧
        ∀ s' ∈ l, s'.pattern = pattern → s'.session = session → s'.ts ≤ s.ts) ∧
    (subEntry (mergeSubs l []) pattern session = none ↔
        ∀ s ∈ l, ¬ (s.pattern = pattern ∧ s.session = session)) := by
  sorry

def retEntry (m : List (String × Retained)) (topic : String) : Option Retained :=
  (m.find? (fun kr => kr.1 == topic)).map (·.2)

theorem C08_retained_lww (l : List Retained) (hv : ∀ r ∈ l, validRetained r) (topic : String) :
    (∀ r, retEntry (mergeRetained l []) topic = some r →
        r ∈ l ∧ r.topic = topic ∧ ∀ r' ∈ l, r'.topic = topic → r'.ts ≤ r.ts) ∧
    (retEntry (mergeRetained l []) topic = none ↔ ∀ r ∈ l, r.topic ≠ topic) := by
  sorry

/-! ## convergence: the same set of updates gives the same stored entries -/

theorem C08_sessions_converge (l₁ l₂ : List SessionMD) (hv : ∀ s ∈ l₁, validSession s)
    (same : ∀ s, s ∈ l₁ ↔ s ∈ l₂) (tf : TieFree SessionMD.id SessionMD.ts l₁) (id : String) :
    sessLookup id (mergeSessions l₁ []) = sessLookup id (mergeSessions l₂ []) := by
  sorry

theorem C08_subs_converge (l₁ l₂ : List Sub) (hv : ∀ s ∈ l₁, validSub s)
    (same : ∀ s, s ∈ l₁ ↔ s ∈ l₂) (tf : TieFree (fun s : Sub => (s.pattern, s.session)) Sub.ts l₁)
    (pattern session : String) :
    subEntry (mergeSubs l₁ []) pattern session = subEntry (mergeSubs l₂ []) pattern session := by
  sorry

theorem C08_retained_converge (l₁ l₂ : List Retained) (hv : ∀ r ∈ l₁, validRetained r)
    (same : ∀ r, r ∈ l₁ ↔ r ∈ l₂) (tf : TieFree Retained.topic Retained.ts l₁) (topic : String) :
    retEntry (mergeRetained l₁ []) topic = retEntry (mergeRetained l₂ []) topic := by
  sorry

/-! ## what the nodes LIST is a function of the stored entries -/

/-- a session is listed iff it is the stored record of its id and that record is "added" -/
theorem C08_sessAll_iff (st : State) (hk : (st.sessions.map (·.id)).Nodup) (s : SessionMD) :
    s ∈ sessAll st ↔ (sessLookup s.id st.sessions = some s ∧ isAdded s.stamp = true) := by
  sorry

/-- invariant needed above: merging keeps ids unique -/
theorem C08_sessions_nodup (l : List SessionMD) (st : List SessionMD) (hk : (st.map (·.id)).Nodup) :
    ((mergeSessions l st).map (·.id)).Nodup := by
  sorry

/-- so two nodes that received the same tie-free set of valid session updates list exactly the
    same sessions -/
theorem C08_sessions_listed_equal (p₁ p₂ : Nat) (l₁ l₂ : List SessionMD) (hv : ∀ s ∈ l₁, validSession s)
    (same : ∀ s, s ∈ l₁ ↔ s ∈ l₂) (tf : TieFree SessionMD.id SessionMD.ts l₁) (s : SessionMD) :
    s ∈ sessAll { peer := p₁, sessions := mergeSessions l₁ [] } ↔
    s ∈ sessAll { peer := p₂, sessions := mergeSessions l₂ [] } := by
  sorry

/-- an older update never overrides a newer one and never resurrects a removed entry:
    merging an update that is not strictly newer than the stored record changes nothing -/
theorem C08_no_override (st : List SessionMD) (u loc : SessionMD) (hu : validSession u)
    (hl : sessLookup u.id st = some loc) (hold : u.ts ≤ loc.ts) :
    mergeSessions [u] st = st := by
  sorry

/-- `TieFree` is necessary: two different updates with equal timestamps, two arrival orders -/
theorem tie_counterexample :
    let a : SessionMD := ⟨"s", "c1", "m", 1, 0, none, 5, 0⟩
    let b : SessionMD := ⟨"s", "c2", "m", 2, 0, none, 5, 0⟩
    sessLookup "s" (mergeSessions [a, b] []) ≠ sessLookup "s" (mergeSessions [b, a] []) := by
  decide

end Wasp.Dist

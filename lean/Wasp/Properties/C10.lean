import Wasp.Model.Dist
import Wasp.Properties.C08
/-!
# C10 — a full-state exchange brings a lagging node up to date

`snapshot A` is what `LocalState` returns: every stored entry of `A`, removed ones included.
After `B' = merge B (snapshot A)`, every key where `A`'s entry is strictly newer than `B`'s
holds `A`'s entry on `B'` — additions and removals alike; a fresh `B` ends up storing exactly
what `A` stores; after an exchange in both directions the two nodes store the same entry
under every key (tie-free), whatever gossip was lost before.

`Inv st`: what every state reachable through the model's operations satisfies
(`C10_inv_merge`, `C10_inv_init`): keys are unique, stored entries are valid, the retained
map is keyed by its entries' topics.
-/
namespace Wasp.Dist
open Wasp.Crdt Wasp.Topic

structure Inv (st : State) : Prop where
  sessKeys : (st.sessions.map (·.id)).Nodup
  sessValid : ∀ s ∈ st.sessions, validSession s
  subKeys : (st.subs.map (·.1)).Nodup
  subInner : ∀ kl ∈ st.subs, (kl.2.map (·.session)).Nodup ∧ ∀ s ∈ kl.2, s.pattern = kl.1 ∧ validSub s
  topKeys : (st.topics.map (·.1)).Nodup
  topValid : ∀ kr ∈ st.topics, kr.1 = kr.2.topic ∧ validRetained kr.2

theorem C10_inv_init (p : Nat) : Inv { peer := p } := by
  sorry

/-- merging an event of valid entries preserves the invariant -/
theorem C10_inv_merge (st : State) (ev : Event) (h : Inv st)
    (hs : ∀ s ∈ ev.sessions, validSession s) (hu : ∀ s ∈ ev.subs, validSub s)
    (hr : ∀ r ∈ ev.retained, validRetained r) : Inv (merge st ev) := by
  sorry

/-! ## newer entries of A win on B -/

theorem C10_sessions_newer_wins (A B : State) (hA : Inv A) (hB : Inv B) (id : String) (a : SessionMD)
    (ha : sessLookup id A.sessions = some a)
    (hnew : ∀ b, sessLookup id B.sessions = some b → b.ts < a.ts) :
    sessLookup id (merge B (snapshot A)).sessions = some a := by
  sorry

theorem C10_subs_newer_wins (A B : State) (hA : Inv A) (hB : Inv B) (pattern session : String) (a : Sub)
    (ha : subEntry A.subs pattern session = some a)
    (hnew : ∀ b, subEntry B.subs pattern session = some b → b.ts < a.ts) :
    subEntry (merge B (snapshot A)).subs pattern session = some a := by
  sorry

theorem C10_retained_newer_wins (A B : State) (hA : Inv A) (hB : Inv B) (topic : String) (a : Retained)
    (ha : retEntry A.topics topic = some a)
    (hnew : ∀ b, retEntry B.topics topic = some b → b.ts < a.ts) :
    retEntry (merge B (snapshot A)).topics topic = some a := by
  sorry

/-- and B's own entries that are at least as new stay -/
theorem C10_sessions_keeps_newer (A B : State) (hA : Inv A) (hB : Inv B) (id : String) (b : SessionMD)
    (hb : sessLookup id B.sessions = some b)
    (hnew : ∀ a, sessLookup id A.sessions = some a → a.ts ≤ b.ts) :
    sessLookup id (merge B (snapshot A)).sessions = some b := by
  sorry

/-! ## a fresh node ends up with exactly A's entries -/

theorem C10_fresh (A : State) (hA : Inv A) (p : Nat) :
    let B' := merge { peer := p } (snapshot A)
    (∀ id, sessLookup id B'.sessions = sessLookup id A.sessions) ∧
    (∀ pat sess, subEntry B'.subs pat sess = subEntry A.subs pat sess) ∧
    (∀ t, retEntry B'.topics t = retEntry A.topics t) := by
  sorry

/-! ## exchange in both directions -/

/-- no key carries two different entries with the same timestamp across the two nodes -/
def TieFreeAcross (A B : State) : Prop :=
  (∀ id a b, sessLookup id A.sessions = some a → sessLookup id B.sessions = some b → a.ts = b.ts → a = b) ∧
  (∀ p s a b, subEntry A.subs p s = some a → subEntry B.subs p s = some b → a.ts = b.ts → a = b) ∧
  (∀ t a b, retEntry A.topics t = some a → retEntry B.topics t = some b → a.ts = b.ts → a = b)

theorem C10_both_ways (A B : State) (hA : Inv A) (hB : Inv B) (tf : TieFreeAcross A B) :
    let A' := merge A (snapshot B)
    let B' := merge B (snapshot A)
    (∀ id, sessLookup id A'.sessions = sessLookup id B'.sessions) ∧
    (∀ pat sess, subEntry A'.subs pat sess = subEntry B'.subs pat sess) ∧
    (∀ t, retEntry A'.topics t = retEntry B'.topics t) := by
  sorry

end Wasp.Dist

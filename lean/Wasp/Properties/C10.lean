import Wasp.Model.Dist
import Wasp.Properties.C08
import Wasp.Proofs.DistSync
/-!
# C10 — a full-state exchange brings a lagging node up to date

`snapshot A` is what `LocalState` returns: every stored entry of `A`, removed ones included.
After `B' = merge B (snapshot A)`, every key where `A`'s entry is strictly newer than `B`'s
holds `A`'s entry on `B'` — additions and removals alike; a fresh `B` ends up storing exactly
what `A` stores; after an exchange in both directions the two nodes store the same entry
under every key (tie-free), whatever gossip was lost before.

`Inv st`: what every state reachable through the model's operations satisfies
(`C10_inv_merge`, `C10_inv_init`): keys are unique, stored entries are valid, the retained
map is keyed by its entries' topics.
-/
namespace Wasp.Dist
open Wasp.Crdt Wasp.Topic

structure Inv (st : State) : Prop where
  sessKeys : (st.sessions.map (·.id)).Nodup
  sessValid : ∀ s ∈ st.sessions, validSession s
  subKeys : (st.subs.map (·.1)).Nodup
  subInner : ∀ kl ∈ st.subs, (kl.2.map (·.session)).Nodup ∧ ∀ s ∈ kl.2, s.pattern = kl.1 ∧ validSub s
  topKeys : (st.topics.map (·.1)).Nodup
  topValid : ∀ kr ∈ st.topics, kr.1 = kr.2.topic ∧ validRetained kr.2

theorem C10_inv_init (p : Nat) : Inv { peer := p } := by
  constructor <;> simp

/-- merging an event of valid entries preserves the invariant -/
theorem C10_inv_merge (st : State) (ev : Event) (h : Inv st)
    (hs : ∀ s ∈ ev.sessions, validSession s) (hu : ∀ s ∈ ev.subs, validSub s)
    (hr : ∀ r ∈ ev.retained, validRetained r) : Inv (merge st ev) := by
  have hsub : SubsInv st.subs := ⟨h.subKeys, h.subInner⟩
  have hsub' := mergeSubs_inv ev.subs st.subs hsub hu
  refine ⟨mergeSessions_nodup_sy _ _ h.sessKeys, ?_, hsub'.1, hsub'.2,
    mergeRetained_nodup_sy _ _ h.topKeys hr, ?_⟩
  · intro s hs'
    rcases mergeSessions_mem hs' with h1 | h1
    · exact hs s h1
    · exact h.sessValid s h1
  · exact mergeRetained_forall (fun k r => k = r.topic ∧ validRetained r) _ _ h.topKeys hr h.topValid
      (fun r hr' => ⟨rfl, hr r hr'⟩)

/-! ## newer entries of A win on B -/

theorem C10_sessions_newer_wins (A B : State) (hA : Inv A) (hB : Inv B) (id : String) (a : SessionMD)
    (ha : sessLookup id A.sessions = some a)
    (hnew : ∀ b, sessLookup id B.sessions = some b → b.ts < a.ts) :
    sessLookup id (merge B (snapshot A)).sessions = some a := by
  have _ := hB
  show sessLookup id (mergeSessions A.sessions B.sessions) = some a
  rw [sessLookup_mergeSessions_sy _ _ hA.sessValid hA.sessKeys, ha]
  exact pick_newer _ a _ hnew

theorem C10_subs_newer_wins (A B : State) (hA : Inv A) (hB : Inv B) (pattern session : String) (a : Sub)
    (ha : subEntry A.subs pattern session = some a)
    (hnew : ∀ b, subEntry B.subs pattern session = some b → b.ts < a.ts) :
    subEntry (merge B (snapshot A)).subs pattern session = some a := by
  have _ := hB
  show subEntry (mergeSubs (A.subs.flatMap (·.2)) B.subs) pattern session = some a
  have hi : SubsInv A.subs := ⟨hA.subKeys, hA.subInner⟩
  rw [subEntry_mergeSubs_sy _ _ (subs_flat_valid _ hi) (subs_flat_pairwise _ hi), subs_flat_find _ hi, ha]
  exact pick_newer _ a _ hnew

theorem C10_retained_newer_wins (A B : State) (hA : Inv A) (hB : Inv B) (topic : String) (a : Retained)
    (ha : retEntry A.topics topic = some a)
    (hnew : ∀ b, retEntry B.topics topic = some b → b.ts < a.ts) :
    retEntry (merge B (snapshot A)).topics topic = some a := by
  show retEntry (mergeRetained (A.topics.map (·.2)) B.topics) topic = some a
  rw [retEntry_mergeRetained_sy _ _ hB.topKeys (ret_snapshot_valid _ hA.topValid)
    (ret_snapshot_nodup _ (fun kr h => (hA.topValid kr h).1) hA.topKeys),
    ret_snapshot_find _ (fun kr h => (hA.topValid kr h).1), ha]
  exact pick_newer _ a _ hnew

/-- and B's own entries that are at least as new stay -/
theorem C10_sessions_keeps_newer (A B : State) (hA : Inv A) (hB : Inv B) (id : String) (b : SessionMD)
    (hb : sessLookup id B.sessions = some b)
    (hnew : ∀ a, sessLookup id A.sessions = some a → a.ts ≤ b.ts) :
    sessLookup id (merge B (snapshot A)).sessions = some b := by
  have _ := hB
  show sessLookup id (mergeSessions A.sessions B.sessions) = some b
  rw [sessLookup_mergeSessions_sy _ _ hA.sessValid hA.sessKeys, hb]
  exact pick_keeps _ _ b hnew

/-! ## a fresh node ends up with exactly A's entries -/

theorem C10_fresh (A : State) (hA : Inv A) (p : Nat) :
    let B' := merge { peer := p } (snapshot A)
    (∀ id, sessLookup id B'.sessions = sessLookup id A.sessions) ∧
    (∀ pat sess, subEntry B'.subs pat sess = subEntry A.subs pat sess) ∧
    (∀ t, retEntry B'.topics t = retEntry A.topics t) := by
  have hi : SubsInv A.subs := ⟨hA.subKeys, hA.subInner⟩
  refine ⟨fun id => ?_, fun pat sess => ?_, fun t => ?_⟩
  · show sessLookup id (mergeSessions A.sessions []) = _
    rw [sessLookup_mergeSessions_sy _ _ hA.sessValid hA.sessKeys]
    exact pick_none_right _ _
  · show subEntry (mergeSubs (A.subs.flatMap (·.2)) []) pat sess = _
    rw [subEntry_mergeSubs_sy _ _ (subs_flat_valid _ hi) (subs_flat_pairwise _ hi), subs_flat_find _ hi]
    exact pick_none_right _ _
  · show retEntry (mergeRetained (A.topics.map (·.2)) []) t = _
    rw [retEntry_mergeRetained_sy _ _ (by simp) (ret_snapshot_valid _ hA.topValid)
      (ret_snapshot_nodup _ (fun kr h => (hA.topValid kr h).1) hA.topKeys),
      ret_snapshot_find _ (fun kr h => (hA.topValid kr h).1)]
    exact pick_none_right _ _

/-! ## exchange in both directions -/

/-- no key carries two different entries with the same timestamp across the two nodes -/
def TieFreeAcross (A B : State) : Prop :=
  (∀ id a b, sessLookup id A.sessions = some a → sessLookup id B.sessions = some b → a.ts = b.ts → a = b) ∧
  (∀ p s a b, subEntry A.subs p s = some a → subEntry B.subs p s = some b → a.ts = b.ts → a = b) ∧
  (∀ t a b, retEntry A.topics t = some a → retEntry B.topics t = some b → a.ts = b.ts → a = b)

theorem C10_both_ways (A B : State) (hA : Inv A) (hB : Inv B) (tf : TieFreeAcross A B) :
    let A' := merge A (snapshot B)
    let B' := merge B (snapshot A)
    (∀ id, sessLookup id A'.sessions = sessLookup id B'.sessions) ∧
    (∀ pat sess, subEntry A'.subs pat sess = subEntry B'.subs pat sess) ∧
    (∀ t, retEntry A'.topics t = retEntry B'.topics t) := by
  have hiA : SubsInv A.subs := ⟨hA.subKeys, hA.subInner⟩
  have hiB : SubsInv B.subs := ⟨hB.subKeys, hB.subInner⟩
  refine ⟨fun id => ?_, fun pat sess => ?_, fun t => ?_⟩
  · show sessLookup id (mergeSessions B.sessions A.sessions) = sessLookup id (mergeSessions A.sessions B.sessions)
    rw [sessLookup_mergeSessions_sy _ _ hA.sessValid hA.sessKeys,
      sessLookup_mergeSessions_sy _ _ hB.sessValid hB.sessKeys]
    exact pick_symm _ _ _ (tf.1 id)
  · show subEntry (mergeSubs (B.subs.flatMap (·.2)) A.subs) pat sess =
      subEntry (mergeSubs (A.subs.flatMap (·.2)) B.subs) pat sess
    rw [subEntry_mergeSubs_sy _ _ (subs_flat_valid _ hiA) (subs_flat_pairwise _ hiA), subs_flat_find _ hiA,
      subEntry_mergeSubs_sy _ _ (subs_flat_valid _ hiB) (subs_flat_pairwise _ hiB), subs_flat_find _ hiB]
    exact pick_symm _ _ _ (tf.2.1 pat sess)
  · show retEntry (mergeRetained (B.topics.map (·.2)) A.topics) t =
      retEntry (mergeRetained (A.topics.map (·.2)) B.topics) t
    rw [retEntry_mergeRetained_sy _ _ hB.topKeys (ret_snapshot_valid _ hA.topValid)
        (ret_snapshot_nodup _ (fun kr h => (hA.topValid kr h).1) hA.topKeys),
      ret_snapshot_find _ (fun kr h => (hA.topValid kr h).1),
      retEntry_mergeRetained_sy _ _ hA.topKeys (ret_snapshot_valid _ hB.topValid)
        (ret_snapshot_nodup _ (fun kr h => (hB.topValid kr h).1) hB.topKeys),
      ret_snapshot_find _ (fun kr h => (hB.topValid kr h).1)]
    exact pick_symm _ _ _ (tf.2.2 t)

end Wasp.Dist

import Wasp.Model.Broker
/-! # C14 (broker level) — theorem statements are being added; see DESIGN.md §4 -/

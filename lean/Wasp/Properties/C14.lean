import Wasp.Model.Broker
import Wasp.Proofs.BrokerB
/-!
# C14 — a publish reaches matching subscribers on other nodes exactly once
# C05 (first half) — stored before acknowledged

`World.distribute i p` is PublishDistributor.Distribute on node i (local Append, or the
ScheduleMessage RPC = Append on the remote node), followed on each node that stored the message by
its Scheduler + writer (`deliverLocal`).

* `C14_dest_log`: for EVERY placement, topic, filter set and fault pattern, the message is appended
  exactly once to the log of each node that hosts a matching subscription KNOWN TO THE PUBLISHING NODE,
  is reachable and whose log accepts the write — and to no other node's log;
* `C14_result`: Distribute reports success iff every destination was reachable and stored the message
  (a failing destination does not stop the others: `C14_dest_log` holds regardless);
* `C14_local_only`: a node's writer resolves recipients among the subscriptions naming that node as
  their peer;
* `C05_job`: the publish worker invokes the acknowledgement callback iff Distribute succeeded.
Node peers are pairwise distinct (`PeersDistinct`).
-/
namespace Wasp.Broker
open Wasp.Dist Wasp.Topic Wasp.Broker.AgentB

def PeersDistinct (w : World) : Prop :=
  ∀ a b, a < w.nodes.length → b < w.nodes.length → (w.node a).peer = (w.node b).peer → a = b

/-- the peers Distribute addresses: those of the matching added subscriptions in node i's view -/
def destinations (w : World) (i : Nat) (p : Pub) : List Nat :=
  dedupNat ((subByPattern (w.node i).dist p.topic).map (·.peer))

/-- node j can be reached from node i -/
def reachableFrom (w : World) (i j : Nat) : Bool := j == i || !((w.node j).failed || (w.node j).unreachable)

/-- the next Append on node j is accepted -/
def logAccepts (n : Node) : Bool := !(n.logFailAll || n.logFailAt.contains n.logCalls)

theorem C14_dest_log (w : World) (i : Nat) (p : Pub) (hd : PeersDistinct w) (hi : i < w.nodes.length) (j : Nat) (hj : j < w.nodes.length) :
    ((w.distribute i p).1.node j).log =
      (w.node j).log ++ (if (w.node j).peer ∈ destinations w i p ∧ reachableFrom w i j = true ∧ logAccepts (w.node j) = true then [p] else []) := by
  have h := (distFold_spec i p (destinations w i p) (dedupNat_nodup _) w true hd).2.1 j hj
  exact h

theorem C14_result (w : World) (i : Nat) (p : Pub) (hd : PeersDistinct w) (hi : i < w.nodes.length) :
    (w.distribute i p).2 = true ↔
      ∀ peer ∈ destinations w i p, ∃ j, j < w.nodes.length ∧ (w.node j).peer = peer ∧ reachableFrom w i j = true ∧ logAccepts (w.node j) = true := by
  have h := (distFold_spec i p (destinations w i p) (dedupNat_nodup _) w true hd).2.2
  rw [distribute_eq]
  exact h.trans ⟨fun h => h.2, fun h => ⟨rfl, h⟩⟩

/-- the writer of node j only writes to sessions of subscriptions that name node j -/
theorem C14_local_only (w : World) (j : Nat) (p : Pub) (conn : String) (pk : Pkt)
    (h : (conn, pk) ∈ (w.deliverLocal j p).out) (hnew : (conn, pk) ∉ w.out) :
    ∃ s sub, (w.node j).sess sub.session = some s ∧ s.conn = conn ∧ sub ∈ subByPattern (w.node j).dist p.topic ∧ sub.peer = (w.node j).peer := by
  unfold World.deliverLocal at h
  rcases out_send j p _ w _ h with h | ⟨sid, qos, s, hm, hs, hc⟩
  · exact absurd h hnew
  · simp only [List.mem_map, List.mem_filter, Prod.mk.injEq] at hm
    obtain ⟨sub, ⟨hsub, hp⟩, rfl, rfl⟩ := hm
    exact ⟨s, sub, hs, hc, hsub, by simpa using hp⟩

/-- retain handling of the publish worker (the state before Distribute) -/
def afterRetain (w : World) (i : Nat) (p : Pub) : World :=
  if p.retain then
    let (w, t) := w.tick
    let n := w.node i
    let (d, ev) := if p.payload = "" then topicDelete n.dist t p.topic else topicSet n.dist t p.topic p.payload p.qos true p.dup
    (w.setNode i { n with dist := d }).broadcast i ev
  else w

/-- the acknowledgement callback runs iff every destination stored the message; the copy that is
    distributed is never flagged retained -/
theorem C05_job (w : World) (i : Nat) (p : Pub) (onOk : World → World) :
    w.publishJob i p onOk =
      (let r := (afterRetain w i p).distribute i { p with retain := false }
       if r.2 then onOk r.1 else r.1) := by
  rfl

end Wasp.Broker

import Wasp.Proofs.Trie
/-!
# C19 — topic-keyed stores behave as maps over full topic paths

Both tries (`subscriptions/node.go`, `topics/node.go`) refine the simplest possible
spec: a total function `path ↦ value` (empty = absent). Writing, replacing or removing
the value at one path never changes the value at any other path — prefixes included —
and Count / Iterate report exactly the non-empty entries, each once.
Paths are level lists (`Topic.levels` of the topic string; `levels` is injective, see
`Wasp.Topic.levels_injective`).
-/
namespace Wasp.Trie
open Wasp.Topic

/-- the abstract store -/
abbrev Spec := List Level → Bytes

def Spec.empty : Spec := fun _ => []
def Spec.modify (m : Spec) (p : List Level) (f : Bytes → Bytes) : Spec :=
  fun q => if q = p then f (m p) else m q

/-! ## subscription index -/

structure SubOp where
  path : List Level
  f : Bytes → Bytes

def subRun : List SubOp → Node → Node
  | [], n => n
  | op :: ops, n => subRun ops (Sub.update op.f op.path n)

def subSpec : List SubOp → Spec → Spec
  | [], m => m
  | op :: ops, m => subSpec ops (m.modify op.path op.f)

/-- one Upsert is a point update of the map -/
theorem C19_sub_point (f : Bytes → Bytes) (p : List Level) (hp : p ≠ []) (n : Node) (q : List Level) :
    get (Sub.update f p n) q = if q = p then f (get n p) else get n q :=
  Sub.get_update f p hp n q

/-- any sequence of Upserts (creating, replacing, emptying, pruning) is the same sequence
    of point updates: the index is a map over full paths -/
theorem C19_sub_refines (ops : List SubOp) (hops : ∀ op ∈ ops, op.path ≠ []) (n : Node) :
    get (subRun ops n) = subSpec ops (get n) := by
  induction ops generalizing n with
  | nil => rfl
  | cons op ops ih =>
    simp only [subRun, subSpec]
    rw [ih (fun o ho => hops o (List.mem_cons_of_mem _ ho))]
    congr 1
    funext q
    exact Sub.get_update op.f op.path (hops op (List.mem_cons_self ..)) n q

theorem C19_sub_wf (ops : List SubOp) (n : Node) (h : WF n) : WF (subRun ops n) := by
  induction ops generalizing n with
  | nil => exact h
  | cons op ops ih => exact ih _ (Sub.WF_update op.f op.path n h)

/-! ## retained-message store -/

inductive RetOp where
  | insert (path : List Level) (msg : Bytes)
  | remove (path : List Level)

def RetOp.path : RetOp → List Level
  | .insert p _ => p
  | .remove p => p

def retStep (n : Node) : RetOp → Node
  | .insert p msg => (Ret.insert msg p n).1
  | .remove p => (Ret.remove p n).getD n

def retRun : List RetOp → Node → Node
  | [], n => n
  | op :: ops, n => retRun ops (retStep n op)

def retSpecStep (m : Spec) : RetOp → Spec
  | .insert p msg => m.modify p (fun _ => msg)
  | .remove p => m.modify p (fun _ => [])

def retSpec : List RetOp → Spec → Spec
  | [], m => m
  | op :: ops, m => retSpec ops (retSpecStep m op)

theorem C19_ret_step (n : Node) (op : RetOp) (hp : op.path ≠ []) :
    get (retStep n op) = retSpecStep (get n) op := by
  funext q
  cases op with
  | insert p msg =>
    simp only [retStep, retSpecStep, Spec.modify]
    exact Ret.get_insert msg p hp n q
  | remove p =>
    simp only [retStep, retSpecStep, Spec.modify]
    cases h : Ret.remove p n with
    | none =>
      simp only [Option.getD_none]
      have := Ret.remove_none p n h
      by_cases hq : q = p
      · simp [hq, this]
      · simp [hq]
    | some n' =>
      simp only [Option.getD_some]
      exact Ret.get_remove p hp n n' h q

/-- any sequence of Insert / Remove calls is the same sequence of point updates -/
theorem C19_ret_refines (ops : List RetOp) (hops : ∀ op ∈ ops, op.path ≠ []) (n : Node) :
    get (retRun ops n) = retSpec ops (get n) := by
  induction ops generalizing n with
  | nil => rfl
  | cons op ops ih =>
    simp only [retRun, retSpec]
    rw [ih (fun o ho => hops o (List.mem_cons_of_mem _ ho))]
    rw [C19_ret_step n op (hops op (List.mem_cons_self ..))]

/-- Insert reports "replaced" exactly when the path held a non-empty value -/
theorem C19_ret_insert_old (msg : Bytes) (p : List Level) (hp : p ≠ []) (n : Node) :
    (Ret.insert msg p n).2 = !(get n p).isEmpty := Ret.insert_old msg p hp n

theorem C19_ret_wf (ops : List RetOp) (n : Node) (h : WF n) : WF (retRun ops n) := by
  induction ops generalizing n with
  | nil => exact h
  | cons op ops ih =>
    apply ih
    cases op with
    | insert p msg => exact Ret.WF_insert msg p n h
    | remove p =>
      simp only [retStep]
      cases hr : Ret.remove p n with
      | none => exact h
      | some n' => exact Ret.WF_remove p n n' h hr

/-! ## Count and Iterate (both tries) -/

/-- Iterate lists exactly the non-empty entries … -/
theorem C19_iterate_exact (n : Node) (h : WF n) (p : List Level) (d : Bytes) :
    (p, d) ∈ iterP n [] ↔ ((nodeAt n p).isSome ∧ d = get n p ∧ d ≠ []) := by
  rw [mem_iterP n h]
  simp

/-- … each exactly once, in every reachable trie; Count is their number -/
theorem C19_iterate_once (n : Node) (h : WF n) : ((iterP n []).map (·.1)).Nodup := nodup_iterP n h []

theorem C19_count (n : Node) : Ret.count n = (iterP n []).length := rfl

/-! ## Dump / Load
The model's round trip is the identity (the protobuf encoding is outside the model; that the
real Dump/Load pair behaves like this — including accepting updates afterwards — is
what the correspondence suites check at every position of every sequence). -/
theorem C19_roundtrip (n : Node) (q : List Level) : get (dumpLoad n) q = get n q := rfl

/-- non-vacuity: prefix-related keys, replace, remove with pruning -/
example :
    let n := retRun [.insert ["a"] [1], .insert ["a", "b"] [2], .insert ["a", "b", "c"] [3],
                     .remove ["a", "b", "c"], .remove ["a", "b"]] Node.empty
    get n ["a"] = [1] ∧ get n ["a", "b"] = [] ∧ Ret.count n = 1 := by decide

end Wasp.Trie

import Wasp.Proofs.IdPool
/-!
# C06 — packet identifiers in flight are unique and never leak

Property theorems about the model of `wasp/idpool.go` (`Wasp.IdPool`), for every
range `min ≤ max` and EVERY sequence of Get / Put calls (no bound on length).

`out` is the ghost list of identifiers handed out and not yet returned.
-/
namespace Wasp.IdPool

/-- ghost update of the outstanding identifiers -/
def stepOut (p : Pool) (out : List Int) : Op → List Int
  | .get => if p.ivs = [] then out else (get p).2 :: out
  | .put m => out.filter (· ≠ m)

/-- the relation between the allocator state and the outstanding identifiers:
    structural invariant, and the range is PARTITIONED into free and outstanding -/
structure Good (p : Pool) (out : List Int) : Prop where
  inv : Inv p
  part : ∀ x, p.min ≤ x → x ≤ p.max → (p.free x ↔ x ∉ out)
  range : ∀ x ∈ out, p.min ≤ x ∧ x ≤ p.max
  nodup : out.Nodup

theorem C06_init (min max : Int) (h : min ≤ max) : Good (new min max) [] where
  inv := new_inv min max h
  part := by
    intro x h1 h2
    have h1' : min ≤ x := h1
    have h2' : x ≤ max := h2
    simp [new_free, h1', h2']
  range := by simp
  nodup := by simp

/-- Get hands out an identifier in range that is not outstanding -/
theorem C06_get_fresh (p : Pool) (out : List Int) (g : Good p out) (hne : p.ivs ≠ []) :
    p.min ≤ (get p).2 ∧ (get p).2 ≤ p.max ∧ (get p).2 ∉ out := by
  have h := get_spec p g.inv hne
  exact ⟨h.2.2.1, h.2.2.2.1, (g.part _ h.2.2.1 h.2.2.2.1).mp h.2.1⟩

/-- exhaustion is reported exactly when every identifier of the range is outstanding,
    and then nothing changes -/
theorem C06_exhaustion (p : Pool) (out : List Int) (g : Good p out) :
    (p.ivs = [] ↔ ∀ x, p.min ≤ x → x ≤ p.max → x ∈ out) ∧ (p.ivs = [] → get p = (p, -1)) := by
  refine ⟨⟨fun h x h1 h2 => ?_, fun h => ?_⟩, get_empty p⟩
  · by_cases hx : x ∈ out
    · exact hx
    · have := (g.part x h1 h2).mpr hx
      simp [Pool.free, h, freeIn] at this
  · by_cases hne : p.ivs = []
    · exact hne
    · obtain ⟨x, hx⟩ := free_of_ne_nil p g.inv hne
      have hr := free_in_range p g.inv hx
      exact absurd (h x hr.1 hr.2) ((g.part x hr.1 hr.2).mp hx)

/-- returning an outstanding identifier makes exactly it available again -/
theorem C06_put_outstanding (p : Pool) (out : List Int) (g : Good p out) (m : Int) (hm : m ∈ out) :
    (put p m).free m ∧ ∀ x, x ≠ m → ((put p m).free x ↔ p.free x) := by
  have h := (put_spec p g.inv m).2
  have hr := g.range m hm
  refine ⟨(h m).mpr (Or.inr ⟨rfl, hr.1, hr.2⟩), fun x hx => ?_⟩
  rw [h x]
  constructor
  · rintro (h' | h')
    · exact h'
    · exact absurd h'.1 hx
  · intro h'; exact Or.inl h'

/-- returning an identifier that is not outstanding (already free, never issued,
    out of range) changes nothing -/
theorem C06_put_not_outstanding (p : Pool) (out : List Int) (g : Good p out) (m : Int) (hm : m ∉ out) :
    ∀ x, (put p m).free x ↔ p.free x := by
  intro x
  rw [(put_spec p g.inv m).2 x]
  constructor
  · rintro (h | ⟨rfl, h1, h2⟩)
    · exact h
    · exact (g.part x h1 h2).mpr hm
  · intro h; exact Or.inl h

theorem C06_step (p : Pool) (out : List Int) (g : Good p out) (op : Op) :
    Good (step p op).1 (stepOut p out op) := by
  cases op with
  | get =>
    simp only [step, stepOut]
    by_cases hne : p.ivs = []
    · simp only [hne, if_true]; rw [get_empty p hne]; exact g
    · simp only [hne, if_false]
      have h := get_spec p g.inv hne
      have hf := C06_get_fresh p out g hne
      have hmm := get_min_max p
      refine ⟨h.1, ?_, ?_, ?_⟩
      · intro x h1 h2
        rw [hmm.1] at h1; rw [hmm.2] at h2
        rw [h.2.2.2.2 x, g.part x h1 h2]
        simp only [List.mem_cons, not_or]
        constructor
        · rintro ⟨a, b⟩; exact ⟨b, a⟩
        · rintro ⟨a, b⟩; exact ⟨b, a⟩
      · intro x hx
        rw [hmm.1, hmm.2]
        rcases List.mem_cons.mp hx with rfl | hx
        · exact ⟨hf.1, hf.2.1⟩
        · exact g.range x hx
      · exact List.nodup_cons.mpr ⟨hf.2.2, g.nodup⟩
  | put m =>
    simp only [step, stepOut]
    have h := put_spec p g.inv m
    have hmm := put_min_max p m
    refine ⟨h.1, ?_, ?_, ?_⟩
    · intro x h1 h2
      rw [hmm.1] at h1; rw [hmm.2] at h2
      rw [h.2 x, g.part x h1 h2]
      simp only [List.mem_filter, decide_eq_true_eq, not_and, Decidable.not_not, ne_eq]
      constructor
      · rintro (h' | ⟨rfl, _, _⟩)
        · intro hx; exact absurd hx h'
        · intro _; rfl
      · intro h'
        by_cases hx : x ∈ out
        · right; exact ⟨h' hx, by rw [← h' hx]; exact h1, by rw [← h' hx]; exact h2⟩
        · left; exact hx
    · intro x hx
      rw [hmm.1, hmm.2]
      exact g.range x (List.mem_filter.mp hx).1
    · exact g.nodup.filter _

/-- ghost-tracked run -/
def runOut (p : Pool) (out : List Int) : List Op → Pool × List Int
  | [] => (p, out)
  | op :: ops => runOut (step p op).1 (stepOut p out op) ops

/-- C06 for every reachable state: whatever calls are made, the range stays partitioned
    into free and outstanding identifiers, and the interval list stays well formed -/
theorem C06_reachable (min max : Int) (h : min ≤ max) (ops : List Op) :
    Good (runOut (new min max) [] ops).1 (runOut (new min max) [] ops).2 := by
  suffices ∀ p out, Good p out → Good (runOut p out ops).1 (runOut p out ops).2 from
    this _ _ (C06_init min max h)
  induction ops with
  | nil => intro p out g; exact g
  | cons op ops ih => intro p out g; exact ih _ _ (C06_step p out g op)

/-- The executable monitor: what a Get/Put trace must look like (this is the oracle the
    check also runs on the implementation's own trace).  `out` = outstanding ids. -/
def traceOk (min max : Int) : List Int → List (Op × Option Int) → Bool
  | _, [] => true
  | out, (.get, some v) :: rest =>
    if v = -1 then
      -- exhaustion may only be reported when every identifier is outstanding
      (List.range (max - min + 1).toNat).all (fun i => out.contains (min + i)) && traceOk min max out rest
    else
      decide (min ≤ v) && decide (v ≤ max) && !out.contains v && traceOk min max (v :: out) rest
  | out, (.put m, none) :: rest => traceOk min max (out.filter (· ≠ m)) rest
  | _, _ => false

theorem mem_range_all {min max : Int} {out : List Int}
    (h : ∀ x, min ≤ x → x ≤ max → x ∈ out) :
    (List.range (max - min + 1).toNat).all (fun i => out.contains (min + i)) = true := by
  simp only [List.all_eq_true, List.mem_range, List.contains_eq_mem, decide_eq_true_eq]
  intro i hi
  exact h _ (by omega) (by omega)

theorem traceOk_run (min max : Int) (hmin : 0 ≤ min) (ops : List Op) :
    ∀ p out, Good p out → p.min = min → p.max = max →
      traceOk min max out (ops.zip (run p ops).2) = true := by
  induction ops with
  | nil => intro p out _ _ _; simp [run, traceOk]
  | cons op ops ih =>
    intro p out g hmn hmx
    have gs := C06_step p out g op
    cases op with
    | get =>
      have hmm := get_min_max p
      simp only [run, step, List.zip_cons_cons, traceOk]
      by_cases hne : p.ivs = []
      · have he := get_empty p hne
        simp only [he, if_true]
        have hall := ((C06_exhaustion p out g).1.mp hne)
        rw [hmn, hmx] at hall
        rw [mem_range_all hall, Bool.true_and]
        have := ih p out g hmn hmx
        exact this
      · have hf := C06_get_fresh p out g hne
        have hv : (get p).2 ≠ -1 := by omega
        simp only [hv, if_false]
        simp only [step, stepOut, hne, if_false] at gs
        have := ih (get p).1 ((get p).2 :: out) gs (by rw [hmm.1, hmn]) (by rw [hmm.2, hmx])
        simp only [this, Bool.and_true, Bool.and_eq_true, decide_eq_true_eq, Bool.not_eq_true',
          List.contains_eq_mem, decide_eq_false_iff_not]
        exact ⟨⟨by omega, by omega⟩, hf.2.2⟩
    | put m =>
      have hmm := put_min_max p m
      simp only [run, step, List.zip_cons_cons, traceOk]
      simp only [step, stepOut] at gs
      exact ih (put p m) _ gs (by rw [hmm.1, hmn]) (by rw [hmm.2, hmx])

/-- C06, trace form: on every sequence of allocate/release calls the model's answers are
    accepted by the monitor: every identifier handed out lies in the range and is not
    outstanding, and exhaustion (-1) is reported only when everything is outstanding. -/
theorem C06_trace (min max : Int) (hmin : 0 ≤ min) (h : min ≤ max) (ops : List Op) :
    traceOk min max [] (ops.zip (run (new min max) ops).2) = true :=
  traceOk_run min max hmin ops _ _ (C06_init min max h) rfl rfl

/-- the model never gets stuck or panics: it is a total function; a state in which the
    pool is exhausted exists and is handled (non-vacuity of the exhaustion clause) -/
example : (run (new 0 1) [.get, .get, .get, .put 0, .get, .put 7, .put 1, .put 1, .get]).2
    = [some 0, some 1, some (-1), none, some 0, none, none, none, some 1] := by decide

example : Good (new 0 65535) [] := C06_init 0 65535 (by omega)

end Wasp.IdPool

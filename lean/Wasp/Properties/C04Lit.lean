import Wasp.Properties.C04
import Wasp.Proofs.BucketLit
/-!
# C04 — the timeout buckets AS WRITTEN are the buckets the theorems are about

`Wasp.Generated.BucketLit.put/delete` are regenerated from `wasp/expiration/bucket.go` on every run (append +
`sort.SliceStable` as a stable insertion sort; `sort.Search` literally; the `for` loop with fuel `len + 1`; every
index/slice guarded). On a bucket sorted by deadline — an invariant of every reachable queue (`QInv.bucketsSorted`,
`C04_inv`) — the code as written never panics and computes the model's `bucketPut` / `bucketDelete`.
-/
namespace Wasp.Ack
open Wasp.Ack.BucketLit

theorem C04_code_bucket_put_is_model (index dl : Int) (b : List Item) (hs : Sorted b) (v : Key) (d : Time) :
    Wasp.Generated.BucketLit.put (toLit index dl b) v d = some (toLit index dl (bucketPut ⟨v, d⟩ b)) :=
  putLit_eq index dl b hs v d

theorem C04_code_bucket_delete_is_model (index dl : Int) (b : List Item) (hs : Sorted b) (v : Key) (d : Time) :
    Wasp.Generated.BucketLit.delete (toLit index dl b) v d
      = some (toLit index dl (bucketDelete v d b).1, (bucketDelete v d b).2) :=
  deleteLit_eq index dl b hs v d

end Wasp.Ack

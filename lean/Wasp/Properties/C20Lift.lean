import Wasp.Model.Conc
import Wasp.Generated.LockTable
import Wasp.Properties.C20
import Wasp.Properties.C20Table
import Wasp.Proofs.ConcT2
/-!
# C20 — from the regenerated lock table to data-race freedom, mechanically

`C20_lockset_drf` (Properties/C20.lean) needs `Disciplined progs`; `C20_table_disciplined` (Properties/C20Table.lean)
decides `tableDisciplined lockTable` on the table regenerated from the Go source. This file closes the gap: for ANY
table that passes `tableDisciplined` (and lists no lock twice in a row), every program whose threads execute any
sequences of the table's rows — each row being "take the row's locks, make the row's access, release them" — is
`Disciplined`, hence free of data races under every schedule. Instantiated with the generated table.
-/
namespace Wasp.Conc
open Wasp.Generated Wasp.Conc.AgentT2

theorem C20_table_lift (t : List Entry) (hd : tableDisciplined t = true) (hn : rowsNodup t = true)
    (threads : List (List Nat)) : Disciplined (threads.map (threadProg t)) :=
  table_lift t hd hn threads

theorem C20_generated_rows_nodup : rowsNodup lockTable = true := by decide +kernel

/-- the broker's shared structures, accessed as the source accesses them NOW, by any number of threads running any
    sequences of those accesses, under every schedule: no data race -/
theorem C20_generated_table_drf (threads : List (List Nat)) (sched : List Nat) :
    ¬ raceState (runSchedule { progs := threads.map (threadProg lockTable), held := [] } sched) :=
  C20_lockset_drf _ (C20_table_lift lockTable C20_table_disciplined C20_generated_rows_nodup threads) sched

/-- the hypothesis is needed: a table with an unprotected write is not lifted (two threads running row 0 race) -/
theorem C20_table_lift_needs_discipline :
    let t : List Entry := [("x", "m", true, [])]
    tableDisciplined t = false ∧ raceState (runSchedule { progs := [[0], [0]].map (threadProg t), held := [] } []) := by
  refine ⟨by decide, 0, 1, 0, true, true, by decide, ?_, ?_, Or.inl rfl⟩ <;>
    simp [runSchedule, nextAccess, threadProg, rowProg, nameIdx, locNames]

end Wasp.Conc

import Wasp.Properties.C02Pool
import Wasp.Properties.Reachable2
import Wasp.Properties.E2E
import Wasp.Properties.C03
import Wasp.Proofs.BrokerT12
/-!
# C02 / C03 / C06 end to end for a QoS 1 delivery on one node

A QoS 1 publish whose only local recipient has a QoS 1 subscription: on every reachable world (the pool not exhausted,
the log accepting) the recipient is written the message under the identifier the pool hands out — which by the pool /
in-flight invariant of reachable worlds is not in flight — and THEN the publisher is acknowledged; when the recipient
answers PUBACK with that identifier the exchange is gone from the in-flight table and the identifier is free again;
if it stays silent, the expiry sweep writes the message again under the same identifier.
-/
namespace Wasp.Broker
open Wasp.Dist Wasp.Topic Wasp.Crdt Wasp.Broker.AgentT12

/- `localRecipients w pt` (the recipients node 0 resolves for a stored publish) is defined in
   Wasp/Proofs/BrokerT12.lean, in namespace `Wasp.Broker`:
   `((subByPattern (w.node 0).dist pt).filter (fun u => u.peer == (w.node 0).peer)).map (fun u => (u.session, u.qos))` -/

/-- what every reachable one-node world provides for the four theorems: the state after the publish
    (`AgentT12.Delivered`), the packets written, the pool / in-flight invariant before and after, and that neither an
    in-flight entry nor a stored callback was filed under the key of the identifier the pool hands out -/
private theorem e2e_setup (w : World) (hr : Reachable w) (hlen : w.nodes.length = 1)
    (p r : Sess) (hp : (w.node 0).sess p.id = some p) (hrr : (w.node 0).sess r.id = some r)
    (topic payload : String) (dup : Bool) (mid : Int)
    (hrc : localRecipients w (prefixMountPoint p.mount topic) = [(r.id, 1)])
    (hsid : ∀ s, r.id ≠ s ++ "/in")
    (hpool : 0 < (IdPool.get (w.node 0).pool).2)
    (hlog : (w.node 0).logFailAll = false ∧ (w.node 0).logFailAt.contains (w.node 0).logCalls = false) :
    (w.process 0 p.id (.publish topic payload 1 false dup mid)).1.out =
      w.out ++ [(r.conn, Pkt.publish (trimMountPoint r.mount (prefixMountPoint p.mount topic)) payload 1 false dup (IdPool.get (w.node 0).pool).2),
                (p.conn, Pkt.puback mid)] ∧
    Delivered w (w.process 0 p.id (.publish topic payload 1 false dup mid)).1 r.id (IdPool.get (w.node 0).pool).2
      (.out1 r.id (trimMountPoint r.mount (prefixMountPoint p.mount topic)) payload false dup (IdPool.get (w.node 0).pool).2) ∧
    Ack.msgFind (Ack.hashKey r.id (IdPool.get (w.node 0).pool).2) (w.node 0).acks.msgs = none ∧
    storedFind (Ack.hashKey r.id (IdPool.get (w.node 0).pool).2) (w.node 0).stored = none ∧
    (IdPool.Inv (IdPool.get (w.node 0).pool).1 ∧
      (w.node 0).pool.min ≤ (IdPool.get (w.node 0).pool).2 ∧ (IdPool.get (w.node 0).pool).2 ≤ (w.node 0).pool.max ∧
      ¬ IdPool.freeIn (IdPool.get (w.node 0).pool).1.ivs (IdPool.get (w.node 0).pool).2) ∧
    WorldPoolInv (w.process 0 p.id (.publish topic payload 1 false dup mid)).1 := by
  have hinv2 := reachable_inv2 w hr
  have hinv : WorldPoolInv w := hinv2.base.pool
  have hpeer : ∀ kl ∈ (w.node 0).dist.subs, ∀ u ∈ kl.2, u.peer = (w.node 0).peer := by
    intro kl hkl u hukl
    have hb := hinv2.subPeers 0 kl hkl u hukl
    rw [hinv2.peers 0 (by omega)]
    omega
  have hfresh := C02_fresh_id_not_inflight_of_suffix w 0 r.id hinv hsid hpool
  have hne : (w.node 0).pool.ivs ≠ [] := by
    intro he
    rw [IdPool.get_empty _ he] at hpool
    simp at hpool
  obtain ⟨hI, hfree, hmin, hmax, hiff⟩ := IdPool.get_spec _ (hinv 0).pool hne
  obtain ⟨hout, hD⟩ := publish_delivered w hlen hpeer p r hp hrr topic payload dup mid hrc hpool hfresh hlog
  refine ⟨hout, hD, hfresh, stored_fresh (hinv 0) r.id hsid _ hfree, ⟨hI, hmin, hmax, ?_⟩, C02Pool_process w 0 p.id _ hinv⟩
  intro h
  exact ((hiff _).1 h).2 rfl

theorem C02_e2e_qos1_delivery (w : World) (hr : Reachable w) (hlen : w.nodes.length = 1)
    (p r : Sess) (hp : (w.node 0).sess p.id = some p) (hrr : (w.node 0).sess r.id = some r)
    (topic payload : String) (dup : Bool) (mid : Int)
    (hrc : localRecipients w (prefixMountPoint p.mount topic) = [(r.id, 1)])
    (hsid : ∀ s, r.id ≠ s ++ "/in")
    (hpool : 0 < (IdPool.get (w.node 0).pool).2)
    (hlog : (w.node 0).logFailAll = false ∧ (w.node 0).logFailAt.contains (w.node 0).logCalls = false) :
    (w.process 0 p.id (.publish topic payload 1 false dup mid)).1.out =
      w.out ++ [(r.conn, Pkt.publish (trimMountPoint r.mount (prefixMountPoint p.mount topic)) payload 1 false dup (IdPool.get (w.node 0).pool).2),
                (p.conn, Pkt.puback mid)] :=
  (e2e_setup w hr hlen p r hp hrr topic payload dup mid hrc hsid hpool hlog).1

/-- … the exchange is then in flight under that identifier, which is no longer free -/
theorem C02_e2e_qos1_in_flight (w : World) (hr : Reachable w) (hlen : w.nodes.length = 1)
    (p r : Sess) (hp : (w.node 0).sess p.id = some p) (hrr : (w.node 0).sess r.id = some r)
    (topic payload : String) (dup : Bool) (mid : Int)
    (hrc : localRecipients w (prefixMountPoint p.mount topic) = [(r.id, 1)])
    (hsid : ∀ s, r.id ≠ s ++ "/in")
    (hpool : 0 < (IdPool.get (w.node 0).pool).2)
    (hlog : (w.node 0).logFailAll = false ∧ (w.node 0).logFailAt.contains (w.node 0).logCalls = false) :
    let w' := (w.process 0 p.id (.publish topic payload 1 false dup mid)).1
    let id := (IdPool.get (w.node 0).pool).2
    (Ack.msgFind (Ack.hashKey r.id id) (w'.node 0).acks.msgs).isSome = true ∧ ¬ IdPool.freeIn (w'.node 0).pool.ivs id := by
  obtain ⟨_, hD, hfresh, _, ⟨_, _, _, hnf⟩, _⟩ := e2e_setup w hr hlen p r hp hrr topic payload dup mid hrc hsid hpool hlog
  intro w' id
  refine ⟨?_, ?_⟩
  · show (Ack.msgFind _ ((w.process 0 p.id (.publish topic payload 1 false dup mid)).1.node 0).acks.msgs).isSome = true
    rw [hD.acks, msgFind_snoc_self hfresh]
    rfl
  · show ¬ IdPool.freeIn ((w.process 0 p.id (.publish topic payload 1 false dup mid)).1.node 0).pool.ivs _
    rw [hD.pool]
    exact hnf

/-- … the recipient's PUBACK with that identifier completes it: nothing is in flight under it any more, the identifier
    is free again, nothing is written -/
theorem C02_e2e_qos1_acked (w : World) (hr : Reachable w) (hlen : w.nodes.length = 1)
    (p r : Sess) (hp : (w.node 0).sess p.id = some p) (hrr : (w.node 0).sess r.id = some r)
    (topic payload : String) (dup : Bool) (mid : Int)
    (hrc : localRecipients w (prefixMountPoint p.mount topic) = [(r.id, 1)])
    (hsid : ∀ s, r.id ≠ s ++ "/in")
    (hpool : 0 < (IdPool.get (w.node 0).pool).2)
    (hlog : (w.node 0).logFailAll = false ∧ (w.node 0).logFailAt.contains (w.node 0).logCalls = false) :
    let w' := (w.process 0 p.id (.publish topic payload 1 false dup mid)).1
    let id := (IdPool.get (w.node 0).pool).2
    let w'' := (w'.process 0 r.id (.puback id)).1
    Ack.msgFind (Ack.hashKey r.id id) (w''.node 0).acks.msgs = none ∧ IdPool.freeIn (w''.node 0).pool.ivs id ∧ w''.out = w'.out := by
  obtain ⟨_, hD, hfresh, hsf, ⟨hI, hmin, hmax, _⟩, _⟩ := e2e_setup w hr hlen p r hp hrr topic payload dup mid hrc hsid hpool hlog
  intro w' id w''
  obtain ⟨r', hr', _, _⟩ := (hD.cm).sess_some hrr
  obtain ⟨h1, h2, h3⟩ := puback_delivered w w' r.id _ payload false dup id hD hlen (by rw [hr']; rfl) hfresh hsf
  refine ⟨?_, ?_, h3⟩
  · show Ack.msgFind _ ((w'.process 0 r.id (.puback id)).1.node 0).acks.msgs = none
    rw [h1]; exact hfresh
  · show IdPool.freeIn ((w'.process 0 r.id (.puback id)).1.node 0).pool.ivs id
    rw [h2]
    have hmm := IdPool.get_min_max (w.node 0).pool
    exact ((IdPool.put_spec _ hI id).2 id).2 (Or.inr ⟨rfl, by rw [hmm.1]; exact hmin, by rw [hmm.2]; exact hmax⟩)

/-- … and if the recipient stays silent, the expiry sweep writes the same message again under the same identifier
    (publisher and recipient may be the same session: `hne` of the next theorem is not needed) -/
theorem C03_e2e_qos1_retransmitted' (w : World) (hr : Reachable w) (hlen : w.nodes.length = 1)
    (p r : Sess) (hp : (w.node 0).sess p.id = some p) (hrr : (w.node 0).sess r.id = some r)
    (topic payload : String) (dup : Bool) (mid : Int)
    (hrc : localRecipients w (prefixMountPoint p.mount topic) = [(r.id, 1)])
    (hsid : ∀ s, r.id ≠ s ++ "/in")
    (hpool : 0 < (IdPool.get (w.node 0).pool).2)
    (hlog : (w.node 0).logFailAll = false ∧ (w.node 0).logFailAt.contains (w.node 0).logCalls = false)
    (hidle : (w.node 0).acks.msgs = []) :
    let w' := (w.process 0 p.id (.publish topic payload 1 false dup mid)).1
    let id := (IdPool.get (w.node 0).pool).2
    (w'.sweep 0).out = w'.out ++ [(r.conn, Pkt.publish (trimMountPoint r.mount (prefixMountPoint p.mount topic)) payload 1 false dup id)] := by
  obtain ⟨_, hD, _, hsf, _, hinv'⟩ := e2e_setup w hr hlen p r hp hrr topic payload dup mid hrc hsid hpool hlog
  intro w' id
  obtain ⟨r', hr', hc, _⟩ := (hD.cm).sess_some hrr
  rw [← hc]
  exact sweep_delivered w w' r.id _ payload false dup id hD hlen (hinv' 0).qinv r' hr' (by omega) hidle hsf

theorem C03_e2e_qos1_retransmitted (w : World) (hr : Reachable w) (hlen : w.nodes.length = 1)
    (p r : Sess) (hp : (w.node 0).sess p.id = some p) (hrr : (w.node 0).sess r.id = some r) (hne : p.id ≠ r.id)
    (topic payload : String) (dup : Bool) (mid : Int)
    (hrc : localRecipients w (prefixMountPoint p.mount topic) = [(r.id, 1)])
    (hsid : ∀ s, r.id ≠ s ++ "/in")
    (hpool : 0 < (IdPool.get (w.node 0).pool).2)
    (hlog : (w.node 0).logFailAll = false ∧ (w.node 0).logFailAt.contains (w.node 0).logCalls = false)
    (hidle : (w.node 0).acks.msgs = []) :
    let w' := (w.process 0 p.id (.publish topic payload 1 false dup mid)).1
    let id := (IdPool.get (w.node 0).pool).2
    (w'.sweep 0).out = w'.out ++ [(r.conn, Pkt.publish (trimMountPoint r.mount (prefixMountPoint p.mount topic)) payload 1 false dup id)] :=
  have _ := hne
  C03_e2e_qos1_retransmitted' w hr hlen p r hp hrr topic payload dup mid hrc hsid hpool hlog hidle

/-! ### the hypotheses can be met, and `hidle` cannot simply be dropped -/

/-- "a" and "b" connect to a one-node cluster, "b" subscribes to "t" with QoS 1 -/
def C02E2E_ops : List BOp :=
  [.connect "a" 0 "ca" "m" true 30 none, .connect "b" 0 "cb" "m" true 30 none, .packet "b" (.subscribe 1 [("t", 1)])]

def C02E2E_world : World := run (World.init 1) C02E2E_ops

theorem C02E2E_world_reachable : Reachable C02E2E_world := ⟨1, C02E2E_ops, rfl⟩

/-- every hypothesis of the four theorems holds in `C02E2E_world` for publisher "Sa", recipient "Sb", topic "t" -/
example :
    C02E2E_world.nodes.length = 1 ∧
    ((C02E2E_world.node 0).sess "Sa").map (fun s => (s.id, s.mount)) = some ("Sa", "m") ∧
    ((C02E2E_world.node 0).sess "Sb").map (fun s => s.id) = some "Sb" ∧
    localRecipients C02E2E_world (prefixMountPoint "m" "t") = [("Sb", 1)] ∧
    (IdPool.get (C02E2E_world.node 0).pool).2 = 1 ∧
    (C02E2E_world.node 0).logFailAll = false ∧ (C02E2E_world.node 0).logFailAt = [] ∧
    (C02E2E_world.node 0).acks.msgs = [] := by decide

/-- without `hidle` the conclusion of `C03_e2e_qos1_retransmitted` fails on a reachable world: while the delivery
    "one" (identifier 1) is still in flight, "two" is published (identifier 2); the sweep repeats BOTH -/
example :
    let w := applyOp C02E2E_world (.packet "a" (.publish "t" "one" 1 false false 7))
    let w' := (w.process 0 "Sa" (.publish "t" "two" 1 false false 8)).1
    (w.node 0).acks.msgs.map (·.1) = ["Sb/1"] ∧ (IdPool.get (w.node 0).pool).2 = 2 ∧
    (w'.sweep 0).out = w'.out ++ [("b", Pkt.publish "t" "one" 1 false false 1), ("b", Pkt.publish "t" "two" 1 false false 2)] := by
  decide

/-- `hidle` is sufficient, not necessary: an inbound QoS 2 handshake in flight is expired by the sweep as well, but its
    callback writes nothing -/
example :
    let w := applyOp C02E2E_world (.packet "a" (.publish "zz" "q2" 2 false false 5))
    let w' := (w.process 0 "Sa" (.publish "t" "two" 1 false false 8)).1
    (w.node 0).acks.msgs.map (·.1) = ["Sa/in/5"] ∧
    (w'.sweep 0).out = w'.out ++ [("b", Pkt.publish "t" "two" 1 false false 1)] := by
  decide

end Wasp.Broker

import Wasp.Model.Broker
/-! # C03 (broker level) — theorem statements are being added; see DESIGN.md §4 -/

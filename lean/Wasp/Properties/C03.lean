import Wasp.Model.Broker
import Wasp.Properties.C04
import Wasp.Properties.C06
import Wasp.Proofs.BrokerC
/-!
# C03 — unacknowledged QoS 1/2 deliveries are retransmitted until completed

The in-flight table (C04: every entry resolves exactly once, `expired` at the first sweep after its
deadline) drives the writer's callbacks; these theorems say what each resolution does.

* `C03_qos1_expired_live`: the entry of a QoS 1 delivery expires while the session is registered ⇒ the SAME
  PUBLISH (same identifier, topic, payload) is written again and the entry is armed again — so k silent
  deadlines give k retransmissions (induction with C04);
* `C03_qos1_acked`, `C03_gone`: PUBACK — or expiry after the session ended — releases the identifier
  to the pool and writes nothing;
* `C03_qos2_pubrec`: PUBREC for a QoS 2 delivery ⇒ PUBREL with the same identifier is written and its own
  entry armed; `C03_qos2_publish_expired`: before PUBREC the PUBLISH is repeated;
  `C03_rel_expired_live`: after it, PUBREL is repeated; `C03_rel_acked`: PUBCOMP releases the identifier;
* `C03_wrong_ack_untouched`: an acknowledgement of the wrong type or for an unknown identifier leaves
  the world unchanged (from C04's `ack_noop`);
* `C03_sweep_is_fold`: a sweep is exactly the fold of these reactions over the entries C04 says expire.
-/
namespace Wasp.Broker
open Wasp.Dist Wasp.Topic Wasp.Broker.AgentC

/-- the entry for (sid, mid) is armed and remembers `st` -/
def armed (w : World) (i : Nat) (sid : String) (mid : Int) (st : Stored) : Prop :=
  (Ack.msgFind (Ack.hashKey sid mid) (w.node i).acks.msgs).isSome ∧
  ∃ st', storedFind (Ack.hashKey sid mid) (w.node i).stored = some st' ∧
    match st, st' with
    | .out1 a b c d e f, .out1 a' b' c' d' e' f' => a = a' ∧ b = b' ∧ c = c' ∧ d = d' ∧ e = e' ∧ f = f'
    | .out2 a b c d e f, .out2 a' b' c' d' e' f' => a = a' ∧ b = b' ∧ c = c' ∧ d = d' ∧ e = e' ∧ f = f'
    | .rel a b, .rel a' b' => a = a' ∧ b = b'
    | _, _ => False

private theorem armed_of_Armed {w w' : World} {i : Nat} {sid : String} {mid : Int} {st : Stored} {conn : String} {pkt : Pkt}
    (h : Armed w w' i sid mid st conn pkt)
    (hst : (∃ a b c d, st = .out1 sid a b c d mid) ∨ (∃ a b c d, st = .out2 sid a b c d mid) ∨ st = .rel sid mid)
    (hsf : storedFind (Ack.hashKey sid mid) (w.node i).stored = none) :
    armed w' i sid mid st := by
  obtain ⟨m, hm⟩ := h.msgs
  refine ⟨?_, st, ?_, ?_⟩
  · rw [hm, Ack.msgFind_append]
    cases Ack.msgFind (Ack.hashKey sid mid) (w.node i).acks.msgs <;> simp [Ack.msgFind]
  · rw [h.stored, storedFind_append, hsf]; simp [storedFind]
  · rcases hst with ⟨a, b, c, d, rfl⟩ | ⟨a, b, c, d, rfl⟩ | rfl <;> simp

theorem C03_qos1_expired_live (w : World) (i : Nat) (hi : i < w.nodes.length) (sid topic payload : String) (retain dup : Bool) (mid : Int)
    (s : Sess) (hs : (w.node i).sess sid = some s) (hid : s.id = sid) (hmid : mid ≠ 0)
    (hfree : Ack.msgFind (Ack.hashKey sid mid) (w.node i).acks.msgs = none)
    (hsf : storedFind (Ack.hashKey sid mid) (w.node i).stored = none)
    (ev : Ack.Resolved) (hev : ev.expired = true) :
    let w' := w.onResolved i ev (.out1 sid topic payload retain dup mid)
    w'.out = w.out ++ [(s.conn, .publish topic payload 1 retain dup mid)] ∧
    armed w' i sid mid (.out1 sid topic payload retain dup mid) ∧
    (w'.node i).pool = (w.node i).pool := by
  have hsome : ((w.node i).sess sid).isSome = true := by rw [hs]; rfl
  have hA := armAndSend_out1 w i hi sid topic payload retain dup mid s hs hmid hfree
  have hr : w.onResolved i ev (.out1 sid topic payload retain dup mid) = w.armAndSend i (.out1 sid topic payload retain dup mid) := by
    simp [World.onResolved, hev, hs]
  simp only [hr]
  exact ⟨hA.out, armed_of_Armed hA (by simp) hsf, hA.pool⟩

theorem C03_qos1_acked (w : World) (i : Nat) (sid topic payload : String) (retain dup : Bool) (mid : Int)
    (ev : Ack.Resolved) (hev : ev.expired = false) :
    w.onResolved i ev (.out1 sid topic payload retain dup mid) = w.poolPut i mid := by
  simp [World.onResolved, hev]

/-- the session is gone: whatever resolves, the identifier is released and nothing is written -/
theorem C03_gone (w : World) (i : Nat) (ev : Ack.Resolved) (st : Stored) (sid : String) (mid : Int)
    (hst : (∃ a b c d, st = .out1 sid a b c d mid) ∨ (∃ a b c d, st = .out2 sid a b c d mid) ∨ st = .rel sid mid)
    (hs : (w.node i).sess sid = none) :
    w.onResolved i ev st = w.poolPut i mid := by
  rcases hst with ⟨a, b, c, d, rfl⟩ | ⟨a, b, c, d, rfl⟩ | rfl <;> simp [World.onResolved, hs]

theorem C03_qos2_pubrec (w : World) (i : Nat) (hi : i < w.nodes.length) (sid topic payload : String) (retain dup : Bool) (mid : Int)
    (s : Sess) (hs : (w.node i).sess sid = some s) (hid : s.id = sid) (hmid : mid ≠ 0)
    (hfree : Ack.msgFind (Ack.hashKey sid mid) (w.node i).acks.msgs = none)
    (hsf : storedFind (Ack.hashKey sid mid) (w.node i).stored = none)
    (ev : Ack.Resolved) (hev : ev.expired = false) :
    let w' := w.onResolved i ev (.out2 sid topic payload retain dup mid)
    w'.out = w.out ++ [(s.conn, .pubrel mid)] ∧ armed w' i sid mid (.rel sid mid) ∧ (w'.node i).pool = (w.node i).pool := by
  have hsome : ((w.node i).sess sid).isSome = true := by rw [hs]; rfl
  have hA := armAndSend_rel w i hi sid mid s hs hmid hfree
  have hr : w.onResolved i ev (.out2 sid topic payload retain dup mid) = w.armAndSend i (.rel sid mid) := by
    simp [World.onResolved, hev, hs]
  simp only [hr]
  exact ⟨hA.out, armed_of_Armed hA (by simp) hsf, hA.pool⟩

theorem C03_qos2_publish_expired (w : World) (i : Nat) (hi : i < w.nodes.length) (sid topic payload : String) (retain dup : Bool) (mid : Int)
    (s : Sess) (hs : (w.node i).sess sid = some s) (hid : s.id = sid) (hmid : mid ≠ 0)
    (hfree : Ack.msgFind (Ack.hashKey sid mid) (w.node i).acks.msgs = none)
    (hsf : storedFind (Ack.hashKey sid mid) (w.node i).stored = none)
    (ev : Ack.Resolved) (hev : ev.expired = true) :
    let w' := w.onResolved i ev (.out2 sid topic payload retain dup mid)
    w'.out = w.out ++ [(s.conn, .publish topic payload 2 retain dup mid)] ∧
    armed w' i sid mid (.out2 sid topic payload retain dup mid) ∧ (w'.node i).pool = (w.node i).pool := by
  have hsome : ((w.node i).sess sid).isSome = true := by rw [hs]; rfl
  have hA := armAndSend_out2 w i hi sid topic payload retain dup mid s hs hmid hfree
  have hr : w.onResolved i ev (.out2 sid topic payload retain dup mid) = w.armAndSend i (.out2 sid topic payload retain dup mid) := by
    simp [World.onResolved, hev, hs]
  simp only [hr]
  exact ⟨hA.out, armed_of_Armed hA (by simp) hsf, hA.pool⟩

theorem C03_rel_expired_live (w : World) (i : Nat) (hi : i < w.nodes.length) (sid : String) (mid : Int)
    (s : Sess) (hs : (w.node i).sess sid = some s) (hid : s.id = sid) (hmid : mid ≠ 0)
    (hfree : Ack.msgFind (Ack.hashKey sid mid) (w.node i).acks.msgs = none)
    (hsf : storedFind (Ack.hashKey sid mid) (w.node i).stored = none)
    (ev : Ack.Resolved) (hev : ev.expired = true) :
    let w' := w.onResolved i ev (.rel sid mid)
    w'.out = w.out ++ [(s.conn, .pubrel mid)] ∧ armed w' i sid mid (.rel sid mid) ∧ (w'.node i).pool = (w.node i).pool := by
  have hsome : ((w.node i).sess sid).isSome = true := by rw [hs]; rfl
  have hA := armAndSend_rel w i hi sid mid s hs hmid hfree
  have hr : w.onResolved i ev (.rel sid mid) = w.armAndSend i (.rel sid mid) := by
    simp [World.onResolved, hev, hs]
  simp only [hr]
  exact ⟨hA.out, armed_of_Armed hA (by simp) hsf, hA.pool⟩

theorem C03_rel_acked (w : World) (i : Nat) (sid : String) (mid : Int) (ev : Ack.Resolved) (hev : ev.expired = false) :
    w.onResolved i ev (.rel sid mid) = w.poolPut i mid := by
  simp [World.onResolved, hev]

/-- wrong packet type, unknown identifier: the world is untouched -/
theorem C03_wrong_ack_untouched (w : World) (i : Nat) (hi : i < w.nodes.length) (pfx : String) (kind : Ack.PType) (mid : Int)
    (h : (Ack.ack (w.node i).acks pfx kind true mid).2.1 ≠ .ok) :
    w.ackFrom i pfx kind mid = w := by
  have h0 := Ack.C04_ack_noop (w.node i).acks pfx kind true mid h
  simp only [World.ackFrom, h0.1, h0.2, List.foldl_nil]
  exact setNode_node_self w i hi

/-- after the completing acknowledgement the identifier is free again in the pool -/
theorem C03_released_is_free (w : World) (i : Nat) (hi : i < w.nodes.length) (mid : Int)
    (hinv : IdPool.Inv (w.node i).pool) (hr : (w.node i).pool.min ≤ mid ∧ mid ≤ (w.node i).pool.max) :
    ((w.poolPut i mid).node i).pool.free mid := by
  simp only [World.poolPut, node_setNode_self _ _ _ hi]
  exact ((IdPool.put_spec _ hinv mid).2 mid).2 (Or.inr ⟨rfl, hr.1, hr.2⟩)

end Wasp.Broker

import Wasp.Properties.C13
import Wasp.Properties.Reachable
import Wasp.Proofs.BrokerT10
import Wasp.Proofs.BrokerT19
/-!
# C11 — the record of a session that ends goes away, whatever other records carry its client identifier

Two live records can carry one client identifier on a node (a CONNECT accepted on another node before the gossip of the
earlier session arrived). `shutdownSession` used to decide by a look-up BY CLIENT IDENTIFIER whether to remove the
ending session's record: the look-up may return either record (Go map order), and when it returned the other one the
ending session's own record stayed listed for ever. The repaired code (and this model) removes the session's own record
whenever it is still there; the look-up only decides about the will.
-/
namespace Wasp.Broker
open Wasp.Dist Wasp.Broker.AgentA Wasp.Broker.AgentT19

/-- after the teardown no live record with the session's id is left on its node — under three facts: record ids are unique
    in the store; a live record under the session's id describes that session (same mount point and client identifier);
    and the stamp of that record is not ahead of the crdt clock (without it the statement is false:
    `C11_teardown_removes_record_counterexample` — the tombstone is stamped with the clock) -/
theorem C11_teardown_removes_record_of_clock (w : World) (i : Nat) (hi : i < w.nodes.length) (s : Sess)
    (hu : ((w.node i).dist.sessions.map (·.id)).Nodup)
    (hrec : ∀ md ∈ sessAll (w.node i).dist, md.id = s.id → md.mount = s.mount ∧ md.client = s.client)
    (hclk : ∀ md ∈ sessAll (w.node i).dist, md.id = s.id → md.added ≤ w.clock) :
    ∀ md ∈ sessAll ((teardown w i s).1.node i).dist, md.id ≠ s.id :=
  teardown_removes_record_of_clock w i hi s hu hrec hclk

/-- counterexample to the statement without `hclk`: clock 1000, the record was added at 2000 -/
theorem C11_teardown_removes_record_counterexample :
    let w : World := { nodes := [{ peer := 1, dist := { peer := 1, sessions := [⟨"S", "c", "m", 1, 0, none, 2000, 0⟩] },
                                   pool := initPool }] }
    let s : Sess := { id := "S", conn := "a", client := "c", mount := "m", keepalive := 60, will := none }
    0 < w.nodes.length ∧ ((w.node 0).dist.sessions.map (·.id)).Nodup ∧
    (∀ md ∈ sessAll (w.node 0).dist, md.id = s.id → md.mount = s.mount ∧ md.client = s.client) ∧
    ¬ (∀ md ∈ sessAll ((teardown w 0 s).1.node 0).dist, md.id ≠ s.id) := by decide

/-- … and the will is withheld exactly when another live record carries the client identifier -/
theorem C11_teardown_will_withheld_iff (w : World) (i : Nat) (hi : i < w.nodes.length) (s : Sess) :
    (teardown w i s).2 = true ↔
      ∃ md ∈ sessByClientID (w.node i).dist s.mount s.client, md.id ≠ s.id :=
  teardown_will_withheld_iff w i hi s

/-- non-vacuity, and the history that used to leave a ghost: two sessions with one client identifier on two nodes, each
    accepted before the other's gossip arrived; after the gossip the first one's connection is lost — its record is
    gone from its node, the other's stays -/
example :
    let w := run (World.init 2) [.connect "a" 0 "idX" "m" true 60 none, .connect "b" 1 "idX" "m" true 60 none, .gossipAll,
                                 .drop "a", .gossipAll]
    ((sessAll (w.node 0).dist).map (·.id) = ["Sb"]) ∧ ((sessAll (w.node 1).dist).map (·.id) = ["Sb"]) := by decide

end Wasp.Broker

import Wasp.Model.Broker
/-! # C12 (broker level) — theorem statements are being added; see DESIGN.md §4 -/

import Wasp.Model.Broker
import Wasp.Properties.C13
import Wasp.Properties.C11
import Wasp.Proofs.BrokerD
/-!
# C12 — one live session per client identifier

* `C12_established`: a CONNECT that authenticates is always accepted — whether or not the client id is in
  use — provided its (fresh) session id has no live record: the session is registered and CONNACK 0 written;
* `C12_old_record_deleted`: the record the client id resolved to before is stamped deleted by the accepting
  node (and the deletion queued for broadcast);
* `C12_resolves_to_new`: afterwards the accepting node resolves the client id to the new session only,
  when it resolved to at most one session before;
* `C12_ping_displaced`: a PINGREQ of a session whose client id resolves to another session (or to none)
  ends that session silently — no PINGRESP, and (C13) no will;
* `C12_teardown_safe`: tearing down a session never changes the record or the subscriptions of any other
  session, on any node (it only writes entries keyed by its own session id).
-/
namespace Wasp.Broker
open Wasp.Dist Wasp.Topic Wasp.Broker.AgentD

theorem C12_established (w : World) (c : String) (i : Nat) (hi : i < w.nodes.length) (client mount : String)
    (ka : Nat) (will : Option Will)
    (hfresh : ∀ s, sessLookup ("S" ++ c) (w.node i).dist.sessions = some s → Wasp.Crdt.isAdded s.stamp = false)
    (hother : ∀ md ∈ sessByClientID (w.node i).dist mount client, md.id ≠ "S" ++ c) :
    let w' := w.connect c i client mount true ka will
    ((w'.node i).sess ("S" ++ c)).isSome ∧ (c, Pkt.connack 0) ∈ w'.out := by
  exact connect_established w c i hi client mount ka will hfresh hother

/-- tearing down session `sid` writes only entries keyed by `sid` into the replicated state -/
theorem C12_teardown_safe_sessions (w : World) (i : Nat) (s : Sess) (j : Nat) (sid' : String) (hne : sid' ≠ s.id) :
    sessLookup sid' ((teardown w i s).1.node j).dist.sessions = sessLookup sid' (w.node j).dist.sessions := by
  exact (ds_teardown w i s j).1 sid' hne

theorem C12_teardown_safe_subs (w : World) (i : Nat) (s : Sess) (j : Nat) (pat sid' : String) (hne : sid' ≠ s.id) :
    (subsLookup pat ((teardown w i s).1.node j).dist.subs).filter (fun u => u.session == sid') =
    (subsLookup pat (w.node j).dist.subs).filter (fun u => u.session == sid') := by
  exact (ds_teardown w i s j).2 pat sid' hne

/-- a PINGREQ of a session whose client id resolves elsewhere (or nowhere) ends it silently -/
theorem C12_ping_displaced (w : World) (i : Nat) (sid : String) (s : Sess) (hs : (w.node i).sess sid = some s)
    (hd : ∀ md, (sessByClientID (w.node i).dist s.mount s.client).head? = some md → md.id ≠ sid) :
    w.process i sid .pingreq = (w, .disconnected) := by
  unfold World.process
  simp only [hs]
  split
  · rename_i md heq
    have := hd md (by rw [heq]; rfl)
    simp [this]
  · rfl
  · rename_i md _ _ heq
    have := hd md (by rw [heq]; rfl)
    simp [this]

/-- … and a PINGREQ of the session the client id resolves to is answered -/
theorem C12_ping_current (w : World) (i : Nat) (sid : String) (s : Sess) (hs : (w.node i).sess sid = some s)
    (md : SessionMD) (hd : (sessByClientID (w.node i).dist s.mount s.client).head? = some md) (hid : md.id = sid) :
    w.process i sid .pingreq = (w.emit s.conn .pingresp, .ok) := by
  unfold World.process
  simp only [hs]
  split
  · rename_i md' heq
    rw [heq] at hd
    simp only [List.head?_cons, Option.some.injEq] at hd
    subst hd
    simp [hid]
  · rename_i heq
    rw [heq] at hd
    simp at hd
  · rename_i md' _ _ heq
    rw [heq] at hd
    simp only [List.head?_cons, Option.some.injEq] at hd
    subst hd
    simp [hid]

end Wasp.Broker

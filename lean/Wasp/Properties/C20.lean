import Wasp.Model.Conc
import Wasp.Proofs.Conc
/-!
# C20 — shared broker state is safe under concurrent use

* `C20_lockset_drf`: in the interleaving semantics of threads over readers-writer locks, a program that
  follows the lock discipline (every two conflicting accesses of different threads are made under a common
  lock, exclusively held by at least one) never reaches a state in which two threads are about to perform
  conflicting accesses — for EVERY schedule. The discipline table of the broker's shared structures
  (session registry, id pool, timeout list + buckets, both tries, the three replicated stores, the
  per-session filter list) is regenerated from the Go source on every run and checked by `decide`
  (`Wasp.Generated.LockTable`, `C20_table_disciplined` in Properties/C20Table.lean).
* every public operation of those structures that is ONE critical section under ONE mutex is a single
  atomic step: any concurrent execution equals some sequential history, so C06 / C08 / C19 transfer
  (distinct-key effects all present, identifiers distinct);
* `C20_resolve_once`, `C20_resolution_claimed`: for the multi-step operations of the in-flight table, in
  EVERY interleaving of any number of Insert / Ack / Expire threads, the number of callback invocations of
  a key never exceeds the number of accepted registrations of it — each accepted entry resolves at most
  once — and `resolved + claimed + present = accepted` per key (nothing is lost either).
What this cannot exhibit: the Go memory model itself (sequentially consistent interleavings are assumed,
the standard DRF argument), the internals of the lock-free hash (assumed linearisable), goroutine
scheduling fairness. Claimed partial; `go test -race`-style stress runs support it.
-/
namespace Wasp.Conc
open Wasp.Conc.Proofs

/-- C20 (locks): a disciplined program is data-race free under every schedule -/
theorem C20_lockset_drf (progs : List (List Act)) (hd : Disciplined progs) (sched : List Nat) :
    ¬ raceState (runSchedule { progs := progs, held := [] } sched) :=
  linv_no_race progs hd _ (linv_run progs sched _ (linv_init progs))

/-- C20 (resolution): accounting invariant per key, for every interleaving from a state in which no thread is
    in the middle of an operation -/
theorem C20_resolution_accounting (pcs : List Pc)
    (hstart : ∀ pc ∈ pcs, (∃ k, pc = .insertStart k) ∨ (∃ k b, pc = .ackStart k b) ∨ pc = .sweepPop ∨ pc = .done)
    (sched : List Nat) (k : Key) :
    let s := qrun { pcs := pcs } sched
    s.resolved.count k + (claimed s).count k + s.present.count k = s.accepted.count k := by
  exact (qrun_inv sched _ (qinv_start pcs hstart)).1 k

/-- each accepted registration is resolved at most once -/
theorem C20_resolve_once (pcs : List Pc)
    (hstart : ∀ pc ∈ pcs, (∃ k, pc = .insertStart k) ∨ (∃ k b, pc = .ackStart k b) ∨ pc = .sweepPop ∨ pc = .done)
    (sched : List Nat) (k : Key) :
    (qrun { pcs := pcs } sched).resolved.count k ≤ (qrun { pcs := pcs } sched).accepted.count k := by
  have := (qrun_inv sched _ (qinv_start pcs hstart)).1 k
  omega

/-- a key is in the table at most once (put-if-missing) -/
theorem C20_present_nodup (pcs : List Pc)
    (hstart : ∀ pc ∈ pcs, (∃ k, pc = .insertStart k) ∨ (∃ k b, pc = .ackStart k b) ∨ pc = .sweepPop ∨ pc = .done)
    (sched : List Nat) : (qrun { pcs := pcs } sched).present.Nodup :=
  (qrun_inv sched _ (qinv_start pcs hstart)).2

/-- non-vacuity: an Ack and a sweep race for the same entry; whichever deletes first fires, the other does not -/
example : (qrun { pcs := [.insertStart 7, .ackStart 7 true, .sweepPop] } [0, 0, 1, 2, 2, 1, 2, 1, 1, 2]).resolved = [7] ∧
          (qrun { pcs := [.insertStart 7, .ackStart 7 true, .sweepPop] } [0, 0, 1, 2, 1, 1, 2, 2, 1, 2]).resolved = [7] := by decide

end Wasp.Conc

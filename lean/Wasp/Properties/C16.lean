import Wasp.Model.Auth
import Wasp.Proofs.Auth
/-!
# C16 — clients are admitted iff their credentials match the configured store

For EVERY credential file (any number of 2- and 3-field lines in any order, duplicates
included) and every candidate (user, password): the file store accepts exactly when some
configured line has that user name and that password fingerprint, and then places the
session in a matching line's mount point (the default one for 2-field lines and empty third
fields). The static store accepts exactly the configured pair, in the default mount point.
`H` (SHA-256 fingerprint) is only assumed injective.
-/
namespace Wasp.Auth

/-- the credential lines a candidate matches -/
def credMatch (H : String → String) (lines : List (List String)) (user pass mount : String) : Prop :=
  ∃ l ∈ lines, ∃ r, recordOf H l = some r ∧ r.userHash = H user ∧ r.passHash = H pass ∧ r.mount = mount

/-- sort.Search on a monotone predicate returns the first index where it holds -/
theorem goSearch_spec (n : Nat) (f : Nat → Bool) (mono : ∀ i j, i ≤ j → j < n → f i = true → f j = true) :
    goSearch n f ≤ n ∧ (∀ i, i < goSearch n f → f i = false) ∧ (∀ i, goSearch n f ≤ i → i < n → f i = true) := by
  exact goSearchLoop_spec n f mono (n + 1) 0 n (Nat.zero_le _) (Nat.le_refl _)
    (by intro k hk; omega) (by intro k hk hk'; omega) (by omega)

theorem sortByUser_perm (l : List Record) : (sortByUser l).Perm l := by
  exact sortByUser_perm' l

theorem sortByUser_sorted (l : List Record) :
    (sortByUser l).Pairwise (fun a b => a.userHash ≤ b.userHash) := by
  exact sortByUser_sorted' l

/-- accepted ⇒ a configured line credMatch, with that mount point -/
theorem C16_file_sound (H : String → String) (lines : List (List String)) (user pass mount : String)
    (h : authenticate H (load H lines) user pass = some mount) : credMatch H lines user pass mount := by
  rw [authenticate_eq_find H _ (load_sorted H lines)] at h
  obtain ⟨r, hfind, hm⟩ := Option.map_eq_some_iff.mp h
  have hmem := List.mem_of_find?_eq_some hfind
  have hhit := (hit_iff _ _ _).mp (List.find?_some hfind)
  obtain ⟨l, hl, hrec⟩ := (mem_load H lines r).mp hmem
  exact ⟨l, hl, r, hrec, hhit.1, hhit.2, hm⟩

/-- a configured line credMatch ⇒ accepted (whichever entry it is, however many there are) -/
theorem C16_file_complete (H : String → String) (lines : List (List String)) (user pass mount : String)
    (h : credMatch H lines user pass mount) : ∃ m, authenticate H (load H lines) user pass = some m := by
  obtain ⟨l, hl, r, hrec, hu, hp, _⟩ := h
  rw [authenticate_eq_find H _ (load_sorted H lines)]
  have hmem : r ∈ load H lines := (mem_load H lines r).mpr ⟨l, hl, hrec⟩
  cases hfind : (load H lines).find? (hit (H user) (H pass)) with
  | some r' => exact ⟨r'.mount, rfl⟩
  | none =>
    have := List.find?_eq_none.mp hfind r hmem
    exact absurd ((hit_iff _ _ _).mpr ⟨hu, hp⟩) this

set_option linter.unusedVariables false in -- `hinj` is not needed, kept for the statement
/-- with one line per user name the mount point is that line's -/
theorem C16_file_mount (H : String → String) (hinj : ∀ a b, H a = H b → a = b) (lines : List (List String))
    (uniq : ∀ l₁ ∈ lines, ∀ l₂ ∈ lines, ∀ r₁ r₂, recordOf H l₁ = some r₁ → recordOf H l₂ = some r₂ →
              r₁.userHash = r₂.userHash → r₁ = r₂)
    (user pass mount : String) (h : credMatch H lines user pass mount) :
    authenticate H (load H lines) user pass = some mount := by
  obtain ⟨l, hl, r, hrec, hu, hp, hm⟩ := h
  rw [authenticate_eq_find H _ (load_sorted H lines)]
  have hmem : r ∈ load H lines := (mem_load H lines r).mpr ⟨l, hl, hrec⟩
  cases hfind : (load H lines).find? (hit (H user) (H pass)) with
  | some r' =>
    have hmem' := List.mem_of_find?_eq_some hfind
    have hhit := (hit_iff _ _ _).mp (List.find?_some hfind)
    obtain ⟨l', hl', hrec'⟩ := (mem_load H lines r').mp hmem'
    have : r' = r := uniq l' hl' l hl r' r hrec' hrec (hhit.1.trans hu.symm)
    subst this
    simp [hm]
  | none =>
    have := List.find?_eq_none.mp hfind r hmem
    exact absurd ((hit_iff _ _ _).mpr ⟨hu, hp⟩) this

/-- the iff of the property statement -/
theorem C16_file_iff (H : String → String) (lines : List (List String)) (user pass : String) :
    (∃ m, authenticate H (load H lines) user pass = some m) ↔ (∃ m, credMatch H lines user pass m) := by
  constructor
  · rintro ⟨m, h⟩; exact ⟨m, C16_file_sound H lines user pass m h⟩
  · rintro ⟨m, h⟩; exact C16_file_complete H lines user pass m h

/-- a 2-field line, and a 3-field line with an empty third field, land in the default mount point;
    a 3-field line in its third field; the loader is total (no line shape can make it fail) -/
theorem C16_loader_mount (H : String → String) (u p m : String) :
    recordOf H [u, p] = some ⟨H u, p, defaultMountPoint⟩ ∧
    recordOf H [u, p, ""] = some ⟨H u, p, defaultMountPoint⟩ ∧
    (m ≠ "" → recordOf H [u, p, m] = some ⟨H u, p, m⟩) := by
  refine ⟨rfl, ?_, ?_⟩
  · simp [recordOf]
  · intro hm; simp [recordOf, hm]

theorem C16_static_iff (H : String → String) (hinj : ∀ a b, H a = H b → a = b) (cu cp user pass : String) :
    staticAuthenticate H cu cp user pass = some defaultMountPoint ↔ (user = cu ∧ pass = cp) := by
  unfold staticAuthenticate
  constructor
  · intro h
    split at h
    · cases h
    · next hn =>
      have h1 : H user = H cu := Decidable.byContradiction fun hc => hn (Or.inl hc)
      have h2 : H pass = H cp := Decidable.byContradiction fun hc => hn (Or.inr hc)
      exact ⟨hinj _ _ h1, hinj _ _ h2⟩
  · rintro ⟨rfl, rfl⟩
    simp

theorem C16_static_reject (H : String → String) (cu cp user pass : String) :
    staticAuthenticate H cu cp user pass = none ∨ staticAuthenticate H cu cp user pass = some defaultMountPoint := by
  unfold staticAuthenticate
  split
  · exact Or.inl rfl
  · exact Or.inr rfl

/-- non-vacuity: six users in "bad" order, the middle ones are found too -/
example : (["u1", "u2", "u3", "u4", "u5", "u6"].map fun u =>
    authenticate id (load id [["u4", "p4"], ["u1", "p1", "m1"], ["u6", "p6"], ["u2", "p2", ""], ["u5", "p5", "m5"], ["u3", "p3"]]) u ("p" ++ u.drop 1)) =
    [some "m1", some "_default", some "_default", some "_default", some "m5", some "_default"] := by decide

end Wasp.Auth

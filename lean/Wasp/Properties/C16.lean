import Wasp.Model.Auth
/-!
# C16 — clients are admitted iff their credentials match the configured store

For EVERY credential file (any number of 2- and 3-field lines in any order, duplicates
included) and every candidate (user, password): the file store accepts exactly when some
configured line has that user name and that password fingerprint, and then places the
session in a matching line's mount point (the default one for 2-field lines and empty third
fields). The static store accepts exactly the configured pair, in the default mount point.
`H` (SHA-256 fingerprint) is only assumed injective.
-/
namespace Wasp.Auth

/-- the credential lines a candidate matches -/
def credMatch (H : String → String) (lines : List (List String)) (user pass mount : String) : Prop :=
  ∃ l ∈ lines, ∃ r, recordOf H l = some r ∧ r.userHash = H user ∧ r.passHash = H pass ∧ r.mount = mount

/-- sort.Search on a monotone predicate returns the first index where it holds -/
theorem goSearch_spec (n : Nat) (f : Nat → Bool) (mono : ∀ i j, i ≤ j → j < n → f i = true → f j = true) :
    goSearch n f ≤ n ∧ (∀ i, i < goSearch n f → f i = false) ∧ (∀ i, goSearch n f ≤ i → i < n → f i = true) := by
  sorry

theorem sortByUser_perm (l : List Record) : (sortByUser l).Perm l := by
  sorry

theorem sortByUser_sorted (l : List Record) :
    (sortByUser l).Pairwise (fun a b => a.userHash ≤ b.userHash) := by
  sorry

/-- accepted ⇒ a configured line credMatch, with that mount point -/
theorem C16_file_sound (H : String → String) (lines : List (List String)) (user pass mount : String)
    (h : authenticate H (load H lines) user pass = some mount) : credMatch H lines user pass mount := by
  sorry

/-- a configured line credMatch ⇒ accepted (whichever entry it is, however many there are) -/
theorem C16_file_complete (H : String → String) (lines : List (List String)) (user pass mount : String)
    (h : credMatch H lines user pass mount) : ∃ m, authenticate H (load H lines) user pass = some m := by
  sorry

/-- with one line per user name the mount point is that line's -/
theorem C16_file_mount (H : String → String) (hinj : ∀ a b, H a = H b → a = b) (lines : List (List String))
    (uniq : ∀ l₁ ∈ lines, ∀ l₂ ∈ lines, ∀ r₁ r₂, recordOf H l₁ = some r₁ → recordOf H l₂ = some r₂ →
              r₁.userHash = r₂.userHash → r₁ = r₂)
    (user pass mount : String) (h : credMatch H lines user pass mount) :
    authenticate H (load H lines) user pass = some mount := by
  sorry

/-- the iff of the property statement -/
theorem C16_file_iff (H : String → String) (lines : List (List String)) (user pass : String) :
    (∃ m, authenticate H (load H lines) user pass = some m) ↔ (∃ m, credMatch H lines user pass m) := by
  sorry

/-- a 2-field line, and a 3-field line with an empty third field, land in the default mount point;
    a 3-field line in its third field; the loader is total (no line shape can make it fail) -/
theorem C16_loader_mount (H : String → String) (u p m : String) :
    recordOf H [u, p] = some ⟨H u, p, defaultMountPoint⟩ ∧
    recordOf H [u, p, ""] = some ⟨H u, p, defaultMountPoint⟩ ∧
    (m ≠ "" → recordOf H [u, p, m] = some ⟨H u, p, m⟩) := by
  sorry

theorem C16_static_iff (H : String → String) (hinj : ∀ a b, H a = H b → a = b) (cu cp user pass : String) :
    staticAuthenticate H cu cp user pass = some defaultMountPoint ↔ (user = cu ∧ pass = cp) := by
  sorry

theorem C16_static_reject (H : String → String) (cu cp user pass : String) :
    staticAuthenticate H cu cp user pass = none ∨ staticAuthenticate H cu cp user pass = some defaultMountPoint := by
  sorry

/-- non-vacuity: six users in "bad" order, the middle ones are found too -/
example : (["u1", "u2", "u3", "u4", "u5", "u6"].map fun u =>
    authenticate id (load id [["u4", "p4"], ["u1", "p1", "m1"], ["u6", "p6"], ["u2", "p2", ""], ["u5", "p5", "m5"], ["u3", "p3"]]) u ("p" ++ u.drop 1)) =
    [some "m1", some "_default", some "_default", some "_default", some "m5", some "_default"] := by decide

end Wasp.Auth

import Wasp.Model.Wire
import Wasp.Properties.C11
import Wasp.Proofs.BrokerF
/-!
# C18 — no client input can crash the broker or stall other clients

The decoder model (`Wasp.Wire`) renders every slice/index expression of the MQTT decoder with its bound
check: a byte string either yields a packet, a decoder error, or the explicit outcome `panic`; nothing else
can happen (`decodeBody` and `takeFrame` are total functions). `setup` and `processSession` recover from a
panic (facts `recoverInSetup`, `recoverInProcessSession`, read from conn.go on every run) and treat it like
a protocol error: `failConn`.

For EVERY world, connection and byte string:
* `C18_confined_closed`: the only connection that may get closed by processing the bytes is the sender's;
* `C18_confined_sessions`: every other registered session stays registered, on every node;
* `C18_close_confined_*`: the same when the client closes its connection in the middle of a packet (the
  decoder then sees a zero-padded body);
* `C18_alloc_bound`: the body buffer allocated for one packet is at most 2²⁸−1 bytes, and at most four length
  bytes are consumed (a fifth is refused before any allocation);
* the bytes act on shared state only through the total operations of the packet processor, issued under the
  sender's own session id (`applyDecoded` calls `clientPacket c …`, `connect c …` or `failConn c` only).
Not modelled: memory exhaustion, a client that stops READING (the node's single writer goroutine then blocks
on that connection until its deadline) — partial for "stall".
-/
namespace Wasp.Wire
open Wasp.Broker Wasp.Dist Wasp.Broker.AgentF

/-- sessions are registered under the id derived from their connection (what `connect` establishes) -/
def RegWF (w : World) : Prop := ∀ i, ∀ s ∈ (w.node i).reg, s.id = "S" ++ s.conn

theorem C18_alloc_bound (b : Bytes) (hb : ∀ x ∈ b, x < 256) (remlen used : Nat)
    (h : readRemLen 0 0 1 b = .ok remlen used) : remlen ≤ maxRemLen ∧ used ≤ 4 := by
  have _ := hb
  exact alloc_bound b remlen used h

/-- processing bytes of connection c closes no other connection -/
theorem C18_confined_closed (w : World) (hw : RegWF w) (c : String) (b : Bytes) :
    ∃ new, (rawBytes w c b).1.out = w.out ++ new ∧ ∀ e ∈ new, e.2 = Pkt.closed → e.1 = c := by
  exact (ext_rawBytes w c b hw).2

/-- … and ends no other session, on any node -/
theorem C18_confined_sessions (w : World) (c : String) (b : Bytes) (i : Nat) (sid : String)
    (h : sid ∈ regIds (w.node i)) (hne : sid ≠ "S" ++ c) :
    sid ∈ regIds ((rawBytes w c b).1.node i) := by
  exact keep_rawBytes w c b i sid hne h

theorem C18_close_confined_closed (w : World) (hw : RegWF w) (c : String) :
    ∃ new, (closeFromClient w c).out = w.out ++ new ∧ ∀ e ∈ new, e.2 = Pkt.closed → e.1 = c := by
  exact (ext_closeFromClient w c hw).2

theorem C18_close_confined_sessions (w : World) (c : String) (i : Nat) (sid : String)
    (h : sid ∈ regIds (w.node i)) (hne : sid ≠ "S" ++ c) :
    sid ∈ regIds ((closeFromClient w c).node i) := by
  exact keep_closeFromClient w c i sid hne h

/-- the registration invariant is preserved by everything a byte stream can trigger -/
theorem C18_regwf_raw (w : World) (hw : RegWF w) (c : String) (b : Bytes) : RegWF (rawBytes w c b).1 := by
  exact (ext_rawBytes w c b hw).1

/-- non-vacuity: the minimal process-killing packet of the unrepaired broker (QoS 1 PUBLISH with no room for the
    packet id) decodes to `panic`; a five-byte remaining length is `panic`; both end only that connection -/
example : (match decodeBody 3 2 [0, 0] with | .panic => true | _ => false) = true ∧
    (match takeFrame [0x30, 0x80, 0x80, 0x80, 0x80, 0x01] with | .panic _ => true | _ => false) = true := by decide

end Wasp.Wire

import Wasp.Model.Wire
/-!
# C18 — no client input can crash the broker or stall other clients (placeholder: statements follow)
-/
namespace Wasp.Wire

/-- the buffer allocated for one packet body is bounded by the MQTT maximum (a fifth length byte is
    rejected before any allocation) -/
theorem C18_alloc_bound (idx acc mult : Nat) (b : Bytes) (hb : ∀ x ∈ b, x < 256) (remlen used : Nat)
    (h : readRemLen 0 0 1 b = .ok remlen used) : remlen ≤ maxRemLen ∧ used ≤ 4 := by
  sorry

end Wasp.Wire

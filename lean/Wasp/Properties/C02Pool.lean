import Wasp.Properties.C02
import Wasp.Proofs.BrokerT3
/-!
# C02 / C06 glue — the identifier the pool hands out is never in flight

`C02_send_one` assumed `hfresh`: "the identifier the pool hands out is not in flight for that session".
Here it is discharged from the cross-component invariant `PoolInv` (defined in `Wasp/Proofs/BrokerT3.lean`):

* pool well formed (`IdPool.Inv`), in-flight table coherent (`Ack.QInv`);
* every in-flight key has a stored callback;
* every OUTBOUND callback `(k, st)` is filed under `hashKey sid mid` of its own session/identifier and its
  identifier is NOT free in the pool; inbound callbacks are filed under `hashKey (sid ++ "/in") mid`;
* an identifier is held by the callbacks of at most one key.

`WorldPoolInv w := ∀ i, PoolInv (w.node i)` holds initially (`C02Pool_init`) and is preserved by EVERY operation of
the broker model, with no side hypothesis (`C02Pool_*`). The internal writer steps need the obvious
preconditions: `poolPut` for an identifier no callback holds (`Unheld`), `armAndSend` / `sendArmed` /
`onResolved` for an exchange whose identifier is reserved (not free) and unheld.

The payoff `C02_fresh_id_not_inflight` needs one side hypothesis: `sid` is not `s ++ "/in"` for a session `s` that
has an inbound QoS 2 handshake stored on the node (inbound and outbound keys share one table). Without it the
statement is false in a reachable world: `C02_fresh_collision`.
-/
namespace Wasp.Broker
open Wasp.Dist Wasp.Topic Wasp.Broker.AgentT3

/-! ### the invariant holds initially -/

theorem C02Pool_init (n : Nat) : WorldPoolInv (World.init n) := wpi_init n

/-! ### preservation: writer internals (with the situations in which the model calls them) -/

/-- giving back an identifier that no stored callback holds -/
theorem C02Pool_poolPut (w : World) (i : Nat) (mid : Int) (h : WorldPoolInv w) (hu : Unheld (w.node i) mid) :
    WorldPoolInv (w.poolPut i mid) := poolPut_inv w i mid h hu

/-- arming an exchange whose identifier is reserved (not free in the pool) and held by no other callback -/
theorem C02Pool_armAndSend (w : World) (i : Nat) (st : Stored) (h : WorldPoolInv w)
    (hres : ∀ sid mid, st.out? = some (sid, mid) →
      ¬ IdPool.freeIn (w.node i).pool.ivs mid ∧ Unheld (w.node i) mid) :
    WorldPoolInv (w.armAndSend i st) := armAndSend_inv w i st h hres

theorem C02Pool_sendArmed (w : World) (i : Nat) (st : Stored) (sid : String) (mid : Int) (h : WorldPoolInv w)
    (ho : st.out? = some (sid, mid))
    (hfree : ¬ IdPool.freeIn (w.node i).pool.ivs mid) (hu : Unheld (w.node i) mid) :
    WorldPoolInv (w.sendArmed i st sid mid) := sendArmed_inv w i st sid mid h ho hfree hu

theorem C02Pool_onResolved (w : World) (i : Nat) (ev : Ack.Resolved) (st : Stored) (h : WorldPoolInv w)
    (hres : ∀ sid mid, st.out? = some (sid, mid) →
      ¬ IdPool.freeIn (w.node i).pool.ivs mid ∧ Unheld (w.node i) mid) :
    WorldPoolInv (w.onResolved i ev st) := onResolved_inv w i ev st h hres

/-! ### preservation: the operations of the model (no side hypotheses) -/

theorem C02Pool_send (w : World) (i : Nat) (rcpt : List (String × Int)) (p : Pub) (h : WorldPoolInv w) :
    WorldPoolInv (w.send i rcpt p) := send_inv i p rcpt w h

theorem C02Pool_sweep (w : World) (i : Nat) (h : WorldPoolInv w) : WorldPoolInv (w.sweep i) := sweep_inv w i h

theorem C02Pool_ackFrom (w : World) (i : Nat) (pfx : String) (kind : Ack.PType) (mid : Int) (h : WorldPoolInv w) :
    WorldPoolInv (w.ackFrom i pfx kind mid) := ackFrom_inv w i pfx kind mid h

theorem C02Pool_deliverLocal (w : World) (j : Nat) (p : Pub) (h : WorldPoolInv w) :
    WorldPoolInv (w.deliverLocal j p) := deliverLocal_inv w j p h

theorem C02Pool_distribute (w : World) (i : Nat) (p : Pub) (h : WorldPoolInv w) :
    WorldPoolInv (w.distribute i p).1 := distribute_inv w i p h

theorem C02Pool_publishJob (w : World) (i : Nat) (p : Pub) (onOk : World → World) (h : WorldPoolInv w)
    (hok : ∀ w, WorldPoolInv w → WorldPoolInv (onOk w)) : WorldPoolInv (w.publishJob i p onOk) :=
  publishJob_inv w i p onOk h hok

theorem C02Pool_process (w : World) (i : Nat) (sid : String) (pkt : CPkt) (h : WorldPoolInv w) :
    WorldPoolInv (w.process i sid pkt).1 := process_inv w i sid pkt h

theorem C02Pool_clientPacket (w : World) (conn : String) (pkt : CPkt) (h : WorldPoolInv w) :
    WorldPoolInv (w.clientPacket conn pkt) := clientPacket_inv w conn pkt h

theorem C02Pool_shutdownSession (w : World) (i : Nat) (sid : String) (h : WorldPoolInv w) :
    WorldPoolInv (w.shutdownSession i sid) := shutdownSession_inv w i sid h

theorem C02Pool_connect (w : World) (conn : String) (i : Nat) (client mount : String) (authOk : Bool)
    (keepalive : Nat) (will : Option Will) (h : WorldPoolInv w) :
    WorldPoolInv (w.connect conn i client mount authOk keepalive will) :=
  connect_inv w conn i client mount authOk keepalive will h

theorem C02Pool_drop (w : World) (conn : String) (h : WorldPoolInv w) : WorldPoolInv (w.drop conn) :=
  drop_inv w conn h

theorem C02Pool_deliverGossip (w : World) (src dst : Nat) (h : WorldPoolInv w) :
    WorldPoolInv (w.deliverGossip src dst) := deliverGossip_inv w src dst h

theorem C02Pool_gossipAll (w : World) (h : WorldPoolInv w) : WorldPoolInv w.gossipAll := gossipAll_inv w h

theorem C02Pool_notifyLeave (w : World) (i : Nat) (peer : Nat) (h : WorldPoolInv w) :
    WorldPoolInv (w.notifyLeave i peer) := notifyLeave_inv w i peer h

theorem C02Pool_nodeFail (w : World) (f : Nat) (h : WorldPoolInv w) : WorldPoolInv (w.nodeFail f) :=
  nodeFail_inv w f h

theorem C02Pool_idle (w : World) (ms : Int) (h : WorldPoolInv w) : WorldPoolInv (w.idle ms) := idle_inv w ms h

/-! ### the payoff -/

/-- The identifier the pool hands out is not in flight for session `sid`, provided `sid` is not the in-flight
    prefix `s ++ "/in"` of an inbound QoS 2 handshake stored on the node. -/
theorem C02_fresh_id_not_inflight (w : World) (i : Nat) (sid : String) (h : WorldPoolInv w)
    (hsid : ∀ k s c p m, (k, Stored.inbound s c p m) ∈ (w.node i).stored → sid ≠ s ++ "/in")
    (hget : 0 < (IdPool.get (w.node i).pool).2) :
    Ack.msgFind (Ack.hashKey sid (IdPool.get (w.node i).pool).2) (w.node i).acks.msgs = none := by
  have hn := h i
  have hne : (w.node i).pool.ivs ≠ [] := by
    intro he
    rw [IdPool.get_empty _ he] at hget
    simp at hget
  have hfree : IdPool.freeIn (w.node i).pool.ivs (IdPool.get (w.node i).pool).2 :=
    (IdPool.get_spec _ hn.pool hne).2.1
  cases hf : Ack.msgFind (Ack.hashKey sid (IdPool.get (w.node i).pool).2) (w.node i).acks.msgs with
  | none => rfl
  | some m =>
    exfalso
    obtain ⟨st, hst⟩ := hn.sub _ m (Ack.msgFind_some_mem hf)
    cases st with
    | out1 s' t pl r d m' =>
      obtain ⟨hk, hnf⟩ := hn.key _ _ s' m' hst rfl
      rw [(hashKey_inj hk).2] at hfree
      exact hnf hfree
    | out2 s' t pl r d m' =>
      obtain ⟨hk, hnf⟩ := hn.key _ _ s' m' hst rfl
      rw [(hashKey_inj hk).2] at hfree
      exact hnf hfree
    | rel s' m' =>
      obtain ⟨hk, hnf⟩ := hn.key _ _ s' m' hst rfl
      rw [(hashKey_inj hk).2] at hfree
      exact hnf hfree
    | inbound s' c pb m' =>
      have hk := hn.inb _ s' c pb m' hst
      exact hsid _ s' c pb m' hst (hashKey_inj hk).1

/-- the same with the simplest side hypothesis: `sid` does not end in "/in" -/
theorem C02_fresh_id_not_inflight_of_suffix (w : World) (i : Nat) (sid : String) (h : WorldPoolInv w)
    (hsid : ∀ s, sid ≠ s ++ "/in") (hget : 0 < (IdPool.get (w.node i).pool).2) :
    Ack.msgFind (Ack.hashKey sid (IdPool.get (w.node i).pool).2) (w.node i).acks.msgs = none :=
  C02_fresh_id_not_inflight w i sid h (fun _ s _ _ _ _ => hsid s) hget

/-- `C02_send_one` with the freshness assumption replaced by the invariant -/
theorem C02_send_one' (w : World) (i : Nat) (hi : i < w.nodes.length) (sid : String) (s : Sess)
    (hs : (w.node i).sess sid = some s) (hid : s.id = sid) (p : Pub)
    (hget : 0 < (IdPool.get (w.node i).pool).2)
    (h : WorldPoolInv w)
    (hsid : ∀ k s' c p' m, (k, Stored.inbound s' c p' m) ∈ (w.node i).stored → sid ≠ s' ++ "/in") :
    (w.send i [(sid, 1)] p).out =
      w.out ++ [(s.conn, .publish (trimMountPoint s.mount p.topic) p.payload 1 p.retain p.dup (IdPool.get (w.node i).pool).2)] :=
  C02_send_one w i hi sid s hs hid p hget (C02_fresh_id_not_inflight w i sid h hsid hget)


/-! ### the side hypothesis of the payoff is needed -/

/-- one node; connections "c" and "c/in" (sessions "Sc" and "Sc/in"); "c/in" subscribes to "t" with QoS 1;
    "c" starts a QoS 2 publish with identifier 1, which is filed under "Sc/in/1" -/
def C02Pool_collisionWorld : World :=
  ((((World.init 1).connect "c" 0 "c1" "m" true 30 none).connect "c/in" 0 "c2" "m" true 30 none)
    |>.clientPacket "c/in" (.subscribe 1 [("t", 1)])) |>.clientPacket "c" (.publish "x" "q2" 2 false false 1)

/-- In this REACHABLE world the invariant holds, session "Sc/in" is registered, the pool hands out identifier 1,
    and the key of ("Sc/in", 1) is in flight — it is the inbound handshake of session "Sc". So `hfresh` of
    `C02_send_one` fails there, and indeed a QoS 1 publish to "t" is acknowledged to the publisher (PUBACK 9) and
    stored in the log, yet nothing is written to the subscriber "c/in": the insertion fails with a duplicate key,
    `sendArmed` gives the identifier back, and the message is dropped. -/
theorem C02_fresh_collision :
    WorldPoolInv C02Pool_collisionWorld ∧
    ((C02Pool_collisionWorld.node 0).sess "Sc/in").isSome = true ∧
    (IdPool.get (C02Pool_collisionWorld.node 0).pool).2 = 1 ∧
    Ack.msgFind (Ack.hashKey "Sc/in" (IdPool.get (C02Pool_collisionWorld.node 0).pool).2)
      (C02Pool_collisionWorld.node 0).acks.msgs = some ⟨.pubrel, .pubrec, 1, 3000⟩ ∧
    (C02Pool_collisionWorld.clientPacket "c" (.publish "t" "hello" 1 false false 9)).out
      = C02Pool_collisionWorld.out ++ [("c", .puback 9)] ∧
    ((C02Pool_collisionWorld.clientPacket "c" (.publish "t" "hello" 1 false false 9)).node 0).log
      = [⟨"m/t", "hello", 1, false, false⟩] := by
  refine ⟨?_, by decide, by decide, by decide, by decide, by decide⟩
  exact C02Pool_clientPacket _ _ _ (C02Pool_clientPacket _ _ _
    (C02Pool_connect _ _ _ _ _ _ _ _ (C02Pool_connect _ _ _ _ _ _ _ _ (C02Pool_init 1))))

/-! ### a concrete reachable world -/

/-- one node; "a" and "b" connect, "b" subscribes to "t" with QoS 1, "a" publishes "hello" on "t" with QoS 1:
    the delivery to "b" (identifier 1) is in flight, not yet acknowledged -/
def C02Pool_exampleWorld : World :=
  ((((World.init 1).connect "a" 0 "ca" "m" true 30 none).connect "b" 0 "cb" "m" true 30 none)
    |>.clientPacket "b" (.subscribe 1 [("t", 1)])) |>.clientPacket "a" (.publish "t" "hello" 1 false false 7)

/-- the invariant holds in that world (by the preservation lemmas); the world is not trivial: one exchange is
    in flight, its callback holds identifier 1, identifier 1 is not free, and the next identifier (2) is not in
    flight for "Sb" (by the payoff theorem, and also by evaluation) -/
example :
    WorldPoolInv C02Pool_exampleWorld ∧
    (C02Pool_exampleWorld.node 0).acks.msgs = [("Sb/1", ⟨.puback, .publish, 1, 3000⟩)] ∧
    (C02Pool_exampleWorld.node 0).stored.map (fun e => (e.1, e.2.out?)) = [("Sb/1", some ("Sb", 1))] ∧
    (C02Pool_exampleWorld.node 0).pool.ivs = [(1, 65535)] ∧
    ¬ IdPool.freeIn (C02Pool_exampleWorld.node 0).pool.ivs 1 ∧
    (IdPool.get (C02Pool_exampleWorld.node 0).pool).2 = 2 ∧
    Ack.msgFind (Ack.hashKey "Sb" (IdPool.get (C02Pool_exampleWorld.node 0).pool).2)
      (C02Pool_exampleWorld.node 0).acks.msgs = none := by
  have hinv : WorldPoolInv C02Pool_exampleWorld :=
    C02Pool_clientPacket _ _ _ (C02Pool_clientPacket _ _ _
      (C02Pool_connect _ _ _ _ _ _ _ _ (C02Pool_connect _ _ _ _ _ _ _ _ (C02Pool_init 1))))
  refine ⟨hinv, by decide, by decide, by decide, by decide, by decide, ?_⟩
  refine C02_fresh_id_not_inflight _ 0 "Sb" hinv ?_ (by decide)
  intro k s c p m hm
  have hst : (C02Pool_exampleWorld.node 0).stored.map (fun e => e.2.out?) = [some ("Sb", 1)] := by decide
  have := List.mem_map_of_mem (f := fun e => e.2.out?) hm
  rw [hst] at this
  simp [Stored.out?] at this

end Wasp.Broker

import Wasp.Model.Broker
import Wasp.Model.Wire
import Wasp.Properties.C11
import Wasp.Proofs.BrokerT1
/-!
# C11 (timing clause) — a session ends by silence only when its keep-alive allowance is exhausted

The connections' clock is `World.now`; it moves with `idle` (wall-clock time passes: node-failure timers too) and
`elapse` (only the connections' clock moves: the harness drives a virtual clock under the real connections).
A session's read deadline is `now + 2 * keepalive * 1000` ms, re-armed after every packet it sends and by every
delivery written to it; a connection that has not completed CONNECT is closed 3 s after it was accepted.
-/
namespace Wasp.Broker
open Wasp.Wire Wasp.Broker.AgentT1

/-- time passing on the connections' clock spares every session whose allowance is not exhausted, however long the
    period is compared with other sessions' allowances -/
theorem C11_elapse_spares (w : World) (ms : Int) (i : Nat) (s : Sess) (hs : s ∈ (w.node i).reg)
    (hd : w.now + ms ≤ s.deadline) (hu : ((w.node i).reg.map (·.id)).Nodup) :
    s.id ∈ regIds ((Wasp.Wire.elapse w ms).node i) := by
  exact elapse_spares w ms i s hs hd hu

/-- … and so does wall-clock time, including the CONNECT deadlines of other connections -/
theorem C11_wire_idle_spares (w : World) (ms : Int) (i : Nat) (s : Sess) (hs : s ∈ (w.node i).reg)
    (hd : w.now + ms ≤ s.deadline) (hu : ((w.node i).reg.map (·.id)).Nodup) :
    s.id ∈ regIds ((Wasp.Wire.idle w ms).node i) := by
  exact wire_idle_spares w ms i s hs hd hu

/-- after time has passed, no session of a running node is still registered beyond its deadline: silence exceeding
    the allowance does end the session (unless a delivery re-armed it in the meantime) -/
theorem C11_idle_no_overdue (w : World) (ms : Int) (i : Nat) (hf : (w.node i).failed = false) (s : Sess)
    (hs : s ∈ ((w.idle ms).node i).reg) (hu : ∀ j, ((w.node j).reg.map (·.id)).Nodup) :
    (w.idle ms).now ≤ s.deadline := by
  exact idle_no_overdue w ms i hf s hs (hu i)

/-- every packet that does not end the session re-arms its allowance: twice the keep-alive from now -/
theorem C11_packet_rearms (w : World) (c : String) (pkt : CPkt) (i : Nat) (s' : Sess)
    (hc : w.conns.find? (fun e => e.1 == c) = some (c, i))
    (hhad : ((w.node i).sess ("S" ++ c)).isSome)
    (hs' : ((w.clientPacket c pkt).node i).sess ("S" ++ c) = some s') :
    s'.deadline = w.now + 2 * s'.keepalive * 1000 := by
  exact packet_rearms w c pkt i s' hc hhad hs'

/-- a connection that has not completed CONNECT (nothing buffered) when its 3 s are over is closed -/
theorem C11_handshake_expires (w : World) (c : String) (i : Nat) (d : Int)
    (hh : (c, d) ∈ w.hs) (hnd : (w.hs.map (·.1)).Nodup) (hd : d < w.now)
    (hc : w.conns.find? (fun e => e.1 == c) = some (c, i))
    (hns : hasSession w c = false) (hdeaf : w.deaf.contains c = false)
    (hbufs : ∀ e ∈ w.hs, bufOf w e.1 = []) :
    (c, Pkt.closed) ∈ (expireHandshakes w).out ∧ (expireHandshakes w).conns.any (fun e => e.1 == c) = false := by
  exact handshake_expires w c i d hh hnd hd hc hns hdeaf hbufs

/-- … and one whose 3 s are not over stays open -/
theorem C11_handshake_spares (w : World) (c : String) (i : Nat) (d : Int)
    (hh : (c, d) ∈ w.hs) (hnd : (w.hs.map (·.1)).Nodup) (hd : w.now ≤ d)
    (hc : w.conns.find? (fun e => e.1 == c) = some (c, i))
    (hbufs : ∀ e ∈ w.hs, bufOf w e.1 = []) :
    (expireHandshakes w).conns.any (fun e => e.1 == c) = true := by
  exact handshake_spares w c i d hh hnd hd hc hbufs

/-- non-vacuity: two sessions with keep-alives 1 s and 5 s and a connection without CONNECT; after 2.5 s the first is gone,
    after 3.5 s the silent connection too, the second session outlives both -/
example :
    let w0 := openConn (((World.init 1).connect "a" 0 "ida" "mp" true 1 none).connect "b" 0 "idb" "mp" true 5 none) "h" 0
    let w1 := Wasp.Wire.elapse w0 2500
    let w2 := Wasp.Wire.elapse w1 1000
    regIds (w1.node 0) = ["Sb"] ∧ w1.conns.any (fun e => e.1 == "h") = true ∧
    regIds (w2.node 0) = ["Sb"] ∧ w2.conns.any (fun e => e.1 == "h") = false := by
  decide

end Wasp.Broker

import Wasp.Proofs.Trie
import Wasp.Proofs.Dist
import Wasp.Proofs.Generated
import Wasp.Properties.C19
/-!
# C01 — a publish reaches exactly the sessions whose filters match its topic
(matching core: subscription trie, `ByPattern`, recipient resolution)

* `C01_walk_exact`, `C01_walk_once`: in every reachable subscription trie, for every topic, the
  nodes handed to the Walk callback are exactly those whose path, read as a filter, matches the
  topic under MQTT 3.1.1 rules ('+' = exactly one level — empty levels included —, trailing '#' =
  the parent level and everything below), each exactly once;
* `C01_history_independent`: what is handed over depends only on the current map
  filter ↦ value, not on which other entries exist(ed) or in which order entries were made,
  replaced or removed (two tries with the same contents answer identically);
* `C01_levels_next`: the levels are obtained by iterating `format.Topic.Next` as REGENERATED from
  the Go source; `C01_levels_injective`: different topic strings have different level lists;
* `C01_byPattern`: `SubscriptionsState.ByPattern(topic)` lists exactly the added subscriptions
  stored under a matching filter; `C01_recipients`: the writer's recipient list for a log entry is
  those with `Peer = me`, each with its own subscription's QoS.
The end-to-end half (PUBLISH packets read by clients) is in the broker model (Properties/C11ff).
-/
namespace Wasp.Trie
open Wasp.Topic

/-- Walk hands over exactly the nodes whose filter matches -/
theorem C01_walk_exact (ops : List SubOp) (t : List Level) (ht : t ≠ []) (p : List Level) (d : Bytes) :
    let n := subRun ops Node.empty
    (p, d) ∈ Sub.walkP t [] n ↔ ((nodeAt n p).isSome ∧ d = get n p ∧ mqttMatch p t = true) := by
  intro n
  have hwf : WF n := C19_sub_wf ops Node.empty WF_empty
  rw [Sub.mem_walkP t ht n hwf [] p d]
  simp

/-- … each exactly once -/
theorem C01_walk_once (ops : List SubOp) (t : List Level) :
    ((Sub.walkP t [] (subRun ops Node.empty)).map (·.1)).Nodup :=
  Sub.nodup_walkP t _ (C19_sub_wf ops Node.empty WF_empty) []

theorem get_ne_nil_nodeAt (n : Node) (p : List Level) (h : get n p ≠ []) : (nodeAt n p).isSome := by
  rw [get_eq_nodeAt] at h
  cases hn : nodeAt n p with
  | none => simp [hn] at h
  | some _ => simp

/-- the non-empty values handed over are a function of the map contents only -/
theorem C01_history_independent (n₁ n₂ : Node) (h₁ : WF n₁) (h₂ : WF n₂)
    (same : ∀ p, get n₁ p = get n₂ p) (t : List Level) (ht : t ≠ []) (p : List Level) (d : Bytes) (hd : d ≠ []) :
    (p, d) ∈ Sub.walkP t [] n₁ ↔ (p, d) ∈ Sub.walkP t [] n₂ := by
  rw [Sub.mem_walkP t ht n₁ h₁ [] p d, Sub.mem_walkP t ht n₂ h₂ [] p d]
  constructor
  · rintro ⟨f, hf, _, hdf, hm⟩
    refine ⟨f, hf, ?_, ?_, hm⟩
    · apply get_ne_nil_nodeAt; rw [← same, ← hdf]; exact hd
    · rw [← same]; exact hdf
  · rintro ⟨f, hf, _, hdf, hm⟩
    refine ⟨f, hf, ?_, ?_, hm⟩
    · apply get_ne_nil_nodeAt; rw [same, ← hdf]; exact hd
    · rw [same]; exact hdf

/-- two histories that lead to the same active set give the same trie contents, hence
    (previous theorem) the same deliveries: contents are determined by the spec fold -/
theorem C01_same_contents (ops₁ ops₂ : List SubOp) (h₁ : ∀ op ∈ ops₁, op.path ≠ []) (h₂ : ∀ op ∈ ops₂, op.path ≠ [])
    (same : subSpec ops₁ Spec.empty = subSpec ops₂ Spec.empty) (p : List Level) :
    get (subRun ops₁ Node.empty) p = get (subRun ops₂ Node.empty) p := by
  have e₁ := C19_sub_refines ops₁ h₁ Node.empty
  have e₂ := C19_sub_refines ops₂ h₂ Node.empty
  have he : get Node.empty = Spec.empty := by funext q; exact get_empty q
  rw [he] at e₁ e₂
  rw [e₁, e₂, same]

/-- the levels of a topic are what iterating the Go `Topic.Next` yields -/
theorem C01_levels_next (t : List Char) : Wasp.Generated.topicNext t = Topic.next t := Wasp.Tie.topicNext_eq t

theorem C01_levels_injective {s₁ s₂ : String} (h : levels s₁ = levels s₂) : s₁ = s₂ := Wasp.Dist.levels_inj h

/-! matching rules, stated outright -/

/-- '+' stands for exactly one level (any level, the empty one included) -/
theorem C01_plus_one_level (fs ts : List Level) (l : Level) :
    mqttMatch ("+" :: fs) (l :: ts) = mqttMatch fs ts := by
  simp [mqttMatch]

theorem C01_plus_not_zero_levels (fs : List Level) : mqttMatch ("+" :: fs) [] = false := by
  simp [mqttMatch]

/-- a trailing '#' matches the parent level … -/
theorem C01_hash_parent : mqttMatch ["#"] [] = true := by decide

/-- … and everything below it -/
theorem C01_hash_below (ts : List Level) (l : Level) : mqttMatch ["#"] (l :: ts) = true := by
  simp [mqttMatch]

/-- a literal level matches only itself -/
theorem C01_literal (f : Level) (hf : f ≠ "+") (hf' : f ≠ "#") (fs ts : List Level) (l : Level) :
    mqttMatch (f :: fs) (l :: ts) = ((f == l) && mqttMatch fs ts) := by
  have h1 : (f == "+") = false := by simp [hf]
  have h2 : (f == "#") = false := by simp [hf']
  simp [mqttMatch, h1, h2]

example : mqttMatch (levels "a/#") (levels "a") = true ∧ mqttMatch (levels "+/+") (levels "/a") = true ∧
    mqttMatch (levels "+") (levels "/a") = false ∧ mqttMatch (levels "a/+") (levels "a") = false ∧
    mqttMatch (levels "a//b") (levels "a/b") = false ∧ mqttMatch (levels "#") (levels "/") = true := by decide

end Wasp.Trie

namespace Wasp.Dist
open Wasp.Topic Wasp.Crdt

/-- ByPattern lists exactly the added subscriptions stored under a matching filter -/
theorem C01_byPattern (st : State) (topic : String) (s : Sub) :
    s ∈ subByPattern st topic ↔
      ∃ kl ∈ st.subs, mqttMatch (levels kl.1) (levels topic) = true ∧ s ∈ kl.2 ∧ isAdded s.stamp = true := by
  simp only [subByPattern, List.mem_flatMap, List.mem_filter]
  constructor
  · rintro ⟨kl, ⟨hkl, hm⟩, hs, ha⟩; exact ⟨kl, hkl, hm, hs, ha⟩
  · rintro ⟨kl, hkl, hm, hs, ha⟩; exact ⟨kl, ⟨hkl, hm⟩, hs, ha⟩

/-- recipient resolution of writer.Run for a log entry: (session, qos) of the matching added
    subscriptions hosted by this peer -/
def recipients (st : State) (topic : String) : List (String × Int) :=
  ((subByPattern st topic).filter (fun s => s.peer == st.peer)).map (fun s => (s.session, s.qos))

theorem C01_recipients (st : State) (topic : String) (sess : String) (q : Int) :
    (sess, q) ∈ recipients st topic ↔
      ∃ s, s ∈ subByPattern st topic ∧ s.peer = st.peer ∧ s.session = sess ∧ s.qos = q := by
  simp only [recipients, List.mem_map, List.mem_filter, beq_iff_eq, Prod.mk.injEq]
  constructor
  · rintro ⟨s, ⟨hs, hp⟩, h1, h2⟩; exact ⟨s, hs, hp, h1, h2⟩
  · rintro ⟨s, hs, hp, h1, h2⟩; exact ⟨s, ⟨hs, hp⟩, h1, h2⟩

end Wasp.Dist

import Wasp.Properties.Reachable
import Wasp.Properties.E2E
import Wasp.Properties.C14
import Wasp.Properties.C02
import Wasp.Properties.C17
import Wasp.Proofs.BrokerT7
/-!
# More invariants of every reachable world, and the end-to-end theorems without side conditions

`GlobalInv2` adds to `GlobalInv` (Properties/Reachable.lean): the peers of the nodes are pairwise distinct and are the
peers the cluster started with (node k has peer k+1), every node's replicated store carries that node's own peer, every
stored subscription names the peer of SOME node of the cluster, and a subscription stored for the peer of node j by
node j itself belongs … (the agent may add what it needs). Corollaries: C14 / C02 theorems without `PeersDistinct`,
and C01 end to end on every reachable one-node world.
-/
namespace Wasp.Broker
open Wasp.Dist Wasp.Topic Wasp.Crdt Wasp.Broker.AgentT7

/-! `GlobalInv2` is defined in Wasp/Proofs/BrokerT7.lean (namespace `Wasp.Broker`): the four fields `base`, `peers`,
    `distPeer`, `subPeers` and one more that makes it inductive: `pendPeers` (gossip not yet delivered only carries
    subscriptions naming a peer in 1..number of nodes, as `GlobalInv.pendClock` does for the stamps). No side condition
    on any operation is needed. `globalInv2_iff`: `GlobalInv2 w ↔ GlobalInv w ∧ PInv w.nodes.length w`; the peer part
    `PInv` is preserved by every `BOp` (`pinv_step`, one lemma `pinv_op_*` per constructor). -/

theorem globalInv2_init (n : Nat) : GlobalInv2 (World.init n) := by
  refine (globalInv2_iff _).mpr ⟨globalInv_init n, ?_⟩
  have h := pinv_init n
  rw [h.len]
  exact h

theorem globalInv2_step (w : World) (op : BOp) (h : GlobalInv2 w) : GlobalInv2 (applyOp w op) := by
  obtain ⟨hb, hp⟩ := (globalInv2_iff w).mp h
  refine (globalInv2_iff _).mpr ⟨globalInv_step w op hb, ?_⟩
  rw [pinv_len hp op]
  exact pinv_step hp op

/-- a whole sequence of operations, from any world satisfying the invariant -/
theorem globalInv2_run (ops : List BOp) : ∀ w : World, GlobalInv2 w → GlobalInv2 (run w ops) := by
  induction ops with
  | nil => intro w h; exact h
  | cons op rest ih => intro w h; exact ih _ (globalInv2_step w op h)

theorem reachable_inv2 (w : World) (h : Reachable w) : GlobalInv2 w := by
  obtain ⟨n, ops, rfl⟩ := h
  exact globalInv2_run ops _ (globalInv2_init n)

theorem reachable_peersDistinct (w : World) (h : Reachable w) : PeersDistinct w := by
  have hp := (reachable_inv2 w h).peers
  intro a b ha hb hab
  rw [hp a ha, hp b hb] at hab
  omega

/-- C14 on reachable worlds: which logs a publish is appended to -/
theorem C14_dest_log_reachable (w : World) (hr : Reachable w) (i : Nat) (p : Pub) (hi : i < w.nodes.length) (j : Nat)
    (hj : j < w.nodes.length) :
    ((w.distribute i p).1.node j).log =
      (w.node j).log ++ (if (w.node j).peer ∈ destinations w i p ∧ reachableFrom w i j = true ∧ logAccepts (w.node j) = true then [p] else []) :=
  C14_dest_log w i p (reachable_peersDistinct w hr) hi j hj

/-- C14 on reachable worlds: Distribute succeeds iff every destination is reachable and its log accepts the message;
    on a reachable world every destination peer IS a node of the cluster -/
theorem C14_result_reachable (w : World) (hr : Reachable w) (i : Nat) (p : Pub) (hi : i < w.nodes.length) :
    (w.distribute i p).2 = true ↔
      ∀ peer ∈ destinations w i p, ∃ j, j < w.nodes.length ∧ (w.node j).peer = peer ∧ reachableFrom w i j = true ∧ logAccepts (w.node j) = true :=
  C14_result w i p (reachable_peersDistinct w hr) hi

theorem C14_destinations_are_nodes (w : World) (hr : Reachable w) (i : Nat) (p : Pub) :
    ∀ peer ∈ destinations w i p, ∃ j, j < w.nodes.length ∧ (w.node j).peer = peer := by
  have hinv := reachable_inv2 w hr
  intro peer hpeer
  unfold destinations at hpeer
  rw [AgentB.mem_dedupNat] at hpeer
  obtain ⟨u, hu, rfl⟩ := List.mem_map.mp hpeer
  obtain ⟨kl, hkl, hukl, _⟩ := AgentD.mem_subByPattern hu
  have hb := hinv.subPeers i kl hkl u hukl
  refine ⟨u.peer - 1, by omega, ?_⟩
  rw [hinv.peers (u.peer - 1) (by omega)]
  omega

/-- C01 end to end on every reachable ONE-NODE world whose subscriptions are all QoS 0 and whose log accepts the
    message: a packet is written iff it is the PUBLISH for a live stored subscription whose filter matches the topic
    and whose session is registered -/
theorem C01_e2e_exact_reachable (w : World) (hr : Reachable w) (hlen : w.nodes.length = 1) (sid : String) (s : Sess)
    (hs : (w.node 0).sess sid = some s) (topic payload : String) (dup : Bool) (mid : Int)
    (hq0 : ∀ kl ∈ (w.node 0).dist.subs, ∀ u ∈ kl.2, u.qos = 0)
    (hlog : (w.node 0).logFailAll = false ∧ (w.node 0).logFailAt.contains (w.node 0).logCalls = false)
    (c : String) (pk : Pkt) :
    (c, pk) ∈ ((w.process 0 sid (.publish topic payload 0 false dup mid)).1.out.drop w.out.length) ↔
      ∃ kl ∈ (w.node 0).dist.subs, ∃ u ∈ kl.2,
        mqttMatch (levels kl.1) (levels (prefixMountPoint s.mount topic)) = true ∧ isAdded u.stamp = true ∧
        ∃ r, (w.node 0).sess u.session = some r ∧ r.conn = c ∧
          pk = Pkt.publish (trimMountPoint r.mount (prefixMountPoint s.mount topic)) payload 0 false dup 0 := by
  have hinv := reachable_inv2 w hr
  refine C01_e2e_exact w hlen sid s hs topic payload dup mid hq0 ?_ hlog c pk
  intro kl hkl u hukl
  have hb := hinv.subPeers 0 kl hkl u hukl
  rw [hinv.peers 0 (by omega)]
  omega

end Wasp.Broker

import Wasp.Model.Broker
import Wasp.Properties.C14
/-!
# C05 — inbound publishes: stored before acknowledged; QoS 2 forwarded exactly once

* `C05_qos1_ack_iff_stored`: processing a QoS 1 PUBLISH writes PUBACK to the publisher iff Distribute
  succeeded, i.e. (by `C14_result`) iff every node hosting a matching subscriber stored the message;
* `C05_qos2_publish_forwards_nothing`: processing a QoS 2 PUBLISH never appends to any log; it answers
  PUBREC, or ends the exchange with an error when the identifier is 0 or already has an open handshake
  (the existing handshake entry is untouched);
* `C05_pubrel_forwards_once`: a PUBREL for an open handshake runs the publish pipeline once for the stored
  message and removes the handshake; `C05_pubrel_unknown`: a PUBREL with no open handshake (repeated
  PUBREL, unknown identifier) changes nothing at all;
* `C05_expired_handshake_forwards_nothing`: a handshake that times out is dropped without forwarding.
-/
namespace Wasp.Broker
open Wasp.Dist Wasp.Topic

theorem C05_qos1_ack_iff_stored (w : World) (i : Nat) (sid : String) (s : Sess) (hs : (w.node i).sess sid = some s)
    (topic payload : String) (retain dup : Bool) (mid : Int) :
    let p : Pub := ⟨prefixMountPoint s.mount topic, payload, 1, retain, dup⟩
    let r := (afterRetain w i p).distribute i { p with retain := false }
    (w.process i sid (.publish topic payload 1 retain dup mid)).1 =
      (if r.2 then r.1.emit s.conn (.puback mid) else r.1) := by
  sorry

theorem C05_qos2_publish_forwards_nothing (w : World) (i : Nat) (sid : String) (topic payload : String) (retain dup : Bool) (mid : Int) (j : Nat) :
    ((w.process i sid (.publish topic payload 2 retain dup mid)).1.node j).log = (w.node j).log := by
  sorry

/-- a second QoS 2 PUBLISH on an open handshake is rejected and leaves the handshake as it was -/
theorem C05_qos2_duplicate_rejected (w : World) (i : Nat) (sid : String) (s : Sess) (hs : (w.node i).sess sid = some s)
    (topic payload : String) (retain dup : Bool) (mid : Int) (m : Ack.Msg)
    (hopen : Ack.msgFind (Ack.hashKey (sid ++ "/in") mid) (w.node i).acks.msgs = some m) :
    w.process i sid (.publish topic payload 2 retain dup mid) = (w, .error) := by
  sorry

/-- PUBREL with no open handshake: nothing happens (no forward, no PUBCOMP) -/
theorem C05_pubrel_unknown (w : World) (i : Nat) (sid : String) (mid : Int)
    (hnone : Ack.msgFind (Ack.hashKey (sid ++ "/in") mid) (w.node i).acks.msgs = none) (hi : i < w.nodes.length) :
    w.ackFrom i (sid ++ "/in") .pubrel mid = w := by
  sorry

/-- PUBREL for an open handshake: the handshake is closed (so a repeated PUBREL falls under
    `C05_pubrel_unknown`) -/
theorem C05_pubrel_closes (w : World) (i : Nat) (sid : String) (mid : Int) (m : Ack.Msg) (hi : i < w.nodes.length)
    (hopen : Ack.msgFind (Ack.hashKey (sid ++ "/in") mid) (w.node i).acks.msgs = some m) (hst : m.state = .pubrel)
    (hk : ((w.node i).acks.msgs.map (·.1)).Nodup) :
    Ack.msgFind (Ack.hashKey (sid ++ "/in") mid) ((w.ackFrom i (sid ++ "/in") .pubrel mid).node i).acks.msgs = none := by
  sorry

/-- the reaction to a resolved inbound handshake: the publish pipeline once if it was acknowledged by PUBREL,
    nothing if it expired -/
theorem C05_expired_handshake_forwards_nothing (w : World) (i : Nat) (ev : Ack.Resolved) (sess conn : String) (pub : Pub) (mid : Int) :
    w.onResolved i ev (.inbound sess conn pub mid) = w := by
  sorry

end Wasp.Broker

import Wasp.Model.Broker
/-! # C05 (broker level) — theorem statements are being added; see DESIGN.md §4 -/

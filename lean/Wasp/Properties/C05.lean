import Wasp.Model.Broker
import Wasp.Properties.C14
import Wasp.Proofs.BrokerB
/-!
# C05 — inbound publishes: stored before acknowledged; QoS 2 forwarded exactly once

* `C05_qos1_ack_iff_stored`: processing a QoS 1 PUBLISH writes PUBACK to the publisher iff Distribute
  succeeded, i.e. (by `C14_result`) iff every node hosting a matching subscriber stored the message;
* `C05_qos2_publish_forwards_nothing`: processing a QoS 2 PUBLISH never appends to any log; it answers
  PUBREC, or ends the exchange with an error when the identifier is 0 or already has an open handshake
  (the existing handshake entry is untouched);
* `C05_pubrel_forwards_once`: a PUBREL for an open handshake runs the publish pipeline once for the stored
  message and removes the handshake; `C05_pubrel_unknown`: a PUBREL with no open handshake (repeated
  PUBREL, unknown identifier) changes nothing at all;
* `C05_expired_handshake_forwards_nothing`: a handshake that times out is dropped without forwarding.
-/
namespace Wasp.Broker
open Wasp.Dist Wasp.Topic Wasp.Broker.AgentB

theorem C05_qos1_ack_iff_stored (w : World) (i : Nat) (sid : String) (s : Sess) (hs : (w.node i).sess sid = some s)
    (topic payload : String) (retain dup : Bool) (mid : Int) :
    let p : Pub := ⟨prefixMountPoint s.mount topic, payload, 1, retain, dup⟩
    let r := (afterRetain w i p).distribute i { p with retain := false }
    (w.process i sid (.publish topic payload 1 retain dup mid)).1 =
      (if r.2 then r.1.emit s.conn (.puback mid) else r.1) := by
  intro p r
  simp only [World.process, hs]
  simp
  rfl

theorem C05_qos2_publish_forwards_nothing (w : World) (i : Nat) (sid : String) (topic payload : String) (retain dup : Bool) (mid : Int) (j : Nat) :
    ((w.process i sid (.publish topic payload 2 retain dup mid)).1.node j).log = (w.node j).log := by
  simp only [World.process]
  cases hs : (w.node i).sess sid with
  | none => rfl
  | some s =>
    simp only []
    simp
    split
    · simp only [node_emit, node_setNode]
      split
      · next h => rw [h.1]
      · rfl
    · rfl

/-- a second QoS 2 PUBLISH on an open handshake is rejected and leaves the handshake as it was -/
theorem C05_qos2_duplicate_rejected (w : World) (i : Nat) (sid : String) (s : Sess) (hs : (w.node i).sess sid = some s)
    (topic payload : String) (retain dup : Bool) (mid : Int) (m : Ack.Msg)
    (hopen : Ack.msgFind (Ack.hashKey (sid ++ "/in") mid) (w.node i).acks.msgs = some m) :
    w.process i sid (.publish topic payload 2 retain dup mid) = (w, .error) := by
  have h : (Ack.insert (w.node i).acks (sid ++ "/in") .pubrec 0 mid (ackDeadline w)).2 ≠ .ok := by
    rcases Ack.insert_cases (w.node i).acks (sid ++ "/in") .pubrec 0 mid (ackDeadline w) with ⟨_, h2, _⟩ | ⟨st, _, hn, _⟩
    · exact h2
    · rw [hn] at hopen; cases hopen
  simp only [World.process, hs]
  simp [h]

/-- PUBREL with no open handshake: nothing happens (no forward, no PUBCOMP) -/
theorem C05_pubrel_unknown (w : World) (i : Nat) (sid : String) (mid : Int)
    (hnone : Ack.msgFind (Ack.hashKey (sid ++ "/in") mid) (w.node i).acks.msgs = none) (hi : i < w.nodes.length) :
    w.ackFrom i (sid ++ "/in") .pubrel mid = w := by
  have h : Ack.ack (w.node i).acks (sid ++ "/in") .pubrel true mid = ((w.node i).acks, .errWrongMID, []) := by
    simp [Ack.ack, hnone]
  simp only [World.ackFrom, h, List.foldl_nil]
  exact setNode_node_self w i hi

/-- PUBREL for an open handshake: the handshake is closed (so a repeated PUBREL falls under
    `C05_pubrel_unknown`).

    CHANGED STATEMENT: hypothesis `hreg` added — no session is registered on node i under the id
    `sid ++ "/in"`. Outbound deliveries to a session `sid'` are keyed `hashKey sid' mid'` in the same table;
    `hashKey` determines its prefix (`hashKey_prefix_inj`), so `hreg` is equivalent to "no registered
    session can produce the key of this handshake". Without it the statement is false:
    `C05_pubrel_closes_counterexample`. -/
theorem C05_pubrel_closes (w : World) (i : Nat) (sid : String) (mid : Int) (m : Ack.Msg) (hi : i < w.nodes.length)
    (hopen : Ack.msgFind (Ack.hashKey (sid ++ "/in") mid) (w.node i).acks.msgs = some m) (hst : m.state = .pubrel)
    (hk : ((w.node i).acks.msgs.map (·.1)).Nodup)
    (hreg : (w.node i).sess (sid ++ "/in") = none) :
    Ack.msgFind (Ack.hashKey (sid ++ "/in") mid) ((w.ackFrom i (sid ++ "/in") .pubrel mid).node i).acks.msgs = none := by
  simp only [World.ackFrom, Ack.ack_ok_eq hopen hst, List.foldl_cons, List.foldl_nil]
  have hstep := WRelS.ackStep (Ack.hashKey (sid ++ "/in") mid)
    (w.setNode i { w.node i with acks :=
      { msgs := Ack.msgErase (Ack.hashKey (sid ++ "/in") mid) (w.node i).acks.msgs,
        timeouts := (Ack.pqDelete (Ack.hashKey (sid ++ "/in") mid) m.deadline (w.node i).acks.timeouts).1 } }) i
    ⟨Ack.hashKey (sid ++ "/in") mid, false, m.stored⟩
  refine (hstep.2 i).safe ?_ ?_
  · apply noClash_of_none
    rw [node_setNode, if_pos ⟨rfl, hi⟩]
    exact hreg
  · rw [node_setNode, if_pos ⟨rfl, hi⟩]
    exact Ack.msgFind_erase_self hk

/-- the original statement of `C05_pubrel_closes` (without `hreg`) fails in `cexWorld`: all its hypotheses
    hold for i = 0, sid = "S", mid = 5, yet after the PUBREL the key is occupied again (by the PUBREL the
    broker sends to the session named "S/in") -/
theorem C05_pubrel_closes_counterexample :
    (0 < cexWorld.nodes.length) ∧
    Ack.msgFind (Ack.hashKey ("S" ++ "/in") 5) (cexWorld.node 0).acks.msgs = some ⟨.pubrel, .pubrec, 5, 3000⟩ ∧
    ((cexWorld.node 0).acks.msgs.map (·.1)).Nodup ∧
    Ack.msgFind (Ack.hashKey ("S" ++ "/in") 5) ((cexWorld.ackFrom 0 ("S" ++ "/in") .pubrel 5).node 0).acks.msgs
      = some ⟨.pubcomp, .pubrel, 5, 3000⟩ := by
  decide

/-- the reaction to a resolved inbound handshake: the publish pipeline once if it was acknowledged by PUBREL,
    nothing if it expired -/
theorem C05_expired_handshake_forwards_nothing (w : World) (i : Nat) (ev : Ack.Resolved) (sess conn : String) (pub : Pub) (mid : Int) :
    w.onResolved i ev (.inbound sess conn pub mid) = w := by
  rfl

end Wasp.Broker

import Wasp.Properties.C05
import Wasp.Properties.C12
import Wasp.Properties.Reachable2
import Wasp.Properties.E2E
import Wasp.Properties.C02E2E
import Wasp.Proofs.BrokerT13
import Wasp.Proofs.BrokerT14
/-!
# C05 (QoS 2 inbound handshake) and C12 (take-over) end to end

* C05: on a reachable one-node world a QoS 2 PUBLISH is answered by PUBREC and forwarded to nobody; the PUBREL forwards
  it — once — to exactly the registered sessions with a live matching subscription and is answered by PUBCOMP; when the
  log rejects the message the PUBREL forwards nothing and is NOT answered; a repeated PUBREL is ignored.
* C12: a second connection with the client identifier (and mount point) of a current session: the identifier resolves
  to the new session only; the new session's PINGREQ is answered; the displaced session's next PINGREQ ends it — it is
  closed, gets no PINGRESP, and its will is not published.

Two more invariants of reachable worlds are used (Wasp/Proofs/BrokerT13.lean, `reachable_inv13`): every stored callback
is filed under a key of the in-flight table (so a free key has no stale callback), and on every node the session
records have pairwise different ids and were added before the crdt clock (so the tombstone written by a take-over is
not live, and `sessLookup` finds the record `sessByClientID` returned). A third one (Wasp/Proofs/BrokerT14.lean,
`reachable_not_deaf` below): the connection of every registered session is not listed in `World.deaf` (the connections
whose CONNECT was refused, which nobody reads), so the displaced session's PINGREQ IS read.
-/
namespace Wasp.Broker
open Wasp.Dist Wasp.Topic Wasp.Crdt Wasp.Broker.AgentT13

/-- QoS 2 PUBLISH: PUBREC, nothing else written, nothing stored in any log -/
theorem C05_e2e_qos2_publish (w : World) (hr : Reachable w) (i : Nat) (hi : i < w.nodes.length) (p : Sess)
    (hp : (w.node i).sess p.id = some p) (topic payload : String) (dup : Bool) (mid : Int) (hmid : mid ≠ 0)
    (hfree : Ack.msgFind (Ack.hashKey (p.id ++ "/in") mid) (w.node i).acks.msgs = none) :
    (w.process i p.id (.publish topic payload 2 false dup mid)).1.out = w.out ++ [(p.conn, Pkt.pubrec mid)] ∧
    ∀ j, ((w.process i p.id (.publish topic payload 2 false dup mid)).1.node j).log = (w.node j).log := by
  have _ := hr
  have _ := hi
  refine ⟨?_, fun j => C05_qos2_publish_forwards_nothing w i p.id topic payload false dup mid j⟩
  rw [process_publish2 w i p.id p hp topic payload false dup mid hmid hfree]
  rfl

/-- PUBREL on one node with QoS 0 subscribers and an accepting log: the deliveries, then PUBCOMP; the handshake is closed.
    (`hsid` is not needed: with QoS 0 subscriptions nothing is armed under any key.) -/
theorem C05_e2e_qos2_release (w : World) (hr : Reachable w) (hlen : w.nodes.length = 1) (p : Sess)
    (hp : (w.node 0).sess p.id = some p) (hsid : ∀ s, p.id ≠ s ++ "/in")
    (topic payload : String) (dup : Bool) (mid : Int) (hmid : mid ≠ 0)
    (hfree : Ack.msgFind (Ack.hashKey (p.id ++ "/in") mid) (w.node 0).acks.msgs = none)
    (hq0 : ∀ kl ∈ (w.node 0).dist.subs, ∀ u ∈ kl.2, u.qos = 0)
    (hlog : (w.node 0).logFailAll = false ∧ (w.node 0).logFailAt.contains (w.node 0).logCalls = false) :
    let w1 := (w.process 0 p.id (.publish topic payload 2 false dup mid)).1
    let w2 := (w1.process 0 p.id (.pubrel mid)).1
    w2.out = w1.out ++ deliveries0 (w.node 0) (localRecipients w (prefixMountPoint p.mount topic))
                        ⟨prefixMountPoint p.mount topic, payload, 2, false, dup⟩ ++ [(p.conn, Pkt.pubcomp mid)] ∧
    Ack.msgFind (Ack.hashKey (p.id ++ "/in") mid) (w2.node 0).acks.msgs = none := by
  have _ := hsid
  intro w1 w2
  have hi : 0 < w.nodes.length := by omega
  have hinv2 := reachable_inv2 w hr
  have hpeer : ∀ kl ∈ (w.node 0).dist.subs, ∀ u ∈ kl.2, u.peer = (w.node 0).peer := by
    intro kl hkl u hukl
    have hb := hinv2.subPeers 0 kl hkl u hukl
    rw [hinv2.peers 0 (by omega)]
    omega
  have hsf := reachable_stored_free w hr 0 _ hfree
  obtain ⟨T, hT⟩ := release_core w 0 hi p hp topic payload dup mid hmid hfree hsf
  have hw1 : w1.out = w.out ++ [(p.conn, Pkt.pubrec mid)] :=
    (C05_e2e_qos2_publish w hr 0 hi p hp topic payload dup mid hmid hfree).1
  show (((w.process 0 p.id (.publish topic payload 2 false dup mid)).1.process 0 p.id (.pubrel mid)).1).out = _ ∧
    Ack.msgFind _ ((((w.process 0 p.id (.publish topic payload 2 false dup mid)).1.process 0 p.id (.pubrel mid)).1).node 0).acks.msgs = none
  rw [hT, hw1]
  generalize hW : (w.setNode 0 { w.node 0 with acks := { msgs := (w.node 0).acks.msgs, timeouts := T } }).emit p.conn (.pubrec mid) = W
  have hnW : W.node 0 = { w.node 0 with acks := { msgs := (w.node 0).acks.msgs, timeouts := T } } := by
    rw [← hW, AgentD.node_emit, AgentD.node_setNode_self _ _ _ hi]
  have hlenW : W.nodes.length = 1 := by rw [← hW]; simpa using hlen
  have houtW : W.out = w.out ++ [(p.conn, Pkt.pubrec mid)] := by rw [← hW]; rfl
  have hq0W : ∀ kl ∈ (W.node 0).dist.subs, ∀ u ∈ kl.2, u.qos = 0 := by rw [hnW]; exact hq0
  have hpeerW : ∀ kl ∈ (W.node 0).dist.subs, ∀ u ∈ kl.2, u.peer = (W.node 0).peer := by rw [hnW]; exact hpeer
  have hlogW : (W.node 0).logFailAll = false ∧ (W.node 0).logFailAt.contains (W.node 0).logCalls = false := by
    rw [hnW]; exact hlog
  have hpj : W.publishJob 0 ⟨prefixMountPoint p.mount topic, payload, 2, false, dup⟩ (fun x => x.emit p.conn (.pubcomp mid)) =
      (W.distribute 0 ⟨prefixMountPoint p.mount topic, payload, 2, false, dup⟩).1.emit p.conn (.pubcomp mid) := by
    rw [AgentD.publishJob_eq]
    have e : AgentD.retainStep W 0 ⟨prefixMountPoint p.mount topic, payload, 2, false, dup⟩ = W := rfl
    rw [e, if_pos (distribute_one_true W hlenW _ hpeerW hlogW)]
  rw [hpj]
  constructor
  · rw [AgentC.emit_out, AgentT6.distribute_single W hlenW _ hq0W hpeerW hlogW, houtW]
    have e1 : deliveries0 (W.node 0) = deliveries0 (w.node 0) := by
      funext rc pb
      exact AgentT6.deliveries0_congr (AgentT6.CM.of_reg_eq (by rw [hnW])) rc pb
    rw [e1, hnW]
    rfl
  · rw [AgentC.emit_node]
    have hc := (distribute_one_core W hlenW ⟨prefixMountPoint p.mount topic, payload, 2, false, dup⟩ hq0W hpeerW hlogW).2 0
    rw [(AgentT3.pcore_eq hc).1, hnW]
    exact hfree

/-- PUBREL when the log rejects the message: nothing forwarded, no PUBCOMP. `hmatch` is needed (with no destination
    Distribute succeeds vacuously and PUBCOMP is written: second example at the end); `hsid` is not. -/
theorem C05_e2e_qos2_release_log_fails (w : World) (hr : Reachable w) (hlen : w.nodes.length = 1) (p : Sess)
    (hp : (w.node 0).sess p.id = some p) (hsid : ∀ s, p.id ≠ s ++ "/in")
    (topic payload : String) (dup : Bool) (mid : Int) (hmid : mid ≠ 0)
    (hfree : Ack.msgFind (Ack.hashKey (p.id ++ "/in") mid) (w.node 0).acks.msgs = none)
    (hmatch : localRecipients w (prefixMountPoint p.mount topic) ≠ [])
    (hlogfail : (w.node 0).logFailAll = true) :
    let w1 := (w.process 0 p.id (.publish topic payload 2 false dup mid)).1
    let w2 := (w1.process 0 p.id (.pubrel mid)).1
    w2.out = w1.out := by
  have _ := hsid
  intro w1 w2
  have hi : 0 < w.nodes.length := by omega
  have hinv2 := reachable_inv2 w hr
  have hpeer : ∀ kl ∈ (w.node 0).dist.subs, ∀ u ∈ kl.2, u.peer = (w.node 0).peer := by
    intro kl hkl u hukl
    have hb := hinv2.subPeers 0 kl hkl u hukl
    rw [hinv2.peers 0 (by omega)]
    omega
  have hsf := reachable_stored_free w hr 0 _ hfree
  obtain ⟨T, hT⟩ := release_core w 0 hi p hp topic payload dup mid hmid hfree hsf
  have hw1 : w1.out = w.out ++ [(p.conn, Pkt.pubrec mid)] :=
    (C05_e2e_qos2_publish w hr 0 hi p hp topic payload dup mid hmid hfree).1
  show (((w.process 0 p.id (.publish topic payload 2 false dup mid)).1.process 0 p.id (.pubrel mid)).1).out = _
  rw [hT, hw1]
  generalize hW : (w.setNode 0 { w.node 0 with acks := { msgs := (w.node 0).acks.msgs, timeouts := T } }).emit p.conn (.pubrec mid) = W
  have hnW : W.node 0 = { w.node 0 with acks := { msgs := (w.node 0).acks.msgs, timeouts := T } } := by
    rw [← hW, AgentD.node_emit, AgentD.node_setNode_self _ _ _ hi]
  have hlenW : W.nodes.length = 1 := by rw [← hW]; simpa using hlen
  have houtW : W.out = w.out ++ [(p.conn, Pkt.pubrec mid)] := by rw [← hW]; rfl
  have hpeerW : ∀ kl ∈ (W.node 0).dist.subs, ∀ u ∈ kl.2, u.peer = (W.node 0).peer := by rw [hnW]; exact hpeer
  have hne : subByPattern (W.node 0).dist (prefixMountPoint p.mount topic) ≠ [] := by
    rw [hnW]
    intro he
    apply hmatch
    simp [localRecipients, he]
  rw [AgentD.publishJob_eq]
  have e : AgentD.retainStep W 0 ⟨prefixMountPoint p.mount topic, payload, 2, false, dup⟩ = W := rfl
  rw [e, distribute_one_fail W hlenW ⟨prefixMountPoint p.mount topic, payload, 2, false, dup⟩ hpeerW hne (by rw [hnW]; exact hlogfail)]
  simp [houtW]
/-- a PUBREL with no open handshake (e.g. repeated) changes nothing -/
theorem C05_e2e_pubrel_unknown (w : World) (i : Nat) (hi : i < w.nodes.length) (p : Sess) (hp : (w.node i).sess p.id = some p)
    (mid : Int) (hnone : Ack.msgFind (Ack.hashKey (p.id ++ "/in") mid) (w.node i).acks.msgs = none) :
    (w.process i p.id (.pubrel mid)).1 = w := by
  simp only [World.process, hp]
  exact C05_pubrel_unknown w i p.id mid hnone hi
/-! ### C12: take-over on the same node

`applyOp … (.packet …)` drops packets on a connection listed in `World.deaf` (connections whose CONNECT was refused:
nobody reads them, `writable`). Neither connection of a take-over is listed there:
* the NEW connection `c`: the `.connect` operation opens a fresh connection under the name `c` and clears that name
  from `deaf` (a refusal on an older connection of the same name does not stick to the new one);
* the OLD connection `a.conn`: on every reachable world the connection of a registered session is not listed in `deaf`
  (`reachable_not_deaf`): a name enters `deaf` only when a CONNECT is refused, at which point no session is registered
  under it, and it leaves `deaf` when the name is re-used.
So no hypothesis about `deaf` is needed (an earlier version of the model never removed a name from `deaf`, and the
theorem carried `hdeafA : w.deaf.contains a.conn = false` and `hdeafC : w.deaf.contains c = false`; the two op
sequences that were counterexamples then are checked at the end of this file: the conclusions hold on them now).
`hf` is not needed. -/

/-- on every reachable world the connection of every registered session is not listed in `deaf` -/
theorem reachable_not_deaf (w : World) (hr : Reachable w) :
    ∀ i, ∀ s ∈ (w.node i).reg, w.deaf.contains s.conn = false :=
  AgentT14.reachable_dinv w hr

/-- the CONNECT: the identifier resolves to the new session only, which is registered and acknowledged; the old session
    is still registered -/
theorem C12_e2e_takeover_connect (w : World) (hr : Reachable w) (i : Nat) (hi : i < w.nodes.length)
    (a : Sess) (ha : (w.node i).sess a.id = some a)
    (mdA : SessionMD) (hcur : sessByClientID (w.node i).dist a.mount a.client = [mdA]) (hcurid : mdA.id = a.id)
    (c : String) (hc : w.conns.any (fun e => e.1 == c) = false)
    (hrec : ∀ s, sessLookup ("S" ++ c) (w.node i).dist.sessions = some s → isAdded s.stamp = false)
    (ka : Nat) (will : Option Will) :
    let w1 := applyOp w (.connect c i a.client a.mount true ka will)
    (∃ md, sessByClientID (w1.node i).dist a.mount a.client = [md] ∧ md.id = "S" ++ c) ∧
    ((w1.node i).sess ("S" ++ c)).isSome = true ∧ (c, Pkt.connack 0) ∈ w1.out ∧
    ((w1.node i).sess a.id).isSome = true := by
  intro w1
  have hT : TakenOver w w1 i a c ka will :=
    takeover_world w (reachable_inv w hr) (reachable_inv13 w hr) i hi a ha mdA hcur hcurid c hc hrec ka will
  refine ⟨hT.resolves, ?_, ?_, ?_⟩
  · have := AgentD.sess_append_isSome (w.node i) (AgentD.connSess w.now c a.client a.mount ka will)
    unfold Node.sess at this ⊢
    rw [hT.reg]
    exact this
  · rw [hT.out]; simp
  · have := sess_append_old (w.node i) (AgentD.connSess w.now c a.client a.mount ka will) a.id a ha
    unfold Node.sess at this ⊢
    rw [hT.reg, this]
    rfl

/-- the displaced session's next PINGREQ ends it: it is unregistered, exactly `closed` is written, no log changes -/
theorem C12_e2e_takeover_old_ends (w : World) (hr : Reachable w) (i : Nat) (hi : i < w.nodes.length)
    (a : Sess) (ha : (w.node i).sess a.id = some a)
    (mdA : SessionMD) (hcur : sessByClientID (w.node i).dist a.mount a.client = [mdA]) (hcurid : mdA.id = a.id)
    (c : String) (hc : w.conns.any (fun e => e.1 == c) = false)
    (hrec : ∀ s, sessLookup ("S" ++ c) (w.node i).dist.sessions = some s → isAdded s.stamp = false)
    (ka : Nat) (will : Option Will) :
    let w1 := applyOp w (.connect c i a.client a.mount true ka will)
    let w2 := applyOp w1 (.packet a.conn .pingreq)
    (w2.node i).sess a.id = none ∧ w2.out = w1.out ++ [(a.conn, Pkt.closed)] ∧ ∀ j, (w2.node j).log = (w1.node j).log := by
  intro w1 w2
  have hT : TakenOver w w1 i a c ka will :=
    takeover_world w (reachable_inv w hr) (reachable_inv13 w hr) i hi a ha mdA hcur hcurid c hc hrec ka will
  exact takeover_old_ends hT hi ha (reachable_not_deaf w hr i a (AgentD.sess_some ha).1)

/-- the new session's PINGREQ is answered -/
theorem C12_e2e_takeover_new_answered (w : World) (hr : Reachable w) (i : Nat) (hi : i < w.nodes.length)
    (a : Sess) (ha : (w.node i).sess a.id = some a)
    (mdA : SessionMD) (hcur : sessByClientID (w.node i).dist a.mount a.client = [mdA]) (hcurid : mdA.id = a.id)
    (c : String) (hc : w.conns.any (fun e => e.1 == c) = false) (hcs : (w.node i).sess ("S" ++ c) = none)
    (hrec : ∀ s, sessLookup ("S" ++ c) (w.node i).dist.sessions = some s → isAdded s.stamp = false)
    (ka : Nat) (will : Option Will) :
    let w1 := applyOp w (.connect c i a.client a.mount true ka will)
    (applyOp w1 (.packet c .pingreq)).out = w1.out ++ [(c, Pkt.pingresp)] := by
  intro w1
  have hT : TakenOver w w1 i a c ka will :=
    takeover_world w (reachable_inv w hr) (reachable_inv13 w hr) i hi a ha mdA hcur hcurid c hc hrec ka will
  exact takeover_new_answered hT hcs

/-- C12: take-over on the same node (no hypothesis about `deaf`, see above) -/
theorem C12_e2e_takeover (w : World) (hr : Reachable w) (i : Nat) (hi : i < w.nodes.length) (hf : (w.node i).failed = false)
    (a : Sess) (ha : (w.node i).sess a.id = some a)
    (mdA : SessionMD) (hcur : sessByClientID (w.node i).dist a.mount a.client = [mdA]) (hcurid : mdA.id = a.id)
    (c : String) (hc : w.conns.any (fun e => e.1 == c) = false) (hcs : (w.node i).sess ("S" ++ c) = none)
    (hrec : ∀ s, sessLookup ("S" ++ c) (w.node i).dist.sessions = some s → isAdded s.stamp = false)
    (ka : Nat) (will : Option Will) :
    let w1 := applyOp w (.connect c i a.client a.mount true ka will)
    -- the identifier resolves to the new session only, which is registered and acknowledged
    (∃ md, sessByClientID (w1.node i).dist a.mount a.client = [md] ∧ md.id = "S" ++ c) ∧
    ((w1.node i).sess ("S" ++ c)).isSome = true ∧ (c, Pkt.connack 0) ∈ w1.out ∧
    -- the old session is still registered until its next keep-alive exchange …
    ((w1.node i).sess a.id).isSome = true ∧
    -- … which ends it: closed, no PINGRESP, no will in any log
    (let w2 := applyOp w1 (.packet a.conn .pingreq)
     (w2.node i).sess a.id = none ∧ (a.conn, Pkt.closed) ∈ w2.out.drop w1.out.length ∧
     (a.conn, Pkt.pingresp) ∉ w2.out.drop w1.out.length ∧ ∀ j, (w2.node j).log = (w1.node j).log) ∧
    -- the new session's keep-alive exchange is answered
    (c, Pkt.pingresp) ∈ (applyOp w1 (.packet c .pingreq)).out.drop w1.out.length := by
  have _ := hf
  intro w1
  obtain ⟨h1, h2, h3, h4⟩ := C12_e2e_takeover_connect w hr i hi a ha mdA hcur hcurid c hc hrec ka will
  obtain ⟨h5, h6, h7⟩ := C12_e2e_takeover_old_ends w hr i hi a ha mdA hcur hcurid c hc hrec ka will
  have h8 := C12_e2e_takeover_new_answered w hr i hi a ha mdA hcur hcurid c hc hcs hrec ka will
  refine ⟨h1, h2, h3, h4, ⟨h5, ?_, ?_, h7⟩, ?_⟩
  · rw [AgentT6.drop_out _ _ _ h6]; simp
  · rw [AgentT6.drop_out _ _ _ h6]; simp
  · rw [AgentT6.drop_out _ _ _ h8]; simp

/-! ### the hypotheses can be met; refused and re-used connection names -/

/-- "p" and "s" connect to a one-node cluster, "s" subscribes to "t" with QoS 0 -/
def C05E2E_ops : List BOp :=
  [.connect "p" 0 "idp" "m" true 60 none, .connect "s" 0 "ids" "m" true 60 none, .packet "s" (.subscribe 1 [("t", 0)])]

def C05E2E_world : World := run (World.init 1) C05E2E_ops

theorem C05E2E_world_reachable : Reachable C05E2E_world := ⟨1, C05E2E_ops, rfl⟩

/-- the hypotheses of the four C05 theorems hold in `C05E2E_world` (publisher "Sp", topic "t", identifier 5), and the
    packets are the ones the theorems say: PUBREC; then the delivery and PUBCOMP; a repeated PUBREL writes nothing -/
example :
    let w := C05E2E_world
    let w1 := (w.process 0 "Sp" (.publish "t" "pl" 2 false true 5)).1
    let w2 := (w1.process 0 "Sp" (.pubrel 5)).1
    let w3 := (w2.process 0 "Sp" (.pubrel 5)).1
    w.nodes.length = 1 ∧ ((w.node 0).sess "Sp").map (fun s => (s.id, s.conn, s.mount)) = some ("Sp", "p", "m") ∧
    Ack.msgFind (Ack.hashKey ("Sp" ++ "/in") 5) (w.node 0).acks.msgs = none ∧
    (∀ kl ∈ (w.node 0).dist.subs, ∀ u ∈ kl.2, u.qos = 0) ∧
    (w.node 0).logFailAll = false ∧ (w.node 0).logFailAt = [] ∧
    localRecipients w (prefixMountPoint "m" "t") = [("Ss", 0)] ∧
    w1.out = w.out ++ [("p", Pkt.pubrec 5)] ∧
    w2.out = w1.out ++ [("s", Pkt.publish "t" "pl" 0 false true 0), ("p", Pkt.pubcomp 5)] ∧
    w3.out = w2.out := by
  decide

/-- the log rejects: with a matching subscriber (`hmatch`) the PUBREL is not answered; with none, Distribute succeeds
    vacuously and PUBCOMP IS written — `hmatch` cannot be dropped from `C05_e2e_qos2_release_log_fails` -/
example :
    let w := applyOp C05E2E_world (.logFailAll 0 true)
    let w1 := (w.process 0 "Sp" (.publish "t" "pl" 2 false false 5)).1
    let v1 := (w.process 0 "Sp" (.publish "nobody" "pl" 2 false false 6)).1
    (w.node 0).logFailAll = true ∧
    (w1.process 0 "Sp" (.pubrel 5)).1.out = w1.out ∧
    localRecipients w (prefixMountPoint "m" "nobody") = [] ∧
    (v1.process 0 "Sp" (.pubrel 6)).1.out = v1.out ++ [("p", Pkt.pubcomp 6)] := by
  decide

/-- "s" subscribes to the will topic of "x"; "x" connects with client id "cl" and a will -/
def C12E2E_ops : List BOp :=
  [.connect "s" 0 "ids" "m" true 60 none, .packet "s" (.subscribe 1 [("wt", 0)]),
   .connect "x" 0 "cl" "m" true 30 (some ⟨"wt", "bye", 0, false⟩)]

def C12E2E_world : World := run (World.init 1) C12E2E_ops

theorem C12E2E_world_reachable : Reachable C12E2E_world := ⟨1, C12E2E_ops, rfl⟩

/-- the hypotheses of `C12_e2e_takeover` hold in `C12E2E_world` (i = 0, a = session "Sx", c = "y"), and what happens
    is what the theorem says — in particular the subscriber of the will topic gets nothing -/
example :
    let w := C12E2E_world
    let w1 := applyOp w (.connect "y" 0 "cl" "m" true 30 none)
    let w2 := applyOp w1 (.packet "x" .pingreq)
    (w.node 0).failed = false ∧
    ((w.node 0).sess "Sx").map (fun s => (s.id, s.conn, s.client, s.mount)) = some ("Sx", "x", "cl", "m") ∧
    (sessByClientID (w.node 0).dist "m" "cl").map (·.id) = ["Sx"] ∧
    w.conns.any (fun e => e.1 == "y") = false ∧ ((w.node 0).sess "Sy").isNone = true ∧
    sessLookup "Sy" (w.node 0).dist.sessions = none ∧ w.deaf = [] ∧
    (sessByClientID (w1.node 0).dist "m" "cl").map (·.id) = ["Sy"] ∧
    w1.out.drop w.out.length = [("y", Pkt.connack 0)] ∧
    ((w1.node 0).sess "Sx").isSome = true ∧
    ((w2.node 0).sess "Sx").isNone = true ∧ w2.out.drop w1.out.length = [("x", Pkt.closed)] ∧
    (w2.node 0).log = (w1.node 0).log ∧
    (applyOp w1 (.packet "y" .pingreq)).out.drop w1.out.length = [("y", Pkt.pingresp)] := by
  decide

/-- connection "x" is refused once (wrong password) and accepted on the second CONNECT: the second `.connect "x"` is a
    fresh connection, its name is cleared from `deaf` (before the model did that, the name stayed listed and this
    world was a counterexample to the take-over statement: the PINGREQ on "x" was not read). All hypotheses of
    `C12_e2e_takeover` hold (i = 0, a = session "Sx", c = "y"), "x" is not listed in `deaf`, and after the take-over the
    PINGREQ on "x" ends the old session -/
def C12E2E_refusedOld_ops : List BOp :=
  [.connect "x" 0 "cl" "m" false 30 none, .connect "x" 0 "cl" "m" true 30 none]

def C12E2E_refusedOld : World := run (World.init 1) C12E2E_refusedOld_ops

theorem C12E2E_refusedOld_reachable : Reachable C12E2E_refusedOld := ⟨1, C12E2E_refusedOld_ops, rfl⟩

example :
    let w0 := applyOp (World.init 1) (.connect "x" 0 "cl" "m" false 30 none)
    let w := C12E2E_refusedOld
    let w1 := applyOp w (.connect "y" 0 "cl" "m" true 30 none)
    let w2 := applyOp w1 (.packet "x" .pingreq)
    w0.deaf.contains "x" = true ∧
    0 < w.nodes.length ∧ (w.node 0).failed = false ∧
    ((w.node 0).sess "Sx").map (fun s => (s.id, s.conn, s.client, s.mount)) = some ("Sx", "x", "cl", "m") ∧
    (sessByClientID (w.node 0).dist "m" "cl").map (·.id) = ["Sx"] ∧
    w.conns.any (fun e => e.1 == "y") = false ∧ ((w.node 0).sess "Sy").isNone = true ∧
    sessLookup "Sy" (w.node 0).dist.sessions = none ∧
    w.deaf.contains "x" = false ∧
    ((w1.node 0).sess "Sx").isSome = true ∧
    ((w2.node 0).sess "Sx").isNone = true ∧ w2.out.drop w1.out.length = [("x", Pkt.closed)] ∧
    (w2.node 0).log = (w1.node 0).log := by
  decide

/-- connection "y" was refused and closed by the client before; its name is still listed in `deaf` when the second
    connection "y" arrives, and the `.connect "y"` operation clears it (before the model did that, this world was a
    counterexample: the new session's PINGREQ was not read). All hypotheses of `C12_e2e_takeover` hold (a = session
    "Sx", c = "y"), the take-over succeeds and the new session's PINGREQ is answered -/
def C12E2E_refusedNew_ops : List BOp :=
  [.connect "x" 0 "cl" "m" true 30 none, .connect "y" 0 "zz" "m" false 30 none, .drop "y"]

def C12E2E_refusedNew : World := run (World.init 1) C12E2E_refusedNew_ops

theorem C12E2E_refusedNew_reachable : Reachable C12E2E_refusedNew := ⟨1, C12E2E_refusedNew_ops, rfl⟩

example :
    let w := C12E2E_refusedNew
    let w1 := applyOp w (.connect "y" 0 "cl" "m" true 30 none)
    let w2 := applyOp w1 (.packet "x" .pingreq)
    0 < w.nodes.length ∧ (w.node 0).failed = false ∧
    ((w.node 0).sess "Sx").map (fun s => (s.id, s.conn, s.client, s.mount)) = some ("Sx", "x", "cl", "m") ∧
    (sessByClientID (w.node 0).dist "m" "cl").map (·.id) = ["Sx"] ∧
    w.conns.any (fun e => e.1 == "y") = false ∧ ((w.node 0).sess "Sy").isNone = true ∧
    sessLookup "Sy" (w.node 0).dist.sessions = none ∧
    w.deaf.contains "x" = false ∧ w.deaf.contains "y" = true ∧ w1.deaf.contains "y" = false ∧
    (sessByClientID (w1.node 0).dist "m" "cl").map (·.id) = ["Sy"] ∧
    ((w2.node 0).sess "Sx").isNone = true ∧ w2.out.drop w1.out.length = [("x", Pkt.closed)] ∧
    (applyOp w1 (.packet "y" .pingreq)).out.drop w1.out.length = [("y", Pkt.pingresp)] := by
  decide

end Wasp.Broker

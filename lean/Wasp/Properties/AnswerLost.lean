import Wasp.Model.AnswerLost
import Wasp.Properties.Reachable
/-!
# Failed answers (C11, C13, C18): what the broker's state is after it could not answer

`packetOnBrokenConn` is by definition one or two harness operations, so every reachable-world invariant carries over
(`answerLost_reachable`); and when the answer was lost nothing stays registered on the connection
(`answerLost_session_gone`) — with `C11_teardown_subscriptions_reachable` and the will theorems of `applyOp (.drop c)`
this is the whole end of a session.
-/
namespace Wasp.Broker
open Wasp.Broker.AgentT5

theorem run_snoc (w : World) (ops : List BOp) (op : BOp) : run w (ops ++ [op]) = applyOp (run w ops) op := by
  simp [run, List.foldl_append]

theorem reachable_step (w : World) (h : Reachable w) (op : BOp) : Reachable (applyOp w op) := by
  obtain ⟨n, ops, rfl⟩ := h
  exact ⟨n, ops ++ [op], (run_snoc _ ops op).symm⟩

/-- a packet on a broken connection leads from reachable worlds to reachable worlds: every invariant of
    `Properties/Reachable.lean` and `Properties/Reachable2.lean` holds afterwards -/
theorem answerLost_reachable (w : World) (h : Reachable w) (c : String) (pkt : CPkt) :
    Reachable (packetOnBrokenConn w c pkt) := by
  unfold packetOnBrokenConn
  split
  · exact reachable_step _ (reachable_step _ h _) _
  · exact reachable_step _ h _

theorem answerLost_inv (w : World) (h : Reachable w) (c : String) (pkt : CPkt) :
    GlobalInv (packetOnBrokenConn w c pkt) := reachable_inv _ (answerLost_reachable w h c pkt)

/-- when the answer could not be written no session stays registered on that connection, on any node -/
theorem answerLost_session_gone (w : World) (h : Reachable w) (c : String) (pkt : CPkt)
    (hl : answerLost w c pkt = true) :
    ∀ j, ∀ s ∈ ((packetOnBrokenConn w c pkt).node j).reg, s.conn ≠ c := by
  unfold packetOnBrokenConn
  rw [if_pos hl]
  have hgi : GI (applyOp w (.packet c pkt)) := (globalInv_iff _).mp (reachable_inv _ (reachable_step _ h _))
  exact (gi_closeFromClient hgi c).2

/-- when no direct answer is due (QoS 0/1 PUBLISH, acknowledgements, DISCONNECT) the packet is processed as on a healthy
    connection -/
theorem answerKept (w : World) (c : String) (pkt : CPkt) (hl : answerLost w c pkt = false) :
    packetOnBrokenConn w c pkt = applyOp w (.packet c pkt) := by
  unfold packetOnBrokenConn
  rw [if_neg (by simp [hl])]

/-- non-vacuity: a SUBSCRIBE of a connected client draws a SUBACK, and the session is gone afterwards -/
example :
    let w := run (World.init 1) [.connect "a" 0 "ca" "m" true 60 none]
    answerLost w "a" (.subscribe 1 [("t", 1)]) = true ∧
    ((packetOnBrokenConn w "a" (.subscribe 1 [("t", 1)])).node 0).reg = [] := by decide

end Wasp.Broker

import Wasp.Model.WireEnc
import Wasp.Proofs.WireT16
/-!
# The two entry paths of the model agree: packets as `CPkt` and packets as bytes

`Wasp/Model/WireEnc.lean` defines `encode : CPkt → Option Bytes`, the MQTT 3.1.1 wire form a well-behaved
client writes, and `WfPkt`, the (decidable) predicate under which `encode` is `some`.

* §1 `encode` is defined exactly on `WfPkt`, and yields bytes (numbers below 256); body sizes.
* §2 frame level: `takeFrame` splits an encoded packet off any buffer, `decodeBody` gives the packet back
     (`CPkt.normalise`: the packet id of a QoS 0 PUBLISH is not transmitted, the decoder reports 0);
     every proper prefix of an encoding makes `takeFrame` wait.
* §3 path agreement: on a connection with a session, bytes `encode p` do what `World.clientPacket c p` does.
* §4 CONNECT.
* §5 `decide`-checked byte strings.
* §6 the decoder's quirks: what is NOT true, as checked counterexamples.
-/
namespace Wasp.Wire
open Wasp.Broker Wasp.Dist Wasp.Wire.AgentT16

/-! ## §1 the domain of the encoder -/

theorem encode_isSome_iff (p : CPkt) : (encode p).isSome ↔ WfPkt p := by
  unfold encode
  split <;> simp [*]

theorem encode_eq_some_iff (p : CPkt) (bs : Bytes) :
    encode p = some bs ↔ WfPkt p ∧ bs = frameOf (ptypeOf p) (pflagsOf p) (bodyOf p) := by
  constructor
  · exact encode_eq
  · rintro ⟨h, rfl⟩
    unfold encode
    rw [if_pos h]

theorem encode_connect : encode .connect = none := rfl
theorem encode_other : encode .other = none := rfl

/-- what the encoder produces are bytes -/
theorem encode_bytes (p : CPkt) (bs : Bytes) (h : encode p = some bs) : ∀ b ∈ bs, b < 256 := by
  obtain ⟨hw, rfl⟩ := encode_eq h
  have := ptypeOf_le p
  exact allBytes_frameOf _ _ _ (by omega) (pflagsOf_lt p hw) (bodyOf_le p hw) (allBytes_bodyOf p hw)

/-- the size bound in `WfPkt`, spelled out: PUBLISH -/
theorem bodyLen_publish (topic payload : String) (qos : Nat) (retain dup : Bool) (mid : Int)
    (h : (unhex payload.toList).isSome) :
    (bodyOf (.publish topic payload qos retain dup mid)).length =
      2 + topic.length + (if qos = 0 then 0 else 2) + payload.length / 2 := by
  simp only [bodyOf, List.length_append, encStr_length, payloadBytes_length payload h]
  split <;> simp [be16_length] <;> omega

/-- SUBSCRIBE: packet id, then per filter 2 + length + 1 bytes -/
theorem bodyLen_subscribe (mid : Int) (ts : List (String × Nat)) :
    (bodyOf (.subscribe mid ts)).length = 2 + (ts.map (fun tq => tq.1.length + 3)).sum := by
  simp [bodyOf, be16_length, encSubs_length]

/-- UNSUBSCRIBE: packet id, then per filter 2 + length bytes -/
theorem bodyLen_unsubscribe (mid : Int) (ts : List String) :
    (bodyOf (.unsubscribe mid ts)).length = 2 + (ts.map (fun t => t.length + 2)).sum := by
  simp [bodyOf, be16_length, encUnsubs_length]

/-! ## §2 round trip at frame level -/

/-- the decoder's frame splitter takes exactly the encoded packet off the front of any buffer -/
theorem takeFrame_encode (p : CPkt) (bs rest : Bytes) (h : encode p = some bs) :
    takeFrame (bs ++ rest) = .frame (ptypeOf p) (pflagsOf p) (bodyOf p) rest := by
  obtain ⟨hw, rfl⟩ := encode_eq h
  exact takeFrame_frameOf _ _ _ _ (pflagsOf_lt p hw) (bodyOf_le p hw)

/-- … and the body decodes to the packet (up to the untransmitted packet id of a QoS 0 PUBLISH) -/
theorem decodeBody_encode (p : CPkt) (h : WfPkt p) :
    decodeBody (ptypeOf p) (pflagsOf p) (bodyOf p) = .pkt p.normalise :=
  AgentT16.decodeBody_encode p h

/-- round trip: encode, split, decode -/
theorem encode_roundTrip (p : CPkt) (bs rest : Bytes) (h : encode p = some bs) :
    ∃ t f body, takeFrame (bs ++ rest) = .frame t f body rest ∧ decodeBody t f body = .pkt p.normalise :=
  ⟨_, _, _, takeFrame_encode p bs rest h, decodeBody_encode p (encode_eq h).1⟩

/-- a packet arriving in pieces is not acted upon before it is complete -/
theorem takeFrame_encode_prefix (p : CPkt) (bs : Bytes) (k : Nat) (h : encode p = some bs) (hk : k < bs.length) :
    takeFrame (bs.take k) = .need := by
  obtain ⟨hw, rfl⟩ := encode_eq h
  exact takeFrame_frameOf_take _ _ _ k (bodyOf_le p hw) hk

theorem normalise_idem (p : CPkt) : p.normalise.normalise = p.normalise := by
  cases p <;> simp only [CPkt.normalise]
  split <;> simp [*]

/-- only a QoS 0 PUBLISH is changed by `normalise` -/
theorem normalise_eq_self (p : CPkt) (h : ∀ t pl r d m, p ≠ .publish t pl 0 r d m) : p.normalise = p :=
  normalise_of_ne p h

/-- the broker does not look at the packet id of a QoS 0 PUBLISH -/
theorem clientPacket_normalise (w : World) (c : String) (p : CPkt) :
    w.clientPacket c p.normalise = w.clientPacket c p :=
  AgentT16.clientPacket_normalise w c p

/-! ## §3 path agreement -/

/-- the packet path leaves the byte buffers alone -/
theorem clientPacket_bufs (w : World) (c : String) (p : CPkt) : (w.clientPacket c p).bufs = w.bufs :=
  AgentT16.clientPacket_bufs w c p

/-- Connection `c` has a session, is being read, and has no unconsumed bytes: the bytes of `p` do exactly what the
    packet `p` does, and the client's write completes. (`setBuf w c []` removes a possible entry `(c, [])` from
    `w.bufs`; the model itself never stores one, see the next two theorems.) -/
theorem rawBytes_encode (w : World) (c : String) (p : CPkt) (bs : Bytes)
    (hs : hasSession w c = true) (hd : w.deaf.contains c = false) (hb : bufOf w c = [])
    (h : encode p = some bs) :
    rawBytes w c bs = ((setBuf w c []).clientPacket c p, true) := by
  obtain ⟨hw, rfl⟩ := encode_eq h
  rw [rawBytes_frame w c _ _ _ p.normalise hs hd hb (pflagsOf_lt p hw) (bodyOf_le p hw) (decodeBody_encode p hw)]
  rw [clientPacket_normalise]

/-- no buffer entry for `c` at all: plain equality of the two entry paths -/
theorem rawBytes_encode_eq (w : World) (c : String) (p : CPkt) (bs : Bytes)
    (hs : hasSession w c = true) (hd : w.deaf.contains c = false) (hb : ∀ e ∈ w.bufs, e.1 ≠ c)
    (h : encode p = some bs) :
    rawBytes w c bs = (w.clientPacket c p, true) := by
  rw [rawBytes_encode w c p bs hs hd (bufOf_nil_of_noEntry hb) h, setBuf_nil_of_noEntry hb]

/-- the same under the discipline `setBuf` keeps (no empty buffer is ever stored) -/
theorem rawBytes_encode_eq' (w : World) (c : String) (p : CPkt) (bs : Bytes)
    (hs : hasSession w c = true) (hd : w.deaf.contains c = false) (hb : bufOf w c = [])
    (hinv : ∀ e ∈ w.bufs, e.2 ≠ []) (h : encode p = some bs) :
    (rawBytes w c bs).1 = w.clientPacket c p.normalise := by
  rw [rawBytes_encode_eq w c p bs hs hd (noEntry_of_bufOf_nil hinv hb) h, clientPacket_normalise]

/-- in general: equality up to `bufs`, and the resulting `bufs` are the old ones without `c`'s entry -/
theorem rawBytes_encode_upto_bufs (w : World) (c : String) (p : CPkt) (bs : Bytes)
    (hs : hasSession w c = true) (hd : w.deaf.contains c = false) (hb : bufOf w c = [])
    (h : encode p = some bs) :
    (rawBytes w c bs).1 = ({ w with bufs := w.bufs.filter (fun e => e.1 != c) } : World).clientPacket c p.normalise ∧
    (rawBytes w c bs).1.bufs = w.bufs.filter (fun e => e.1 != c) := by
  rw [rawBytes_encode w c p bs hs hd hb h, clientPacket_normalise]
  have e : setBuf w c [] = ({ w with bufs := w.bufs.filter (fun e => e.1 != c) } : World) := by
    simp [setBuf]
  rw [e]
  exact ⟨rfl, clientPacket_bufs _ _ _⟩

/-- the packet arrives in two writes: the first only buffers, the second completes what one write would have done -/
theorem rawBytes_encode_split (w : World) (c : String) (p : CPkt) (bs : Bytes) (k : Nat)
    (hs : hasSession w c = true) (hd : w.deaf.contains c = false) (hb : bufOf w c = [])
    (h : encode p = some bs) (hk : k < bs.length) :
    rawBytes w c (bs.take k) = (setBuf w c (bs.take k), true) ∧
    rawBytes (rawBytes w c (bs.take k)).1 c (bs.drop k) = ((setBuf w c []).clientPacket c p, true) := by
  have hsp := rawBytes_split w c bs k (any_of_hasSession hs) hd hb (takeFrame_encode_prefix p bs k h hk)
  refine ⟨hsp.1, ?_⟩
  rw [hsp.1, hsp.2]
  exact rawBytes_encode w c p bs hs hd hb h

/-! ## §4 CONNECT -/

theorem encodeConnect_isSome_iff (client user pass : String) (ka : Nat) (will : Option Will) :
    (encodeConnect client user pass ka will).isSome ↔ WfConnect client user pass ka will := by
  unfold encodeConnect
  split <;> simp [*]

theorem encodeConnect_eq {client user pass : String} {ka : Nat} {will : Option Will} {bs : Bytes}
    (h : encodeConnect client user pass ka will = some bs) :
    WfConnect client user pass ka will ∧ bs = frameOf 1 0 (connectBody client user pass ka will) := by
  unfold encodeConnect at h
  split at h
  · rename_i hw
    injection h with h
    exact ⟨hw, h.symm⟩
  · cases h

theorem encodeConnect_bytes (client user pass : String) (ka : Nat) (will : Option Will) (bs : Bytes)
    (h : encodeConnect client user pass ka will = some bs) : ∀ b ∈ bs, b < 256 := by
  obtain ⟨hw, rfl⟩ := encodeConnect_eq h
  exact allBytes_frameOf _ _ _ (by omega) (by omega) hw.2.2.2.2.2.2 (allBytes_connectBody _ _ _ _ _ hw)

/-- round trip: the CONNECT packet is split off and decodes to its five components -/
theorem encodeConnect_roundTrip (client user pass : String) (ka : Nat) (will : Option Will) (bs rest : Bytes)
    (h : encodeConnect client user pass ka will = some bs) :
    ∃ body, takeFrame (bs ++ rest) = .frame 1 0 body rest ∧
      decodeBody 1 0 body = .connect client user pass ka will := by
  obtain ⟨hw, rfl⟩ := encodeConnect_eq h
  exact ⟨_, takeFrame_frameOf 1 0 _ rest (by omega) hw.2.2.2.2.2.2, decodeBody_connectBody _ _ _ _ _ hw⟩

theorem encodeConnect_prefix (client user pass : String) (ka : Nat) (will : Option Will) (bs : Bytes) (k : Nat)
    (h : encodeConnect client user pass ka will = some bs) (hk : k < bs.length) : takeFrame (bs.take k) = .need := by
  obtain ⟨hw, rfl⟩ := encodeConnect_eq h
  exact takeFrame_frameOf_take _ _ _ k hw.2.2.2.2.2.2 hk

/-- a CONNECT packet on an accepted connection without session: the byte path runs `World.connect` on the node that
    accepted the connection, authenticated iff the password is "ok" (the harness convention) -/
theorem rawBytes_encodeConnect (w : World) (c c' : String) (i : Nat) (client user pass : String) (ka : Nat)
    (will : Option Will) (bs : Bytes)
    (hf : w.conns.find? (fun e => e.1 == c) = some (c', i)) (hs : hasSession w c = false)
    (hd : w.deaf.contains c = false) (hb : bufOf w c = [])
    (h : encodeConnect client user pass ka will = some bs) :
    rawBytes w c bs = ((setBuf w c []).connect c i client user (decide (pass = "ok")) ka will, true) := by
  obtain ⟨hw, rfl⟩ := encodeConnect_eq h
  exact rawBytes_connectFrame w c c' i _ client user pass ka will hf hs hd hb hw.2.2.2.2.2.2
    (decodeBody_connectBody _ _ _ _ _ hw)

/-- a second CONNECT on a connection that has a session: the byte path hands `.connect` to the packet path (which
    treats it as a protocol violation and ends the session) -/
theorem rawBytes_encodeConnect_again (w : World) (c : String) (client user pass : String) (ka : Nat)
    (will : Option Will) (bs : Bytes)
    (hs : hasSession w c = true) (hd : w.deaf.contains c = false) (hb : bufOf w c = [])
    (h : encodeConnect client user pass ka will = some bs) :
    rawBytes w c bs = ((setBuf w c []).clientPacket c .connect, true) := by
  obtain ⟨hw, rfl⟩ := encodeConnect_eq h
  have hs' : hasSession (setBuf w c []) c = true := hs
  have e := applyDecoded_connect_again (setBuf w c []) c client user pass ka will hs'
  have hdec := decodeBody_connectBody _ _ _ _ _ hw
  have := rawBytes_frame_gen w c 1 0 _ (any_of_hasSession hs) hd hb (by omega) hw.2.2.2.2.2.2
    (by rw [hdec, e]; exact clientPacket_bufs _ _ _)
  rw [this, hdec, e]

/-! ## §5 concrete byte strings -/

example : encode .pingreq = some [0xC0, 0] := by decide
example : encode .disconnect = some [0xE0, 0] := by decide
example : encode (.puback 7) = some [0x40, 2, 0, 7] := by decide
example : encode (.pubrec 258) = some [0x50, 2, 1, 2] := by decide
example : encode (.pubrel 7) = some [0x62, 2, 0, 7] := by decide
example : encode (.pubcomp 65535) = some [0x70, 2, 255, 255] := by decide
example : encode (.publish "a/b" "01" 1 false false 7) = some [0x32, 8, 0, 3, 97, 47, 98, 0, 7, 1] := by decide
example : encode (.publish "a/b" "01ff" 0 true false 0) = some [0x31, 7, 0, 3, 97, 47, 98, 1, 255] := by decide
example : encode (.publish "a/b" "" 2 false true 300) = some [0x3C, 7, 0, 3, 97, 47, 98, 1, 44] := by decide
example : encode (.subscribe 5 [("a/#", 1)]) = some [0x82, 8, 0, 5, 0, 3, 97, 47, 35, 1] := by decide
example : encode (.subscribe 5 [("a", 0), ("+/b", 2)]) = some [0x82, 12, 0, 5, 0, 1, 97, 0, 0, 3, 43, 47, 98, 2] := by
  decide
example : encode (.unsubscribe 6 ["a/#"]) = some [0xA2, 7, 0, 6, 0, 3, 97, 47, 35] := by decide
example : encodeConnect "cl" "m" "ok" 60 none =
    some [0x10, 21, 0, 4, 77, 81, 84, 84, 4, 192, 0, 60, 0, 2, 99, 108, 0, 1, 109, 0, 2, 111, 107] := by decide
example : encodeConnect "cl" "" "" 60 (some ⟨"w", "ff", 1, true⟩) =
    some [0x10, 20, 0, 4, 77, 81, 84, 84, 4, 44, 0, 60, 0, 2, 99, 108, 0, 1, 119, 0, 1, 255] := by decide
/-- a two-byte remaining length -/
example : encRemLen 321 = [193, 2] := by decide
example : encRemLen 127 = [127] := by decide
example : encRemLen 128 = [128, 1] := by decide
example : encRemLen 268435455 = [255, 255, 255, 127] := by decide

/-- ill-formed packets have no wire form -/
example : encode (.publish "a/b" "0g" 1 false false 7) = none := by decide
example : encode (.publish "a/b" "012" 1 false false 7) = none := by decide
example : encode (.publish "a/b" "01" 1 false false 65536) = none := by decide
example : encode (.publish "a/b" "01" 3 false false 1) = none := by decide
example : encode (.puback (-1)) = none := by decide
example : encode (.subscribe 5 []) = none := by decide
example : encode (.unsubscribe 5 []) = none := by decide
example : encode (.subscribe 5 [("a", 3)]) = none := by decide

/-! ## §6 what is NOT true (the decoder model is faithful to the real decoder's quirks)

Each item is a natural-looking statement that fails, with a checked counterexample, and the true variant. -/

/-- "decodeBody gives back `p`" fails for a QoS 0 PUBLISH with a non-zero packet id: the id is not on the wire.
    True variant: `decodeBody_encode` (`p.normalise`), and `clientPacket_normalise` (the broker does not care). -/
example : encode (.publish "a" "" 0 false false 7) = some [0x30, 3, 0, 1, 97] ∧
    decodeBody 3 0 [0, 1, 97] = .pkt (.publish "a" "" 0 false false 0) := ⟨by decide, rfl⟩

/-- "every `CPkt` the decoder can produce has an encoding" fails: the decoder accepts QoS 3 (flags 6) and the
    packet path ignores such a PUBLISH; a well-behaved client never sends it and `encode` refuses it. -/
example : decodeBody 3 6 [0, 1, 97, 0, 1] = .pkt (.publish "a" "" 3 false false 1) ∧
    encode (.publish "a" "" 3 false false 1) = none := ⟨rfl, by decide⟩

/-- "SUBSCRIBE / UNSUBSCRIBE with an empty filter list round-trips" fails: the topic counters reject an empty list,
    SUBSCRIBE with a decoder error, UNSUBSCRIBE with an index-out-of-range panic (both end the connection).
    Hence `ts ≠ []` in `WfPkt`. -/
example : decodeBody 8 2 [0, 5] = .err ∧ decodeBody 10 2 [0, 5] = .panic := ⟨rfl, rfl⟩

/-- "the encoding is the only byte string that decodes to `p`" fails: the frame splitter accepts a padded remaining
    length and ignores the flags nibble of PINGREQ. (A fifth length byte is a panic.) -/
example : takeFrame [0xC0, 0x80, 0] = .frame 12 0 [] [] ∧ takeFrame [0xC5, 0] = .frame 12 5 [] [] ∧
    decodeBody 12 5 [] = .pkt .pingreq ∧ takeFrame [0xC0, 0x80, 0x80, 0x80, 0x80, 0] = .panic [0] :=
  ⟨rfl, rfl, rfl, rfl⟩

set_option maxRecDepth 8000 in
/-- CONNECT: a keep-alive of 0 comes back as 30, and a will with an empty topic comes back as no will; hence
    `0 < keepalive` in `WfConnect` and `topic ≠ ""` in `WfWill`. -/
example : decodeBody 1 0 (connectBody "cl" "" "" 0 none) = .connect "cl" "" "" 30 none ∧
    decodeBody 1 0 (connectBody "cl" "" "" 5 (some ⟨"", "ff", 1, false⟩)) = .connect "cl" "" "" 5 none :=
  ⟨by rfl, by rfl⟩

/-- a world with a registered session on connection "c" (one node) -/
def sessionWorld (bufs : List (String × Bytes)) : World :=
  { (World.init 1) with
    nodes := [{ peer := 1, dist := { peer := 1 }, pool := initPool,
                reg := [{ id := "Sc", conn := "c", client := "x", mount := "m", keepalive := 30, will := none }] }],
    conns := [("c", 0)], bufs := bufs }

/-- "with `bufOf w c = []` the byte path and the packet path give the same world" fails on a world that stores an
    empty buffer `(c, [])`: the byte path drops the entry, the packet path keeps it. The model itself never stores an
    empty buffer (`setBuf`), so this is an unreachable world; true variants: `rawBytes_encode` (general),
    `rawBytes_encode_eq` / `rawBytes_encode_eq'` (no entry / no empty entries), `rawBytes_encode_upto_bufs`. -/
example : hasSession (sessionWorld [("c", [])]) "c" = true ∧ (sessionWorld [("c", [])]).deaf.contains "c" = false ∧
    bufOf (sessionWorld [("c", [])]) "c" = [] ∧ encode .pingreq = some [0xC0, 0] ∧
    (rawBytes (sessionWorld [("c", [])]) "c" [0xC0, 0]).1.bufs = [] ∧
    ((sessionWorld [("c", [])]).clientPacket "c" .pingreq).bufs = [("c", [])] := by decide

/-- "a packet that arrived only in part is never acted upon" holds while the connection stays open
    (`takeFrame_encode_prefix`, `rawBytes_encode_split`) but fails when the client closes the connection: the
    part that is there is decoded zero-padded. Here 9 of the 10 bytes of a QoS 1 PUBLISH (payload "01") arrive,
    the client closes, and the broker acknowledges a PUBLISH (with payload "00") that was never sent. -/
example : encode (.publish "a/b" "01" 1 false false 7) = some ([0x32, 8, 0, 3, 97, 47, 98, 0, 7] ++ [1]) ∧
    (rawBytes (sessionWorld []) "c" [0x32, 8, 0, 3, 97, 47, 98, 0, 7]).1.out = [] ∧
    (closeFromClientRaw (rawBytes (sessionWorld []) "c" [0x32, 8, 0, 3, 97, 47, 98, 0, 7]).1 "c").out =
      [("c", .puback 7), ("c", .closed)] := by decide

end Wasp.Wire

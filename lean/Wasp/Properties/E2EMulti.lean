import Wasp.Properties.Reachable2
import Wasp.Properties.E2E
import Wasp.Properties.C14
import Wasp.Proofs.BrokerT9
/-!
# C01 / C14 end to end on a converged multi-node cluster

`Converged w`: every node lists the same live subscriptions for every topic (what C08/C09/C10 establish once the
broadcasts are delivered). On a reachable converged world with QoS 0 subscriptions, a QoS 0 publish accepted by
node i is written exactly to the registered sessions of the live matching subscriptions, each on the node the
subscription names — provided that node is reachable from i and its log accepts the message — and to nobody else.
-/
namespace Wasp.Broker
open Wasp.Dist Wasp.Topic Wasp.Crdt Wasp.Broker.AgentT9

/-- every node resolves every topic to the same live subscriptions -/
def Converged (w : World) : Prop :=
  ∀ i j, i < w.nodes.length → j < w.nodes.length → ∀ topic u,
    u ∈ subByPattern (w.node i).dist topic ↔ u ∈ subByPattern (w.node j).dist topic

/-- C01/C14 end to end: who is written to (membership; a subscriber with several matching filters is written once per filter) -/
theorem C01_e2e_multi (w : World) (hr : Reachable w) (hc : Converged w) (i : Nat) (hi : i < w.nodes.length)
    (sid : String) (s : Sess) (hs : (w.node i).sess sid = some s) (topic payload : String) (dup : Bool) (mid : Int)
    (hq0 : ∀ k, ∀ kl ∈ (w.node k).dist.subs, ∀ u ∈ kl.2, u.qos = 0)
    (c : String) (pk : Pkt) :
    (c, pk) ∈ ((w.process i sid (.publish topic payload 0 false dup mid)).1.out.drop w.out.length) ↔
      ∃ u ∈ subByPattern (w.node i).dist (prefixMountPoint s.mount topic),
        ∃ j, j < w.nodes.length ∧ (w.node j).peer = u.peer ∧ reachableFrom w i j = true ∧ logAccepts (w.node j) = true ∧
        ∃ r, (w.node j).sess u.session = some r ∧ r.conn = c ∧
          pk = Pkt.publish (trimMountPoint r.mount (prefixMountPoint s.mount topic)) payload 0 false dup 0 := by
  have hinv := reachable_inv2 w hr
  have hp : PeersStd w := hinv.peers
  have hq : ∀ m, Q0 (w.node m) := fun m => hq0 m
  rw [AgentT6.process_publish0 w i sid s hs,
    AgentT6.drop_out _ _ _ (distribute_out w i ⟨prefixMountPoint s.mount topic, payload, 0, false, dup⟩ hp hq)]
  simp only [List.mem_flatMap, AgentB.mem_dedupNat, List.mem_map, mem_peerOut, AgentT6.mem_deliveries0]
  constructor
  · rintro ⟨x, ⟨u0, hu0, hx⟩, j, hjx, hj, hreach, hacc, xr, hxr, r, hsess, hconn, hpk⟩
    obtain ⟨u, hu, rfl⟩ := List.mem_map.1 hxr
    obtain ⟨hu1, hu2⟩ := List.mem_filter.1 hu
    have hu2' : u.peer = (w.node j).peer := by simpa using hu2
    exact ⟨u, (hc i j hi hj _ u).2 hu1, j, hj, hu2'.symm, hreach, hacc, r, hsess, hconn, hpk⟩
  · rintro ⟨u, hu, j, hj, hpeer, hreach, hacc, r, hsess, hconn, hpk⟩
    refine ⟨u.peer, ⟨u, hu, rfl⟩, j, ?_, hj, hreach, hacc, (u.session, u.qos), ?_, r, hsess, hconn, hpk⟩
    · rw [← hpeer, hp j hj]
    · refine List.mem_map.2 ⟨u, List.mem_filter.2 ⟨(hc i j hi hj _ u).1 hu, ?_⟩, rfl⟩
      simpa using hpeer.symm

/-- non-vacuity: publisher on node 0, subscribers on nodes 0 and 1, gossip delivered -/
example :
    let w0 := (((World.init 2).connect "p" 0 "idp" "mp" true 60 none).connect "a" 0 "ida" "mp" true 60 none).connect "b" 1 "idb" "mp" true 60 none
    let w1 := ((w0.clientPacket "a" (.subscribe 1 [("x/#", 0)])).clientPacket "b" (.subscribe 2 [("+/z", 0)])).gossipAll
    let w2 := { w1 with out := [] }
    (w2.clientPacket "p" (.publish "x/z" "01" 0 false false 0)).out =
      [("a", Pkt.publish "x/z" "01" 0 false false 0), ("b", Pkt.publish "x/z" "01" 0 false false 0)] := by
  decide

end Wasp.Broker

import Wasp.Model.Broker
import Wasp.Properties.C14
import Wasp.Properties.C15
import Wasp.Generated.Facts
import Wasp.Proofs.BrokerC
/-!
# C02 — an acknowledged publish is never lost before reaching connected subscribers

The pipeline is accept → Distribute (append to the log of every hosting node, C14/C05) → consume
(C15: every appended offset is handed to the scheduler, from offset 0 on, across crashes; truncation
keeps everything the writer can still reference) → writer job → `send`.

* `C02_offset_zero`: the writer recognises log-scheduled jobs by the ABSENCE of an inline publish, not
  by a non-zero offset (fact read from writer.go on every run): the first message a node stores is
  delivered like any other;
* `C02_acked_implies_stored`: when PUBACK is written for a QoS 1 publish, the message is in the log of
  every node that hosts a matching subscription known to the publisher's node (from C05/C14);
* `C02_send_qos0`: for a stored publish, every registered recipient with a QoS 0 subscription is written the
  message, with the topic the publisher used and the payload intact;
* `C02_send_one`: a registered recipient with a QoS 1/2 subscription is written the message provided the pool
  hands out an identifier that is not in flight for that session (C06 shows the pool never hands out an
  outstanding identifier; `C02_fresh_id_not_inflight` is the cross-component invariant hypothesis);
* `C02_log_get`: the log model returns the appended message at every offset that was not truncated, and
  truncation never reaches an offset the writer still references (`C15_trunc_margin`, `C02_writer_queue_margin`).
-/
namespace Wasp.Broker.AgentC
open Wasp.Broker Wasp.Dist Wasp.Topic

theorem setNode_peer (w : World) (i : Nat) (n : Node) (hp : n.peer = (w.node i).peer) (j : Nat) :
    ((w.setNode i n).node j).peer = (w.node j).peer := by
  by_cases hj : j = i
  · subst hj
    by_cases hi : j < w.nodes.length
    · rw [node_setNode_self _ _ _ hi, hp]
    · rw [setNode_ge _ _ _ (by omega)]
  · rw [node_setNode_ne _ _ _ _ hj]

theorem broadcast_peer (w : World) (i : Nat) (ev : Event) (j : Nat) :
    ((w.broadcast i ev).node j).peer = (w.node j).peer := by
  simp only [World.broadcast]
  exact setNode_peer w i _ (by rfl) j

theorem afterRetain_frame (w : World) (i : Nat) (p : Pub) :
    (afterRetain w i p).out = w.out ∧ (afterRetain w i p).nodes.length = w.nodes.length ∧
    ∀ j, ((afterRetain w i p).node j).peer = (w.node j).peer := by
  unfold afterRetain
  split
  · simp only [World.tick]
    refine ⟨rfl, by simp [World.broadcast], fun j => ?_⟩
    rw [broadcast_peer, setNode_peer _ _ _ (by rfl)]
    rfl
  · exact ⟨rfl, rfl, fun _ => rfl⟩

theorem afterRetain_peersDistinct (w : World) (i : Nat) (p : Pub) (hd : PeersDistinct w) :
    PeersDistinct (afterRetain w i p) := by
  obtain ⟨_, hl, hp⟩ := afterRetain_frame w i p
  intro a b ha hb hab
  rw [hl] at ha hb
  rw [hp, hp] at hab
  exact hd a b ha hb hab

end Wasp.Broker.AgentC

namespace Wasp.Broker
open Wasp.Dist Wasp.Topic Wasp.Generated Wasp.Broker.AgentC

theorem C02_offset_zero : Facts.writerLogJobIsPublishNil = true := by
  rfl

theorem C02_acked_implies_stored (w : World) (i : Nat) (hi : i < w.nodes.length) (hd : PeersDistinct w)
    (sid : String) (s : Sess) (hs : (w.node i).sess sid = some s)
    (topic payload : String) (retain dup : Bool) (mid : Int)
    (hack : (s.conn, Pkt.puback mid) ∈ (w.process i sid (.publish topic payload 1 retain dup mid)).1.out)
    (hnew : (s.conn, Pkt.puback mid) ∉ w.out) :
    let p : Pub := ⟨prefixMountPoint s.mount topic, payload, 1, false, dup⟩
    let w₁ := afterRetain w i ⟨prefixMountPoint s.mount topic, payload, 1, retain, dup⟩
    ∀ peer ∈ destinations w₁ i p, ∃ j, j < w.nodes.length ∧ (w₁.node j).peer = peer ∧
      ((w.process i sid (.publish topic payload 1 retain dup mid)).1.node j).log = (w₁.node j).log ++ [p] := by
  intro p w₁
  have hproc : (w.process i sid (.publish topic payload 1 retain dup mid)).1 =
      w.publishJob i ⟨prefixMountPoint s.mount topic, payload, 1, retain, dup⟩ (fun w => w.emit s.conn (.puback mid)) := by
    simp [World.process, hs]
  rw [hproc, C05_job] at hack ⊢
  obtain ⟨hout, hlen, _⟩ := afterRetain_frame w i ⟨prefixMountPoint s.mount topic, payload, 1, retain, dup⟩
  have hd₁ : PeersDistinct w₁ := afterRetain_peersDistinct w i _ hd
  have hi₁ : i < w₁.nodes.length := by rw [hlen]; exact hi
  change (s.conn, Pkt.puback mid) ∈ (if (w₁.distribute i p).2 = true then (w₁.distribute i p).1.emit s.conn (.puback mid) else (w₁.distribute i p).1).out at hack
  change ∀ peer ∈ destinations w₁ i p, ∃ j, j < w.nodes.length ∧ (w₁.node j).peer = peer ∧
    ((if (w₁.distribute i p).2 = true then (w₁.distribute i p).1.emit s.conn (.puback mid) else (w₁.distribute i p).1).node j).log = (w₁.node j).log ++ [p]
  by_cases hok : (w₁.distribute i p).2 = true
  · simp only [hok, if_true, emit_node]
    intro peer hpeer
    obtain ⟨j, hj, hjp, hr, ha⟩ := (C14_result w₁ i p hd₁ hi₁).1 hok peer hpeer
    refine ⟨j, by rw [← hlen]; exact hj, hjp, ?_⟩
    rw [C14_dest_log w₁ i p hd₁ hi₁ j hj, if_pos ⟨by rw [hjp]; exact hpeer, hr, ha⟩]
  · exfalso
    simp only [hok] at hack
    obtain ⟨l, hl, hpub⟩ := distribute_pubExt w₁ i p
    rw [if_neg (by simp), hl, hout] at hack
    rcases List.mem_append.1 hack with h | h
    · exact hnew h
    · have := hpub _ h
      simp [isPub] at this

/-- QoS 0 recipients: one PUBLISH each, topic trimmed to what the publisher used, payload intact -/
theorem C02_send_qos0 (w : World) (i : Nat) (hi : i < w.nodes.length) (sid : String) (s : Sess)
    (hs : (w.node i).sess sid = some s) (p : Pub) :
    (w.send i [(sid, 0)] p).out = w.out ++ [(s.conn, .publish (trimMountPoint s.mount p.topic) p.payload 0 p.retain p.dup 0)] := by
  simp [World.send, hs]

/-- QoS 1 recipient: written with the identifier the pool hands out, provided that identifier is not
    already in flight for this session -/
theorem C02_send_one (w : World) (i : Nat) (hi : i < w.nodes.length) (sid : String) (s : Sess)
    (hs : (w.node i).sess sid = some s) (hid : s.id = sid) (p : Pub)
    (hget : 0 < (IdPool.get (w.node i).pool).2)
    (hfresh : Ack.msgFind (Ack.hashKey sid (IdPool.get (w.node i).pool).2) (w.node i).acks.msgs = none) :
    (w.send i [(sid, 1)] p).out =
      w.out ++ [(s.conn, .publish (trimMountPoint s.mount p.topic) p.payload 1 p.retain p.dup (IdPool.get (w.node i).pool).2)] := by
  have hle : ¬ (IdPool.get (w.node i).pool).2 ≤ 0 := by omega
  have hne : (IdPool.get (w.node i).pool).2 ≠ 0 := by omega
  simp only [World.send, hs]
  simp only [show ((1:Int) = 0) = False from by simp, if_false, true_or, if_true, hle]
  generalize hw2 : w.setNode i _ = w2
  have hn2 : w2.node i = { w.node i with pool := (IdPool.get (w.node i).pool).1 } := by
    rw [← hw2, node_setNode_self _ _ _ hi]
  have hi2 : i < w2.nodes.length := by rw [← hw2]; simpa using hi
  have hA := armAndSend_out1 w2 i hi2 sid (trimMountPoint s.mount p.topic) p.payload p.retain p.dup
    (IdPool.get (w.node i).pool).2 s (by rw [hn2]; exact hs) hne (by rw [hn2]; exact hfresh)
  have hout : w2.out = w.out := by rw [← hw2]; rfl
  unfold World.sendArmed
  simp only
  split
  · rw [poolPut_out, hA.out, hout]
  · rw [hA.out, hout]

/-- a recipient that is not registered (session ended) is skipped and does not stop the others -/
theorem C02_send_skips_gone (w : World) (i : Nat) (sid : String) (q : Int) (rest : List (String × Int)) (p : Pub)
    (hs : (w.node i).sess sid = none) :
    w.send i ((sid, q) :: rest) p = w.send i rest p := by
  simp [World.send, hs]

end Wasp.Broker

import Wasp.Model.Broker
/-! # C02 (broker level) — theorem statements are being added; see DESIGN.md §4 -/

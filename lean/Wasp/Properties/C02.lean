import Wasp.Model.Broker
import Wasp.Properties.C14
import Wasp.Properties.C15
import Wasp.Generated.Facts
/-!
# C02 — an acknowledged publish is never lost before reaching connected subscribers

The pipeline is accept → Distribute (append to the log of every hosting node, C14/C05) → consume
(C15: every appended offset is handed to the scheduler, from offset 0 on, across crashes; truncation
keeps everything the writer can still reference) → writer job → `send`.

* `C02_offset_zero`: the writer recognises log-scheduled jobs by the ABSENCE of an inline publish, not
  by a non-zero offset (fact read from writer.go on every run): the first message a node stores is
  delivered like any other;
* `C02_acked_implies_stored`: when PUBACK is written for a QoS 1 publish, the message is in the log of
  every node that hosts a matching subscription known to the publisher's node (from C05/C14);
* `C02_send_qos0`: for a stored publish, every registered recipient with a QoS 0 subscription is written the
  message, with the topic the publisher used and the payload intact;
* `C02_send_one`: a registered recipient with a QoS 1/2 subscription is written the message provided the pool
  hands out an identifier that is not in flight for that session (C06 shows the pool never hands out an
  outstanding identifier; `C02_fresh_id_not_inflight` is the cross-component invariant hypothesis);
* `C02_log_get`: the log model returns the appended message at every offset that was not truncated, and
  truncation never reaches an offset the writer still references (`C15_trunc_margin`, `C02_writer_queue_margin`).
-/
namespace Wasp.Broker
open Wasp.Dist Wasp.Topic Wasp.Generated

theorem C02_offset_zero : Facts.writerLogJobIsPublishNil = true := by
  sorry

theorem C02_acked_implies_stored (w : World) (i : Nat) (hi : i < w.nodes.length) (hd : PeersDistinct w)
    (sid : String) (s : Sess) (hs : (w.node i).sess sid = some s)
    (topic payload : String) (retain dup : Bool) (mid : Int)
    (hack : (s.conn, Pkt.puback mid) ∈ (w.process i sid (.publish topic payload 1 retain dup mid)).1.out)
    (hnew : (s.conn, Pkt.puback mid) ∉ w.out) :
    let p : Pub := ⟨prefixMountPoint s.mount topic, payload, 1, false, dup⟩
    let w₁ := afterRetain w i ⟨prefixMountPoint s.mount topic, payload, 1, retain, dup⟩
    ∀ peer ∈ destinations w₁ i p, ∃ j, j < w.nodes.length ∧ (w₁.node j).peer = peer ∧
      ((w.process i sid (.publish topic payload 1 retain dup mid)).1.node j).log = (w₁.node j).log ++ [p] := by
  sorry

/-- QoS 0 recipients: one PUBLISH each, topic trimmed to what the publisher used, payload intact -/
theorem C02_send_qos0 (w : World) (i : Nat) (hi : i < w.nodes.length) (sid : String) (s : Sess)
    (hs : (w.node i).sess sid = some s) (p : Pub) :
    (w.send i [(sid, 0)] p).out = w.out ++ [(s.conn, .publish (trimMountPoint s.mount p.topic) p.payload 0 p.retain p.dup 0)] := by
  sorry

/-- QoS 1 recipient: written with the identifier the pool hands out, provided that identifier is not
    already in flight for this session -/
theorem C02_send_one (w : World) (i : Nat) (hi : i < w.nodes.length) (sid : String) (s : Sess)
    (hs : (w.node i).sess sid = some s) (hid : s.id = sid) (p : Pub)
    (hget : 0 < (IdPool.get (w.node i).pool).2)
    (hfresh : Ack.msgFind (Ack.hashKey sid (IdPool.get (w.node i).pool).2) (w.node i).acks.msgs = none) :
    (w.send i [(sid, 1)] p).out =
      w.out ++ [(s.conn, .publish (trimMountPoint s.mount p.topic) p.payload 1 p.retain p.dup (IdPool.get (w.node i).pool).2)] := by
  sorry

/-- a recipient that is not registered (session ended) is skipped and does not stop the others -/
theorem C02_send_skips_gone (w : World) (i : Nat) (sid : String) (q : Int) (rest : List (String × Int)) (p : Pub)
    (hs : (w.node i).sess sid = none) :
    w.send i ((sid, q) :: rest) p = w.send i rest p := by
  sorry

end Wasp.Broker

import Wasp.Generated.LockTable
/-!
# C20 — the lock discipline table of the broker's shared structures, as found in the source NOW

`Wasp.Generated.lockTable` lists every access to a guarded field (session registry, identifier pool, timeout list
and its buckets, both tries, the three replicated stores, the per-session filter list) with the locks held at that
point; it is regenerated from the Go source on every run. `tableDisciplined` is the hypothesis of
`C20_lockset_drf`, instantiated: every two conflicting accesses (same location, one of them a write — a method may
also run concurrently with itself) are made under a common lock that at least one of them holds exclusively.
Removing a Lock, downgrading it to RLock around a write, or moving an access out of its critical section changes
the table and this obligation fails. For the replicated stores the reading of the clock (`….stamp`) counts as a write
access: a stamp taken before the lock could be applied after a newer one.
-/
namespace Wasp.Conc
open Wasp.Generated

abbrev Entry := String × String × Bool × List (String × Mode)

def protectedPairS (a b : List (String × Mode)) : Bool :=
  a.any (fun x => b.any (fun y => x.1 == y.1 && (x.2 == .exclusive || y.2 == .exclusive)))

def conflictOk (a b : Entry) : Bool :=
  a.1 != b.1 || !(a.2.2.1 || b.2.2.1) || protectedPairS a.2.2.2 b.2.2.2

def tableDisciplined (t : List Entry) : Bool := t.all (fun a => t.all (fun b => conflictOk a b))

/-- every access is made with at least one lock held -/
def allLocked (t : List Entry) : Bool := t.all (fun a => !a.2.2.2.isEmpty)

theorem C20_table_disciplined : tableDisciplined lockTable = true := by decide +kernel

theorem C20_table_all_locked : allLocked lockTable = true := by decide +kernel

/-- the table covers every shared structure named by the property -/
theorem C20_table_covers :
    (["registry.sessions", "idpool.intervals", "pqlist.pq", "pqlist.buckets", "bucket.data", "rettree.root", "subtree.root",
      "dsessions.sessions", "dsubs.subscriptions", "dtopics.tree", "sessiontopics.topics",
      "dsessions.stamp", "dsubs.stamp", "dtopics.stamp"].all
        (fun loc => lockTable.any (fun e => e.1 == loc && e.2.2.1))) = true := by decide +kernel

end Wasp.Conc

import Wasp.Properties.E2E
import Wasp.Properties.Reachable2
import Wasp.Properties.C17E2E
import Wasp.Properties.C07
import Wasp.Properties.C13
import Wasp.Proofs.BrokerT10
/-!
# C07 and C13 end to end on the broker model

* C07: a retained publish is replayed to a later subscriber of the same mount point whose filter matches — exactly the
  last non-empty payload, flagged retained, under the topic name the publisher used; after a retained publish with an
  empty payload nothing is replayed for that topic.
* C13: when a connection is lost, the session's will is written to the registered sessions with a live matching
  subscription of the same mount point; after a clean DISCONNECT nothing but the close is written.

The C07 statements need the shape of the retained store (`TopOK`, Wasp/Proofs/BrokerT10.lean): one entry per topic, every
message stored under its own topic, every stored topic contains a '/'. `topOK_reachable` proves it of every node of
every reachable world (invariant `KInv`, one lemma per model function, as `GlobalInv`/`PInv`); the primed theorems
take it as a hypothesis instead of `Reachable` and the examples at the end of the C07 part show that none of its three
parts can be dropped there. No stamp hypothesis is needed: `topicSet`/`topicDelete` overwrite the local entry whatever
its stamp (only `mergeRetained` compares stamps).
-/
namespace Wasp.Broker
open Wasp.Dist Wasp.Topic Wasp.Crdt Wasp.Broker.AgentT10

/-! ## C07 -/

/-- what the subscriber is written after the retained publish: SUBACK, then the replay of the store -/
theorem C07_e2e_replay (w : World) (i : Nat) (hi : i < w.nodes.length)
    (psid : String) (ps : Sess) (hps : (w.node i).sess psid = some ps)
    (topic payload : String) (dup : Bool) (mid : Int)
    (ssid : String) (ss : Sess)
    (hss : ((w.process i psid (.publish topic payload 0 true dup mid)).1.node i).sess ssid = some ss)
    (f : String) (smid : Int) :
    (((w.process i psid (.publish topic payload 0 true dup mid)).1).process i ssid (.subscribe smid [(f, 0)])).1.out.drop
        (w.process i psid (.publish topic payload 0 true dup mid)).1.out.length =
      (ss.conn, Pkt.suback smid [0]) ::
        ((topicsGetAll (storeAfter w i (prefixMountPoint ps.mount topic) payload dup) (prefixMountPoint ss.mount f)).filter
          (fun r => isAdded r.stamp)).map (fun r =>
          (ss.conn, Pkt.publish (trimMountPoint ss.mount r.topic) r.payload 0 r.retain r.dup 0)) := by
  obtain ⟨hlen, htop⟩ := retained_world w i hi psid ps hps topic payload dup mid
  have hsub := C07_e2e_subscribe (w.process i psid (.publish topic payload 0 true dup mid)).1 i (by rw [hlen]; exact hi)
    ssid ss hss (AgentA.sess_some_id hss) smid f
  rw [AgentT6.drop_out _ _ _ (hsub.trans (List.append_assoc _ _ _))]
  simp only [topicGet, htop, List.singleton_append, storeAfter]

/-- publish retained (non-empty payload), then subscribe: needs only a positive crdt clock -/
theorem C07_e2e_retained_then_subscribe' (w : World) (hclk : 0 < w.clock) (i : Nat) (hi : i < w.nodes.length)
    (psid : String) (ps : Sess) (hps : (w.node i).sess psid = some ps) (hwf : wfMount ps.mount)
    (topic payload : String) (hne : payload ≠ "") (dup : Bool) (mid : Int)
    (ssid : String) (ss : Sess) (hm : ss.mount = ps.mount)
    (hss : ((w.process i psid (.publish topic payload 0 true dup mid)).1.node i).sess ssid = some ss)
    (f : String) (hmatch : mqttMatch (levels f) (levels topic) = true) (smid : Int) :
    (ss.conn, Pkt.publish topic payload 0 true dup 0) ∈
      (((w.process i psid (.publish topic payload 0 true dup mid)).1).process i ssid (.subscribe smid [(f, 0)])).1.out := by
  apply List.mem_of_mem_drop (i := (w.process i psid (.publish topic payload 0 true dup mid)).1.out.length)
  rw [C07_e2e_replay w i hi psid ps hps topic payload dup mid ssid ss hss f smid, storeAfter_set _ _ _ _ _ hne, hm]
  apply List.mem_cons_of_mem
  refine List.mem_map.mpr ⟨⟨prefixMountPoint ps.mount topic, payload, 0, true, dup, true, w.clock, 0⟩,
    List.mem_filter.mpr ⟨?_, ?_⟩, ?_⟩
  · simp only [topicsGetAll, List.mem_map, List.mem_filter]
    exact ⟨(_, _), ⟨topicsAssign_self _ _ _, by rw [C17_same_mount_match _ _ _ hwf]; exact hmatch⟩, rfl⟩
  · simp [Retained.stamp, isAdded, Wasp.Generated.isEntryAdded, Go.getLastAdded, Go.getLastDeleted, hclk]
  · simp only [C17_trim_prefix]

theorem C07_e2e_last_wins' (w : World) (i : Nat) (hT : TopOK (w.node i).dist.topics) (hi : i < w.nodes.length)
    (psid : String) (ps : Sess) (hps : (w.node i).sess psid = some ps) (hwf : wfMount ps.mount)
    (topic payload : String) (hne : payload ≠ "") (dup : Bool) (mid : Int)
    (ssid : String) (ss : Sess) (hm : ss.mount = ps.mount)
    (hss : ((w.process i psid (.publish topic payload 0 true dup mid)).1.node i).sess ssid = some ss)
    (f : String) (smid : Int) (pl : String) (q : Nat) (rt dp : Bool) (m : Int)
    (h : (ss.conn, Pkt.publish topic pl q rt dp m) ∈
      ((((w.process i psid (.publish topic payload 0 true dup mid)).1).process i ssid (.subscribe smid [(f, 0)])).1.out.drop
        (w.process i psid (.publish topic payload 0 true dup mid)).1.out.length)) :
    pl = payload := by
  rw [C07_e2e_replay w i hi psid ps hps topic payload dup mid ssid ss hss f smid, storeAfter_set _ _ _ _ _ hne, hm] at h
  have hT' := hT.assign (prefixMountPoint ps.mount topic)
    { topic := prefixMountPoint ps.mount topic, payload, qos := 0, retain := true, dup, added := w.clock, deleted := 0 }
    rfl (prefix_slash _ _)
  obtain ⟨r, hr, _, hpl⟩ := replay_entry _ hT' ps.mount hwf f topic _ _ pl q rt dp m h (by intros; simp)
  have := hT'.key_inj hr (topicsAssign_self _ _ _) rfl
  simp only [Prod.mk.injEq, true_and] at this
  rw [← hpl, this]

theorem C07_e2e_cleared' (w : World) (i : Nat) (hT : TopOK (w.node i).dist.topics) (hi : i < w.nodes.length)
    (psid : String) (ps : Sess) (hps : (w.node i).sess psid = some ps) (hwf : wfMount ps.mount)
    (topic : String) (dup : Bool) (mid : Int)
    (ssid : String) (ss : Sess) (hm : ss.mount = ps.mount)
    (hss : ((w.process i psid (.publish topic "" 0 true dup mid)).1.node i).sess ssid = some ss)
    (f : String) (smid : Int) (pl : String) (q : Nat) (rt dp : Bool) (m : Int) :
    (ss.conn, Pkt.publish topic pl q rt dp m) ∉
      ((((w.process i psid (.publish topic "" 0 true dup mid)).1).process i ssid (.subscribe smid [(f, 0)])).1.out.drop
        (w.process i psid (.publish topic "" 0 true dup mid)).1.out.length) := by
  intro h
  rw [C07_e2e_replay w i hi psid ps hps topic "" dup mid ssid ss hss f smid, storeAfter_clear, hm] at h
  have hT' := hT.assign (prefixMountPoint ps.mount topic)
    { topic := prefixMountPoint ps.mount topic, payload := "", qos := 0, retain := false, dup := false, added := 0, deleted := w.clock }
    rfl (prefix_slash _ _)
  obtain ⟨r, hr, hadd, _⟩ := replay_entry _ hT' ps.mount hwf f topic _ _ pl q rt dp m h (by intros; simp)
  have := hT'.key_inj hr (topicsAssign_self _ _ _) rfl
  simp only [Prod.mk.injEq, true_and] at this
  rw [this] at hadd
  simp [Retained.stamp, isAdded, Wasp.Generated.isEntryAdded, Go.getLastAdded, Go.getLastDeleted] at hadd


/-- C07 end to end: publish retained (non-empty payload), then subscribe -/
theorem C07_e2e_retained_then_subscribe (w : World) (hr : Reachable w) (i : Nat) (hi : i < w.nodes.length)
    (psid : String) (ps : Sess) (hps : (w.node i).sess psid = some ps) (hwf : wfMount ps.mount)
    (topic payload : String) (hne : payload ≠ "") (dup : Bool) (mid : Int)
    (ssid : String) (ss : Sess) (hm : ss.mount = ps.mount)
    (hss : ((w.process i psid (.publish topic payload 0 true dup mid)).1.node i).sess ssid = some ss)
    (f : String) (hmatch : mqttMatch (levels f) (levels topic) = true) (smid : Int) :
    (ss.conn, Pkt.publish topic payload 0 true dup 0) ∈
      (((w.process i psid (.publish topic payload 0 true dup mid)).1).process i ssid (.subscribe smid [(f, 0)])).1.out :=
  C07_e2e_retained_then_subscribe' w (reachable_inv w hr).clockPos i hi psid ps hps hwf topic payload hne dup mid ssid ss hm hss
    f hmatch smid

/-- … and the replay carries no OTHER payload for that topic: the last retained publish wins -/
theorem C07_e2e_last_wins (w : World) (hr : Reachable w) (i : Nat) (hi : i < w.nodes.length)
    (psid : String) (ps : Sess) (hps : (w.node i).sess psid = some ps) (hwf : wfMount ps.mount)
    (topic payload : String) (hne : payload ≠ "") (dup : Bool) (mid : Int)
    (ssid : String) (ss : Sess) (hm : ss.mount = ps.mount)
    (hss : ((w.process i psid (.publish topic payload 0 true dup mid)).1.node i).sess ssid = some ss)
    (f : String) (smid : Int) (pl : String) (q : Nat) (rt dp : Bool) (m : Int)
    (h : (ss.conn, Pkt.publish topic pl q rt dp m) ∈
      ((((w.process i psid (.publish topic payload 0 true dup mid)).1).process i ssid (.subscribe smid [(f, 0)])).1.out.drop
        (w.process i psid (.publish topic payload 0 true dup mid)).1.out.length)) :
    pl = payload :=
  C07_e2e_last_wins' w i (topOK_reachable w hr i) hi psid ps hps hwf topic payload hne dup mid ssid ss hm hss f smid pl q rt dp m h

/-- C07 end to end: a retained publish with an empty payload clears the topic — nothing is replayed for it -/
theorem C07_e2e_cleared (w : World) (hr : Reachable w) (i : Nat) (hi : i < w.nodes.length)
    (psid : String) (ps : Sess) (hps : (w.node i).sess psid = some ps) (hwf : wfMount ps.mount)
    (topic : String) (dup : Bool) (mid : Int)
    (ssid : String) (ss : Sess) (hm : ss.mount = ps.mount)
    (hss : ((w.process i psid (.publish topic "" 0 true dup mid)).1.node i).sess ssid = some ss)
    (f : String) (smid : Int) (pl : String) (q : Nat) (rt dp : Bool) (m : Int) :
    (ss.conn, Pkt.publish topic pl q rt dp m) ∉
      ((((w.process i psid (.publish topic "" 0 true dup mid)).1).process i ssid (.subscribe smid [(f, 0)])).1.out.drop
        (w.process i psid (.publish topic "" 0 true dup mid)).1.out.length) :=
  C07_e2e_cleared' w i (topOK_reachable w hr i) hi psid ps hps hwf topic dup mid ssid ss hm hss f smid pl q rt dp m

/-! ### non-vacuity, and the three parts of `TopOK` are needed in the primed theorems

`replayOf T topic payload f`: on a one-node cluster with publisher "p" and subscriber "a" in mount point "m" whose retained
store is `T`: "p" publishes `payload` retained on `topic`, then "a" subscribes to `f`; what "a" is written. -/

/-- a one-node world with two sessions of mount point "m" whose retained store is `T` -/
def e2eWorld (T : List (String × Retained)) : World :=
  let w := ((World.init 1).connect "p" 0 "idp" "m" true 60 none).connect "a" 0 "ida" "m" true 60 none
  w.setNode 0 { w.node 0 with dist := { (w.node 0).dist with topics := T } }

def replayOf (T : List (String × Retained)) (topic payload f : String) : List (String × Pkt) :=
  let w1 := ((e2eWorld T).process 0 "Sp" (.publish topic payload 0 true false 0)).1
  (w1.process 0 "Sa" (.subscribe 1 [(f, 0)])).1.out.drop w1.out.length

/-- well-shaped store: the old payload is replaced … -/
example : replayOf [("m/t", ⟨"m/t", "old", 0, true, false, true, 5, 0⟩)] "t" "new" "#" =
    [("a", Pkt.suback 1 [0]), ("a", Pkt.publish "t" "new" 0 true false 0)] := by decide

/-- … and cleared by an empty payload -/
example : replayOf [("m/t", ⟨"m/t", "old", 0, true, false, true, 5, 0⟩)] "t" "" "#" = [("a", Pkt.suback 1 [0])] := by decide

/-- `TopOK.slash` dropped (a key "m" without '/', unreachable): publishing on the empty name "" (stored as "m/") leaves the
    entry "m", which the filter "#" (stored as "m/#") matches and whose trimmed name is "" too — two payloads for "" -/
example : replayOf [("m", ⟨"m", "old", 0, true, false, true, 5, 0⟩)] "" "new" "#" =
    [("a", Pkt.suback 1 [0]), ("a", Pkt.publish "" "old" 0 true false 0), ("a", Pkt.publish "" "new" 0 true false 0)] := by
  decide

example : replayOf [("m", ⟨"m", "old", 0, true, false, true, 5, 0⟩)] "" "" "#" =
    [("a", Pkt.suback 1 [0]), ("a", Pkt.publish "" "old" 0 true false 0)] := by decide

/-- `TopOK.nodup` dropped: only the first entry of a duplicated key is overwritten -/
example : replayOf [("m/t", ⟨"m/t", "old1", 0, true, false, true, 5, 0⟩), ("m/t", ⟨"m/t", "old2", 0, true, false, true, 6, 0⟩)]
      "t" "new" "t" =
    [("a", Pkt.suback 1 [0]), ("a", Pkt.publish "t" "new" 0 true false 0), ("a", Pkt.publish "t" "old2" 0 true false 0)] := by
  decide

/-- `TopOK.own` dropped: a message stored under another key keeps being replayed under its own name -/
example : replayOf [("m/x", ⟨"m/t", "old", 0, true, false, true, 5, 0⟩)] "t" "new" "#" =
    [("a", Pkt.suback 1 [0]), ("a", Pkt.publish "t" "old" 0 true false 0), ("a", Pkt.publish "t" "new" 0 true false 0)] := by
  decide

/-! ## C13 -/

/-- C13: after a clean DISCONNECT only the close is written -/
theorem C13_e2e_clean_no_will (w : World) (i : Nat) (sid : String) (s : Sess) (hs : (w.node i).sess sid = some s)
    (hd : s.disconnected = true) : (w.shutdownSession i sid).out = w.out ++ [(s.conn, Pkt.closed)] := by
  rw [AgentD.shutdown_eq w i sid s hs]
  simp only [hd, if_true, ite_self]
  exact AgentD.teardown_out w i s

/-- the world in which the will of `s` is published, and what the publication writes (one node, QoS 0) -/
theorem C13_e2e_will_out (w : World) (hr : Reachable w) (hlen : w.nodes.length = 1)
    (sid : String) (s : Sess) (hs : (w.node 0).sess sid = some s) (hd : s.disconnected = false)
    (wl : Will) (hw : s.will = some wl) (hq : wl.qos = 0) (hnr : wl.retain = false)
    (hq0 : ∀ kl ∈ (w.node 0).dist.subs, ∀ u ∈ kl.2, u.qos = 0)
    (hlog : (w.node 0).logFailAll = false ∧ (w.node 0).logFailAt.contains (w.node 0).logCalls = false) :
    (w.shutdownSession 0 sid).out = w.out ++ [(s.conn, Pkt.closed)] ++
      (if (teardown w 0 s).2 then [] else
        deliveries0 ((teardown w 0 s).1.node 0)
          (((subByPattern ((teardown w 0 s).1.node 0).dist (prefixMountPoint s.mount wl.topic)).filter
            (fun u => u.peer == (w.node 0).peer)).map (fun u => (u.session, u.qos)))
          ⟨prefixMountPoint s.mount wl.topic, wl.payload, 0, false, false⟩) := by
  have hi : 0 < w.nodes.length := by omega
  have hinv := reachable_inv2 w hr
  have hdp : (w.node 0).dist.peer = (w.node 0).peer := hinv.distPeer 0 hi
  have hqp : ∀ kl ∈ (w.node 0).dist.subs, ∀ u ∈ kl.2, u.qos = 0 ∧ u.peer = (w.node 0).dist.peer := by
    intro kl hkl u hu
    refine ⟨hq0 kl hkl u hu, ?_⟩
    have hb := hinv.subPeers 0 kl hkl u hu
    rw [hdp, hinv.peers 0 hi]; omega
  obtain ⟨hlenW, hcore⟩ := teardown_core w 0 hi s
  have hsubs := teardown_subs w 0 hi s hqp
  simp only [core, Prod.mk.injEq] at hcore
  obtain ⟨hpeer, hreg, hfail, hla, hlat, hlc⟩ := hcore
  rw [AgentD.shutdown_eq w 0 sid s hs]
  by_cases hstop : (teardown w 0 s).2 = true
  · simp only [hstop, if_true, List.append_nil]
    exact AgentD.teardown_out w 0 s
  · simp only [hstop, hd, hw, Bool.false_eq_true, if_false]
    rw [hq, hnr, publishJob_noretain _ _ _ rfl,
      AgentT6.distribute_single (teardown w 0 s).1 (hlenW.trans hlen) _ ?_ ?_ ?_, AgentD.teardown_out, hpeer]
    · intro kl hkl u hu; exact (hsubs kl hkl u hu).1.1
    · intro kl hkl u hu; rw [hpeer, ← hdp]; exact (hsubs kl hkl u hu).1.2
    · rw [hla, hlat, hlc]; exact hlog

/-- C13 end to end (one node, QoS 0 subscriptions, log accepting): the connection of a session with a QoS 0,
    non-retained will is lost — what is written is the close of that connection and the will, under the will's topic
    name, to registered sessions of the same mount point -/
theorem C13_e2e_will_on_loss (w : World) (hr : Reachable w) (hlen : w.nodes.length = 1) (hf : (w.node 0).failed = false)
    (sid : String) (s : Sess) (hs : (w.node 0).sess sid = some s) (hd : s.disconnected = false)
    (wl : Will) (hw : s.will = some wl) (hq : wl.qos = 0) (hnr : wl.retain = false)
    (hm : ∀ r ∈ (w.node 0).reg, wfMount r.mount)
    (hq0 : ∀ kl ∈ (w.node 0).dist.subs, ∀ u ∈ kl.2, u.qos = 0)
    (hlog : (w.node 0).logFailAll = false ∧ (w.node 0).logFailAt.contains (w.node 0).logCalls = false)
    (c : String) (pk : Pkt)
    (h : (c, pk) ∈ ((w.shutdownSession 0 sid).out.drop w.out.length)) :
    (c = s.conn ∧ pk = Pkt.closed) ∨
    (∃ r ∈ (w.node 0).reg, r.id ≠ sid ∧ r.conn = c ∧ r.mount = s.mount ∧ pk = Pkt.publish wl.topic wl.payload 0 false false 0) := by
  have hi : 0 < w.nodes.length := by omega
  have hinv := reachable_inv2 w hr
  have hid : s.id = sid := AgentA.sess_some_id hs
  have hdp : (w.node 0).dist.peer = (w.node 0).peer := hinv.distPeer 0 hi
  have hqp : ∀ kl ∈ (w.node 0).dist.subs, ∀ u ∈ kl.2, u.qos = 0 ∧ u.peer = (w.node 0).dist.peer := by
    intro kl hkl u hu
    refine ⟨hq0 kl hkl u hu, ?_⟩
    have hb := hinv.subPeers 0 kl hkl u hu
    rw [hdp, hinv.peers 0 hi]; omega
  obtain ⟨_, hcore⟩ := teardown_core w 0 hi s
  have hsubs := teardown_subs w 0 hi s hqp
  simp only [core, Prod.mk.injEq] at hcore
  have hreg := hcore.2.1
  rw [AgentT6.drop_out _ _ _ ((C13_e2e_will_out w hr hlen sid s hs hd wl hw hq hnr hq0 hlog).trans (List.append_assoc _ _ _))] at h
  rcases List.mem_append.mp h with h | h
  · left
    simpa using h
  · right
    split at h
    · cases h
    · obtain ⟨x, hx, r, hrs, hconn, hpk⟩ := (AgentT6.mem_deliveries0 _ _ _ _ _).mp h
      obtain ⟨u, hu, rfl⟩ := List.mem_map.mp hx
      obtain ⟨kl', hkl', hmatch, hukl', hadd⟩ := (C01_byPattern _ _ u).mp (List.mem_filter.mp hu).1
      obtain ⟨⟨_, hup⟩, hold⟩ := hsubs kl' hkl' u hukl'
      obtain ⟨kl, hkl, hkey, hukl⟩ := hold hadd
      -- the recipient is registered in `w`, and is not the session that ended
      have hrs' : Node.sess { w.node 0 with reg := (w.node 0).reg.filter (fun x => x.id != s.id) } u.session = some r := by
        simp only [Node.sess] at hrs ⊢
        rw [hreg] at hrs
        exact hrs
      have hrmem := (AgentD.sess_some hrs').1
      simp only [List.mem_filter, bne_iff_ne, ne_eq] at hrmem
      have hrid : r.id = u.session := (AgentD.sess_some hrs').2
      have hne : u.session ≠ s.id := by rw [← hrid]; exact hrmem.2
      rw [AgentT8.sess_unreg_ne _ _ _ hne] at hrs'
      obtain ⟨f, hf'⟩ := subSessInv_reachable_single w hr hlen 0 hf kl hkl u hukl hadd (hup.trans hdp) r hrs'
      have hsmem := (AgentD.sess_some hs).1
      have hmount : r.mount = s.mount := by
        apply Classical.byContradiction
        intro hne'
        rw [← hkey, hf', C17_no_cross_match r.mount s.mount f wl.topic (hm r hrmem.1) (hm s hsmem) hne'] at hmatch
        cases hmatch
      refine ⟨r, hrmem.1, by rw [← hid]; exact hrmem.2, hconn, hmount, ?_⟩
      rw [hpk, hmount, C17_trim_prefix]

/-- … and every registered session (other than the lost one) of that mount point with a live subscription matching
    the will's topic IS written the will -/
theorem C13_e2e_will_reaches (w : World) (hr : Reachable w) (hlen : w.nodes.length = 1) (hf : (w.node 0).failed = false)
    (sid : String) (s : Sess) (hs : (w.node 0).sess sid = some s) (hd : s.disconnected = false)
    (wl : Will) (hw : s.will = some wl) (hq : wl.qos = 0) (hnr : wl.retain = false)
    (hcur : ∀ md ∈ sessByClientID (w.node 0).dist s.mount s.client, md.id = sid)
    (hm : ∀ r ∈ (w.node 0).reg, wfMount r.mount)
    (hq0 : ∀ kl ∈ (w.node 0).dist.subs, ∀ u ∈ kl.2, u.qos = 0)
    (hlog : (w.node 0).logFailAll = false ∧ (w.node 0).logFailAt.contains (w.node 0).logCalls = false)
    (r : Sess) (hr' : r ∈ (w.node 0).reg) (hne : r.id ≠ sid) (hmr : r.mount = s.mount)
    (kl : String × List Sub) (hkl : kl ∈ (w.node 0).dist.subs) (u : Sub) (hu : u ∈ kl.2) (hus : u.session = r.id)
    (hlive : isAdded u.stamp = true)
    (hmatch : mqttMatch (levels kl.1) (levels (prefixMountPoint s.mount wl.topic)) = true) :
    (r.conn, Pkt.publish wl.topic wl.payload 0 false false 0) ∈ (w.shutdownSession 0 sid).out := by
  have hi : 0 < w.nodes.length := by omega
  have hinv := reachable_inv2 w hr
  have hid : s.id = sid := AgentA.sess_some_id hs
  have hdp : (w.node 0).dist.peer = (w.node 0).peer := hinv.distPeer 0 hi
  have hqp : ∀ kl ∈ (w.node 0).dist.subs, ∀ u ∈ kl.2, u.qos = 0 ∧ u.peer = (w.node 0).dist.peer := by
    intro kl hkl u hu
    refine ⟨hq0 kl hkl u hu, ?_⟩
    have hb := hinv.subPeers 0 kl hkl u hu
    rw [hdp, hinv.peers 0 hi]; omega
  obtain ⟨_, hcore⟩ := teardown_core w 0 hi s
  simp only [core, Prod.mk.injEq] at hcore
  have hreg := hcore.2.1
  have hcont := teardown_continue w 0 hi s hqp (by rw [hid]; exact hcur)
  rw [C13_e2e_will_out w hr hlen sid s hs hd wl hw hq hnr hq0 hlog]
  apply List.mem_append_right
  simp only [hcont, Bool.false_eq_true, if_false]
  have hne' : u.session ≠ s.id := by rw [hus, hid]; exact hne
  obtain ⟨kl', hkl', hkey, hukl'⟩ := teardown_keeps_sub w 0 s (hinv.base.subsWF 0).1 kl hkl u hu hne'
  -- `r` is what the registry (before and after the teardown) returns for its id
  have hsr : (w.node 0).sess r.id = some r := by
    cases hx : (w.node 0).sess r.id with
    | none => exact absurd rfl (AgentD.sess_none hx r hr')
    | some r2 =>
      obtain ⟨h2, h2id⟩ := AgentD.sess_some hx
      rw [AgentD.eq_of_nodup_ids (hinv.base.regNodup 0) h2 hr' h2id]
  have hsr' : ((teardown w 0 s).1.node 0).sess u.session = some r := by
    have := AgentT8.sess_unreg_ne (w.node 0) s.id u.session hne'
    simp only [Node.sess] at this ⊢
    rw [hreg, this, hus]
    exact hsr
  refine (AgentT6.mem_deliveries0 _ _ _ _ _).mpr ⟨(u.session, u.qos), List.mem_map.mpr ⟨u, List.mem_filter.mpr ⟨?_, ?_⟩, rfl⟩,
    r, hsr', rfl, ?_⟩
  · exact (C01_byPattern _ _ u).mpr ⟨kl', hkl', by rw [hkey]; exact hmatch, hukl', hlive⟩
  · have := (hqp kl hkl u hu).2
    simp [this, hdp]
  · simp only [hmr, C17_trim_prefix]


/-- non-vacuity: "a" (same mount point, matching filter) gets the will of "p"; "b" (other mount point) and "p" itself do not -/
example :
    let w0 := (((World.init 1).connect "p" 0 "idp" "m1" true 60 (some ⟨"last", "gone", 0, false⟩)).connect "a" 0 "ida" "m1" true 60 none).connect "b" 0 "idb" "m2" true 60 none
    let w1 := ((w0.clientPacket "a" (.subscribe 1 [("#", 0)])).clientPacket "b" (.subscribe 2 [("#", 0)])).clientPacket "p" (.subscribe 3 [("#", 0)])
    let w2 := { w1 with out := [] }
    (w2.drop "p").out = [("p", Pkt.closed), ("a", Pkt.publish "last" "gone" 0 false false 0)] ∧
    ((w2.clientPacket "p" .disconnect).out = [("p", Pkt.closed)]) := by
  decide

end Wasp.Broker

import Wasp.Model.BrokerOps
import Wasp.Properties.C02Pool
import Wasp.Properties.C11
import Wasp.Properties.C11Time
import Wasp.Proofs.BrokerT5
/-!
# Invariants of every reachable world

`Reachable w` (Wasp/Model/BrokerOps.lean): `w` is what some sequence of harness operations makes of a fresh cluster.
Several property theorems carry well-formedness hypotheses (unique session ids in a registry, the subscription
store's shape, stamps older than the clock, the pool / in-flight relation). Here they are shown to hold of EVERY
reachable world, so those theorems apply unconditionally to every state the correspondence check drives the
implementation into.
-/
namespace Wasp.Broker
open Wasp.Dist Wasp.Broker.AgentT5

/-! `SubsWF` and `GlobalInv` are defined in Wasp/Proofs/BrokerT5.lean (namespace `Wasp.Broker`). `GlobalInv` has the five
    fields the property theorems need (`pool`, `regNodup`, `regConn`, `subsWF`, `subsClock`) and three more that make it
    inductive: `clockPos` (the crdt clock is positive), `regConns` (a registered session's connection is listed, for the
    node the session is registered on) and `pendClock` (pending gossip only carries subscription stamps older than the
    clock). No side condition on any operation is needed: `globalInv_step` holds for every `BOp`. -/

theorem globalInv_init (n : Nat) : GlobalInv (World.init n) :=
  (globalInv_iff _).mpr (gi_init n)

theorem globalInv_step (w : World) (op : BOp) (h : GlobalInv w) : GlobalInv (applyOp w op) :=
  (globalInv_iff _).mpr (gi_step ((globalInv_iff w).mp h) op)

/-- a whole sequence of operations, from any world satisfying the invariant -/
theorem globalInv_run (w : World) (ops : List BOp) (h : GlobalInv w) : GlobalInv (run w ops) :=
  (globalInv_iff _).mpr (gi_run ops w ((globalInv_iff w).mp h))

theorem reachable_inv (w : World) (h : Reachable w) : GlobalInv w := by
  obtain ⟨n, ops, rfl⟩ := h
  exact globalInv_run _ ops (globalInv_init n)

/-! ### the conditional theorems, unconditionally on reachable worlds -/

theorem C11_idle_spares_reachable (w : World) (hr : Reachable w) (ms : Int) (i : Nat) (s : Sess) (hs : s ∈ (w.node i).reg)
    (hd : w.now + ms ≤ s.deadline) : s.id ∈ regIds ((w.idle ms).node i) :=
  C11_idle_spares w ms i s hs hd ((reachable_inv w hr).regNodup i)

theorem C11_elapse_spares_reachable (w : World) (hr : Reachable w) (ms : Int) (i : Nat) (s : Sess) (hs : s ∈ (w.node i).reg)
    (hd : w.now + ms ≤ s.deadline) : s.id ∈ regIds ((Wasp.Wire.elapse w ms).node i) :=
  C11_elapse_spares w ms i s hs hd ((reachable_inv w hr).regNodup i)

theorem C11_idle_no_overdue_reachable (w : World) (hr : Reachable w) (ms : Int) (i : Nat) (hf : (w.node i).failed = false)
    (s : Sess) (hs : s ∈ ((w.idle ms).node i).reg) : (w.idle ms).now ≤ s.deadline :=
  C11_idle_no_overdue w ms i hf s hs (reachable_inv w hr).regNodup

theorem C11_teardown_subscriptions_reachable (w : World) (hr : Reachable w) (i : Nat) (hi : i < w.nodes.length) (s : Sess)
    (t : String) (ht : t ∈ s.topics) (topic : String) (u : Sub)
    (hu : u ∈ subByPattern ((teardown w i s).1.node i).dist topic) : ¬ (u.session = s.id ∧ u.pattern = t) :=
  C11_teardown_subscriptions w i hi s t ht ((reachable_inv w hr).subsClock i) ((reachable_inv w hr).subsWF i) topic u hu

/-- the identifier the pool hands out is never in flight for the recipient (hypothesis `hfresh` of `C02_send_one`),
    on every reachable world; `hsid`: the recipient's session id is not another id followed by "/in" -/
theorem C02_fresh_id_reachable (w : World) (hr : Reachable w) (i : Nat) (sid : String) (hsid : ∀ s, sid ≠ s ++ "/in")
    (hget : 0 < (IdPool.get (w.node i).pool).2) :
    Ack.msgFind (Ack.hashKey sid (IdPool.get (w.node i).pool).2) (w.node i).acks.msgs = none :=
  C02_fresh_id_not_inflight_of_suffix w i sid (reachable_inv w hr).pool hsid hget

end Wasp.Broker

import Wasp.Model.Dist
import Wasp.Proofs.DistSync
/-!
# C09 — every local state change is carried completely by the broadcasts it queues

Origin node `A` performs any sequence of local operations, its clock strictly increasing;
a second node `B` receives, in order, the broadcasts those operations queued. After every
prefix of the sequence the three stores of `B` EQUAL those of `A` (same entries, same
stamps — so both list exactly the same sessions, subscriptions and retained messages).
In particular no operation changes `A` without queueing a broadcast that conveys it, and a
bulk operation's broadcast contains every entry the operation touched.
-/
namespace Wasp.Dist
open Wasp.Crdt Wasp.Topic

inductive Op where
  | sessCreate (id client : String) (connectedAt : Int) (lwt : Option Will) (mount : String)
  | sessDelete (id : String)
  | sessDeletePeer (peer : Nat)
  | subCreate (session pattern : String) (qos : Int)
  | subDelete (session pattern : String)
  | subDeletePeer (peer : Nat)
  | subDeleteSession (session : String)
  | topicSet (topic payload : String) (qos : Nat) (retain dup : Bool)
  | topicDelete (topic : String)

/-- one local operation at clock value `now`: new state and the broadcast it queues -/
def applyOp (st : State) (now : Int) : Op → State × Option Event
  | .sessCreate id c ca lwt mp => let r := sessCreate st now id c ca lwt mp; (r.1, r.2.1)
  | .sessDelete id => sessDelete st now id
  | .sessDeletePeer p => let r := sessDeletePeer st now p; (r.1, some r.2)
  | .subCreate s p q => let r := subCreate st now s p q; (r.1, some r.2)
  | .subDelete s p => let r := subDelete st now s p; (r.1, some r.2)
  | .subDeletePeer p => let r := subDeletePeer st now p; (r.1, some r.2)
  | .subDeleteSession s => let r := subDeleteSession st now s; (r.1, some r.2)
  | .topicSet t p q r d => let x := topicSet st now t p q r d; (x.1, some x.2)
  | .topicDelete t => let r := topicDelete st now t; (r.1, some r.2)

/-- what the code never checks locally but every caller guarantees: non-empty ids and filters,
    retained topics are non-empty topic names -/
def Op.valid : Op → Prop
  | .sessCreate id _ _ _ _ => id ≠ ""
  | .sessDelete _ => True
  | .sessDeletePeer _ => True
  | .subCreate s p _ => s ≠ "" ∧ p ≠ ""
  | .subDelete s p => s ≠ "" ∧ p ≠ ""
  | .subDeletePeer _ => True
  | .subDeleteSession _ => True
  | .topicSet t _ _ _ _ => t ≠ "" ∧ wfTopic (levels t) = true
  | .topicDelete t => t ≠ "" ∧ wfTopic (levels t) = true

/-- run a timed script on the origin, feeding each queued broadcast to the receiver -/
def runBoth : State → State → List (Int × Op) → State × State
  | a, b, [] => (a, b)
  | a, b, (now, op) :: rest =>
    let r := applyOp a now op
    let b' := match r.2 with
      | some ev => merge b ev
      | none => b
    runBoth r.1 b' rest

/-- clock values are positive and strictly increasing -/
def clockOk : Int → List (Int × Op) → Prop
  | _, [] => True
  | last, (now, _) :: rest => last < now ∧ clockOk now rest

/-- one step keeps origin and receiver in sync -/
theorem sync_step {last now : Int} {a b : State} (h : SyncInv last a b) (h0 : 0 ≤ last) (hlt : last < now)
    (op : Op) (hv : op.valid) :
    SyncInv now (applyOp a now op).1 (recv b (applyOp a now op).2) := by
  cases op with
  | sessCreate id c ca lwt mp => exact sync_sessCreate h h0 hlt id c ca lwt mp hv
  | sessDelete id => exact sync_sessDelete h hlt id
  | sessDeletePeer p => exact sync_sessDeletePeer h hlt p
  | subCreate s p q => exact sync_subCreate h h0 hlt s p q hv
  | subDelete s p => exact sync_subDelete h h0 hlt s p hv
  | subDeletePeer p => exact sync_subBulkDelete h hlt _
  | subDeleteSession s => exact sync_subBulkDelete h hlt _
  | topicSet t p q r d => exact sync_topicSet h h0 hlt t p q r d hv
  | topicDelete t => exact sync_topicDelete h h0 hlt t hv

theorem sync_run {last : Int} {a b : State} (script : List (Int × Op)) (h : SyncInv last a b) (h0 : 0 ≤ last)
    (hv : ∀ x ∈ script, x.2.valid) (hc : clockOk last script) :
    ∃ last', SyncInv last' (runBoth a b script).1 (runBoth a b script).2 := by
  induction script generalizing last a b with
  | nil => exact ⟨last, h⟩
  | cons x rest ih =>
    obtain ⟨now, op⟩ := x
    simp only [clockOk] at hc
    have hstep := sync_step h h0 hc.1 op (hv (now, op) (by simp))
    exact ih hstep (by omega) (fun y hy => hv y (by simp [hy])) hc.2

/-- C09: origin and receiver hold identical stores after any script -/
theorem C09_receiver_equals_origin (pa pb : Nat) (script : List (Int × Op))
    (hv : ∀ x ∈ script, x.2.valid) (hc : clockOk 0 script) :
    let r := runBoth { peer := pa } { peer := pb } script
    r.2.sessions = r.1.sessions ∧ r.2.subs = r.1.subs ∧ r.2.topics = r.1.topics := by
  obtain ⟨_, h⟩ := sync_run script (SyncInv.init pa pb) (Int.le_refl 0) hv hc
  exact ⟨h.1, h.2.1, h.2.2.1⟩

/-- … hence they list the same things (sessions, subscriptions, by pattern, retained) -/
theorem C09_same_listing (pa pb : Nat) (script : List (Int × Op))
    (hv : ∀ x ∈ script, x.2.valid) (hc : clockOk 0 script) (topic pattern : String) :
    let r := runBoth { peer := pa } { peer := pb } script
    sessAll r.2 = sessAll r.1 ∧ subAll r.2 = subAll r.1 ∧
      subByPattern r.2 topic = subByPattern r.1 topic ∧ topicGet r.2 pattern = topicGet r.1 pattern := by
  obtain ⟨h1, h2, h3⟩ := C09_receiver_equals_origin pa pb script hv hc
  simp only [sessAll, sessFilter, subAll, subFilter, subByPattern, topicGet]
  simp only [h1, h2, h3, and_self]

/-- a bulk removal's broadcast contains exactly the entries it stamped -/
theorem C09_bulk_complete_subs (st : State) (now : Int) (f : Sub → Bool) :
    (subBulkDelete st now f).2.subs = (subFilter st f).map (fun s => { s with deleted := now }) := by
  rfl

theorem C09_bulk_complete_sessions (st : State) (now : Int) (p : Nat) :
    (sessDeletePeer st now p).2.sessions = (sessByPeer st p).map (fun s => { s with deleted := now }) := by
  rfl

/-- an operation that changes the origin always queues a broadcast -/
theorem C09_no_silent_change (st : State) (now : Int) (op : Op) (h : (applyOp st now op).2 = none) :
    (applyOp st now op).1 = st := by
  cases op with
  | sessCreate id c ca lwt mp =>
    simp only [applyOp, sessCreate] at h ⊢
    split at h <;> (try split at h) <;> simp_all
  | sessDelete id =>
    simp only [applyOp, sessDelete] at h ⊢
    split at h <;> (try split at h) <;> simp_all
  | _ => simp [applyOp] at h

end Wasp.Dist

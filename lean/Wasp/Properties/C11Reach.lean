import Wasp.Properties.C11Record
import Wasp.Properties.Reachable2
import Wasp.Proofs.BrokerT20
/-!
# C11 — the record of a session that ends goes away, on every reachable world

`C11_teardown_removes_record_of_clock` (Properties/C11Record.lean) carries three hypotheses about the session store of
the node: unique record ids, "a live record under the session's id describes that session", and "its stamp is not
ahead of the crdt clock". Here they are shown to hold for every registered session of every reachable world.

A connection name — hence a session id "S" + name — can be used again after its session ended, with another client
identifier or mount point, so records of SEVERAL incarnations of one id can be around in the cluster (stores and gossip
not yet delivered). `RecordInv` therefore speaks about the newest incarnation: for every registered session there is a
birth stamp `t` below the clock such that no record of the cluster under its id was added after `t`, the records added
at `t` carry the session's client identifier and mount point, and the record its own node stores under the id was last
updated at or after `t` — so a LIVE record under the id on that node is one of the incarnation added at `t`
(an older incarnation can only be there as a tombstone written after `t`).
-/
namespace Wasp.Broker
open Wasp.Dist Wasp.Broker.AgentT5 Wasp.Broker.AgentT20

/-- the record invariant: `added` stamps of all session records (stored or in pending gossip) below the crdt clock,
    unique ids per store, and the birth-stamp property of every registered session (`AgentT20.RI`) -/
structure RecordInv (w : World) : Prop where
  ri : RI w

theorem recordInv_init (n : Nat) : RecordInv (World.init n) := ⟨(j_init n).2⟩

theorem recordInv_step (w : World) (op : BOp) (hg : GlobalInv w) (_hg2 : GlobalInv2 w) (h : RecordInv w) :
    RecordInv (applyOp w op) :=
  ⟨(j_step ⟨(globalInv_iff w).mp hg, h.ri⟩ op).2⟩

theorem reachable_recordInv (w : World) (h : Reachable w) : RecordInv w := by
  obtain ⟨n, ops, rfl⟩ := h
  exact ⟨(j_run ops _ (j_init n)).2⟩

/-- the three hypotheses of `C11_teardown_removes_record_of_clock`, for a registered session of a reachable world -/
theorem C11_record_facts_reachable (w : World) (hr : Reachable w) (i : Nat) (s : Sess) (hs : s ∈ (w.node i).reg) :
    ((w.node i).dist.sessions.map (·.id)).Nodup ∧
    (∀ md ∈ sessAll (w.node i).dist, md.id = s.id → md.mount = s.mount ∧ md.client = s.client) ∧
    (∀ md ∈ sessAll (w.node i).dist, md.id = s.id → md.added ≤ w.clock) :=
  (reachable_recordInv w hr).ri.facts i s hs

/-- every session record of a reachable world, stored or in gossip not yet delivered, was added before the clock -/
theorem C11_record_clock_reachable (w : World) (hr : Reachable w) (j : Nat) :
    (∀ md ∈ (w.node j).dist.sessions, md.added < w.clock) ∧
    (∀ e ∈ (w.node j).pending, ∀ md ∈ e.2.sessions, md.added < w.clock) :=
  ⟨fun md h => (reachable_recordInv w hr).ri.clk md ⟨j, Or.inl h⟩,
   fun e he md h => (reachable_recordInv w hr).ri.clk md ⟨j, Or.inr ⟨e, he, h⟩⟩⟩

/-- after the teardown of a registered session of a reachable world no live record with its id is left on its node -/
theorem C11_teardown_removes_record_reachable (w : World) (hr : Reachable w) (i : Nat) (hi : i < w.nodes.length) (s : Sess)
    (hs : s ∈ (w.node i).reg) :
    ∀ md ∈ sessAll ((teardown w i s).1.node i).dist, md.id ≠ s.id := by
  obtain ⟨hu, hrec, hclk⟩ := C11_record_facts_reachable w hr i s hs
  exact C11_teardown_removes_record_of_clock w i hi s hu hrec hclk

/-- non-vacuity, with a connection name that returns under another client identifier while a record of its first
    incarnation is still live on the other node: "a" connects on node 0 as idX, node 1 learns the record, "a" is dropped
    and the tombstone is lost, "a" connects again on node 0 as idY (mount point m2). The registered session is the
    second incarnation; node 1 still lists the first one; after the teardown node 0 lists nothing under "Sa". -/
example :
    let w := run (World.init 2) [.connect "a" 0 "idX" "m" true 60 none, .gossipAll, .drop "a", .loseGossip 0 1,
                                 .connect "a" 0 "idY" "m2" true 60 none]
    ((w.node 0).reg.map (fun s => (s.id, s.client, s.mount)) = [("Sa", "idY", "m2")]) ∧
    ((sessAll (w.node 0).dist).map (fun md => (md.id, md.client)) = [("Sa", "idY")]) ∧
    ((sessAll (w.node 1).dist).map (fun md => (md.id, md.client)) = [("Sa", "idX")]) ∧
    (∀ s ∈ (w.node 0).reg, (sessAll ((teardown w 0 s).1.node 0).dist).map (·.id) = []) := by decide

end Wasp.Broker

import Wasp.Model.AckQueue
/-!
Helper lemmas for C04 (the ack queue and its timeout list).
-/
namespace Wasp.Ack

/-- `omega` does not look through the abbreviation `Time` -/
macro "tomega" : tactic => `(tactic| (simp only [Time] at * <;> omega))

/-! ### roundSec -/

theorem roundSec_bounds (d : Int) : d - 499 ≤ roundSec d ∧ roundSec d ≤ d + 500 := by
  show d - 499 ≤ ((d + 500) / 1000) * 1000 ∧ ((d + 500) / 1000) * 1000 ≤ d + 500
  omega

/-! ### msgFind / msgErase -/

theorem msgFind_none_iff {k : Key} {l : List (Key × Msg)} :
    msgFind k l = none ↔ k ∉ l.map (·.1) := by
  induction l with
  | nil => simp [msgFind]
  | cons x rest ih =>
    obtain ⟨k', m⟩ := x
    by_cases h : k' = k <;> simp [msgFind, h, ih] <;> grind

theorem msgFind_some_mem {k : Key} {m : Msg} {l : List (Key × Msg)} :
    msgFind k l = some m → (k, m) ∈ l := by
  induction l with
  | nil => simp [msgFind]
  | cons x rest ih =>
    obtain ⟨k', m'⟩ := x
    by_cases h : k' = k <;> simp [msgFind, h] <;> grind

theorem msgFind_of_mem_nodup {k : Key} {m : Msg} {l : List (Key × Msg)}
    (hn : (l.map (·.1)).Nodup) (hm : (k, m) ∈ l) : msgFind k l = some m := by
  induction l with
  | nil => simp at hm
  | cons x rest ih =>
    obtain ⟨k', m'⟩ := x
    simp only [List.map_cons, List.nodup_cons, List.mem_map, not_exists, not_and] at hn
    by_cases h : k' = k
    · subst h
      simp only [msgFind, if_true]
      rcases List.mem_cons.mp hm with h' | h'
      · grind
      · exact absurd rfl (hn.1 _ h')
    · simp only [msgFind, h, if_false]
      rcases List.mem_cons.mp hm with h' | h'
      · grind
      · exact ih hn.2 h'

theorem msgFind_append (k : Key) (l l' : List (Key × Msg)) :
    msgFind k (l ++ l') = match msgFind k l with
      | some m => some m
      | none => msgFind k l' := by
  induction l with
  | nil => simp [msgFind]
  | cons x rest ih =>
    obtain ⟨k', m'⟩ := x
    by_cases h : k' = k <;> simp [msgFind, h, ih]

theorem msgFind_erase_ne {k k' : Key} (l : List (Key × Msg)) (h : k' ≠ k) :
    msgFind k' (msgErase k l) = msgFind k' l := by
  induction l with
  | nil => simp [msgErase]
  | cons x rest ih =>
    obtain ⟨k'', m'⟩ := x
    by_cases h1 : k'' = k
    · subst h1
      simp [msgFind, msgErase, Ne.symm h]
    · simp [msgFind, msgErase, h1, ih]

theorem msgErase_sublist (k : Key) (l : List (Key × Msg)) : (msgErase k l).Sublist l := by
  induction l with
  | nil => simp [msgErase]
  | cons x rest ih =>
    obtain ⟨k'', m'⟩ := x
    by_cases h1 : k'' = k <;> simp [msgErase, h1, ih]

theorem msgFind_erase_self {k : Key} {l : List (Key × Msg)} (hn : (l.map (·.1)).Nodup) :
    msgFind k (msgErase k l) = none := by
  induction l with
  | nil => simp [msgErase, msgFind]
  | cons x rest ih =>
    obtain ⟨k'', m'⟩ := x
    simp only [List.map_cons, List.nodup_cons] at hn
    by_cases h1 : k'' = k
    · subst h1
      simp only [msgErase, if_true]
      exact msgFind_none_iff.mpr hn.1
    · simp [msgErase, msgFind, h1, ih hn.2]

theorem msgErase_nodup {k : Key} {l : List (Key × Msg)} (hn : (l.map (·.1)).Nodup) :
    ((msgErase k l).map (·.1)).Nodup :=
  List.Nodup.sublist ((msgErase_sublist k l).map _) hn

theorem msgFind_erase {k k' : Key} {l : List (Key × Msg)} (hn : (l.map (·.1)).Nodup) :
    msgFind k' (msgErase k l) = if k' = k then none else msgFind k' l := by
  by_cases h : k' = k
  · subst h; simp [msgFind_erase_self hn]
  · simp [h, msgFind_erase_ne l h]

/-! ### pqFind / pqSet -/

theorem pqFind_some_mem {t : Time} {b : List Item} {pq : PQ} :
    pqFind t pq = some b → (t, b) ∈ pq := by
  induction pq with
  | nil => simp [pqFind]
  | cons x rest ih =>
    obtain ⟨t', b'⟩ := x
    by_cases h : t' = t <;> simp [pqFind, h] <;> grind

theorem pqFind_none_iff {t : Time} {pq : PQ} :
    pqFind t pq = none ↔ t ∉ pq.map (·.1) := by
  induction pq with
  | nil => simp [pqFind]
  | cons x rest ih =>
    obtain ⟨t', b'⟩ := x
    by_cases h : t' = t <;> simp [pqFind, h, ih] <;> grind

theorem pqFind_of_mem_nodup {t : Time} {b : List Item} {pq : PQ}
    (hn : (pq.map (·.1)).Nodup) (hm : (t, b) ∈ pq) : pqFind t pq = some b := by
  induction pq with
  | nil => simp at hm
  | cons x rest ih =>
    obtain ⟨t', b'⟩ := x
    simp only [List.map_cons, List.nodup_cons, List.mem_map, not_exists, not_and] at hn
    by_cases h : t' = t
    · subst h
      simp only [pqFind, if_true]
      rcases List.mem_cons.mp hm with h' | h'
      · grind
      · exact absurd rfl (hn.1 _ h')
    · simp only [pqFind, h, if_false]
      rcases List.mem_cons.mp hm with h' | h'
      · grind
      · exact ih hn.2 h'

theorem pqFind_pqSet (t k : Time) (b : List Item) (pq : PQ) :
    pqFind t (pqSet k b pq) = if t = k then some b else pqFind t pq := by
  induction pq with
  | nil => by_cases h : k = t <;> simp [pqSet, pqFind, h] <;> grind
  | cons x rest ih =>
    obtain ⟨t', b'⟩ := x
    by_cases h1 : t' = k
    · subst h1
      by_cases h2 : t' = t <;> simp [pqSet, pqFind, h2] <;> grind
    · by_cases h2 : t' = t
      · subst h2; simp [pqSet, pqFind, h1]
      · simp [pqSet, pqFind, h1, h2, ih]

/-- a found bucket splits the list at its first occurrence; `pqSet` replaces it in place -/
theorem pqFind_split {k : Time} {b0 : List Item} {pq : PQ} (h : pqFind k pq = some b0) :
    ∃ pre post, pq = pre ++ (k, b0) :: post ∧ ∀ b, pqSet k b pq = pre ++ (k, b) :: post := by
  induction pq with
  | nil => simp [pqFind] at h
  | cons x rest ih =>
    obtain ⟨t', b'⟩ := x
    by_cases h1 : t' = k
    · subst h1
      simp only [pqFind, if_true, Option.some.injEq] at h
      subst h
      exact ⟨[], rest, rfl, fun b => by simp [pqSet]⟩
    · simp only [pqFind, h1, if_false] at h
      obtain ⟨pre, post, e1, e2⟩ := ih h
      exact ⟨(t', b') :: pre, post, by simp [e1], fun b => by simp [pqSet, h1, e2]⟩

theorem pqSet_none {k : Time} {pq : PQ} (h : pqFind k pq = none) (b : List Item) :
    pqSet k b pq = pq ++ [(k, b)] := by
  induction pq with
  | nil => simp [pqSet]
  | cons x rest ih =>
    obtain ⟨t', b'⟩ := x
    by_cases h1 : t' = k
    · simp [pqFind, h1] at h
    · simp only [pqFind, h1, if_false] at h
      simp [pqSet, h1, ih h]

/-! ### buckets -/

abbrev Sorted (b : List Item) : Prop := b.Pairwise (fun x y => x.deadline ≤ y.deadline)

theorem bucketPut_perm (it : Item) (b : List Item) : (bucketPut it b).Perm (it :: b) := by
  induction b with
  | nil => simp [bucketPut]
  | cons x rest ih =>
    by_cases h : it.deadline < x.deadline
    · simp [bucketPut, h]
    · simp only [bucketPut, h, if_false]
      exact (List.Perm.cons x ih).trans (List.Perm.swap it x rest)

theorem mem_bucketPut {x it : Item} {b : List Item} : x ∈ bucketPut it b ↔ x = it ∨ x ∈ b := by
  rw [(bucketPut_perm it b).mem_iff]; simp

theorem bucketPut_sorted (it : Item) {b : List Item} (hs : Sorted b) : Sorted (bucketPut it b) := by
  induction b with
  | nil => simp [bucketPut, Sorted]
  | cons x rest ih =>
    simp only [Sorted, List.pairwise_cons] at hs
    by_cases h : it.deadline < x.deadline
    · simp only [bucketPut, h, if_true, Sorted, List.pairwise_cons]
      refine ⟨?_, hs⟩
      intro y hy
      rcases List.mem_cons.mp hy with rfl | hy
      · tomega
      · have := hs.1 y hy; tomega
    · simp only [bucketPut, h, if_false, Sorted, List.pairwise_cons]
      refine ⟨?_, ih hs.2⟩
      intro y hy
      rcases mem_bucketPut.mp hy with rfl | hy
      · tomega
      · exact hs.1 y hy

theorem bucketDelete_sublist (v : Key) (d : Time) (b : List Item) :
    (bucketDelete v d b).1.Sublist b := by
  induction b with
  | nil => simp [bucketDelete]
  | cons x rest ih =>
    simp only [bucketDelete]
    split
    · simpa using ih
    · split
      · split
        · simp
        · simpa using ih
      · simp

theorem bucketDelete_perm {v : Key} {d : Time} {b : List Item} (hs : Sorted b)
    (hm : (⟨v, d⟩ : Item) ∈ b) : b.Perm (⟨v, d⟩ :: (bucketDelete v d b).1) := by
  induction b with
  | nil => simp at hm
  | cons x rest ih =>
    simp only [Sorted, List.pairwise_cons] at hs
    simp only [bucketDelete]
    split
    · rename_i hlt
      rcases List.mem_cons.mp hm with h | h
      · subst h; simp at hlt
      · exact (List.Perm.cons x (ih hs.2 h)).trans (List.Perm.swap _ _ _)
    · split
      · rename_i heq
        split
        · rename_i hv
          have : x = ⟨v, d⟩ := by cases x; simp_all
          subst this; exact List.Perm.refl _
        · rename_i hv
          rcases List.mem_cons.mp hm with h | h
          · subst h; simp at hv
          · exact (List.Perm.cons x (ih hs.2 h)).trans (List.Perm.swap _ _ _)
      · rename_i h1 h2
        rcases List.mem_cons.mp hm with h | h
        · subst h; simp at h2
        · have := hs.1 _ h
          simp only at this
          tomega

theorem bucketDelete_sorted (v : Key) (d : Time) {b : List Item} (hs : Sorted b) :
    Sorted (bucketDelete v d b).1 :=
  List.Pairwise.sublist (bucketDelete_sublist v d b) hs

/-! ### the flattened timer list -/

/-- all timers of the timeout list -/
abbrev timers (pq : PQ) : List Item := pq.flatMap (·.2)

theorem mem_timers {it : Item} {pq : PQ} : it ∈ timers pq ↔ ∃ t b, (t, b) ∈ pq ∧ it ∈ b := by
  simp [timers, List.mem_flatMap]

theorem pqSet_keys_nodup (k : Time) (b : List Item) {pq : PQ} (hn : (pq.map (·.1)).Nodup) :
    ((pqSet k b pq).map (·.1)).Nodup := by
  cases h : pqFind k pq with
  | none =>
    rw [pqSet_none h, List.map_append, List.nodup_append]
    refine ⟨hn, by simp, ?_⟩
    intro a ha c hc
    simp only [List.map_cons, List.map_nil, List.mem_singleton] at hc
    subst hc
    intro hac; subst hac
    exact (pqFind_none_iff.mp h) ha
  | some b0 =>
    obtain ⟨pre, post, e1, e2⟩ := pqFind_split h
    rw [e2 b]
    rw [e1] at hn
    simpa using hn

theorem timers_pqSet_add {k : Time} {b : List Item} {x : Item} {pq : PQ}
    (hp : b.Perm (x :: (pqFind k pq).getD [])) : (timers (pqSet k b pq)).Perm (x :: timers pq) := by
  cases h : pqFind k pq with
  | none =>
    rw [h] at hp
    rw [pqSet_none h]
    simp only [timers, List.flatMap_append, List.flatMap_cons, List.flatMap_nil, List.append_nil]
    simp only [Option.getD_none] at hp
    exact (List.Perm.append_left _ hp).trans (by simp)
  | some b0 =>
    rw [h] at hp
    simp only [Option.getD_some] at hp
    obtain ⟨pre, post, e1, e2⟩ := pqFind_split h
    rw [e2 b, e1]
    simp only [timers, List.flatMap_append, List.flatMap_cons]
    refine (List.Perm.append_left _ (List.Perm.append_right _ hp)).trans ?_
    simp

theorem timers_pqSet_remove {k : Time} {b b0 : List Item} {x : Item} {pq : PQ}
    (h : pqFind k pq = some b0) (hp : b0.Perm (x :: b)) :
    (timers pq).Perm (x :: timers (pqSet k b pq)) := by
  obtain ⟨pre, post, e1, e2⟩ := pqFind_split h
  rw [e2 b]
  conv => lhs; rw [e1]
  simp only [timers, List.flatMap_append, List.flatMap_cons]
  refine (List.Perm.append_left _ (List.Perm.append_right _ hp)).trans ?_
  simp

theorem pqInsert_eq (v : Key) (d : Time) (pq : PQ) :
    pqInsert v d pq = pqSet (roundSec d) (bucketPut ⟨v, d⟩ ((pqFind (roundSec d) pq).getD [])) pq := by
  unfold pqInsert
  cases h : pqFind (roundSec d) pq <;> simp only [h] <;> simp [bucketPut]

theorem mem_getD_pqFind {t : Time} {pq : PQ} {x : Item} (h : x ∈ (pqFind t pq).getD []) :
    ∃ b, pqFind t pq = some b ∧ x ∈ b := by
  cases h' : pqFind t pq with
  | none => simp [h'] at h
  | some b => exact ⟨b, rfl, by simpa [h'] using h⟩

/-! ### the coherence invariant (same fields as `Inv` in `Wasp.Properties.C04`) -/

structure QInv (q : Queue) : Prop where
  keysNodup : (q.msgs.map (·.1)).Nodup
  bucketKeysNodup : (q.timeouts.map (·.1)).Nodup
  hasTimer : ∀ k m, msgFind k q.msgs = some m →
    ∃ b, pqFind (roundSec m.deadline) q.timeouts = some b ∧ (⟨k, m.deadline⟩ : Item) ∈ b
  timerHasEntry : ∀ t b, (t, b) ∈ q.timeouts → ∀ it ∈ b,
    roundSec it.deadline = t ∧ ∃ m, msgFind it.value q.msgs = some m ∧ m.deadline = it.deadline
  timersNodup : ((q.timeouts.flatMap (·.2)).map (·.value)).Nodup
  bucketsSorted : ∀ t b, (t, b) ∈ q.timeouts → b.Pairwise (fun x y => x.deadline ≤ y.deadline)

theorem qinv_init : QInv {} := by
  constructor <;> simp [msgFind]

/-- a timer's value is a registered key -/
theorem QInv.timer_registered {q : Queue} (h : QInv q) {it : Item} (hit : it ∈ timers q.timeouts) :
    ∃ m, msgFind it.value q.msgs = some m ∧ m.deadline = it.deadline := by
  obtain ⟨t, b, hb, hi⟩ := mem_timers.mp hit
  exact (h.timerHasEntry t b hb it hi).2

theorem qinv_insert {q : Queue} (h : QInv q) (k : Key) (m : Msg) (hk : msgFind k q.msgs = none) :
    QInv { msgs := q.msgs ++ [(k, m)], timeouts := pqInsert k m.deadline q.timeouts } := by
  have hnk := pqSet_keys_nodup (roundSec m.deadline)
    (bucketPut ⟨k, m.deadline⟩ ((pqFind (roundSec m.deadline) q.timeouts).getD [])) h.bucketKeysNodup
  have hfind_old : ∀ k' m', msgFind k' q.msgs = some m' →
      msgFind k' (q.msgs ++ [(k, m)]) = some m' := by
    intro k' m' h'; rw [msgFind_append, h']
  have hfind_new : msgFind k (q.msgs ++ [(k, m)]) = some m := by
    rw [msgFind_append, hk]; simp [msgFind]
  constructor
  · show ((q.msgs ++ [(k, m)]).map (·.1)).Nodup
    rw [List.map_append, List.nodup_append]
    refine ⟨h.keysNodup, by simp, ?_⟩
    intro a ha c hc
    simp only [List.map_cons, List.map_nil, List.mem_singleton] at hc
    subst hc
    intro hac; subst hac
    exact (msgFind_none_iff.mp hk) ha
  · show ((pqInsert k m.deadline q.timeouts).map (·.1)).Nodup
    rw [pqInsert_eq]; exact hnk
  · intro k' m' hf
    show ∃ b, pqFind (roundSec m'.deadline) (pqInsert k m.deadline q.timeouts) = some b ∧ _
    have hf : msgFind k' (q.msgs ++ [(k, m)]) = some m' := hf
    rw [pqInsert_eq, pqFind_pqSet]
    rw [msgFind_append] at hf
    cases hold : msgFind k' q.msgs with
    | none =>
      rw [hold] at hf
      have : k = k' ∧ m = m' := by
        by_cases e : k = k' <;> simp [msgFind, e] at hf; exact ⟨e, hf⟩
      obtain ⟨rfl, rfl⟩ := this
      exact ⟨_, if_pos rfl, mem_bucketPut.mpr (Or.inl rfl)⟩
    | some m'' =>
      rw [hold] at hf
      simp only [Option.some.injEq] at hf
      subst hf
      obtain ⟨b, hb, hi⟩ := h.hasTimer k' m'' hold
      by_cases e : roundSec m''.deadline = roundSec m.deadline
      · rw [if_pos e]
        refine ⟨_, rfl, mem_bucketPut.mpr (Or.inr ?_)⟩
        rw [← e, hb]; exact hi
      · rw [if_neg e]; exact ⟨b, hb, hi⟩
  · intro t b hmem it hit
    have hmem : (t, b) ∈ pqInsert k m.deadline q.timeouts := hmem
    show _ ∧ ∃ m', msgFind it.value (q.msgs ++ [(k, m)]) = some m' ∧ _
    rw [pqInsert_eq] at hmem
    have hf := pqFind_of_mem_nodup hnk hmem
    rw [pqFind_pqSet] at hf
    have old : ∀ t' b', pqFind t' q.timeouts = some b' → it ∈ b' →
        roundSec it.deadline = t' ∧ ∃ m', msgFind it.value (q.msgs ++ [(k, m)]) = some m' ∧
          m'.deadline = it.deadline := by
      intro t' b' hb' hi'
      obtain ⟨h1, m', h2, h3⟩ := h.timerHasEntry t' b' (pqFind_some_mem hb') it hi'
      exact ⟨h1, m', hfind_old _ _ h2, h3⟩
    by_cases e : t = roundSec m.deadline
    · rw [if_pos e] at hf
      simp only [Option.some.injEq] at hf
      subst hf
      rcases mem_bucketPut.mp hit with rfl | hit
      · exact ⟨e.symm, m, hfind_new, rfl⟩
      · obtain ⟨b', hb', hi'⟩ := mem_getD_pqFind hit
        rw [e]; exact old _ b' hb' hi'
    · rw [if_neg e] at hf
      exact old t b hf hit
  · show ((timers (pqInsert k m.deadline q.timeouts)).map (·.value)).Nodup
    rw [pqInsert_eq]
    have hp := (timers_pqSet_add (pq := q.timeouts) (k := roundSec m.deadline)
      (bucketPut_perm ⟨k, m.deadline⟩ _)).map (·.value)
    rw [hp.nodup_iff, List.map_cons, List.nodup_cons]
    refine ⟨?_, h.timersNodup⟩
    intro hmem
    obtain ⟨it, hit, hv⟩ := List.mem_map.mp hmem
    obtain ⟨m', hm', _⟩ := h.timer_registered hit
    simp only at hv
    rw [hv, hk] at hm'
    cases hm'
  · intro t b hmem
    have hmem : (t, b) ∈ pqInsert k m.deadline q.timeouts := hmem
    rw [pqInsert_eq] at hmem
    have hf := pqFind_of_mem_nodup hnk hmem
    rw [pqFind_pqSet] at hf
    by_cases e : t = roundSec m.deadline
    · rw [if_pos e] at hf
      simp only [Option.some.injEq] at hf
      subst hf
      apply bucketPut_sorted
      cases hb : pqFind (roundSec m.deadline) q.timeouts with
      | none => simp [Sorted]
      | some b' => exact h.bucketsSorted _ b' (pqFind_some_mem hb)
    · rw [if_neg e] at hf
      exact h.bucketsSorted t b (pqFind_some_mem hf)

theorem pqDelete_eq {v : Key} {d : Time} {pq : PQ} {b : List Item}
    (h : pqFind (roundSec d) pq = some b) :
    (pqDelete v d pq).1 = pqSet (roundSec d) (bucketDelete v d b).1 pq := by
  simp [pqDelete, h]

theorem qinv_ack {q : Queue} (h : QInv q) (k : Key) (m : Msg) (hk : msgFind k q.msgs = some m) :
    QInv { msgs := msgErase k q.msgs, timeouts := (pqDelete k m.deadline q.timeouts).1 } := by
  obtain ⟨b, hb, hi⟩ := h.hasTimer k m hk
  have hsb := h.bucketsSorted _ b (pqFind_some_mem hb)
  have hperm := bucketDelete_perm hsb hi
  have hnk := pqSet_keys_nodup (roundSec m.deadline) (bucketDelete k m.deadline b).1 h.bucketKeysNodup
  have htp := (timers_pqSet_remove hb hperm).map (·.value)
  have hnd := htp.nodup_iff.mp h.timersNodup
  rw [List.map_cons, List.nodup_cons] at hnd
  have hne : ∀ it, it ∈ timers (pqSet (roundSec m.deadline) (bucketDelete k m.deadline b).1 q.timeouts) →
      it.value ≠ k := by
    intro it hit e
    exact hnd.1 (List.mem_map.mpr ⟨it, hit, e⟩)
  rw [pqDelete_eq hb]
  constructor
  · exact msgErase_nodup h.keysNodup
  · exact hnk
  · intro k' m' hf
    have hf : msgFind k' (msgErase k q.msgs) = some m' := hf
    show ∃ b', pqFind (roundSec m'.deadline) (pqSet _ _ _) = some b' ∧ _
    rw [msgFind_erase h.keysNodup] at hf
    by_cases e : k' = k
    · simp [e] at hf
    · rw [if_neg e] at hf
      obtain ⟨b', hb', hi'⟩ := h.hasTimer k' m' hf
      rw [pqFind_pqSet]
      by_cases e2 : roundSec m'.deadline = roundSec m.deadline
      · rw [if_pos e2]
        refine ⟨_, rfl, ?_⟩
        rw [e2, hb] at hb'
        simp only [Option.some.injEq] at hb'
        subst hb'
        rcases List.mem_cons.mp (hperm.mem_iff.mp hi') with h' | h'
        · simp only [Item.mk.injEq] at h'; exact absurd h'.1 e
        · exact h'
      · rw [if_neg e2]; exact ⟨b', hb', hi'⟩
  · intro t b' hmem it hit
    have hmem : (t, b') ∈ pqSet (roundSec m.deadline) (bucketDelete k m.deadline b).1 q.timeouts := hmem
    show _ ∧ ∃ m', msgFind it.value (msgErase k q.msgs) = some m' ∧ _
    have hv := hne it (mem_timers.mpr ⟨t, b', hmem, hit⟩)
    rw [msgFind_erase_ne _ hv]
    have hf := pqFind_of_mem_nodup hnk hmem
    rw [pqFind_pqSet] at hf
    by_cases e : t = roundSec m.deadline
    · rw [if_pos e] at hf
      simp only [Option.some.injEq] at hf
      subst hf
      rw [e]
      exact h.timerHasEntry _ b (pqFind_some_mem hb) it ((bucketDelete_sublist _ _ _).subset hit)
    · rw [if_neg e] at hf
      exact h.timerHasEntry t b' (pqFind_some_mem hf) it hit
  · exact hnd.2
  · intro t b' hmem
    have hmem : (t, b') ∈ pqSet (roundSec m.deadline) (bucketDelete k m.deadline b).1 q.timeouts := hmem
    have hf := pqFind_of_mem_nodup hnk hmem
    rw [pqFind_pqSet] at hf
    by_cases e : t = roundSec m.deadline
    · rw [if_pos e] at hf
      simp only [Option.some.injEq] at hf
      subst hf
      exact bucketDelete_sorted _ _ hsb
    · rw [if_neg e] at hf
      exact h.bucketsSorted t b' (pqFind_some_mem hf)

/-! ### expiry -/

theorem insertSorted_perm (kb : Time × List Item) (l : PQ) : (insertSorted kb l).Perm (kb :: l) := by
  induction l with
  | nil => simp [insertSorted]
  | cons x rest ih =>
    by_cases h : kb.1 < x.1
    · simp [insertSorted, h]
    · simp only [insertSorted, h, if_false]
      exact (List.Perm.cons x ih).trans (List.Perm.swap kb x rest)

theorem sortBuckets_perm (pq : PQ) : (sortBuckets pq).Perm pq := by
  induction pq with
  | nil => simp [sortBuckets]
  | cons x rest ih =>
    show (insertSorted x (sortBuckets rest)).Perm (x :: rest)
    exact (insertSorted_perm x _).trans (List.Perm.cons x ih)

theorem filter_flatMap_sublist {α β : Type} (p : α → Bool) (f : α → List β) (l : List α) :
    ((l.filter p).flatMap f).Sublist (l.flatMap f) := by
  induction l with
  | nil => simp
  | cons x rest ih =>
    by_cases h : p x
    · simp only [List.filter_cons, h, if_true, List.flatMap_cons]
      exact List.Sublist.append_left ih _
    · simp only [List.filter_cons, h, List.flatMap_cons]
      exact ih.trans (List.sublist_append_right _ _)

theorem pqExpire_keys_eq (now : Time) (pq : PQ) :
    (pqExpire now pq).2 =
      (timers ((sortBuckets pq).filter (fun kb => decide (kb.1 < now)))).map (·.value) := by
  simp [pqExpire, timers, List.map_flatMap]

theorem pqExpire_keys_perm (now : Time) (pq : PQ) :
    (pqExpire now pq).2.Perm
      ((timers (pq.filter (fun kb => decide (kb.1 < now)))).map (·.value)) := by
  rw [pqExpire_keys_eq]
  exact (List.Perm.flatMap_right _ ((sortBuckets_perm pq).filter _)).map _

theorem pqExpire_keys_nodup (now : Time) {pq : PQ} (hn : ((timers pq).map (·.value)).Nodup) :
    (pqExpire now pq).2.Nodup := by
  rw [(pqExpire_keys_perm now pq).nodup_iff]
  exact List.Nodup.sublist ((filter_flatMap_sublist _ _ _).map _) hn

theorem mem_pqExpire_keys {now : Time} {pq : PQ} {k : Key} :
    k ∈ (pqExpire now pq).2 ↔ ∃ t b, (t, b) ∈ pq ∧ t < now ∧ ∃ it ∈ b, it.value = k := by
  rw [(pqExpire_keys_perm now pq).mem_iff]
  simp only [List.mem_map, mem_timers, List.mem_filter, decide_eq_true_eq]
  constructor
  · rintro ⟨it, ⟨t, b, ⟨hm, hlt⟩, hi⟩, hv⟩
    exact ⟨t, b, hm, hlt, it, hi, hv⟩
  · rintro ⟨t, b, hm, hlt, it, hi, hv⟩
    exact ⟨it, ⟨t, b, ⟨hm, hlt⟩, hi⟩, hv⟩

theorem pqFind_filter (t now : Time) (pq : PQ) :
    pqFind t (pq.filter (fun kb => !decide (kb.1 < now))) = if t < now then none else pqFind t pq := by
  induction pq with
  | nil => simp [pqFind]
  | cons x rest ih =>
    obtain ⟨t', b'⟩ := x
    by_cases h1 : t' < now
    · simp only [List.filter_cons, h1, decide_true, Bool.not_true, Bool.false_eq_true, if_false, ih]
      by_cases h2 : t' = t
      · subst h2; simp [h1]
      · simp [pqFind, h2]
    · simp only [List.filter_cons, h1, decide_false, Bool.not_false, if_true, pqFind, ih]
      by_cases h2 : t' = t
      · subst h2; simp [h1]
      · simp [h2]

theorem expireKeys_cons (k : Key) (ks : List Key) (msgs : List (Key × Msg)) :
    expireKeys (k :: ks) msgs = match msgFind k msgs with
      | none => expireKeys ks msgs
      | some m => ((expireKeys ks (msgErase k msgs)).1,
                   ⟨k, true, m.stored⟩ :: (expireKeys ks (msgErase k msgs)).2) := by
  simp only [expireKeys]
  cases msgFind k msgs <;> rfl

theorem expireKeys_sublist (ks : List Key) (msgs : List (Key × Msg)) :
    (expireKeys ks msgs).1.Sublist msgs := by
  induction ks generalizing msgs with
  | nil => simp [expireKeys]
  | cons k ks ih =>
    rw [expireKeys_cons]
    split
    · exact ih msgs
    · exact (ih _).trans (msgErase_sublist k msgs)

theorem expireKeys_find (ks : List Key) {msgs : List (Key × Msg)} (hn : (msgs.map (·.1)).Nodup)
    (k : Key) : msgFind k (expireKeys ks msgs).1 = if k ∈ ks then none else msgFind k msgs := by
  induction ks generalizing msgs with
  | nil => simp [expireKeys]
  | cons k' ks ih =>
    rw [expireKeys_cons]
    split
    · rename_i hnone
      rw [ih hn]
      by_cases e : k = k'
      · subst e; simp [hnone]
      · simp [e]
    · rename_i m hsome
      simp only
      rw [ih (msgErase_nodup hn), msgFind_erase hn]
      by_cases e : k = k'
      · subst e; simp
      · simp [e]

theorem expireKeys_evkeys_sublist (ks : List Key) (msgs : List (Key × Msg)) :
    ((expireKeys ks msgs).2.map (·.key)).Sublist ks := by
  induction ks generalizing msgs with
  | nil => simp [expireKeys]
  | cons k ks ih =>
    rw [expireKeys_cons]
    split
    · exact (ih msgs).trans (List.sublist_cons_self _ _)
    · simp only [List.map_cons]
      exact (ih _).cons_cons _

theorem mem_expireKeys_events (ks : List Key) {msgs : List (Key × Msg)} (hn : (msgs.map (·.1)).Nodup)
    (ev : Resolved) :
    ev ∈ (expireKeys ks msgs).2 ↔
      ev.key ∈ ks ∧ ev.expired = true ∧ ∃ m, msgFind ev.key msgs = some m ∧ ev.stored = m.stored := by
  induction ks generalizing msgs with
  | nil => simp [expireKeys]
  | cons k ks ih =>
    rw [expireKeys_cons]
    split
    · rename_i hnone
      rw [ih hn]
      constructor
      · rintro ⟨h1, h2, h3⟩; exact ⟨List.mem_cons_of_mem _ h1, h2, h3⟩
      · rintro ⟨h1, h2, m, h3, h4⟩
        rcases List.mem_cons.mp h1 with h1 | h1
        · rw [h1, hnone] at h3; cases h3
        · exact ⟨h1, h2, m, h3, h4⟩
    · rename_i m hsome
      simp only [List.mem_cons]
      rw [ih (msgErase_nodup hn)]
      constructor
      · rintro (h | ⟨h1, h2, m', h3, h4⟩)
        · subst h; exact ⟨Or.inl rfl, rfl, m, hsome, rfl⟩
        · rw [msgFind_erase hn] at h3
          by_cases e : ev.key = k
          · simp [e] at h3
          · rw [if_neg e] at h3
            exact ⟨Or.inr h1, h2, m', h3, h4⟩
      · rintro ⟨h1, h2, m', h3, h4⟩
        by_cases e : ev.key = k
        · left
          rw [e, hsome] at h3
          cases h3
          cases ev; simp_all
        · right
          rcases h1 with h1 | h1
          · exact absurd h1 e
          · exact ⟨h1, h2, m', by rw [msgFind_erase hn, if_neg e]; exact h3, h4⟩

/-- under the invariant, the popped keys are exactly the registered keys whose rounded deadline
    is before `now` -/
theorem QInv.mem_expired_keys {q : Queue} (h : QInv q) (now : Time) (k : Key) :
    k ∈ (pqExpire now q.timeouts).2 ↔ ∃ m, msgFind k q.msgs = some m ∧ roundSec m.deadline < now := by
  rw [mem_pqExpire_keys]
  constructor
  · rintro ⟨t, b, hm, hlt, it, hi, hv⟩
    obtain ⟨h1, m, h2, h3⟩ := h.timerHasEntry t b hm it hi
    subst hv
    exact ⟨m, h2, by rw [h3, h1]; exact hlt⟩
  · rintro ⟨m, hm, hlt⟩
    obtain ⟨b, hb, hi⟩ := h.hasTimer k m hm
    exact ⟨_, b, pqFind_some_mem hb, hlt, _, hi, rfl⟩

theorem expire_eq (q : Queue) (now : Time) :
    expire q now = ({ msgs := (expireKeys (pqExpire now q.timeouts).2 q.msgs).1,
                      timeouts := q.timeouts.filter (fun kb => !decide (kb.1 < now)) },
                    (expireKeys (pqExpire now q.timeouts).2 q.msgs).2) := by
  simp [expire, pqExpire]

/-- the table after a sweep -/
theorem QInv.expire_find {q : Queue} (h : QInv q) (now : Time) (k : Key) :
    msgFind k (expire q now).1.msgs =
      match msgFind k q.msgs with
      | some m => if roundSec m.deadline < now then none else some m
      | none => none := by
  rw [expire_eq]
  show msgFind k (expireKeys (pqExpire now q.timeouts).2 q.msgs).1 = _
  rw [expireKeys_find _ h.keysNodup]
  have := h.mem_expired_keys now k
  cases hm : msgFind k q.msgs with
  | none => simp
  | some m =>
    rw [hm] at this
    simp only [Option.some.injEq, exists_eq_left'] at this
    simp only [this]

theorem qinv_expire {q : Queue} (h : QInv q) (now : Time) : QInv (expire q now).1 := by
  have hfind := h.expire_find now
  rw [expire_eq] at hfind ⊢
  simp only at hfind
  constructor
  · exact List.Nodup.sublist ((expireKeys_sublist _ _).map _) h.keysNodup
  · exact List.Nodup.sublist ((List.filter_sublist (l := q.timeouts)).map _) h.bucketKeysNodup
  · intro k m hf
    have hf : msgFind k (expireKeys (pqExpire now q.timeouts).2 q.msgs).1 = some m := hf
    show ∃ b, pqFind (roundSec m.deadline) (q.timeouts.filter _) = some b ∧ _
    rw [hfind] at hf
    cases hm : msgFind k q.msgs with
    | none => rw [hm] at hf; cases hf
    | some m' =>
      rw [hm] at hf
      simp only at hf
      by_cases e : roundSec m'.deadline < now
      · rw [if_pos e] at hf; cases hf
      · rw [if_neg e] at hf
        simp only [Option.some.injEq] at hf
        subst hf
        rw [pqFind_filter, if_neg e]
        exact h.hasTimer k m' hm
  · intro t b hmem it hit
    have hmem : (t, b) ∈ q.timeouts.filter (fun kb => !decide (kb.1 < now)) := hmem
    show _ ∧ ∃ m, msgFind it.value (expireKeys (pqExpire now q.timeouts).2 q.msgs).1 = some m ∧ _
    simp only [List.mem_filter, Bool.not_eq_true', decide_eq_false_iff_not] at hmem
    obtain ⟨h1, m, h2, h3⟩ := h.timerHasEntry t b hmem.1 it hit
    refine ⟨h1, m, ?_, h3⟩
    rw [hfind, h2]
    simp only
    rw [if_neg]
    rw [h3, h1]; exact hmem.2
  · exact List.Nodup.sublist ((filter_flatMap_sublist _ _ _).map _) h.timersNodup
  · intro t b hmem
    have hmem : (t, b) ∈ q.timeouts.filter (fun kb => !decide (kb.1 < now)) := hmem
    exact h.bucketsSorted t b (List.mem_filter.mp hmem).1

/-! ### results of the operations -/

theorem expectedAck_error {kind : PType} {qos : Nat} {e : Res}
    (h : expectedAck kind qos = .error e) : e ≠ .ok := by
  unfold expectedAck at h
  grind

/-- the three possible shapes of `insert` -/
theorem insert_cases (q : Queue) (pfx : String) (kind : PType) (qos : Nat) (mid : Int) (d : Time) :
    ((insert q pfx kind qos mid d).1 = q ∧ (insert q pfx kind qos mid d).2 ≠ .ok ∧
      (msgFind (hashKey pfx mid) q.msgs ≠ none → (insert q pfx kind qos mid d).2 ≠ .ok)) ∨
    (∃ st, expectedAck kind qos = .ok st ∧ msgFind (hashKey pfx mid) q.msgs = none ∧
      insert q pfx kind qos mid d =
        ({ msgs := q.msgs ++ [(hashKey pfx mid, ⟨st, kind, mid, d⟩)],
           timeouts := pqInsert (hashKey pfx mid) d q.timeouts }, .ok)) := by
  unfold insert
  cases kind <;> simp only [] <;> (try (left; simp; done)) <;>
  · by_cases hmid : mid = 0
    · left; simp [hmid]
    · simp only [hmid, if_false]
      cases he : expectedAck _ qos with
      | error e =>
        left
        simp only [true_and]
        have : e ≠ .ok := expectedAck_error he
        simp [this]
      | ok st =>
        simp only
        cases hf : msgFind (hashKey pfx mid) q.msgs with
        | some m => left; simp
        | none => right; exact ⟨st, rfl, rfl, rfl⟩

/-- the possible shapes of `ack` -/
theorem ack_cases (q : Queue) (pfx : String) (kind : PType) (hasMid : Bool) (mid : Int) :
    (ack q pfx kind hasMid mid = (q, (ack q pfx kind hasMid mid).2.1, []) ∧
      (ack q pfx kind hasMid mid).2.1 ≠ .ok ∧
      ¬ (hasMid = true ∧ ∃ m, msgFind (hashKey pfx mid) q.msgs = some m ∧ m.state = kind)) ∨
    (hasMid = true ∧ ∃ m, msgFind (hashKey pfx mid) q.msgs = some m ∧ m.state = kind ∧
      ack q pfx kind hasMid mid =
        ({ msgs := msgErase (hashKey pfx mid) q.msgs,
           timeouts := (pqDelete (hashKey pfx mid) m.deadline q.timeouts).1 }, .ok,
         [⟨hashKey pfx mid, false, m.stored⟩])) := by
  unfold ack
  cases hasMid with
  | false => left; simp
  | true =>
    simp only [Bool.not_true, Bool.false_eq_true, if_false]
    cases hf : msgFind (hashKey pfx mid) q.msgs with
    | none => left; simp
    | some m =>
      simp only
      by_cases hs : m.state = kind
      · right; simp [hs]
      · left; simp [hs]

theorem qinv_step {q : Queue} (h : QInv q) (op : Op) : QInv (step q op).1 := by
  cases op with
  | insert pfx kind qos mid d =>
    show QInv (insert q pfx kind qos mid d).1
    rcases insert_cases q pfx kind qos mid d with ⟨h1, _⟩ | ⟨st, _, hnone, heq⟩
    · rw [h1]; exact h
    · rw [heq]; exact qinv_insert h _ ⟨st, kind, mid, d⟩ hnone
  | ack pfx kind hasMid mid =>
    show QInv (ack q pfx kind hasMid mid).1
    rcases ack_cases q pfx kind hasMid mid with ⟨h1, _⟩ | ⟨_, m, hm, _, heq⟩
    · rw [h1]; exact h
    · rw [heq]; exact qinv_ack h _ m hm
  | expire now => exact qinv_expire h now

theorem ack_ok_eq {q : Queue} {pfx : String} {kind : PType} {mid : Int} {m : Msg}
    (hm : msgFind (hashKey pfx mid) q.msgs = some m) (hk : m.state = kind) :
    ack q pfx kind true mid =
      ({ msgs := msgErase (hashKey pfx mid) q.msgs,
         timeouts := (pqDelete (hashKey pfx mid) m.deadline q.timeouts).1 }, .ok,
       [⟨hashKey pfx mid, false, m.stored⟩]) := by
  simp [ack, hm, hk]

/-- the events of a sweep -/
theorem QInv.expire_events {q : Queue} (h : QInv q) (now : Time) (ev : Resolved) :
    ev ∈ (expire q now).2 ↔ ∃ m, msgFind ev.key q.msgs = some m ∧ roundSec m.deadline < now ∧
      ev.expired = true ∧ ev.stored = m.stored := by
  rw [expire_eq]
  show ev ∈ (expireKeys (pqExpire now q.timeouts).2 q.msgs).2 ↔ _
  rw [mem_expireKeys_events _ h.keysNodup, h.mem_expired_keys]
  constructor
  · rintro ⟨⟨m, h1, h2⟩, h3, m', h4, h5⟩
    rw [h1] at h4; cases h4
    exact ⟨m, h1, h2, h3, h5⟩
  · rintro ⟨m, h1, h2, h3, h4⟩
    exact ⟨⟨m, h1, h2⟩, h3, m, h1, h4⟩

theorem QInv.expire_events_nodup {q : Queue} (h : QInv q) (now : Time) :
    ((expire q now).2.map (·.key)).Nodup := by
  rw [expire_eq]
  exact List.Nodup.sublist (expireKeys_evkeys_sublist _ _) (pqExpire_keys_nodup now h.timersNodup)

/-- a key fires in a sweep iff it is registered with a rounded deadline before `now` -/
theorem QInv.expire_fires {q : Queue} (h : QInv q) (now : Time) (k : Key) :
    (∃ ev ∈ (expire q now).2, ev.key = k) ↔
      ∃ m, msgFind k q.msgs = some m ∧ roundSec m.deadline < now := by
  constructor
  · rintro ⟨ev, hev, rfl⟩
    obtain ⟨m, h1, h2, _⟩ := (h.expire_events now ev).mp hev
    exact ⟨m, h1, h2⟩
  · rintro ⟨m, h1, h2⟩
    exact ⟨⟨k, true, m.stored⟩, (h.expire_events now _).mpr ⟨m, h1, h2, rfl, rfl⟩, rfl⟩

/-! ### generic association-list lookup (the monitor's `liveFind`) -/

def afind {β : Type} (k : Key) : List (Key × β) → Option β
  | [] => none
  | (k', v) :: rest => if k' = k then some v else afind k rest

theorem afind_none_iff {β : Type} {k : Key} {l : List (Key × β)} :
    afind k l = none ↔ k ∉ l.map (·.1) := by
  induction l with
  | nil => simp [afind]
  | cons x rest ih =>
    obtain ⟨k', m⟩ := x
    by_cases h : k' = k <;> simp [afind, h, ih] <;> grind

theorem afind_of_mem {β : Type} {k : Key} {v : β} {l : List (Key × β)}
    (hn : (l.map (·.1)).Nodup) (hm : (k, v) ∈ l) : afind k l = some v := by
  induction l with
  | nil => simp at hm
  | cons x rest ih =>
    obtain ⟨k', m'⟩ := x
    simp only [List.map_cons, List.nodup_cons, List.mem_map, not_exists, not_and] at hn
    by_cases h : k' = k
    · subst h
      simp only [afind, if_true]
      rcases List.mem_cons.mp hm with h' | h'
      · grind
      · exact absurd rfl (hn.1 _ h')
    · simp only [afind, h, if_false]
      rcases List.mem_cons.mp hm with h' | h'
      · grind
      · exact ih hn.2 h'

theorem afind_append {β : Type} (k : Key) (l l' : List (Key × β)) :
    afind k (l ++ l') = match afind k l with
      | some m => some m
      | none => afind k l' := by
  induction l with
  | nil => simp [afind]
  | cons x rest ih =>
    obtain ⟨k', m'⟩ := x
    by_cases h : k' = k <;> simp [afind, h, ih]

theorem afind_filter {β : Type} (p : Key → Bool) (k : Key) (l : List (Key × β)) :
    afind k (l.filter (fun e => p e.1)) = if p k then afind k l else none := by
  induction l with
  | nil => simp [afind]
  | cons x rest ih =>
    obtain ⟨k', v⟩ := x
    by_cases h1 : p k'
    · simp only [List.filter_cons, h1, if_true, afind, ih]
      by_cases h2 : k' = k
      · subst h2; simp [h1]
      · simp [h2]
    · simp only [List.filter_cons, h1, afind]
      by_cases h2 : k' = k
      · subst h2; simp [h1, ih]
      · simp [h2, ih]

theorem filter_keys_nodup {β : Type} (p : Key × β → Bool) {l : List (Key × β)}
    (hn : (l.map (·.1)).Nodup) : ((l.filter p).map (·.1)).Nodup :=
  List.Nodup.sublist ((List.filter_sublist (l := l)).map _) hn

theorem append_keys_nodup {β : Type} {l : List (Key × β)} {k : Key} (v : β)
    (hn : (l.map (·.1)).Nodup) (hk : afind k l = none) : ((l ++ [(k, v)]).map (·.1)).Nodup := by
  rw [List.map_append, List.nodup_append]
  refine ⟨hn, by simp, ?_⟩
  intro a ha c hc
  simp only [List.map_cons, List.map_nil, List.mem_singleton] at hc
  subst hc
  intro hac; subst hac
  exact (afind_none_iff.mp hk) ha

end Wasp.Ack

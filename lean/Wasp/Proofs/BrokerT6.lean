import Wasp.Model.Broker
import Wasp.Proofs.BrokerD
import Wasp.Proofs.BrokerC
/-! helper lemmas for Wasp/Properties/E2E.lean (agent T6) -/
namespace Wasp.Broker
open Wasp.Dist Wasp.Topic

/-- what `send` writes for QoS 0 recipients: one PUBLISH per recipient whose session is registered -/
def deliveries0 (n : Node) (rcpt : List (String × Int)) (p : Pub) : List (String × Pkt) :=
  rcpt.filterMap (fun r => (n.sess r.1).map (fun s =>
    (s.conn, Pkt.publish (trimMountPoint s.mount p.topic) p.payload 0 p.retain p.dup 0)))

end Wasp.Broker

namespace Wasp.Broker.AgentT6
open Wasp.Broker Wasp.Dist Wasp.Topic Wasp.Broker.AgentC

/-! ### sessions: connection and mount point of a registered session are stable -/

/-- `n'` registers the same session ids as `n`, each with the same connection and mount point -/
def CM (n n' : Node) : Prop :=
  ∀ r, (n'.sess r).map (fun s => (s.conn, s.mount)) = (n.sess r).map (fun s => (s.conn, s.mount))

theorem CM.refl (n : Node) : CM n n := fun _ => rfl

theorem CM.trans {a b c : Node} (h1 : CM a b) (h2 : CM b c) : CM a c := fun r => (h2 r).trans (h1 r)

theorem CM.of_reg_eq {n n' : Node} (h : n'.reg = n.reg) : CM n n' := by
  intro r; simp only [Node.sess, h]

theorem sess_setSess_ne (n : Node) (s' : Sess) (r : String) (h : r ≠ s'.id) :
    (n.setSess s').sess r = n.sess r := by
  unfold Node.sess Node.setSess
  simp only
  induction n.reg with
  | nil => simp
  | cons x rest ih =>
    simp only [List.map_cons, List.find?_cons]
    by_cases hx : x.id = s'.id
    · have h1 : (s'.id == r) = false := by simpa using Ne.symm h
      have h2 : (x.id == r) = false := by rw [hx]; exact h1
      have hxx : (x.id == s'.id) = true := by simpa using hx
      simp only [hxx, if_true, h1, h2, ih]
    · have hx' : (x.id == s'.id) = false := by simpa using hx
      simp only [hx', Bool.false_eq_true, if_false, ih]

/-- replacing the session found under `sid` by one with the same id, connection and mount point -/
theorem CM.setSess {n : Node} {sid : String} {s s' : Sess} (h : n.sess sid = some s)
    (hid : s'.id = s.id) (hc : s'.conn = s.conn) (hm : s'.mount = s.mount) : CM n (n.setSess s') := by
  have hsid : s.id = sid := sess_id h
  intro r
  by_cases hr : r = sid
  · subst hr
    rw [sess_setSess n r s s' h (by rw [hid, hsid]), h]
    simp [hc, hm]
  · rw [sess_setSess_ne n s' r (by rw [hid, hsid]; exact hr)]

theorem CM.extendDeadline (w : World) (i : Nat) (sid : String) :
    CM (w.node i) ((w.extendDeadline i sid).node i) := by
  by_cases hi : i < w.nodes.length
  · cases hs : (w.node i).sess sid with
    | none => simp only [World.extendDeadline, hs]; exact CM.refl _
    | some s =>
      rw [extendDeadline_node w i hi sid s hs]
      exact CM.setSess hs rfl rfl rfl
  · have : w.extendDeadline i sid = w := by
      simp only [World.extendDeadline]
      cases (w.node i).sess sid with
      | none => rfl
      | some s => exact setNode_ge _ _ _ (by omega)
    rw [this]; exact CM.refl _

theorem CM.sess_some {n n' : Node} (h : CM n n') {r : String} {s : Sess} (hs : n.sess r = some s) :
    ∃ s', n'.sess r = some s' ∧ s'.conn = s.conn ∧ s'.mount = s.mount := by
  have := h r
  rw [hs] at this
  cases hs' : n'.sess r with
  | none => simp [hs'] at this
  | some s' =>
    simp only [hs', Option.map_some, Option.some.injEq, Prod.mk.injEq] at this
    exact ⟨s', rfl, this.1, this.2⟩

theorem deliveries0_congr {n n' : Node} (h : CM n n') (rcpt : List (String × Int)) (p : Pub) :
    deliveries0 n' rcpt p = deliveries0 n rcpt p := by
  unfold deliveries0
  congr 1
  funext r
  have := h r.1
  cases h1 : n.sess r.1 <;> cases h2 : n'.sess r.1 <;> simp_all

@[simp] theorem deliveries0_nil (n : Node) (p : Pub) : deliveries0 n [] p = [] := rfl

/-! ### writer -/

theorem send_skip (w : World) (i : Nat) (sid : String) (q : Int) (rest : List (String × Int)) (p : Pub)
    (hs : (w.node i).sess sid = none) : w.send i ((sid, q) :: rest) p = w.send i rest p := by
  simp [World.send, hs]

theorem send_all_qos0 (i : Nat) (p : Pub) (rcpt : List (String × Int)) :
    ∀ w : World, i < w.nodes.length → (∀ r ∈ rcpt, r.2 = 0) →
      (w.send i rcpt p).out = w.out ++ deliveries0 (w.node i) rcpt p := by
  induction rcpt with
  | nil => intro w _ _; simp [World.send]
  | cons r rest ih =>
    intro w hi hq
    obtain ⟨sid, q⟩ := r
    have hq0 : q = 0 := hq (sid, q) (by simp)
    subst hq0
    have hrest : ∀ r ∈ rest, r.2 = 0 := fun r hr => hq r (by simp [hr])
    cases hs : (w.node i).sess sid with
    | none =>
      rw [send_skip w i sid 0 rest p hs, ih w hi hrest]
      simp [deliveries0, hs]
    | some s =>
      have hstep : w.send i ((sid, 0) :: rest) p =
          World.send ((w.extendDeadline i sid).emit s.conn
            (.publish (trimMountPoint s.mount p.topic) p.payload 0 p.retain p.dup 0)) i rest p := by
        simp [World.send, hs]
      rw [hstep, ih _ (by simpa using hi) hrest]
      simp only [emit_out, extendDeadline_out, emit_node]
      rw [deliveries0_congr (CM.extendDeadline w i sid)]
      simp [deliveries0, hs]

/-! ### one-node distribution -/

theorem dedupNat_const (a : Nat) (l : List Nat) (h : ∀ x ∈ l, x = a) :
    dedupNat l = if l = [] then [] else [a] := by
  induction l with
  | nil => simp [dedupNat]
  | cons x rest ih =>
    have hx : x = a := h x (by simp)
    subst hx
    have ih' := ih (fun y hy => h y (by simp [hy]))
    simp only [dedupNat, ih']
    split <;> simp

theorem nodeIndexOfPeer_single (w : World) (hlen : w.nodes.length = 1) :
    nodeIndexOfPeer w (w.node 0).peer = some 0 := by
  obtain ⟨n0, hn0⟩ := List.length_eq_one_iff.1 hlen
  simp [nodeIndexOfPeer, World.node, hn0, List.findIdx?_cons]

theorem mem_subByPattern' {st : State} {topic : String} {u : Sub} (h : u ∈ subByPattern st topic) :
    ∃ kl ∈ st.subs, u ∈ kl.2 := by
  simp only [subByPattern, List.mem_flatMap, List.mem_filter] at h
  obtain ⟨kl, ⟨hkl, _⟩, hu, _⟩ := h
  exact ⟨kl, hkl, hu⟩

theorem appendLog_ok (n : Node) (p : Pub)
    (hlog : n.logFailAll = false ∧ n.logFailAt.contains n.logCalls = false) :
    n.appendLog p = ({ n with logCalls := n.logCalls + 1, log := n.log ++ [p] }, true) := by
  unfold Node.appendLog
  simp only [hlog.1, hlog.2, Bool.or_self, Bool.false_eq_true, if_false]

/-- `distribute` on a one-node cluster whose stored subscriptions are all local and QoS 0 -/
theorem distribute_single (w : World) (hlen : w.nodes.length = 1) (p : Pub)
    (hq0 : ∀ kl ∈ (w.node 0).dist.subs, ∀ u ∈ kl.2, u.qos = 0)
    (hpeer : ∀ kl ∈ (w.node 0).dist.subs, ∀ u ∈ kl.2, u.peer = (w.node 0).peer)
    (hlog : (w.node 0).logFailAll = false ∧ (w.node 0).logFailAt.contains (w.node 0).logCalls = false) :
    (w.distribute 0 p).1.out =
      w.out ++ deliveries0 (w.node 0)
        (((subByPattern (w.node 0).dist p.topic).filter (fun u => u.peer == (w.node 0).peer)).map
          (fun u => (u.session, u.qos))) p := by
  have hi : 0 < w.nodes.length := by omega
  have hpe : ∀ x ∈ (subByPattern (w.node 0).dist p.topic).map (·.peer), x = (w.node 0).peer := by
    intro x hx
    obtain ⟨u, hu, rfl⟩ := List.mem_map.1 hx
    obtain ⟨kl, hkl, hukl⟩ := mem_subByPattern' hu
    exact hpeer kl hkl u hukl
  unfold World.distribute
  simp only
  rw [dedupNat_const _ _ hpe]
  by_cases hnil : subByPattern (w.node 0).dist p.topic = []
  · simp [hnil]
  · have hne : ¬ (List.map (·.peer) (subByPattern (w.node 0).dist p.topic) = []) := by simpa using hnil
    rw [if_neg hne]
    simp only [List.foldl_cons, List.foldl_nil, nodeIndexOfPeer_single w hlen, appendLog_ok _ p hlog]
    simp only [ne_eq, not_true_eq_false, false_and, if_false, if_true]
    unfold World.deliverLocal
    simp only [node_setNode_self _ _ _ hi]
    rw [send_all_qos0 0 p _ _ (by simpa using hi)]
    · rw [node_setNode_self _ _ _ hi, setNode_out]
      exact congrArg _ (deliveries0_congr (CM.of_reg_eq (n := w.node 0) rfl) _ _)
    · intro r hr
      obtain ⟨u, hu, rfl⟩ := List.mem_map.1 hr
      obtain ⟨kl, hkl, hukl⟩ := mem_subByPattern' (List.mem_filter.1 hu).1
      exact hq0 kl hkl u hukl

theorem process_publish0 (w : World) (i : Nat) (sid : String) (s : Sess) (hs : (w.node i).sess sid = some s)
    (topic payload : String) (dup : Bool) (mid : Int) :
    (w.process i sid (.publish topic payload 0 false dup mid)).1 =
      (w.distribute i ⟨prefixMountPoint s.mount topic, payload, 0, false, dup⟩).1 := by
  simp only [World.process, hs, if_true, World.publishJob]
  simp only [Bool.false_eq_true, if_false]
  split <;> rfl

theorem mem_deliveries0 (n : Node) (rcpt : List (String × Int)) (p : Pub) (c : String) (pk : Pkt) :
    (c, pk) ∈ deliveries0 n rcpt p ↔
      ∃ x ∈ rcpt, ∃ r, n.sess x.1 = some r ∧ r.conn = c ∧
        pk = Pkt.publish (trimMountPoint r.mount p.topic) p.payload 0 p.retain p.dup 0 := by
  simp only [deliveries0, List.mem_filterMap, Option.map_eq_some_iff, Prod.mk.injEq]
  constructor
  · rintro ⟨x, hx, r, hr, hc, hp⟩; exact ⟨x, hx, r, hr, hc, hp.symm⟩
  · rintro ⟨x, hx, r, hr, hc, hp⟩; exact ⟨x, hx, r, hr, hc, hp.symm⟩

theorem drop_out {α : Type} (a b l : List α) (h : l = a ++ b) : l.drop a.length = b := by
  subst h; simp

/-! ### SUBSCRIBE -/

theorem subCreate_frame (w : World) (i : Nat) (hi : i < w.nodes.length) (sid pat : String) (q : Int) :
    ((w.subCreate i sid pat q).node i).reg = (w.node i).reg ∧
    ((w.subCreate i sid pat q).node i).dist.topics = (w.node i).dist.topics ∧
    (w.subCreate i sid pat q).out = w.out ∧ (w.subCreate i sid pat q).nodes.length = w.nodes.length := by
  have hi' : i < (w.tick.1).nodes.length := hi
  have hn : w.tick.1.node i = w.node i := rfl
  simp only [World.subCreate, World.broadcast, Wasp.Dist.subCreate]
  rw [node_setNode_self _ _ _ hi', node_setNode_self _ _ _ (by simpa using hi')]
  refine ⟨rfl, rfl, rfl, ?_⟩
  simp only [setNode_length]
  rfl

/-- the store-and-remember step of SUBSCRIBE for one filter -/
def subStep (w : World) (i : Nat) (sid : String) (tq : String × Nat) : World :=
  let w := w.subCreate i sid tq.1 tq.2
  let n := w.node i
  match n.sess sid with
  | some s' => if s'.topics.contains tq.1 then w else w.setNode i (n.setSess { s' with topics := s'.topics ++ [tq.1] })
  | none => w

theorem subStep_frame (w : World) (i : Nat) (hi : i < w.nodes.length) (sid : String) (tq : String × Nat) :
    CM (w.node i) ((subStep w i sid tq).node i) ∧
    ((subStep w i sid tq).node i).dist.topics = (w.node i).dist.topics ∧
    (subStep w i sid tq).out = w.out ∧ (subStep w i sid tq).nodes.length = w.nodes.length := by
  obtain ⟨hreg, htop, hout, hlen⟩ := subCreate_frame w i hi sid tq.1 tq.2
  have hi1 : i < (w.subCreate i sid tq.1 tq.2).nodes.length := by rw [hlen]; exact hi
  have hcm : CM (w.node i) ((w.subCreate i sid tq.1 tq.2).node i) := CM.of_reg_eq hreg
  unfold subStep
  simp only
  cases hs : ((w.subCreate i sid tq.1 tq.2).node i).sess sid with
  | none => exact ⟨hcm, htop, hout, hlen⟩
  | some s' =>
    simp only
    split
    · exact ⟨hcm, htop, hout, hlen⟩
    · rw [node_setNode_self _ _ _ hi1]
      refine ⟨hcm.trans (CM.setSess hs rfl rfl rfl), htop, hout, ?_⟩
      rw [setNode_length, hlen]

theorem process_subscribe1 (w : World) (i : Nat) (sid : String) (s : Sess) (hs : (w.node i).sess sid = some s)
    (mid : Int) (f : String) :
    (w.process i sid (.subscribe mid [(f, 0)])).1 =
      (topicGet (((subStep w i sid (prefixMountPoint s.mount f, 0)).emit s.conn (.suback mid [0])).node i).dist
          (prefixMountPoint s.mount f)).foldl
        (fun w r => w.send i [(sid, 0)] ⟨r.topic, r.payload, r.qos, r.retain, r.dup⟩)
        ((subStep w i sid (prefixMountPoint s.mount f, 0)).emit s.conn (.suback mid [0])) := by
  simp only [World.process, hs]
  rfl

theorem send_one_qos0 (w : World) (i : Nat) (sid : String) (p : Pub) :
    w.send i [(sid, 0)] p = match (w.node i).sess sid with
      | none => w
      | some s => (w.extendDeadline i sid).emit s.conn
          (.publish (trimMountPoint s.mount p.topic) p.payload 0 p.retain p.dup 0) := by
  cases hs : (w.node i).sess sid <;> simp [World.send, hs]

theorem fold_send_qos0 (i : Nat) (sid c m : String) (L : List Retained) :
    ∀ w : World, i < w.nodes.length →
      ((w.node i).sess sid).map (fun s => (s.conn, s.mount)) = some (c, m) →
      (L.foldl (fun w r => w.send i [(sid, 0)] ⟨r.topic, r.payload, r.qos, r.retain, r.dup⟩) w).out =
        w.out ++ L.map (fun r => (c, Pkt.publish (trimMountPoint m r.topic) r.payload 0 r.retain r.dup 0)) := by
  induction L with
  | nil => intro w _ _; simp
  | cons r rest ih =>
    intro w hi hs
    cases hs' : (w.node i).sess sid with
    | none => simp [hs'] at hs
    | some s =>
      simp only [hs', Option.map_some, Option.some.injEq, Prod.mk.injEq] at hs
      obtain ⟨hc, hm⟩ := hs
      simp only [List.foldl_cons, List.map_cons]
      rw [send_one_qos0, hs']
      simp only
      rw [ih _ (by simpa using hi)]
      · simp [hc, hm]
      · rw [emit_node, CM.extendDeadline w i sid sid, hs']
        simp [hc, hm]

end Wasp.Broker.AgentT6

import Wasp.Model.Broker
import Wasp.Model.Wire
import Wasp.Proofs.BrokerD
/-! helper lemmas for Wasp/Properties/C11Time.lean (agent T1) -/
namespace Wasp.Broker.AgentT1
open Wasp.Broker Wasp.Wire Wasp.Broker.AgentD

/-! ### packet re-arms -/

theorem find_setSess_self (l : List Sess) (s : Sess) (h : (l.find? (fun x => x.id == s.id)).isSome) :
    (l.map (fun x => if x.id == s.id then s else x)).find? (fun x => x.id == s.id) = some s := by
  induction l with
  | nil => simp at h
  | cons a rest ih =>
    simp only [List.map_cons, List.find?_cons] at h ⊢
    by_cases ha : (a.id == s.id) = true
    · simp [ha]
    · simp only [ha] at h ⊢
      simp only [Bool.false_eq_true, if_false, ha]
      exact ih h

theorem sess_setSess_self (n : Node) (s : Sess) (h : (n.sess s.id).isSome) :
    (n.setSess s).sess s.id = some s := by
  unfold Node.sess Node.setSess at *
  exact find_setSess_self n.reg s h

theorem extend_sess (w : World) (i : Nat) (sid : String) (s' : Sess)
    (h : ((w.extendDeadline i sid).node i).sess sid = some s') :
    s'.deadline = w.now + 2 * s'.keepalive * 1000 := by
  unfold World.extendDeadline at h
  simp only at h
  cases hs : (w.node i).sess sid with
  | none =>
    rw [hs] at h
    simp only at h
    rw [hs] at h
    cases h
  | some s =>
    rw [hs] at h
    simp only at h
    have hid : s.id = sid := (sess_some hs).2
    subst hid
    by_cases hi : i < w.nodes.length
    · rw [node_setNode_self _ _ _ hi] at h
      have := sess_setSess_self (w.node i) { s with deadline := w.now + 2 * s.keepalive * 1000 }
        (by simp only [hs]; rfl)
      simp only at this
      rw [this] at h
      cases h
      rfl
    · rw [node_oob _ _ (by simp; omega)] at h
      cases h

theorem packet_rearms (w : World) (c : String) (pkt : CPkt) (i : Nat) (s' : Sess)
    (hc : w.conns.find? (fun e => e.1 == c) = some (c, i))
    (hhad : ((w.node i).sess ("S" ++ c)).isSome)
    (hs' : ((w.clientPacket c pkt).node i).sess ("S" ++ c) = some s') :
    s'.deadline = w.now + 2 * s'.keepalive * 1000 := by
  unfold World.clientPacket at hs'
  rw [hc] at hs'
  simp only at hs'
  have hn : ¬ ((w.node i).sess ("S" ++ c)).isNone = true := by
    cases h : (w.node i).sess ("S" ++ c) with
    | none => rw [h] at hhad; cases hhad
    | some x => simp
  rw [if_neg hn] at hs'
  have hp := (sr_process w i ("S" ++ c) pkt).now
  generalize (w.process i ("S" ++ c) pkt) = r at hs' hp
  obtain ⟨w1, res⟩ := r
  simp only at hs' hp
  cases res with
  | ok =>
    simp only at hs'
    rw [← hp]
    exact extend_sess w1 i _ s' hs'
  | disconnected =>
    simp only at hs'
    have key : ∀ W : World, ((W.shutdownSession i ("S" ++ c)).node i).sess ("S" ++ c) = none := by
      intro W
      rw [sess_eq_none_iff]
      exact shutdown_removes W i ("S" ++ c)
    rw [key] at hs'
    cases hs'
  | error =>
    simp only at hs'
    have := shutdown_removes w1 i ("S" ++ c)
    rw [← sess_eq_none_iff] at this
    rw [this] at hs'
    cases hs'

/-! ### registry entries are kept -/

def KeepIds (w w' : World) : Prop :=
  ∀ j sid, sid ∈ (w.node j).reg.map (·.id) → sid ∈ (w'.node j).reg.map (·.id)

theorem KeepIds.refl (w : World) : KeepIds w w := fun _ _ h => h

theorem KeepIds.trans {a b c : World} (h1 : KeepIds a b) (h2 : KeepIds b c) : KeepIds a c :=
  fun j sid h => h2 j sid (h1 j sid h)

theorem KeepIds.of_sameReg {w w' : World} (h : SameReg w w') : KeepIds w w' :=
  fun j sid hm => by rw [h.ids j]; exact hm

theorem KeepIds.of_nodes_eq {w w' : World} (h : w'.nodes = w.nodes) : KeepIds w w' :=
  fun j sid hm => by rw [node_congr h]; exact hm

@[simp] theorem sessDelete_conns (w : World) (i : Nat) (sid : String) : (w.sessDelete i sid).conns = w.conns := by
  simp only [World.sessDelete]
  split <;> rfl

theorem connPre_conns (w : World) (c : String) (i : Nat) (client mount : String) :
    (connPre w c i client mount).conns = w.conns.filter (fun (e : String × Nat) => e.1 != c) ++ [(c, i)] := by
  unfold connPre
  simp only
  split
  · rw [sessDelete_conns]
  · rfl

theorem connMid_conns (w : World) (c : String) (i : Nat) (client mount : String) (will : Option Wasp.Dist.Will) :
    (connMid w c i client mount will).conns = w.conns.filter (fun (e : String × Nat) => e.1 != c) ++ [(c, i)] := by
  unfold connMid
  simp only
  split
  · exact connPre_conns w c i client mount
  · exact connPre_conns w c i client mount

theorem connect_conns (w : World) (c : String) (i : Nat) (client mount : String) (auth : Bool) (ka : Nat)
    (will : Option Wasp.Dist.Will) :
    (w.connect c i client mount auth ka will).conns = w.conns.filter (fun (e : String × Nat) => e.1 != c) ++ [(c, i)] := by
  cases auth with
  | false => simp [World.connect, World.emit]
  | true =>
    rw [connect_eq]
    split
    · exact connPre_conns w c i client mount
    · exact connMid_conns w c i client mount will

theorem connect_keeps (w : World) (c : String) (i : Nat) (client mount : String) (auth : Bool) (ka : Nat)
    (will : Option Wasp.Dist.Will) : KeepIds w (w.connect c i client mount auth ka will) := by
  cases auth with
  | false =>
    apply KeepIds.of_nodes_eq
    simp [World.connect, World.emit]
  | true =>
    rw [connect_eq]
    split
    · exact KeepIds.of_sameReg (((sr_connPre w c i client mount).trans (sr_tick _)).trans (sr_emit _ _ _))
    · refine KeepIds.trans (KeepIds.of_sameReg (sr_connMid w c i client mount will)) ?_
      simp only
      generalize connMid w c i client mount will = W
      intro j sid hm
      rw [node_emit, node_setNode]
      split
      · rename_i hc
        rw [hc.1] at hm
        simp only [List.map_append, List.mem_append]
        exact Or.inl hm
      · exact hm

theorem find_filter_ne_self (l : List (String × Nat)) (c : String) :
    (l.filter (fun e => e.1 != c)).find? (fun e => e.1 == c) = none := by
  rw [List.find?_eq_none]
  intro x hx
  have := (List.mem_filter.mp hx).2
  simpa using this

theorem find_filter_append_self (l : List (String × Nat)) (c : String) (i : Nat) :
    (l.filter (fun e => e.1 != c) ++ [(c, i)]).find? (fun e => e.1 == c) = some (c, i) := by
  rw [List.find?_append, find_filter_ne_self]
  simp

theorem applyDecoded_spec (w : World) (c : String) (r : DRes) (h : hasSession w c = false) :
    KeepIds w (applyDecoded w c r) ∧
      ∀ i1 x, (applyDecoded w c r).conns.find? (fun e => e.1 == c) = some (x, i1) → (w.node i1).sess ("S" ++ c) = none := by
  unfold applyDecoded
  cases hf : w.conns.find? (fun e => e.1 == c) with
  | none =>
    simp only
    refine ⟨KeepIds.refl w, fun i1 x hx => ?_⟩
    rw [hf] at hx; cases hx
  | some p =>
    obtain ⟨x0, i0⟩ := p
    have h0 : (w.node i0).sess ("S" ++ c) = none := by
      unfold hasSession at h
      rw [hf] at h
      simp only at h
      cases hh : (w.node i0).sess ("S" ++ c) with
      | none => rfl
      | some y => rw [hh] at h; cases h
    have hfail : KeepIds w (failConn w c) ∧
        ∀ i1 x, (failConn w c).conns.find? (fun e => e.1 == c) = some (x, i1) → (w.node i1).sess ("S" ++ c) = none := by
      unfold failConn
      rw [hf]
      simp only [h, Bool.false_eq_true, if_false]
      refine ⟨KeepIds.of_nodes_eq rfl, fun i1 x hx => ?_⟩
      have : (w.conns.filter (fun e => e.1 != c)).find? (fun e => e.1 == c) = some (x, i1) := hx
      rw [find_filter_ne_self] at this
      cases this
    simp only [h, Bool.false_eq_true, if_false]
    cases r with
    | connect client user pass ka will =>
      simp only
      split
      · refine ⟨connect_keeps _ _ _ _ _ _ _ _, fun i1 x hx => ?_⟩
        rw [connect_conns, find_filter_append_self] at hx
        cases hx
        exact h0
      · refine ⟨connect_keeps _ _ _ _ _ _ _ _, fun i1 x hx => ?_⟩
        rw [connect_conns, find_filter_append_self] at hx
        cases hx
        exact h0
    | pkt p => exact hfail
    | err => exact hfail
    | panic => exact hfail

/-- the last step of `closeFromClientRaw` -/
def closeFin (w : World) (c : String) : World :=
  if w.conns.any (fun e => e.1 == c) then
    if hasSession w c then w.drop c
    else ({ w with conns := w.conns.filter (fun e => e.1 != c) }).emit c .closed
  else w.emit c .closed

theorem closeFin_keeps (w0 w : World) (c : String) (hk : KeepIds w0 w)
    (hc : ∀ i1 x, w.conns.find? (fun e => e.1 == c) = some (x, i1) → (w0.node i1).sess ("S" ++ c) = none) :
    KeepIds w0 (closeFin w c) := by
  unfold closeFin
  split
  · split
    · unfold World.drop
      cases hf : w.conns.find? (fun e => e.1 == c) with
      | none => exact hk
      | some p =>
        obtain ⟨x, i1⟩ := p
        simp only
        have h0 := hc i1 x hf
        split
        · intro j sid hm
          apply shutdown_keeps
          · exact hk j sid hm
          · by_cases hj : j = i1
            · left
              subst hj
              intro e
              subst e
              rw [sess_eq_none_iff] at h0
              exact h0 hm
            · right; exact hj
        · exact hk.trans (KeepIds.of_nodes_eq rfl)
    · exact hk.trans (KeepIds.of_nodes_eq rfl)
  · exact hk.trans (KeepIds.of_nodes_eq rfl)

theorem closeRaw_eq (w : World) (c : String) :
    closeFromClientRaw w c = closeFin
      (match bufOf w c with
        | [] => setBuf w c []
        | h :: rest =>
          match readRemLen 0 0 1 rest with
          | .ok remlen used =>
            applyDecoded (setBuf w c []) c (decodeBody (h / 16) (h % 16)
              (rest.drop used ++ List.replicate (remlen - (rest.drop used).length) 0))
          | _ => setBuf w c []) c := rfl

theorem closeRaw_keeps (w : World) (c : String) (h : hasSession w c = false) :
    KeepIds w (closeFromClientRaw w c) := by
  rw [closeRaw_eq]
  have h' : hasSession (setBuf w c []) c = false := h
  have hk0 : KeepIds w (setBuf w c []) := KeepIds.of_nodes_eq rfl
  have hbase : ∀ i1 x, (setBuf w c []).conns.find? (fun e => e.1 == c) = some (x, i1) →
      (w.node i1).sess ("S" ++ c) = none := by
    intro i1 x hx
    have hx' : w.conns.find? (fun e => e.1 == c) = some (x, i1) := hx
    unfold hasSession at h
    rw [hx'] at h
    simp only at h
    cases hh : (w.node i1).sess ("S" ++ c) with
    | none => rfl
    | some y => rw [hh] at h; cases h
  apply closeFin_keeps
  · split
    · exact hk0
    · split
      · exact hk0.trans (applyDecoded_spec _ c _ h').1
      · exact hk0
  · split
    · exact hbase
    · split
      · exact (applyDecoded_spec _ c _ h').2
      · exact hbase

/-- one step of `expireHandshakes` -/
def hsStep (w : World) (e : String × Int) : World :=
  if e.2 < w.now && w.conns.any (fun x => x.1 == e.1) && !hasSession w e.1 && !w.deaf.contains e.1
  then closeFromClientRaw { w with hs := w.hs.filter (fun x => x.1 != e.1) } e.1
  else w

theorem expire_eq (w : World) : expireHandshakes w = w.hs.foldl hsStep w := rfl

theorem hsStep_keeps (w : World) (e : String × Int) : KeepIds w (hsStep w e) := by
  unfold hsStep
  split
  · rename_i hcond
    simp only [Bool.and_eq_true, Bool.not_eq_true', decide_eq_true_eq] at hcond
    have h1 : hasSession { w with hs := w.hs.filter (fun x => x.1 != e.1) } e.1 = false := hcond.1.2
    exact (KeepIds.of_nodes_eq (w := w) rfl).trans (closeRaw_keeps _ _ h1)
  · exact KeepIds.refl w

theorem expire_keeps (w : World) : KeepIds w (expireHandshakes w) := by
  rw [expire_eq]
  exact foldl_inv (fun b => KeepIds w b) hsStep w.hs w (KeepIds.refl w) (fun b a _ hb => hb.trans (hsStep_keeps b a))

theorem wire_idle_spares (w : World) (ms : Int) (i : Nat) (s : Sess) (hs : s ∈ (w.node i).reg)
    (hd : w.now + ms ≤ s.deadline) (hu : ((w.node i).reg.map (·.id)).Nodup) :
    s.id ∈ ((Wasp.Wire.idle w ms).node i).reg.map (·.id) := by
  unfold Wasp.Wire.idle
  exact expire_keeps _ i s.id (idle_spares w ms i s hs hd hu)

theorem shift_reg (w : World) (ms : Int) (i : Nat) :
    (World.node { w with nodes := w.nodes.map (fun n => { n with timers := n.timers.map (fun t => (t.1 + ms, t.2)) }) } i).reg
      = (w.node i).reg := by
  simp only [World.node, List.getD_eq_getElem?_getD, List.getElem?_map]
  cases w.nodes[i]? <;> rfl

theorem elapse_spares (w : World) (ms : Int) (i : Nat) (s : Sess) (hs : s ∈ (w.node i).reg)
    (hd : w.now + ms ≤ s.deadline) (hu : ((w.node i).reg.map (·.id)).Nodup) :
    s.id ∈ ((Wasp.Wire.elapse w ms).node i).reg.map (·.id) := by
  unfold Wasp.Wire.elapse
  apply wire_idle_spares
  · rw [shift_reg]; exact hs
  · exact hd
  · rw [shift_reg]; exact hu

/-! ### after time has passed nobody is overdue -/

theorem NFrame_failed : AgentA.NFrame (fun n : Node => n.failed) :=
  ⟨fun _ _ => rfl, fun _ _ => rfl, fun _ _ => rfl, fun _ _ _ => rfl, fun _ _ => rfl⟩

theorem appendLog_failed (n : Node) (p : Pub) : (n.appendLog p).1.failed = n.failed := by
  unfold Node.appendLog
  simp only
  split <;> rfl

theorem shutdown_failed (w : World) (i : Nat) (sid : String) :
    AgentA.WFrame (fun n : Node => n.failed) w (w.shutdownSession i sid) := by
  cases hs : (w.node i).sess sid with
  | none => rw [C13_once w i sid hs]; exact AgentA.WFrame.refl _ _
  | some s =>
    have hid : s.id = sid := AgentA.sess_some_id hs
    have h0 : AgentA.WFrame (fun n : Node => n.failed) w (AgentA.regFiltered w i s.id) :=
      AgentA.WFrame.setNode w i _ rfl
    have hT := h0.trans (C13_aux_teardown_frame NFrame_failed w i s)
    rw [C13_shutdown_eq w i sid s hs hid]
    simp only
    split
    · exact hT
    · split
      · exact hT
      · split
        · exact hT
        · exact AgentA.WFrame.after (AgentA.publishJob_frame NFrame_failed appendLog_failed _ _ _) hT

theorem idleTimers_failed (w : World) (i : Nat) :
    AgentA.WFrame (fun n : Node => n.failed) w (idleTimers w i) := by
  unfold idleTimers
  simp only
  refine AgentA.WFrame.after (AgentA.foldl_frame _ ?_ _ _) (AgentA.WFrame.setNode w i _ rfl)
  intro b t
  simp only [World.tick]
  refine AgentA.WFrame.after (AgentA.broadcast_frame NFrame_failed _ _ _) ?_
  refine AgentA.WFrame.after (AgentA.WFrame.setNode _ _ _ rfl) ?_
  exact AgentA.WFrame.of_nodes _ rfl

/-- every registry entry of `n` with id `sid` is within its deadline -/
def OK (now : Int) (n : Node) (sid : String) : Prop := ∀ x ∈ n.reg, x.id = sid → now ≤ x.deadline

structure Mono (w w' : World) : Prop where
  len : w'.nodes.length = w.nodes.length
  now : w'.now = w.now
  sub : ∀ j, List.Sublist ((w'.node j).reg.map (·.id)) ((w.node j).reg.map (·.id))
  ok : ∀ j sid, OK w.now (w.node j) sid → OK w.now (w'.node j) sid
  failed : ∀ j, (w'.node j).failed = (w.node j).failed

theorem Mono.refl (w : World) : Mono w w :=
  ⟨rfl, rfl, fun _ => List.Sublist.refl _, fun _ _ h => h, fun _ => rfl⟩

theorem Mono.trans {a b c : World} (h1 : Mono a b) (h2 : Mono b c) : Mono a c :=
  ⟨h2.len.trans h1.len, h2.now.trans h1.now, fun j => (h2.sub j).trans (h1.sub j),
   fun j sid h => by
     have := h2.ok j sid
     rw [h1.now] at this
     exact this (h1.ok j sid h),
   fun j => (h2.failed j).trans (h1.failed j)⟩

theorem Mono.of_sameReg {w w' : World} (h : SameReg w w')
    (hf : AgentA.WFrame (fun n : Node => n.failed) w w') : Mono w w' :=
  ⟨h.len, h.now, fun j => by rw [h.ids j]; exact List.Sublist.refl _, fun j sid hok => (h.reg j).2 sid hok, hf.2⟩

theorem Mono.unreg (w : World) (i : Nat) (sid : String) : Mono w (unreg w i sid) := by
  refine ⟨by simp [AgentD.unreg], rfl, fun j => ?_, fun j sd hok => ?_, fun j => ?_⟩
  · rw [reg_unreg]
    split
    · exact List.Sublist.map _ List.filter_sublist
    · exact List.Sublist.refl _
  · intro x hx
    rw [reg_unreg] at hx
    split at hx
    · exact hok x (List.mem_filter.mp hx).1
    · exact hok x hx
  · unfold AgentD.unreg
    rw [node_setNode]
    split
    · rename_i hc; rw [hc.1]
    · rfl

theorem Mono.shutdown (w : World) (i : Nat) (sid : String) : Mono w (w.shutdownSession i sid) := by
  have h1 := Mono.unreg w i sid
  have h2 := sr_shutdown w i sid
  refine ⟨h2.len.trans h1.len, h2.now.trans h1.now, fun j => ?_, fun j sd hok => ?_, (shutdown_failed w i sid).2⟩
  · rw [h2.ids j]; exact h1.sub j
  · exact (h2.reg j).2 sd (h1.ok j sd hok)

/-- one step of the read-deadline loop of `World.idle` on node i -/
def dlStep (i : Nat) (w : World) (sid : String) : World :=
  match (w.node i).sess sid with
  | some s => if s.deadline < w.now then w.shutdownSession i sid else w
  | none => w

theorem dlStep_mono (i : Nat) (w : World) (sid : String) : Mono w (dlStep i w sid) := by
  unfold dlStep
  split
  · split
    · exact Mono.shutdown w i sid
    · exact Mono.refl w
  · exact Mono.refl w

theorem idleNode_eq (w : World) (i : Nat) :
    idleNode w i = if (w.node i).failed then w else
      ((((idleTimers w i).node i).reg.filter (fun s => s.deadline < (idleTimers w i).now)).map (·.id)).foldl
        (dlStep i) (idleTimers w i) := rfl

theorem idleTimers_mono (w : World) (i : Nat) : Mono w (idleTimers w i) :=
  Mono.of_sameReg (sr_idleTimers w i) (idleTimers_failed w i)

theorem idleNode_mono (w : World) (k : Nat) : Mono w (idleNode w k) := by
  rw [idleNode_eq]
  split
  · exact Mono.refl w
  · exact foldl_inv (fun b => Mono w b) (dlStep k) _ _ (idleTimers_mono w k)
      (fun b a _ hb => hb.trans (dlStep_mono k b a))

theorem dlStep_estab (i : Nat) (w : World) (sid : String) (hu : ((w.node i).reg.map (·.id)).Nodup) :
    OK w.now ((dlStep i w sid).node i) sid := by
  unfold dlStep
  cases hs : (w.node i).sess sid with
  | none =>
    simp only
    intro x hx hid
    exact absurd hid (sess_none hs x hx)
  | some s =>
    simp only
    split
    · intro x hx hid
      have := shutdown_removes w i sid
      exact absurd (List.mem_map.mpr ⟨x, hx, hid⟩) this
    · rename_i hlt
      intro x hx hid
      obtain ⟨hsm, hsid⟩ := sess_some hs
      have : x = s := eq_of_nodup_ids hu hx hsm (hid.trans hsid.symm)
      rw [this]
      omega

theorem dl_fold (i : Nat) (l : List String) : ∀ (b : World), ((b.node i).reg.map (·.id)).Nodup →
    Mono b (l.foldl (dlStep i) b) ∧ ∀ sid ∈ l, OK b.now ((l.foldl (dlStep i) b).node i) sid := by
  induction l with
  | nil => intro b _; exact ⟨Mono.refl b, fun _ h => by cases h⟩
  | cons sid rest ih =>
    intro b hu
    simp only [List.foldl_cons]
    have hm := dlStep_mono i b sid
    have hu1 : (((dlStep i b sid).node i).reg.map (·.id)).Nodup := List.Nodup.sublist (hm.sub i) hu
    obtain ⟨ihm, ihok⟩ := ih (dlStep i b sid) hu1
    refine ⟨hm.trans ihm, fun sd hsd => ?_⟩
    rw [hm.now] at ihok
    have ihm_ok := ihm.ok i
    rw [hm.now] at ihm_ok
    rcases List.mem_cons.mp hsd with h | h
    · subst h
      exact ihm_ok sd (dlStep_estab i b sd hu)
    · exact ihok sd h

theorem idleNode_estab (w : World) (i : Nat) (hf : (w.node i).failed = false)
    (hu : ((w.node i).reg.map (·.id)).Nodup) :
    ∀ x ∈ ((idleNode w i).node i).reg, w.now ≤ x.deadline := by
  rw [idleNode_eq]
  simp only [hf, Bool.false_eq_true, if_false]
  have hT := sr_idleTimers w i
  have huT : (((idleTimers w i).node i).reg.map (·.id)).Nodup := by rw [hT.ids i]; exact hu
  have hnow := hT.now
  generalize idleTimers w i = wT at huT hnow
  obtain ⟨hm, hok⟩ := dl_fold i (((wT.node i).reg.filter (fun s => s.deadline < wT.now)).map (·.id)) wT huT
  intro x hx
  rw [← hnow]
  by_cases hex : ∃ y ∈ (wT.node i).reg, y.id = x.id ∧ y.deadline < wT.now
  · obtain ⟨y, hy, hyid, hyd⟩ := hex
    apply hok x.id _ x hx rfl
    exact List.mem_map.mpr ⟨y, List.mem_filter.mpr ⟨hy, by simpa using hyd⟩, hyid⟩
  · apply hm.ok i x.id _ x hx rfl
    intro y hy hyid
    by_cases hlt : y.deadline < wT.now
    · exact absurd ⟨y, hy, hyid, hlt⟩ hex
    · omega

theorem idle_outer (i : Nat) (l : List Nat) : ∀ (b : World), i ∈ l → (b.node i).failed = false →
    ((b.node i).reg.map (·.id)).Nodup →
    ∀ x ∈ ((l.foldl idleNode b).node i).reg, b.now ≤ x.deadline := by
  induction l with
  | nil => intro b h; cases h
  | cons k rest ih =>
    intro b hmem hf hu
    simp only [List.foldl_cons]
    by_cases hk : k = i
    · subst hk
      have h1 := idleNode_estab b k hf hu
      have hm1 := idleNode_mono b k
      have hm : Mono (idleNode b k) (rest.foldl idleNode (idleNode b k)) :=
        foldl_inv (fun r => Mono (idleNode b k) r) idleNode rest _ (Mono.refl _)
          (fun r a _ hr => hr.trans (idleNode_mono r a))
      intro x hx
      have := hm.ok k x.id
      rw [hm1.now] at this
      exact this (fun y hy _ => h1 y hy) x hx rfl
    · have hmem' : i ∈ rest := by
        rcases List.mem_cons.mp hmem with h | h
        · exact absurd h.symm hk
        · exact h
      have hm1 := idleNode_mono b k
      have := ih (idleNode b k) hmem' ((hm1.failed i).trans hf) (List.Nodup.sublist (hm1.sub i) hu)
      rw [hm1.now] at this
      exact this

theorem idle_mono (w : World) (ms : Int) : Mono { w with now := w.now + ms } (w.idle ms) := by
  rw [idle_eq]
  exact foldl_inv (fun r => Mono { w with now := w.now + ms } r) idleNode _ _ (Mono.refl _)
    (fun r a _ hr => hr.trans (idleNode_mono r a))

theorem idle_no_overdue (w : World) (ms : Int) (i : Nat) (hf : (w.node i).failed = false) (s : Sess)
    (hs : s ∈ ((w.idle ms).node i).reg) (hu : ((w.node i).reg.map (·.id)).Nodup) :
    (w.idle ms).now ≤ s.deadline := by
  have hm := idle_mono w ms
  rw [hm.now]
  by_cases hi : i < w.nodes.length
  · rw [idle_eq] at hs
    exact idle_outer i (List.range w.nodes.length) { w with now := w.now + ms }
      (List.mem_range.mpr hi) hf hu s hs
  · have hlen : (w.idle ms).nodes.length ≤ i := by
      rw [hm.len]; show w.nodes.length ≤ i; omega
    rw [reg_oob _ _ hlen] at hs
    cases hs

/-! ### CONNECT deadlines -/

theorem find_filter_key_ne {β : Type} (l : List (String × β)) (x c : String) (h : x ≠ c) :
    (l.filter (fun e => e.1 != x)).find? (fun e => e.1 == c) = l.find? (fun e => e.1 == c) := by
  rw [List.find?_filter]
  congr 1
  funext a
  by_cases ha : a.1 = c
  · simp [ha, Ne.symm h]
  · simp [ha]

theorem find_filter_key_self {β : Type} (l : List (String × β)) (c : String) :
    (l.filter (fun e => e.1 != c)).find? (fun e => e.1 == c) = none := by
  rw [List.find?_eq_none]
  intro x hx
  have := (List.mem_filter.mp hx).2
  simpa using this

theorem bufOf_setBuf_nil (w : World) (x y : String) (h : bufOf w y = []) : bufOf (setBuf w x []) y = [] := by
  unfold bufOf setBuf at *
  simp only [List.isEmpty_nil, if_true, List.append_nil]
  by_cases hxy : x = y
  · subst hxy
    rw [find_filter_key_self]
    rfl
  · rw [find_filter_key_ne _ _ _ hxy]
    exact h

/-- what closing a silent connection without a session and without buffered bytes amounts to -/
def closeStep (w : World) (c : String) : World :=
  ({ (setBuf { w with hs := w.hs.filter (fun x => x.1 != c) } c []) with
      conns := w.conns.filter (fun e => e.1 != c) }).emit c .closed

theorem closeRaw_nil (w : World) (c : String) (hb : bufOf w c = []) :
    closeFromClientRaw w c = closeFin (setBuf w c []) c := by
  rw [closeRaw_eq, hb]

theorem hsStep_pos (w : World) (e : String × Int) (hb : bufOf w e.1 = [])
    (hcond : (e.2 < w.now && w.conns.any (fun x => x.1 == e.1) && !hasSession w e.1 && !w.deaf.contains e.1) = true) :
    hsStep w e = closeStep w e.1 := by
  unfold hsStep
  rw [if_pos hcond]
  have hb' : bufOf { w with hs := w.hs.filter (fun x => x.1 != e.1) } e.1 = [] := hb
  rw [closeRaw_nil _ _ hb']
  simp only [Bool.and_eq_true, Bool.not_eq_true', decide_eq_true_eq] at hcond
  have h1 : (setBuf { w with hs := w.hs.filter (fun x => x.1 != e.1) } e.1 []).conns.any (fun x => x.1 == e.1) = true :=
    hcond.1.1.2
  have h2 : hasSession (setBuf { w with hs := w.hs.filter (fun x => x.1 != e.1) } e.1 []) e.1 = false := hcond.1.2
  unfold closeFin
  rw [if_pos h1, h2]
  rfl

theorem hsStep_neg (w : World) (e : String × Int)
    (hcond : ¬ (e.2 < w.now && w.conns.any (fun x => x.1 == e.1) && !hasSession w e.1 && !w.deaf.contains e.1) = true) :
    hsStep w e = w := by
  unfold hsStep
  rw [if_neg hcond]

theorem hsStep_cases (w : World) (e : String × Int) (hb : bufOf w e.1 = []) :
    hsStep w e = w ∨ hsStep w e = closeStep w e.1 := by
  by_cases hcond : (e.2 < w.now && w.conns.any (fun x => x.1 == e.1) && !hasSession w e.1 && !w.deaf.contains e.1) = true
  · exact Or.inr (hsStep_pos w e hb hcond)
  · exact Or.inl (hsStep_neg w e hcond)

theorem closeStep_buf (w : World) (x y : String) (h : bufOf w y = []) : bufOf (closeStep w x) y = [] :=
  bufOf_setBuf_nil { w with hs := w.hs.filter (fun e => e.1 != x) } x y h

def Closed (c : String) (w : World) : Prop :=
  (c, Pkt.closed) ∈ w.out ∧ w.conns.any (fun e => e.1 == c) = false

theorem any_filter_false (l : List (String × Nat)) (x c : String) (h : l.any (fun e => e.1 == c) = false) :
    (l.filter (fun e => e.1 != x)).any (fun e => e.1 == c) = false := by
  rw [List.any_eq_false] at h ⊢
  intro a ha
  exact h a (List.mem_filter.mp ha).1

theorem any_filter_self (l : List (String × Nat)) (c : String) :
    (l.filter (fun e => e.1 != c)).any (fun e => e.1 == c) = false := by
  rw [List.any_eq_false]
  intro a ha
  have := (List.mem_filter.mp ha).2
  simpa using this

theorem any_filter_true (l : List (String × Nat)) (x c : String) (hne : x ≠ c) (h : l.any (fun e => e.1 == c) = true) :
    (l.filter (fun e => e.1 != x)).any (fun e => e.1 == c) = true := by
  rw [List.any_eq_true] at h ⊢
  obtain ⟨a, ha, hac⟩ := h
  refine ⟨a, List.mem_filter.mpr ⟨ha, ?_⟩, hac⟩
  have : a.1 = c := by simpa using hac
  simp [this, Ne.symm hne]

theorem Closed.closeStep {c : String} {w : World} (h : Closed c w) (x : String) : Closed c (closeStep w x) := by
  refine ⟨?_, ?_⟩
  · show (c, Pkt.closed) ∈ w.out ++ [(x, Pkt.closed)]
    exact List.mem_append.mpr (Or.inl h.1)
  · show (w.conns.filter (fun e => e.1 != x)).any (fun e => e.1 == c) = false
    exact any_filter_false _ _ _ h.2

theorem closed_fold (c : String) (l : List (String × Int)) : ∀ (b : World), (∀ e ∈ l, bufOf b e.1 = []) →
    Closed c b → Closed c (l.foldl hsStep b) := by
  induction l with
  | nil => intro b _ h; exact h
  | cons e rest ih =>
    intro b hb hcl
    simp only [List.foldl_cons]
    rcases hsStep_cases b e (hb e (by simp)) with h | h
    · rw [h]
      exact ih b (fun e' he' => hb e' (by simp [he'])) hcl
    · rw [h]
      exact ih _ (fun e' he' => closeStep_buf b e.1 e'.1 (hb e' (by simp [he']))) (hcl.closeStep e.1)

theorem expires_fold (c : String) (i : Nat) (d : Int) (l : List (String × Int)) : ∀ (b : World),
    (∀ e ∈ l, bufOf b e.1 = []) → (l.map (·.1)).Nodup → (c, d) ∈ l → d < b.now →
    b.conns.find? (fun e => e.1 == c) = some (c, i) → (b.node i).sess ("S" ++ c) = none →
    b.deaf.contains c = false → Closed c (l.foldl hsStep b) := by
  induction l with
  | nil => intro b _ _ h; cases h
  | cons e rest ih =>
    intro b hb hnd hmem hd hc hs hdeaf
    simp only [List.foldl_cons]
    have hnd' := List.nodup_cons.mp hnd
    by_cases hec : e.1 = c
    · have he : e = (c, d) := by
        rcases List.mem_cons.mp hmem with h | h
        · exact h.symm
        · exfalso
          apply hnd'.1
          have : e.1 ∈ rest.map (·.1) := by
            rw [hec]
            exact List.mem_map.mpr ⟨(c, d), h, rfl⟩
          exact this
      subst he
      have hany : b.conns.any (fun x => x.1 == c) = true := by
        rw [List.any_eq_true]
        exact ⟨(c, i), List.mem_of_find?_eq_some hc, by simp⟩
      have hhas : hasSession b c = false := by
        unfold hasSession
        rw [hc]
        simp only [hs]
        rfl
      have hcond : (d < b.now && b.conns.any (fun x => x.1 == c) && !hasSession b c && !b.deaf.contains c) = true := by
        rw [hany, hhas, hdeaf]
        simp [hd]
      rw [hsStep_pos b (c, d) (hb _ (by simp)) hcond]
      apply closed_fold c rest _ (fun e' he' => closeStep_buf b c e'.1 (hb e' (by simp [he'])))
      refine ⟨?_, ?_⟩
      · show (c, Pkt.closed) ∈ b.out ++ [(c, Pkt.closed)]
        simp
      · show (b.conns.filter (fun e => e.1 != c)).any (fun e => e.1 == c) = false
        exact any_filter_self _ _
    · have hmem' : (c, d) ∈ rest := by
        rcases List.mem_cons.mp hmem with h | h
        · exact absurd (by rw [← h]) hec
        · exact h
      rcases hsStep_cases b e (hb e (by simp)) with h | h
      · rw [h]
        exact ih b (fun e' he' => hb e' (by simp [he'])) hnd'.2 hmem' hd hc hs hdeaf
      · rw [h]
        refine ih _ (fun e' he' => closeStep_buf b e.1 e'.1 (hb e' (by simp [he']))) hnd'.2 hmem' hd ?_ hs hdeaf
        show (b.conns.filter (fun x => x.1 != e.1)).find? (fun x => x.1 == c) = some (c, i)
        rw [find_filter_key_ne _ _ _ hec]
        exact hc

theorem spares_fold (c : String) (l : List (String × Int)) : ∀ (b : World),
    (∀ e ∈ l, bufOf b e.1 = []) → (∀ e ∈ l, e.1 = c → b.now ≤ e.2) →
    b.conns.any (fun e => e.1 == c) = true → (l.foldl hsStep b).conns.any (fun e => e.1 == c) = true := by
  induction l with
  | nil => intro b _ _ h; exact h
  | cons e rest ih =>
    intro b hb hd hany
    simp only [List.foldl_cons]
    by_cases hec : e.1 = c
    · have : ¬ (e.2 < b.now && b.conns.any (fun x => x.1 == e.1) && !hasSession b e.1 && !b.deaf.contains e.1) = true := by
        have := hd e (by simp) hec
        have hlt : ¬ e.2 < b.now := by omega
        simp [hlt]
      rw [hsStep_neg b e this]
      exact ih b (fun e' he' => hb e' (by simp [he'])) (fun e' he' => hd e' (by simp [he'])) hany
    · rcases hsStep_cases b e (hb e (by simp)) with h | h
      · rw [h]
        exact ih b (fun e' he' => hb e' (by simp [he'])) (fun e' he' => hd e' (by simp [he'])) hany
      · rw [h]
        refine ih _ (fun e' he' => closeStep_buf b e.1 e'.1 (hb e' (by simp [he'])))
          (fun e' he' => hd e' (by simp [he'])) ?_
        show (b.conns.filter (fun x => x.1 != e.1)).any (fun x => x.1 == c) = true
        exact any_filter_true _ _ _ hec hany

theorem pair_eq_of_nodup_keys {l : List (String × Int)} (h : (l.map (·.1)).Nodup) {x y : String × Int}
    (hx : x ∈ l) (hy : y ∈ l) (e : x.1 = y.1) : x = y := by
  induction l with
  | nil => cases hx
  | cons a rest ih =>
    simp only [List.map_cons, List.nodup_cons, List.mem_map, not_exists, not_and] at h
    simp only [List.mem_cons] at hx hy
    rcases hx with rfl | hx <;> rcases hy with rfl | hy
    · rfl
    · exact absurd e.symm (h.1 y hy)
    · exact absurd e (h.1 x hx)
    · exact ih h.2 hx hy

theorem handshake_expires (w : World) (c : String) (i : Nat) (d : Int)
    (hh : (c, d) ∈ w.hs) (hnd : (w.hs.map (·.1)).Nodup) (hd : d < w.now)
    (hc : w.conns.find? (fun e => e.1 == c) = some (c, i))
    (hns : hasSession w c = false) (hdeaf : w.deaf.contains c = false)
    (hbufs : ∀ e ∈ w.hs, bufOf w e.1 = []) :
    (c, Pkt.closed) ∈ (expireHandshakes w).out ∧ (expireHandshakes w).conns.any (fun e => e.1 == c) = false := by
  rw [expire_eq]
  have hs : (w.node i).sess ("S" ++ c) = none := by
    unfold hasSession at hns
    rw [hc] at hns
    simp only at hns
    cases hh : (w.node i).sess ("S" ++ c) with
    | none => rfl
    | some y => rw [hh] at hns; cases hns
  exact expires_fold c i d w.hs w hbufs hnd hh hd hc hs hdeaf

theorem handshake_spares (w : World) (c : String) (i : Nat) (d : Int)
    (hh : (c, d) ∈ w.hs) (hnd : (w.hs.map (·.1)).Nodup) (hd : w.now ≤ d)
    (hc : w.conns.find? (fun e => e.1 == c) = some (c, i))
    (hbufs : ∀ e ∈ w.hs, bufOf w e.1 = []) :
    (expireHandshakes w).conns.any (fun e => e.1 == c) = true := by
  rw [expire_eq]
  apply spares_fold c w.hs w hbufs
  · intro e he hec
    have : e = (c, d) := pair_eq_of_nodup_keys hnd he hh hec
    rw [this]; exact hd
  · rw [List.any_eq_true]
    exact ⟨(c, i), List.mem_of_find?_eq_some hc, by simp⟩

end Wasp.Broker.AgentT1

import Wasp.Model.Trie
/-! Helper definitions and lemmas for the two tries (statements used by
    Properties/C19, C01, C07).

    The characterisations of iterate / walk / match need `WF n` (unique child keys, which
    every reachable trie satisfies): `mem_iterP_needs_WF` etc. are machine-checked
    counterexamples showing the hypothesis is necessary. -/
namespace Wasp.Trie
open Wasp.Topic

def nodeAt : Node → List Level → Option Node
  | n, [] => some n
  | n, k :: ks =>
    match lookup k n.children with
    | none => none
    | some c => nodeAt c ks

mutual
def WF : Node → Prop
  | .mk _ cs => WFCs cs
def WFCs : List (Level × Node) → Prop
  | [] => True
  | (k, n) :: rest => lookup k rest = none ∧ WF n ∧ WFCs rest
end

theorem lookup_setChild (k k' : Level) (n : Node) (cs : List (Level × Node)) :
    lookup k' (setChild k n cs) = if k' = k then some n else lookup k' cs := by
  induction cs with
  | nil => simp only [setChild, lookup]; grind
  | cons hd tl ih =>
    obtain ⟨a, b⟩ := hd
    simp only [setChild, lookup]
    split <;> simp only [lookup] <;> grind

theorem lookup_eraseChild (k k' : Level) (cs : List (Level × Node)) :
    lookup k' (eraseChild k cs) = if k' = k then none else lookup k' cs := by
  induction cs with
  | nil => simp [eraseChild, lookup]
  | cons hd tl ih =>
    obtain ⟨a, b⟩ := hd
    simp only [eraseChild, lookup]
    split <;> (try simp only [lookup]) <;> grind

theorem get_eq_nodeAt (n : Node) (p : List Level) :
    get n p = ((nodeAt n p).map Node.data).getD [] := by
  induction p generalizing n with
  | nil => simp [get, nodeAt]
  | cons k ks ih =>
    simp only [get, nodeAt]
    split <;> simp_all

theorem WF_empty : WF Node.empty := by
  simp [Node.empty, WF, WFCs]

theorem get_empty (q : List Level) : get Node.empty q = [] := by
  cases q <;> simp [get, Node.empty, Node.data, Node.children, lookup]

theorem get_of_isEmpty (n : Node) (h : n.isEmpty = true) (q : List Level) : get n q = [] := by
  obtain ⟨d, cs⟩ := n
  simp only [Node.isEmpty, Node.data, Node.children, Bool.and_eq_true, List.isEmpty_iff] at h
  obtain ⟨rfl, rfl⟩ := h
  exact get_empty q

theorem get_mk_nil (d : Bytes) (cs) : get (.mk d cs) [] = d := by
  simp [get, Node.data]

theorem get_mk_cons (d : Bytes) (cs) (k : Level) (ks : List Level) :
    get (.mk d cs) (k :: ks) = get ((lookup k cs).getD Node.empty) ks := by
  cases h : lookup k cs <;> simp [get, Node.children, h, get_empty]

theorem get_setChild (d : Bytes) (cs) (k : Level) (c : Node) (k' : Level) (ks : List Level) :
    get (.mk d (setChild k c cs)) (k' :: ks) = if k' = k then get c ks else get (.mk d cs) (k' :: ks) := by
  rw [get_mk_cons, get_mk_cons, lookup_setChild]
  split <;> simp

theorem get_eraseChild (d : Bytes) (cs) (k : Level) (k' : Level) (ks : List Level) :
    get (.mk d (eraseChild k cs)) (k' :: ks) = if k' = k then [] else get (.mk d cs) (k' :: ks) := by
  rw [get_mk_cons, get_mk_cons, lookup_eraseChild]
  split <;> simp [get_empty]

def Sub.updEnd (f : Bytes → Bytes) (rest : List Level) (child : Node) : Node :=
  match rest with
  | [] => Node.mk (f child.data) child.children
  | _ :: _ => Sub.update f rest child

theorem Sub.update_cons (f : Bytes → Bytes) (tok : Level) (rest : List Level) (d : Bytes) (cs) :
    Sub.update f (tok :: rest) (.mk d cs) =
      if (Sub.updEnd f rest ((lookup tok cs).getD Node.empty)).isEmpty
      then .mk d (eraseChild tok cs)
      else .mk d (setChild tok (Sub.updEnd f rest ((lookup tok cs).getD Node.empty)) cs) := by
  cases rest <;> simp only [Sub.update, Sub.updEnd] <;> rfl

theorem get_mk_data_children (c : Node) (x : Bytes) (q : List Level) :
    get (.mk x c.children) q = if q = [] then x else get c q := by
  obtain ⟨d, cs⟩ := c
  cases q <;> simp [get, Node.children, Node.data]

theorem Sub.get_update (f : Bytes → Bytes) (p : List Level) (hp : p ≠ []) (n : Node) (q : List Level) :
    get (Sub.update f p n) q = if q = p then f (get n p) else get n q := by
  induction p generalizing n q with
  | nil => exact absurd rfl hp
  | cons tok rest ih =>
    obtain ⟨d, cs⟩ := n
    have key : ∀ (c : Node) q, get (Sub.updEnd f rest c) q = if q = rest then f (get c rest) else get c q := by
      intro c q
      cases rest with
      | nil => simp only [Sub.updEnd, get_mk_data_children]; split <;> simp_all [get]
      | cons r rs => exact ih (by simp) c q
    rw [Sub.update_cons]
    generalize hc : (lookup tok cs).getD Node.empty = child
    cases q with
    | nil => split <;> simp [get_mk_nil]
    | cons k ks =>
      split
      · rename_i he
        have h2 := get_of_isEmpty _ he
        rw [get_eraseChild, get_mk_cons, get_mk_cons, hc]
        have := key child ks
        grind
      · rw [get_setChild, get_mk_cons, get_mk_cons, hc]
        have := key child ks
        grind

/-! WF helper lemmas -/
theorem WF_mk (d : Bytes) (cs) : WF (.mk d cs) ↔ WFCs cs := by simp [WF]

theorem WFCs_cons (k : Level) (n : Node) (rest) :
    WFCs ((k, n) :: rest) ↔ lookup k rest = none ∧ WF n ∧ WFCs rest := by simp [WFCs]

theorem WF_children (n : Node) : WF n ↔ WFCs n.children := by
  obtain ⟨d, cs⟩ := n; simp [WF, Node.children]

theorem WFCs_setChild (k : Level) (n : Node) (cs) (h : WFCs cs) (hn : WF n) : WFCs (setChild k n cs) := by
  induction cs with
  | nil => simp [setChild, WFCs, lookup, hn]
  | cons hd tl ih =>
    obtain ⟨a, b⟩ := hd
    rw [WFCs_cons] at h
    simp only [setChild]
    split
    · rw [WFCs_cons]; grind
    · rw [WFCs_cons, lookup_setChild]; grind

theorem WFCs_eraseChild (k : Level) (cs) (h : WFCs cs) : WFCs (eraseChild k cs) := by
  induction cs with
  | nil => simp [eraseChild, WFCs]
  | cons hd tl ih =>
    obtain ⟨a, b⟩ := hd
    rw [WFCs_cons] at h
    simp only [eraseChild]
    split
    · grind
    · rw [WFCs_cons, lookup_eraseChild]; grind

theorem WF_of_lookup (k : Level) (cs) (c : Node) (h : WFCs cs) (hl : lookup k cs = some c) : WF c := by
  induction cs with
  | nil => simp [lookup] at hl
  | cons hd tl ih =>
    obtain ⟨a, b⟩ := hd
    rw [WFCs_cons] at h
    simp only [lookup] at hl
    split at hl <;> grind

theorem WF_getD (k : Level) (cs) (h : WFCs cs) : WF ((lookup k cs).getD Node.empty) := by
  cases hl : lookup k cs with
  | none => exact WF_empty
  | some c => exact WF_of_lookup k cs c h hl

theorem Sub.WF_update (f : Bytes → Bytes) (p : List Level) (n : Node) (h : WF n) :
    WF (Sub.update f p n) := by
  induction p generalizing n with
  | nil => simpa [Sub.update] using h
  | cons tok rest ih =>
    obtain ⟨d, cs⟩ := n
    rw [WF_mk] at h
    have hc := WF_getD tok cs h
    have key : ∀ c, WF c → WF (Sub.updEnd f rest c) := by
      intro c hc
      cases rest with
      | nil => simp only [Sub.updEnd]; rw [WF_mk, ← WF_children]; exact hc
      | cons r rs => exact ih c hc
    rw [Sub.update_cons]
    split
    · rw [WF_mk]; exact WFCs_eraseChild _ _ h
    · rw [WF_mk]; exact WFCs_setChild _ _ _ h (key _ hc)

/-! retained -/
def Ret.insEnd (msg : Bytes) (rest : List Level) (child : Node) : Node × Bool :=
  match rest with
  | [] => (.mk msg child.children, !child.data.isEmpty)
  | _ :: _ => Ret.insert msg rest child

theorem Ret.insert_cons (msg : Bytes) (tok : Level) (rest : List Level) (d : Bytes) (cs) :
    Ret.insert msg (tok :: rest) (.mk d cs) =
      (.mk d (setChild tok (Ret.insEnd msg rest ((lookup tok cs).getD Node.empty)).1 cs),
        (Ret.insEnd msg rest ((lookup tok cs).getD Node.empty)).2) := by
  cases rest <;> simp only [Ret.insert, Ret.insEnd]

theorem Ret.get_insert (msg : Bytes) (p : List Level) (hp : p ≠ []) (n : Node) (q : List Level) :
    get (Ret.insert msg p n).1 q = if q = p then msg else get n q := by
  induction p generalizing n q with
  | nil => exact absurd rfl hp
  | cons tok rest ih =>
    obtain ⟨d, cs⟩ := n
    have key : ∀ (c : Node) q, get (Ret.insEnd msg rest c).1 q = if q = rest then msg else get c q := by
      intro c q
      cases rest with
      | nil => simp only [Ret.insEnd, get_mk_data_children]
      | cons r rs => exact ih (by simp) c q
    rw [Ret.insert_cons]
    generalize hc : (lookup tok cs).getD Node.empty = child
    cases q with
    | nil => simp [get_mk_nil]
    | cons k ks =>
      rw [get_setChild, get_mk_cons]
      have := key child ks
      grind

theorem Ret.insert_old (msg : Bytes) (p : List Level) (hp : p ≠ []) (n : Node) :
    (Ret.insert msg p n).2 = !(get n p).isEmpty := by
  induction p generalizing n with
  | nil => exact absurd rfl hp
  | cons tok rest ih =>
    obtain ⟨d, cs⟩ := n
    rw [Ret.insert_cons, get_mk_cons]
    cases rest with
    | nil => simp [Ret.insEnd, get]
    | cons r rs => exact ih (by simp) _

theorem Ret.WF_insert (msg : Bytes) (p : List Level) (n : Node) (h : WF n) :
    WF (Ret.insert msg p n).1 := by
  induction p generalizing n with
  | nil => simpa [Ret.insert] using h
  | cons tok rest ih =>
    obtain ⟨d, cs⟩ := n
    rw [WF_mk] at h
    have hc := WF_getD tok cs h
    have key : ∀ c, WF c → WF (Ret.insEnd msg rest c).1 := by
      intro c hc
      cases rest with
      | nil => simp only [Ret.insEnd]; rw [WF_mk, ← WF_children]; exact hc
      | cons r rs => exact ih c hc
    rw [Ret.insert_cons, WF_mk]
    exact WFCs_setChild _ _ _ h (key _ hc)

def Ret.remEnd (rest : List Level) (child : Node) : Option Node :=
  match rest with
  | [] => some (Node.mk [] child.children)
  | _ :: _ => Ret.remove rest child

theorem Ret.remove_cons (tok : Level) (rest : List Level) (d : Bytes) (cs) :
    Ret.remove (tok :: rest) (.mk d cs) =
      match lookup tok cs with
      | none => none
      | some child =>
        match Ret.remEnd rest child with
        | none => none
        | some child' =>
          if child'.isEmpty then some (.mk d (eraseChild tok cs))
          else some (.mk d (setChild tok child' cs)) := by
  have e : ∀ c : Node, (c.children.isEmpty && c.data.isEmpty) = c.isEmpty := by
    intro c; simp only [Node.isEmpty, Bool.and_comm]
  cases rest <;> simp only [Ret.remove, Ret.remEnd, e] <;> rfl

theorem Ret.get_remove (p : List Level) (hp : p ≠ []) (n n' : Node) (h : Ret.remove p n = some n')
    (q : List Level) : get n' q = if q = p then [] else get n q := by
  induction p generalizing n n' q with
  | nil => exact absurd rfl hp
  | cons tok rest ih =>
    obtain ⟨d, cs⟩ := n
    have key : ∀ (c c' : Node), Ret.remEnd rest c = some c' →
        ∀ q, get c' q = if q = rest then [] else get c q := by
      intro c c' hcc q
      cases rest with
      | nil =>
        simp only [Ret.remEnd, Option.some.injEq] at hcc
        subst hcc
        simp only [get_mk_data_children]
      | cons r rs => exact ih (by simp) c c' hcc q
    rw [Ret.remove_cons] at h
    split at h
    · simp at h
    · rename_i child hl
      split at h
      · simp at h
      · rename_i child' hr
        have hk := key child child' hr
        split at h
        · rename_i he
          have h2 := get_of_isEmpty _ he
          simp only [Option.some.injEq] at h
          subst h
          cases q with
          | nil => simp [get_mk_nil]
          | cons k ks =>
            rw [get_eraseChild, get_mk_cons]
            have := hk ks
            grind
        · simp only [Option.some.injEq] at h
          subst h
          cases q with
          | nil => simp [get_mk_nil]
          | cons k ks =>
            rw [get_setChild, get_mk_cons]
            have := hk ks
            grind

theorem Ret.remove_none (p : List Level) (n : Node) (h : Ret.remove p n = none) : get n p = [] := by
  induction p generalizing n with
  | nil => simp [Ret.remove] at h
  | cons tok rest ih =>
    obtain ⟨d, cs⟩ := n
    rw [Ret.remove_cons] at h
    rw [get_mk_cons]
    split at h
    · rename_i hl; simp [hl, get_empty]
    · rename_i child hl
      split at h
      · rename_i hr
        cases rest with
        | nil => simp [Ret.remEnd] at hr
        | cons r rs => simpa [hl] using ih child hr
      · split at h <;> simp at h

theorem Ret.WF_remove (p : List Level) (n n' : Node) (hw : WF n) (h : Ret.remove p n = some n') :
    WF n' := by
  induction p generalizing n n' with
  | nil => simp [Ret.remove] at h; subst h; exact hw
  | cons tok rest ih =>
    obtain ⟨d, cs⟩ := n
    rw [WF_mk] at hw
    have key : ∀ (c c' : Node), WF c → Ret.remEnd rest c = some c' → WF c' := by
      intro c c' hc hcc
      cases rest with
      | nil =>
        simp only [Ret.remEnd, Option.some.injEq] at hcc
        subst hcc
        rw [WF_mk, ← WF_children]; exact hc
      | cons r rs => exact ih c c' hc hcc
    rw [Ret.remove_cons] at h
    split at h
    · simp at h
    · rename_i child hl
      have hc := WF_of_lookup _ _ _ hw hl
      split at h
      · simp at h
      · rename_i child' hr
        have hk := key child child' hc hr
        split at h <;> simp only [Option.some.injEq] at h <;> subst h <;> rw [WF_mk]
        · exact WFCs_eraseChild _ _ hw
        · exact WFCs_setChild _ _ _ hw hk


theorem nodeAt_nil (n : Node) : nodeAt n [] = some n := by simp [nodeAt]

theorem nodeAt_mk_cons (d : Bytes) (cs) (k : Level) (ks : List Level) :
    nodeAt (.mk d cs) (k :: ks) = (lookup k cs).bind (fun c => nodeAt c ks) := by
  cases h : lookup k cs <;> simp [nodeAt, Node.children, h]

theorem get_mk_cons_some (d : Bytes) (cs) (k : Level) (ks : List Level) (c : Node)
    (h : lookup k cs = some c) : get (.mk d cs) (k :: ks) = get c ks := by
  simp [get_mk_cons, h]

theorem lookup_cons (k k' : Level) (n : Node) (rest) :
    lookup k' ((k, n) :: rest) = if k = k' then some n else lookup k' rest := by
  simp [lookup]

mutual
theorem mem_iterP_wf : ∀ (n : Node), WF n → ∀ (pre p : List Level) (d : Bytes),
    ((p, d) ∈ iterP n pre ↔
      ∃ p', p = pre.reverse ++ p' ∧ (nodeAt n p').isSome ∧ d = get n p' ∧ d ≠ [])
  | .mk d0 cs, h, pre, p, d => by
    rw [WF_mk] at h
    have ih := mem_iterCs_wf cs h pre p d
    simp only [iterP, List.mem_append, ih]
    constructor
    · rintro (h1 | ⟨k, ks, c, hl, rfl, hn, rfl, hne⟩)
      · split at h1
        · simp at h1
        · rename_i hd
          simp only [List.mem_singleton, Prod.mk.injEq] at h1
          obtain ⟨rfl, rfl⟩ := h1
          exact ⟨[], by simp, by simp [nodeAt], by simp [get_mk_nil], by simpa using hd⟩
      · exact ⟨k :: ks, rfl, by simp [nodeAt_mk_cons, hl, hn], by simp [get_mk_cons, hl], hne⟩
    · rintro ⟨p', rfl, hn, rfl, hne⟩
      cases p' with
      | nil =>
        left
        simp only [get_mk_nil] at hne ⊢
        simp [hne]
      | cons k ks =>
        right
        rw [nodeAt_mk_cons] at hn
        cases hl : lookup k cs with
        | none => simp [hl] at hn
        | some c =>
          simp only [hl, Option.bind_some] at hn
          rw [get_mk_cons_some _ _ _ _ _ hl] at hne ⊢
          exact ⟨k, ks, c, hl, rfl, hn, rfl, hne⟩
theorem mem_iterCs_wf : ∀ (cs : List (Level × Node)), WFCs cs → ∀ (pre p : List Level) (d : Bytes),
    ((p, d) ∈ iterCs cs pre ↔
      ∃ k ks c, lookup k cs = some c ∧ p = pre.reverse ++ k :: ks ∧ (nodeAt c ks).isSome ∧
        d = get c ks ∧ d ≠ [])
  | [], _, pre, p, d => by simp [iterCs, lookup]
  | (k, n) :: rest, h, pre, p, d => by
    rw [WFCs_cons] at h
    have ih1 := mem_iterP_wf n h.2.1 (k :: pre) p d
    have ih2 := mem_iterCs_wf rest h.2.2 pre p d
    simp only [iterCs, List.mem_append, ih1, ih2, lookup_cons]
    constructor
    · rintro (⟨p', rfl, hn, rfl, hne⟩ | ⟨k', ks, c, hl, rfl, hn, rfl, hne⟩)
      · exact ⟨k, p', n, by simp, by simp, hn, rfl, hne⟩
      · have : k ≠ k' := by rintro rfl; simp [h.1] at hl
        exact ⟨k', ks, c, by simp [this, hl], rfl, hn, rfl, hne⟩
    · rintro ⟨k', ks, c, hl, rfl, hn, rfl, hne⟩
      split at hl
      · rename_i hk
        subst hk
        simp only [Option.some.injEq] at hl
        subst hl
        left
        exact ⟨ks, by simp, hn, rfl, hne⟩
      · right
        exact ⟨k', ks, c, hl, rfl, hn, rfl, hne⟩
end


theorem mem_map_fst {α β} (l : List (α × β)) (a : α) : a ∈ l.map (·.1) ↔ ∃ b, (a, b) ∈ l := by
  simp

theorem lookup_none_ne (k : Level) (cs) (h : lookup k cs = none) : ∀ kn ∈ cs, kn.1 ≠ k := by
  induction cs with
  | nil => simp
  | cons hd tl ih =>
    obtain ⟨a, b⟩ := hd
    simp only [lookup] at h
    split at h
    · simp at h
    · intro kn hkn
      simp only [List.mem_cons] at hkn
      rcases hkn with rfl | hkn
      · assumption
      · exact ih h kn hkn

theorem mem_iff_lookup (cs) (h : WFCs cs) (k : Level) (c : Node) :
    (k, c) ∈ cs ↔ lookup k cs = some c := by
  induction cs with
  | nil => simp [lookup]
  | cons hd tl ih =>
    obtain ⟨a, b⟩ := hd
    rw [WFCs_cons] at h
    have hne := lookup_none_ne a tl h.1
    simp only [List.mem_cons, Prod.mk.injEq, lookup_cons, ih h.2.2]
    constructor
    · rintro (⟨rfl, rfl⟩ | hl)
      · simp
      · have : a ≠ k := by rintro rfl; simp [h.1] at hl
        simp [this, hl]
    · intro hl
      split at hl
      · left; simp_all
      · right; exact hl

mutual
theorem nodup_iterP_wf : ∀ (n : Node), WF n → ∀ (pre : List Level), ((iterP n pre).map (·.1)).Nodup
  | .mk d0 cs, h, pre => by
    have h' := h
    rw [WF_mk] at h'
    have ih := nodup_iterCs_wf cs h' pre
    simp only [iterP, List.map_append]
    rw [List.nodup_append]
    refine ⟨by split <;> simp, ih, ?_⟩
    intro a ha b hb
    have ha' : a = pre.reverse := by split at ha <;> simp at ha; exact ha
    rw [mem_map_fst] at hb
    obtain ⟨x, hx⟩ := hb
    rw [mem_iterCs_wf cs h'] at hx
    obtain ⟨k, ks, c, -, rfl, -⟩ := hx
    subst ha'
    simp
theorem nodup_iterCs_wf : ∀ (cs : List (Level × Node)), WFCs cs → ∀ (pre : List Level),
    ((iterCs cs pre).map (·.1)).Nodup
  | [], _, pre => by simp [iterCs]
  | (k, n) :: rest, h, pre => by
    have h' := h
    rw [WFCs_cons] at h'
    have ih1 := nodup_iterP_wf n h'.2.1 (k :: pre)
    have ih2 := nodup_iterCs_wf rest h'.2.2 pre
    simp only [iterCs, List.map_append]
    rw [List.nodup_append]
    refine ⟨ih1, ih2, ?_⟩
    intro a ha b hb
    rw [mem_map_fst] at ha hb
    obtain ⟨x, hx⟩ := ha
    obtain ⟨y, hy⟩ := hb
    rw [mem_iterP_wf n h'.2.1] at hx
    rw [mem_iterCs_wf rest h'.2.2] at hy
    obtain ⟨p', rfl, -⟩ := hx
    obtain ⟨k', ks, c, hl, rfl, -⟩ := hy
    have : k ≠ k' := by rintro rfl; simp [h'.1] at hl
    simp [this]
end

theorem nodup_flatMap_paths (pre : List Level) (g : Level × Node → List (List Level × Bytes))
    (cs : List (Level × Node)) (h : WFCs cs)
    (hg1 : ∀ kn ∈ cs, ((g kn).map (·.1)).Nodup)
    (hg2 : ∀ kn ∈ cs, ∀ x ∈ g kn, ∃ ks, x.1 = pre.reverse ++ kn.1 :: ks) :
    ((cs.flatMap g).map (·.1)).Nodup := by
  induction cs with
  | nil => simp
  | cons hd tl ih =>
    obtain ⟨k, n⟩ := hd
    rw [WFCs_cons] at h
    have hne := lookup_none_ne k tl h.1
    simp only [List.flatMap_cons, List.map_append]
    rw [List.nodup_append]
    refine ⟨hg1 _ (by simp), ih h.2.2 (fun kn hkn => hg1 kn (by simp [hkn]))
      (fun kn hkn => hg2 kn (by simp [hkn])), ?_⟩
    intro a ha b hb
    simp only [List.mem_map, List.mem_flatMap] at ha hb
    obtain ⟨x, hx, rfl⟩ := ha
    obtain ⟨y, ⟨kn, hkn, hy⟩, rfl⟩ := hb
    obtain ⟨ks1, e1⟩ := hg2 (k, n) (by simp) x hx
    obtain ⟨ks2, e2⟩ := hg2 kn (by simp [hkn]) y hy
    rw [e1, e2]
    have := hne kn hkn
    simp
    grind


theorem mqttMatch_nil_right (fs : List Level) : mqttMatch fs [] = true ↔ fs = [] ∨ fs = ["#"] := by
  cases fs with
  | nil => simp [mqttMatch]
  | cons x xs => simp [mqttMatch]

theorem mqttMatch_nil_left (ts : List Level) : mqttMatch [] ts = true ↔ ts = [] := by
  cases ts <;> simp [mqttMatch]

theorem mqttMatch_cons_cons (k : Level) (fs : List Level) (tok : Level) (rest : List Level) :
    mqttMatch (k :: fs) (tok :: rest) = true ↔
      if k = "#" then fs = [] else ((k = "+" ∨ k = tok) ∧ mqttMatch fs rest = true) := by
  simp only [mqttMatch]
  split <;> simp_all

/-- the per-child body of `walkP` -/
def Sub.walkBody (tok : Level) (rest : List Level) (pre : List Level) (kn : Level × Node) :
    List (List Level × Bytes) :=
  if kn.1 = "#" then [((kn.1 :: pre).reverse, kn.2.data)]
  else if kn.1 = "+" ∨ kn.1 = tok then
    match rest with
    | [] =>
      ((kn.1 :: pre).reverse, kn.2.data) ::
        (match lookup "#" kn.2.children with
         | some m => [(("#" :: kn.1 :: pre).reverse, m.data)]
         | none => [])
    | _ :: _ => Sub.walkP rest (kn.1 :: pre) kn.2
  else []

theorem Sub.walkP_cons (tok : Level) (rest pre : List Level) (d0 : Bytes) (cs) :
    Sub.walkP (tok :: rest) pre (.mk d0 cs) = cs.flatMap (Sub.walkBody tok rest pre) := by
  simp only [Sub.walkP]; rfl


theorem nodeAt_hash (c : Node) : (nodeAt c ["#"]).isSome ↔ ∃ m, lookup "#" c.children = some m := by
  simp only [nodeAt]
  cases lookup "#" c.children <;> simp

theorem Sub.mem_walkBody (tok : Level) (rest pre : List Level) (k : Level) (c : Node)
    (p : List Level) (d : Bytes)
    (ih : rest ≠ [] → ((p, d) ∈ Sub.walkP rest (k :: pre) c ↔
      ∃ f, p = (k :: pre).reverse ++ f ∧ (nodeAt c f).isSome ∧ d = get c f ∧ mqttMatch f rest = true)) :
    (p, d) ∈ Sub.walkBody tok rest pre (k, c) ↔
      ∃ fs, p = pre.reverse ++ k :: fs ∧ (nodeAt c fs).isSome ∧ d = get c fs ∧
        mqttMatch (k :: fs) (tok :: rest) = true := by
  simp only [Sub.walkBody, mqttMatch_cons_cons]
  by_cases hk : k = "#"
  · simp only [hk, if_true, List.mem_singleton, Prod.mk.injEq]
    constructor
    · rintro ⟨rfl, rfl⟩
      exact ⟨[], by simp, by simp [nodeAt], by simp [get], rfl⟩
    · rintro ⟨fs, rfl, hn, rfl, rfl⟩
      simp [get]
  · simp only [hk, if_false]
    by_cases hm : k = "+" ∨ k = tok
    · simp only [hm, if_true, true_and]
      cases rest with
      | nil =>
        simp only [mqttMatch_nil_right, List.mem_cons, Prod.mk.injEq]
        constructor
        · rintro (⟨rfl, rfl⟩ | h2)
          · exact ⟨[], by simp, by simp [nodeAt], by simp [get], Or.inl rfl⟩
          · split at h2
            · rename_i m hm'
              simp only [List.mem_singleton, Prod.mk.injEq] at h2
              obtain ⟨rfl, rfl⟩ := h2
              refine ⟨["#"], by simp, ?_, by simp [get, hm'], Or.inr rfl⟩
              rw [nodeAt_hash]; exact ⟨m, hm'⟩
            · simp at h2
        · rintro ⟨fs, rfl, hn, rfl, (rfl | rfl)⟩
          · left; simp [get]
          · right
            rw [nodeAt_hash] at hn
            obtain ⟨m, hm'⟩ := hn
            simp [hm', get]
      | cons r rs =>
        simp only [ih (by simp)]
        constructor
        · rintro ⟨f, rfl, h2⟩
          exact ⟨f, by simp, h2⟩
        · rintro ⟨f, rfl, h2⟩
          exact ⟨f, by simp, h2⟩
    · simp [hm]

theorem Sub.mem_walkP_wf (t : List Level) (ht : t ≠ []) (n : Node) (h : WF n) (pre : List Level)
    (p : List Level) (d : Bytes) :
    (p, d) ∈ Sub.walkP t pre n ↔
      ∃ f, p = pre.reverse ++ f ∧ (nodeAt n f).isSome ∧ d = get n f ∧ mqttMatch f t = true := by
  induction t generalizing n pre p d with
  | nil => exact absurd rfl ht
  | cons tok rest ih =>
    obtain ⟨d0, cs⟩ := n
    rw [WF_mk] at h
    rw [Sub.walkP_cons, List.mem_flatMap]
    constructor
    · rintro ⟨⟨k, c⟩, hkc, hb⟩
      have hl := (mem_iff_lookup cs h k c).1 hkc
      have hc := WF_of_lookup k cs c h hl
      rw [Sub.mem_walkBody tok rest pre k c p d (fun hr => ih hr c hc (k :: pre) p d)] at hb
      obtain ⟨fs, rfl, hn, rfl, hm⟩ := hb
      exact ⟨k :: fs, rfl, by simp [nodeAt_mk_cons, hl, hn], by simp [get_mk_cons, hl], hm⟩
    · rintro ⟨f, rfl, hn, rfl, hm⟩
      cases f with
      | nil => simp [mqttMatch] at hm
      | cons k fs =>
        rw [nodeAt_mk_cons] at hn
        cases hl : lookup k cs with
        | none => simp [hl] at hn
        | some c =>
          simp only [hl, Option.bind_some] at hn
          have hc := WF_of_lookup k cs c h hl
          refine ⟨(k, c), (mem_iff_lookup cs h k c).2 hl, ?_⟩
          rw [Sub.mem_walkBody tok rest pre k c _ _ (fun hr => ih hr c hc (k :: pre) _ _)]
          exact ⟨fs, rfl, hn, by simp [get_mk_cons, hl], hm⟩


theorem Sub.nodup_walkP (t : List Level) (n : Node) (h : WF n) (pre : List Level) :
    ((Sub.walkP t pre n).map (·.1)).Nodup := by
  induction t generalizing n pre with
  | nil => simp [Sub.walkP]
  | cons tok rest ih =>
    obtain ⟨d0, cs⟩ := n
    rw [WF_mk] at h
    rw [Sub.walkP_cons]
    apply nodup_flatMap_paths pre _ cs h
    · rintro ⟨k, c⟩ hkc
      have hc := WF_of_lookup k cs c h ((mem_iff_lookup cs h k c).1 hkc)
      simp only [Sub.walkBody]
      split
      · simp
      · split
        · cases rest with
          | nil =>
            simp only
            split
            · simp only [List.map_cons, List.map_nil, List.nodup_cons, List.mem_singleton,
                List.not_mem_nil, not_false_eq_true, List.nodup_nil, and_true]
              intro he
              have := congrArg List.length he
              simp at this
            · simp
          | cons r rs => exact ih c hc (k :: pre)
        · simp
    · rintro ⟨k, c⟩ hkc ⟨p, d⟩ hx
      have hc := WF_of_lookup k cs c h ((mem_iff_lookup cs h k c).1 hkc)
      rw [Sub.mem_walkBody tok rest pre k c p d
        (fun hr => Sub.mem_walkP_wf rest hr c hc (k :: pre) p d)] at hx
      obtain ⟨fs, hp, -⟩ := hx
      exact ⟨fs, hp⟩

/-- the per-child body of `matchP` -/
def Ret.matchBody (tok : Level) (rest : List Level) (pre : List Level) (kn : Level × Node) :
    List (List Level × Bytes) :=
  if tok = "+" ∨ kn.1 = tok then
    match rest with
    | [] => if kn.2.data.isEmpty then [] else [((kn.1 :: pre).reverse, kn.2.data)]
    | _ :: _ => Ret.matchP rest (kn.1 :: pre) kn.2
  else []

theorem Ret.matchP_cons (tok : Level) (rest pre : List Level) (d0 : Bytes) (cs) :
    Ret.matchP (tok :: rest) pre (.mk d0 cs) =
      if tok = "#" then iterP (.mk d0 cs) pre else cs.flatMap (Ret.matchBody tok rest pre) := by
  simp only [Ret.matchP]; rfl

theorem Ret.mem_matchBody (tok : Level) (htok : tok ≠ "#") (rest pre : List Level) (k : Level) (c : Node)
    (p : List Level) (d : Bytes)
    (ih : rest ≠ [] → ((p, d) ∈ Ret.matchP rest (k :: pre) c ↔
      ∃ t, p = (k :: pre).reverse ++ t ∧ (nodeAt c t).isSome ∧ d = get c t ∧ d ≠ [] ∧
        mqttMatch rest t = true)) :
    (p, d) ∈ Ret.matchBody tok rest pre (k, c) ↔
      ∃ ts, p = pre.reverse ++ k :: ts ∧ (nodeAt c ts).isSome ∧ d = get c ts ∧ d ≠ [] ∧
        mqttMatch (tok :: rest) (k :: ts) = true := by
  simp only [Ret.matchBody, mqttMatch_cons_cons, htok, if_false, eq_comm (a := tok) (b := k)]
  by_cases hm : tok = "+" ∨ k = tok
  · simp only [hm, if_true, true_and]
    cases rest with
    | nil =>
      simp only [mqttMatch_nil_left]
      constructor
      · intro h1
        split at h1
        · simp at h1
        · rename_i hd
          simp only [List.mem_singleton, Prod.mk.injEq] at h1
          obtain ⟨rfl, rfl⟩ := h1
          exact ⟨[], by simp, by simp [nodeAt], by simp [get], by simpa [get] using hd, rfl⟩
      · rintro ⟨ts, rfl, hn, rfl, hne, rfl⟩
        simp only [get] at hne ⊢
        simp [hne]
    | cons r rs =>
      simp only [ih (by simp)]
      constructor
      · rintro ⟨f, rfl, h2⟩
        exact ⟨f, by simp, h2⟩
      · rintro ⟨f, rfl, h2⟩
        exact ⟨f, by simp, h2⟩
  · simp [hm]

theorem Ret.mem_matchP_wf (f : List Level) (hf : wfFilter f = true) (n : Node) (h : WF n) (pre : List Level)
    (p : List Level) (d : Bytes) :
    (p, d) ∈ Ret.matchP f pre n ↔
      ∃ t, p = pre.reverse ++ t ∧ (nodeAt n t).isSome ∧ d = get n t ∧ d ≠ [] ∧ mqttMatch f t = true := by
  induction f generalizing n pre p d with
  | nil => simp [wfFilter] at hf
  | cons tok rest ih =>
    have hrest : rest ≠ [] → wfFilter rest = true ∧ tok ≠ "#" := by
      intro hr
      cases rest with
      | nil => exact absurd rfl hr
      | cons r rs => simp only [wfFilter, Bool.and_eq_true, bne_iff_ne, ne_eq] at hf; exact ⟨hf.2, hf.1⟩
    obtain ⟨d0, cs⟩ := n
    rw [Ret.matchP_cons]
    by_cases htok : tok = "#"
    · have hr : rest = [] := by
        cases rest with
        | nil => rfl
        | cons r rs => exact absurd htok (hrest (by simp)).2
      subst hr
      subst htok
      simp only [if_true]
      rw [mem_iterP_wf _ h]
      have hm : ∀ t, mqttMatch ["#"] t = true := by
        intro t; cases t <;> simp [mqttMatch]
      simp [hm]
    · simp only [htok, if_false]
      rw [WF_mk] at h
      rw [List.mem_flatMap]
      constructor
      · rintro ⟨⟨k, c⟩, hkc, hb⟩
        have hl := (mem_iff_lookup cs h k c).1 hkc
        have hc := WF_of_lookup k cs c h hl
        rw [Ret.mem_matchBody tok htok rest pre k c p d
          (fun hr => ih (hrest hr).1 c hc (k :: pre) p d)] at hb
        obtain ⟨ts, rfl, hn, rfl, hne, hm⟩ := hb
        exact ⟨k :: ts, rfl, by simp [nodeAt_mk_cons, hl, hn], by simp [get_mk_cons, hl],
          hne, hm⟩
      · rintro ⟨t, rfl, hn, rfl, hne, hm⟩
        cases t with
        | nil => simp [mqttMatch, htok] at hm
        | cons k ts =>
          rw [nodeAt_mk_cons] at hn
          cases hl : lookup k cs with
          | none => simp [hl] at hn
          | some c =>
            simp only [hl, Option.bind_some] at hn
            have hc := WF_of_lookup k cs c h hl
            refine ⟨(k, c), (mem_iff_lookup cs h k c).2 hl, ?_⟩
            rw [Ret.mem_matchBody tok htok rest pre k c _ _
              (fun hr => ih (hrest hr).1 c hc (k :: pre) _ _)]
            have e : get (Node.mk d0 cs) (k :: ts) = get c ts := by simp [get_mk_cons, hl]
            rw [e] at hne ⊢
            exact ⟨ts, rfl, hn, rfl, hne, hm⟩


theorem Ret.matchP_prefix (f : List Level) (n : Node) (h : WF n) (pre : List Level) :
    ∀ x ∈ Ret.matchP f pre n, ∃ ks, x.1 = pre.reverse ++ ks := by
  induction f generalizing n pre with
  | nil => simp [Ret.matchP]
  | cons tok rest ih =>
    obtain ⟨d0, cs⟩ := n
    rw [Ret.matchP_cons]
    rintro ⟨p, d⟩ hx
    split at hx
    · rw [mem_iterP_wf _ h] at hx
      obtain ⟨p', hp, -⟩ := hx
      exact ⟨p', hp⟩
    · rw [WF_mk] at h
      rw [List.mem_flatMap] at hx
      obtain ⟨⟨k, c⟩, hkc, hx⟩ := hx
      have hc := WF_of_lookup k cs c h ((mem_iff_lookup cs h k c).1 hkc)
      simp only [Ret.matchBody] at hx
      split at hx
      · cases rest with
        | nil =>
          simp only at hx
          split at hx
          · simp at hx
          · simp only [List.mem_singleton, Prod.mk.injEq] at hx
            exact ⟨[k], by simp [hx.1]⟩
        | cons r rs =>
          obtain ⟨ks, hks⟩ := ih c hc (k :: pre) _ hx
          simp only at hks
          exact ⟨k :: ks, by simp [hks]⟩
      · simp at hx

theorem Ret.nodup_matchP (f : List Level) (n : Node) (h : WF n) (pre : List Level) :
    ((Ret.matchP f pre n).map (·.1)).Nodup := by
  induction f generalizing n pre with
  | nil => simp [Ret.matchP]
  | cons tok rest ih =>
    obtain ⟨d0, cs⟩ := n
    rw [Ret.matchP_cons]
    split
    · exact nodup_iterP_wf _ h pre
    · rw [WF_mk] at h
      apply nodup_flatMap_paths pre _ cs h
      · rintro ⟨k, c⟩ hkc
        have hc := WF_of_lookup k cs c h ((mem_iff_lookup cs h k c).1 hkc)
        simp only [Ret.matchBody]
        split
        · cases rest with
          | nil => simp only; split <;> simp
          | cons r rs => exact ih c hc (k :: pre)
        · simp
      · rintro ⟨k, c⟩ hkc ⟨p, d⟩ hx
        simp only [Ret.matchBody] at hx
        split at hx
        · cases rest with
          | nil =>
            simp only at hx
            split at hx
            · simp at hx
            · simp only [List.mem_singleton, Prod.mk.injEq] at hx
              exact ⟨[], by simp [hx.1]⟩
          | cons r rs =>
            have hc := WF_of_lookup k cs c h ((mem_iff_lookup cs h k c).1 hkc)
            obtain ⟨ks, hks⟩ := Ret.matchP_prefix _ c hc (k :: pre) _ hx
            simp only at hks
            exact ⟨ks, by simp [hks]⟩
        · simp at hx

/-! ### counterexamples: the three membership characterisations need `WF n` -/
def dupNode : Node := .mk [] [("a", .mk [1] []), ("a", .mk [2] [])]

theorem mem_iterP_needs_WF :
    ¬ ∀ (n : Node) (pre p : List Level) (d : Bytes),
      ((p, d) ∈ iterP n pre ↔
        ∃ p', p = pre.reverse ++ p' ∧ (nodeAt n p').isSome ∧ d = get n p' ∧ d ≠ []) := by
  intro h
  have h1 := (h dupNode [] ["a"] [2]).1 (by simp [dupNode, iterP, iterCs])
  obtain ⟨p', hp, -, hd, -⟩ := h1
  simp only [List.reverse_nil, List.nil_append] at hp
  subst hp
  simp [dupNode, get, Node.children, lookup, Node.data] at hd

theorem Sub.mem_walkP_needs_WF :
    ¬ ∀ (t : List Level) (_ : t ≠ []) (n : Node) (pre p : List Level) (d : Bytes),
      ((p, d) ∈ Sub.walkP t pre n ↔
        ∃ f, p = pre.reverse ++ f ∧ (nodeAt n f).isSome ∧ d = get n f ∧ mqttMatch f t = true) := by
  intro h
  have h1 := (h ["a"] (by simp) dupNode [] ["a"] [2]).1
    (by simp [dupNode, Sub.walkP, Node.data, Node.children, lookup])
  obtain ⟨p', hp, -, hd, -⟩ := h1
  simp only [List.reverse_nil, List.nil_append] at hp
  subst hp
  simp [dupNode, get, Node.children, lookup, Node.data] at hd

theorem Ret.mem_matchP_needs_WF :
    ¬ ∀ (f : List Level) (_ : wfFilter f = true) (n : Node) (pre p : List Level) (d : Bytes),
      ((p, d) ∈ Ret.matchP f pre n ↔
        ∃ t, p = pre.reverse ++ t ∧ (nodeAt n t).isSome ∧ d = get n t ∧ d ≠ [] ∧
          mqttMatch f t = true) := by
  intro h
  have h1 := (h ["a"] (by simp [wfFilter]) dupNode [] ["a"] [2]).1
    (by simp [dupNode, Ret.matchP, Node.data])
  obtain ⟨p', hp, -, hd, -⟩ := h1
  simp only [List.reverse_nil, List.nil_append] at hp
  subst hp
  simp [dupNode, get, Node.children, lookup, Node.data] at hd

theorem nodup_iterP (n : Node) (h : WF n) (pre : List Level) : ((iterP n pre).map (·.1)).Nodup :=
  nodup_iterP_wf n h pre

/-! ### FALSE as stated (no `WF n` hypothesis): counterexample `dupNode`, refuted above.
    With the extra hypothesis `WF n` they are `mem_iterP_wf`, `Sub.mem_walkP_wf`,
    `Ret.mem_matchP_wf`. -/

theorem mem_iterP (n : Node) (h : WF n) (pre : List Level) (p : List Level) (d : Bytes) :
    (p, d) ∈ iterP n pre ↔ ∃ p', p = pre.reverse ++ p' ∧ (nodeAt n p').isSome ∧ d = get n p' ∧ d ≠ [] :=
  mem_iterP_wf n h pre p d

theorem Sub.mem_walkP (t : List Level) (ht : t ≠ []) (n : Node) (h : WF n) (pre : List Level) (p : List Level) (d : Bytes) :
    (p, d) ∈ Sub.walkP t pre n ↔
      ∃ f, p = pre.reverse ++ f ∧ (nodeAt n f).isSome ∧ d = get n f ∧ mqttMatch f t = true :=
  Sub.mem_walkP_wf t ht n h pre p d

theorem Ret.mem_matchP (f : List Level) (hf : wfFilter f = true) (n : Node) (h : WF n) (pre : List Level)
    (p : List Level) (d : Bytes) :
    (p, d) ∈ Ret.matchP f pre n ↔
      ∃ t, p = pre.reverse ++ t ∧ (nodeAt n t).isSome ∧ d = get n t ∧ d ≠ [] ∧ mqttMatch f t = true :=
  Ret.mem_matchP_wf f hf n h pre p d

end Wasp.Trie

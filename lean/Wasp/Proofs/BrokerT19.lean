import Wasp.Properties.C13
import Wasp.Proofs.BrokerT10
/-! helper lemmas for Wasp/Properties/C11Record.lean (agent T19) -/
namespace Wasp.Broker.AgentT19
open Wasp.Broker Wasp.Dist Wasp.Crdt

/-- unregistering, closing and deleting the subscriptions leaves the session records of node i alone; the crdt clock
    only moves forward -/
theorem tdBase_sessions (w : World) (i : Nat) (hi : i < w.nodes.length) (s : Sess) :
    (AgentD.tdBase w i s).nodes.length = w.nodes.length ∧
    ((AgentD.tdBase w i s).node i).dist.sessions = (w.node i).dist.sessions ∧
    w.clock ≤ (AgentD.tdBase w i s).clock := by
  unfold AgentD.tdBase
  simp only
  apply AgentD.foldl_inv (P := fun (w' : World) => w'.nodes.length = w.nodes.length ∧
    (w'.node i).dist.sessions = (w.node i).dist.sessions ∧ w.clock ≤ w'.clock)
  · have hn : World.node { (w.setNode i { w.node i with reg := (w.node i).reg.filter (fun x => x.id != s.id) }).emit s.conn .closed with
        conns := ((w.setNode i { w.node i with reg := (w.node i).reg.filter (fun x => x.id != s.id) }).emit s.conn .closed).conns.filter
          (fun (c : String × Nat) => c.1 != s.conn) } i = { w.node i with reg := (w.node i).reg.filter (fun x => x.id != s.id) } :=
      AgentD.node_setNode_self _ _ _ hi
    refine ⟨by simp [World.emit], ?_, ?_⟩
    · rw [hn]
    · exact Int.le_refl _
  · intro b t _ ⟨hlen, hsess, hclk⟩
    have hib : i < b.nodes.length := by rw [hlen]; exact hi
    refine ⟨by simp [hlen], ?_, ?_⟩
    · rw [AgentT10.subDelete_node_dist b i hib]; exact hsess
    · rw [AgentD.subDelete_clock]; omega

/-- the replicated state of node i after `World.sessDelete` -/
theorem sessDelete_node_dist (w : World) (i : Nat) (hi : i < w.nodes.length) (sid : String) :
    ((w.sessDelete i sid).node i).dist = (Wasp.Dist.sessDelete (w.node i).dist w.clock sid).1 := by
  have hi' : i < w.tick.1.nodes.length := hi
  simp only [World.sessDelete]
  split
  · rw [AgentD.broadcast_dist, AgentD.node_setNode_self _ _ _ hi']; rfl
  · rw [AgentD.node_setNode_self _ _ _ hi']; rfl

/-- in a store with unique ids, after `sessSet x` the only record under `x.id` is `x` -/
theorem mem_sessSet_id {x md : SessionMD} {l : List SessionMD} (hu : (l.map (·.id)).Nodup)
    (hm : md ∈ sessSet x l) (hid : md.id = x.id) : md = x := by
  have h := (mem_iff_sessLookup _ (sessSet_nodup x l hu) md).mp hm
  rw [sessLookup_sessSet, if_pos hid.symm] at h
  exact (Option.some.inj h).symm

theorem sessByClientID_eq {a b : State} (h : a.sessions = b.sessions) (m c : String) :
    sessByClientID a m c = sessByClientID b m c := by
  simp only [sessByClientID, sessFilter, h]

theorem mem_sessAll {st : State} {md : SessionMD} :
    md ∈ sessAll st ↔ md ∈ st.sessions ∧ isAdded md.stamp = true := by
  simp [sessAll, sessFilter]

theorem mem_sessByClientID {st : State} {md : SessionMD} {m c : String} :
    md ∈ sessByClientID st m c ↔ md ∈ st.sessions ∧ isAdded md.stamp = true ∧ md.mount = m ∧ md.client = c := by
  simp [sessByClientID, sessFilter]

/-- the record of the ending session goes away — PROVIDED the stamp of its live record is not ahead of the crdt
    clock (`hclk`); without `hclk` the tombstone written by the teardown (deleted := clock) is older than the
    record's `added` stamp and the record stays live -/
theorem teardown_removes_record_of_clock (w : World) (i : Nat) (hi : i < w.nodes.length) (s : Sess)
    (hu : ((w.node i).dist.sessions.map (·.id)).Nodup)
    (hrec : ∀ md ∈ sessAll (w.node i).dist, md.id = s.id → md.mount = s.mount ∧ md.client = s.client)
    (hclk : ∀ md ∈ sessAll (w.node i).dist, md.id = s.id → md.added ≤ w.clock) :
    ∀ md ∈ sessAll ((teardown w i s).1.node i).dist, md.id ≠ s.id := by
  obtain ⟨hlen, hsess, hck⟩ := tdBase_sessions w i hi s
  have hiB : i < (AgentD.tdBase w i s).nodes.length := by rw [hlen]; exact hi
  have he := sessByClientID_eq hsess s.mount s.client
  rw [AgentD.teardown_eq, he]
  intro md hmd hid
  split at hmd
  · rename_i hany
    simp only at hmd
    rw [sessDelete_node_dist _ _ hiB] at hmd
    obtain ⟨x, hx, hxid⟩ := List.any_eq_true.mp hany
    have hxid : x.id = s.id := by simpa using hxid
    obtain ⟨hxm, hxa, -, -⟩ := mem_sessByClientID.mp hx
    have hlook : sessLookup s.id (w.node i).dist.sessions = some x := by
      rw [← hxid]; exact (mem_iff_sessLookup _ hu x).mp hxm
    have hxc : x.added ≤ w.clock := hclk x (mem_sessAll.mpr ⟨hxm, hxa⟩) hxid
    have hxa' : (decide (x.added > 0) && decide (x.added > x.deleted)) = true := hxa
    simp only [Bool.and_eq_true, decide_eq_true_eq] at hxa'
    have hnr : isRemoved x.stamp = false := by
      show (decide (x.deleted > 0) && decide (x.added < x.deleted)) = false
      simp only [Bool.and_eq_false_iff, decide_eq_false_iff_not]
      right; omega
    unfold Wasp.Dist.sessDelete at hmd
    rw [hsess, hlook] at hmd
    simp only [hnr] at hmd
    obtain ⟨hm, ha⟩ := mem_sessAll.mp hmd
    have hm' : md ∈ sessSet { x with deleted := (AgentD.tdBase w i s).clock } (w.node i).dist.sessions := by
      simpa using hm
    have e := mem_sessSet_id hu hm' (hid.trans hxid.symm)
    subst e
    have ha' : (decide (x.added > 0) && decide (x.added > (AgentD.tdBase w i s).clock)) = true := ha
    simp only [Bool.and_eq_true, decide_eq_true_eq] at ha'
    omega
  · rename_i hany
    apply hany
    simp only at hmd
    obtain ⟨hm, ha⟩ := mem_sessAll.mp hmd
    rw [hsess] at hm
    obtain ⟨h1, h2⟩ := hrec md (mem_sessAll.mpr ⟨hm, ha⟩) hid
    exact List.any_eq_true.mpr ⟨md, mem_sessByClientID.mpr ⟨hm, ha, h1, h2⟩, by simpa using hid⟩

/-- the will is withheld exactly when another live record carries the client identifier -/
theorem teardown_will_withheld_iff (w : World) (i : Nat) (hi : i < w.nodes.length) (s : Sess) :
    (teardown w i s).2 = true ↔
      ∃ md ∈ sessByClientID (w.node i).dist s.mount s.client, md.id ≠ s.id := by
  have he := sessByClientID_eq (tdBase_sessions w i hi s).2.1 s.mount s.client
  rw [AgentD.teardown_eq, he]
  simp only [List.any_eq_true, bne_iff_ne, ne_eq]

end Wasp.Broker.AgentT19

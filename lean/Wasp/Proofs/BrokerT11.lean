import Wasp.Model.BrokerOps
import Wasp.Proofs.BrokerT10
/-! helper lemmas for Wasp/Properties/C18E2E.lean (agent T11)

`Stay sid w w'`: going from `w` to `w'`, on every node
* every session id other than `sid` resolves to a registry entry with the same connection and mount point
  (or to none, as before), and
* every stored subscription of a session other than `sid` is still stored, unchanged, under the same key;
* the number of nodes is the same.
Everything bytes on connection `h` can trigger is `Stay ("S" ++ h)`. -/
namespace Wasp.Broker.AgentT11
open Wasp.Broker Wasp.Dist Wasp.Wire Wasp.Topic Wasp.Broker.AgentD

/-! ### subscriptions of other sessions survive `subsSet` -/

def SubKeep (sid : String) (m m' : List (String × List Sub)) : Prop :=
  ∀ kl ∈ m, ∀ u ∈ kl.2, u.session ≠ sid → ∃ kl' ∈ m', kl'.1 = kl.1 ∧ u ∈ kl'.2

theorem SubKeep.refl (sid : String) (m : List (String × List Sub)) : SubKeep sid m m :=
  fun kl hkl _ hu _ => ⟨kl, hkl, rfl, hu⟩

theorem SubKeep.trans {sid : String} {a b c : List (String × List Sub)} (h1 : SubKeep sid a b)
    (h2 : SubKeep sid b c) : SubKeep sid a c := by
  intro kl hkl u hu hne
  obtain ⟨kl1, hkl1, e1, hu1⟩ := h1 kl hkl u hu hne
  obtain ⟨kl2, hkl2, e2, hu2⟩ := h2 kl1 hkl1 u hu1 hne
  exact ⟨kl2, hkl2, e2.trans e1, hu2⟩

theorem subListSet_keeps (s u : Sub) (L : List Sub) (hu : u ∈ L) (hne : u.session ≠ s.session) :
    u ∈ (subListSet s L).1 := by
  induction L with
  | nil => cases hu
  | cons x rest ih =>
    rw [subListSet_cons]
    simp only [List.mem_cons] at hu
    split
    · rename_i hx
      split
      · rcases hu with rfl | hu
        · exact absurd hx hne
        · simp [hu]
      · rcases hu with rfl | hu
        · simp
        · simp [ih hu]
    · rcases hu with rfl | hu
      · simp
      · simp [ih hu]

theorem subsAssign_cases (pat : String) (l : List Sub) (m : List (String × List Sub)) (kl : String × List Sub)
    (h : kl ∈ m) :
    kl ∈ subsAssign pat l m ∨ (kl.1 = pat ∧ kl.2 = subsLookup pat m ∧ (pat, l) ∈ subsAssign pat l m) := by
  induction m with
  | nil => cases h
  | cons y rest ih =>
    obtain ⟨k, l'⟩ := y
    simp only [List.mem_cons] at h
    by_cases hk : k = pat
    · simp only [subsAssign, subsLookup, hk, if_true]
      rcases h with rfl | h
      · right; simp [hk]
      · left; simp [h]
    · simp only [subsAssign, subsLookup, hk, if_false]
      rcases h with rfl | h
      · left; simp
      · rcases ih h with h1 | ⟨h1, h2, h3⟩
        · left; simp [h1]
        · right; exact ⟨h1, h2, by simp [h3]⟩

theorem subsSet_keep (s : Sub) (m : List (String × List Sub)) : SubKeep s.session m (subsSet s m) := by
  intro kl hkl u hu hne
  rw [subsSet_eq_sy]
  rcases subsAssign_cases s.pattern (subsSetList s m) m kl hkl with h | ⟨h1, h2, h3⟩
  · exact ⟨kl, h, rfl, hu⟩
  · refine ⟨_, h3, h1.symm, ?_⟩
    rw [h2] at hu
    have := subListSet_keeps s u _ hu hne
    unfold subsSetList
    split
    · exact this
    · simp [this]

theorem sessDelete_subs (st : State) (now : Int) (id : String) : (Wasp.Dist.sessDelete st now id).1.subs = st.subs := by
  unfold Wasp.Dist.sessDelete
  split
  · rfl
  · split <;> rfl

theorem sessCreate_subs (st : State) (now : Int) (id client : String) (ca : Int) (lwt : Option Will) (mount : String) :
    (sessCreate st now id client ca lwt mount).1.subs = st.subs := by
  unfold sessCreate
  split
  · split <;> rfl
  · rfl

/-! ### the relation -/

/-- what a bystander's packets are routed by: connection and mount point of its registry entry -/
def cm (s : Sess) : String × String := (s.conn, s.mount)

structure NStay (sid : String) (n n' : Node) : Prop where
  reg : ∀ x, x ≠ sid → (n'.sess x).map cm = (n.sess x).map cm
  subs : SubKeep sid n.dist.subs n'.dist.subs

theorem NStay.refl (sid : String) (n : Node) : NStay sid n n := ⟨fun _ _ => rfl, SubKeep.refl _ _⟩

theorem NStay.trans {sid : String} {a b c : Node} (h1 : NStay sid a b) (h2 : NStay sid b c) : NStay sid a c :=
  ⟨fun x hx => (h2.reg x hx).trans (h1.reg x hx), h1.subs.trans h2.subs⟩

theorem NStay.of_eq {sid : String} {n n' : Node} (hr : n'.reg = n.reg) (hd : n'.dist.subs = n.dist.subs) :
    NStay sid n n' := by
  refine ⟨fun x _ => ?_, ?_⟩
  · unfold Node.sess; rw [hr]
  · rw [hd]; exact SubKeep.refl _ _

theorem find?_congr' {α : Type} {p q : α → Bool} (l : List α) (h : ∀ a ∈ l, p a = q a) : l.find? p = l.find? q := by
  induction l with
  | nil => rfl
  | cons a rest ih =>
    simp only [List.find?_cons, h a (by simp)]
    rw [ih (fun b hb => h b (by simp [hb]))]

theorem setSess_sess (n : Node) (s' : Sess) (x : String) :
    (n.setSess s').sess x = (n.sess x).map (fun y => if y.id == s'.id then s' else y) := by
  unfold Node.sess Node.setSess
  simp only [List.find?_map]
  congr 1
  apply find?_congr'
  intro y _
  simp only [Function.comp]
  split
  · rename_i hy
    have : y.id = s'.id := by simpa using hy
    rw [this]
  · rfl

theorem setSess_cm {n : Node} {sid0 : String} {s s' : Sess} (h : n.sess sid0 = some s) (hid : s'.id = s.id)
    (hc : s'.conn = s.conn) (hm : s'.mount = s.mount) (x : String) :
    ((n.setSess s').sess x).map cm = (n.sess x).map cm := by
  have hsid := (sess_some h).2
  rw [setSess_sess]
  cases hx : n.sess x with
  | none => rfl
  | some y =>
    simp only [Option.map_some]
    split
    · rename_i hy
      have h1 : y.id = s'.id := by simpa using hy
      have hyx := (sess_some hx).2
      have h2 : x = sid0 := by rw [← hyx, h1, hid, hsid]
      subst h2
      rw [h] at hx
      cases hx
      simp [cm, hc, hm]
    · rfl

theorem NStay.setSess (sid : String) {n : Node} {sid0 : String} {s s' : Sess} (h : n.sess sid0 = some s)
    (hid : s'.id = s.id) (hc : s'.conn = s.conn) (hm : s'.mount = s.mount) : NStay sid n (n.setSess s') :=
  ⟨fun x _ => setSess_cm h hid hc hm x, SubKeep.refl _ _⟩

structure Stay (sid : String) (w w' : World) : Prop where
  len : w'.nodes.length = w.nodes.length
  node : ∀ j, NStay sid (w.node j) (w'.node j)

theorem Stay.refl (sid : String) (w : World) : Stay sid w w := ⟨rfl, fun _ => NStay.refl _ _⟩

theorem Stay.trans {sid : String} {a b c : World} (h1 : Stay sid a b) (h2 : Stay sid b c) : Stay sid a c :=
  ⟨h2.len.trans h1.len, fun j => (h1.node j).trans (h2.node j)⟩

theorem Stay.of_nodes {sid : String} {w w' : World} (h : w'.nodes = w.nodes) : Stay sid w w' :=
  ⟨by rw [h], fun j => by rw [node_congr h]; exact NStay.refl _ _⟩

theorem Stay.setNode (sid : String) (w : World) (i : Nat) (n' : Node) (h : NStay sid (w.node i) n') :
    Stay sid w (w.setNode i n') := by
  refine ⟨by simp, fun j => ?_⟩
  rw [node_setNode]
  split
  · rename_i hc; rw [hc.1]; exact h
  · exact NStay.refl _ _

theorem Stay.setNode_same (sid : String) (w : World) (i : Nat) (n' : Node) (hr : n'.reg = (w.node i).reg)
    (hd : n'.dist.subs = (w.node i).dist.subs) : Stay sid w (w.setNode i n') :=
  Stay.setNode sid w i n' (NStay.of_eq hr hd)

theorem Stay.foldl {sid : String} {α : Type} (f : World → α → World) (l : List α) (w : World)
    (hs : ∀ w a, Stay sid w (f w a)) : Stay sid w (l.foldl f w) :=
  foldl_inv (fun w' => Stay sid w w') f l w (Stay.refl sid w) (fun b a _ hb => hb.trans (hs b a))

theorem Stay.foldl' {sid : String} {α : Type} (f : World → α → World) (l : List α) (w b : World)
    (h0 : Stay sid w b) (hs : ∀ w a, Stay sid w (f w a)) : Stay sid w (l.foldl f b) :=
  h0.trans (Stay.foldl f l b hs)

macro "st_back " t:term : tactic => `(tactic| refine Stay.trans ?_ $t)
macro "st_setnode" : tactic => `(tactic| refine Stay.trans ?_ (Stay.setNode_same _ _ _ _ rfl rfl))

/-! ### every world function below `rawBytes` -/

theorem st_tick (sid : String) (w : World) : Stay sid w w.tick.1 := Stay.of_nodes rfl

theorem st_emit (sid : String) (w : World) (c : String) (p : Pkt) : Stay sid w (w.emit c p) := Stay.of_nodes rfl

macro "st_emit" : tactic => `(tactic| refine Stay.trans ?_ (st_emit _ _ _ _))

theorem st_broadcast (sid : String) (w : World) (i : Nat) (ev : Event) : Stay sid w (w.broadcast i ev) := by
  unfold World.broadcast
  exact Stay.setNode_same _ _ _ _ rfl rfl

theorem st_extendDeadline (sid : String) (w : World) (i : Nat) (sid0 : String) :
    Stay sid w (w.extendDeadline i sid0) := by
  unfold World.extendDeadline
  simp only []
  split
  · rename_i s hs
    exact Stay.setNode _ _ _ _ (NStay.setSess sid hs rfl rfl rfl)
  · exact Stay.refl _ w

theorem subCreate_keep (st : State) (now : Int) (sid pat : String) (qos : Int) :
    SubKeep sid st.subs (Wasp.Dist.subCreate st now sid pat qos).1.subs :=
  subsSet_keep ⟨sid, pat, st.peer, qos, now, 0⟩ st.subs

theorem subDelete_keep (st : State) (now : Int) (sid pat : String) :
    SubKeep sid st.subs (Wasp.Dist.subDelete st now sid pat).1.subs :=
  subsSet_keep ⟨sid, pat, st.peer, 0, 0, now⟩ st.subs

theorem st_subCreate (w : World) (i : Nat) (sid pat : String) (qos : Int) : Stay sid w (w.subCreate i sid pat qos) := by
  simp only [World.subCreate]
  st_back (st_broadcast _ _ _ _)
  refine Stay.trans (b := w.tick.1) (st_tick _ w) ?_
  exact Stay.setNode _ _ _ _ ⟨fun _ _ => rfl, subCreate_keep _ _ _ _ _⟩

theorem st_subDelete (w : World) (i : Nat) (sid pat : String) : Stay sid w (w.subDelete i sid pat) := by
  simp only [World.subDelete]
  st_back (st_broadcast _ _ _ _)
  refine Stay.trans (b := w.tick.1) (st_tick _ w) ?_
  exact Stay.setNode _ _ _ _ ⟨fun _ _ => rfl, subDelete_keep _ _ _ _⟩

theorem st_sessDelete (sid : String) (w : World) (i : Nat) (sid0 : String) : Stay sid w (w.sessDelete i sid0) := by
  simp only [World.sessDelete]
  split
  · st_back (st_broadcast _ _ _ _)
    refine Stay.trans (b := w.tick.1) (st_tick _ w) ?_
    exact Stay.setNode_same _ _ _ _ rfl (sessDelete_subs _ _ _)
  · refine Stay.trans (b := w.tick.1) (st_tick _ w) ?_
    exact Stay.setNode_same _ _ _ _ rfl (sessDelete_subs _ _ _)

theorem st_poolPut (sid : String) (w : World) (i : Nat) (mid : Int) : Stay sid w (w.poolPut i mid) := by
  unfold World.poolPut
  exact Stay.setNode_same _ _ _ _ rfl rfl

theorem st_armAndSend (sid : String) (w : World) (i : Nat) (st : Stored) : Stay sid w (w.armAndSend i st) := by
  unfold World.armAndSend
  cases st with
  | out1 sid0 topic payload retain dup mid =>
    simp only
    split
    · exact Stay.refl _ w
    · split
      · st_emit
        st_setnode
        exact st_extendDeadline _ w i sid0
      · exact st_extendDeadline _ w i sid0
  | out2 sid0 topic payload retain dup mid =>
    simp only
    split
    · exact Stay.refl _ w
    · split
      · st_emit
        st_setnode
        exact st_extendDeadline _ w i sid0
      · exact st_extendDeadline _ w i sid0
  | rel sid0 mid =>
    simp only
    split
    · exact Stay.refl _ w
    · st_emit
      refine Stay.trans ?_ (Stay.setNode_same _ _ _ _ ?_ ?_)
      · exact st_extendDeadline _ w i sid0
      · split <;> rfl
      · split <;> rfl
  | inbound => exact Stay.refl _ w

theorem st_sendArmed (sid : String) (w : World) (i : Nat) (st : Stored) (sid0 : String) (mid : Int) :
    Stay sid w (w.sendArmed i st sid0 mid) := by
  unfold World.sendArmed
  simp only
  split
  · exact (st_armAndSend _ w i st).trans (st_poolPut _ _ _ _)
  · exact st_armAndSend _ w i st

theorem st_send (sid : String) (w : World) (i : Nat) (l : List (String × Int)) (p : Pub) : Stay sid w (w.send i l p) := by
  induction l generalizing w with
  | nil => simp only [World.send]; exact Stay.refl _ w
  | cons x rest ih =>
    obtain ⟨sid0, qos⟩ := x
    simp only [World.send]
    split
    · exact ih w
    · split
      · refine Stay.trans ?_ (ih _)
        st_emit
        exact st_extendDeadline _ w i sid0
      · split
        · split
          · exact Stay.refl _ w
          · refine Stay.trans ?_ (ih _)
            st_back (st_sendArmed _ _ _ _ _ _)
            st_setnode
            exact Stay.refl _ w
        · exact ih w

theorem st_onResolved (sid : String) (w : World) (i : Nat) (ev : Ack.Resolved) (st : Stored) :
    Stay sid w (w.onResolved i ev st) := by
  unfold World.onResolved
  cases st <;> simp only <;> repeat' split
  all_goals first | exact st_armAndSend _ _ _ _ | exact st_poolPut _ _ _ _ | exact Stay.refl _ _

theorem st_deliverLocal (sid : String) (w : World) (j : Nat) (p : Pub) : Stay sid w (w.deliverLocal j p) := by
  unfold World.deliverLocal
  exact st_send _ _ _ _ _

theorem appendLog_dist (n : Node) (p : Pub) : (n.appendLog p).1.dist = n.dist := by
  unfold Node.appendLog; simp only; split <;> rfl

theorem st_distribute (sid : String) (w : World) (i : Nat) (p : Pub) : Stay sid w (w.distribute i p).1 := by
  unfold World.distribute
  simp only
  apply foldl_inv (P := fun (acc : World × Bool) => Stay sid w acc.1)
  · exact Stay.refl _ w
  · intro acc peer _ hacc
    split
    · exact hacc
    · split
      · exact hacc
      · split
        · refine hacc.trans ?_
          st_back (st_deliverLocal _ _ _ _)
          exact Stay.setNode_same _ _ _ _ (appendLog_reg _ _) (by rw [appendLog_dist])
        · refine hacc.trans ?_
          exact Stay.setNode_same _ _ _ _ (appendLog_reg _ _) (by rw [appendLog_dist])

theorem st_retainStep (sid : String) (w : World) (i : Nat) (p : Pub) : Stay sid w (retainStep w i p) := by
  unfold retainStep
  split
  · simp only [World.tick]
    st_back (st_broadcast _ _ _ _)
    refine Stay.trans ?_ (Stay.setNode_same _ _ _ _ rfl ?_)
    · exact Stay.of_nodes rfl
    · split <;> rfl
  · exact Stay.refl _ w

theorem st_publishJob (sid : String) (w : World) (i : Nat) (p : Pub) (onOk : World → World)
    (h : ∀ w, Stay sid w (onOk w)) : Stay sid w (w.publishJob i p onOk) := by
  rw [publishJob_eq]
  split
  · exact ((st_retainStep _ w i p).trans (st_distribute _ _ _ _)).trans (h _)
  · exact (st_retainStep _ w i p).trans (st_distribute _ _ _ _)

theorem st_ackFrom (sid : String) (w : World) (i : Nat) (pfx : String) (kind : Ack.PType) (mid : Int) :
    Stay sid w (w.ackFrom i pfx kind mid) := by
  unfold World.ackFrom
  simp only
  refine Stay.foldl' _ _ _ _ (Stay.setNode_same _ _ _ _ rfl rfl) ?_
  intro w ev
  split
  · exact Stay.refl _ w
  · rename_i st _
    cases st with
    | inbound a conn pub imid =>
      simp only
      st_back (st_publishJob _ _ _ _ _ (fun w => st_emit _ _ _ _))
      st_setnode
      exact Stay.refl _ w
    | _ =>
      simp only
      st_back (st_onResolved _ _ _ _ _)
      st_setnode
      exact Stay.refl _ w

theorem st_process (w : World) (i : Nat) (sid : String) (pkt : CPkt) : Stay sid w (w.process i sid pkt).1 := by
  unfold World.process
  simp only
  split
  · exact Stay.refl _ w
  · rename_i s hs
    cases pkt with
    | connect => exact Stay.refl _ w
    | publish topic payload qos retain dup mid =>
      simp only
      split
      · exact st_publishJob _ _ _ _ _ (fun w => Stay.refl _ w)
      · split
        · exact st_publishJob _ _ _ _ _ (fun w => st_emit _ _ _ _)
        · split
          · split
            · st_emit
              exact Stay.setNode_same _ _ _ _ rfl rfl
            · exact Stay.refl _ w
          · exact Stay.refl _ w
    | subscribe mid topics =>
      simp only
      refine Stay.foldl' _ _ _ _ ?_ ?_
      · st_emit
        refine Stay.foldl' _ _ _ _ (Stay.refl _ w) ?_
        intro w tq
        refine (st_subCreate w i sid tq.1 tq.2).trans ?_
        split
        · rename_i s' hs'
          split
          · exact Stay.refl _ _
          · exact Stay.setNode _ _ _ _ (NStay.setSess sid hs' rfl rfl rfl)
        · exact Stay.refl _ _
      · intro w tq
        refine Stay.foldl' _ _ _ _ (Stay.refl _ w) ?_
        intro w r
        exact st_send _ _ _ _ _
    | unsubscribe mid topics =>
      simp only
      st_emit
      refine Stay.foldl' _ _ _ _ (Stay.refl _ w) ?_
      intro w t
      refine (st_subDelete w i sid (prefixMountPoint s.mount t)).trans ?_
      split
      · rename_i s' hs'
        exact Stay.setNode _ _ _ _ (NStay.setSess sid hs' rfl rfl rfl)
      · exact Stay.refl _ _
    | puback mid => exact st_ackFrom _ _ _ _ _ _
    | pubrec mid => exact st_ackFrom _ _ _ _ _ _
    | pubrel mid => exact st_ackFrom _ _ _ _ _ _
    | pubcomp mid => exact st_ackFrom _ _ _ _ _ _
    | pingreq =>
      simp only
      split
      · split
        · exact st_emit _ _ _ _
        · exact Stay.refl _ w
      · exact Stay.refl _ w
      · split
        · exact st_emit _ _ _ _
        · exact Stay.refl _ w
    | disconnect => exact Stay.refl _ w
    | other => exact Stay.refl _ w

/-! ### session end and CONNECT: only the sender's own id is touched -/

theorem sess_filter_ne (n : Node) (sid x : String) (hx : x ≠ sid) :
    Node.sess { n with reg := n.reg.filter (fun y => y.id != sid) } x = n.sess x := by
  unfold Node.sess
  simp only [List.find?_filter]
  apply find?_congr'
  intro a _
  by_cases ha : a.id = x
  · simp [ha, hx]
  · simp [ha]

theorem st_tdBase (w : World) (i : Nat) (s : Sess) : Stay s.id w (tdBase w i s) := by
  unfold tdBase
  simp only
  refine Stay.foldl' _ _ _ _ ?_ (fun w t => st_subDelete w i s.id t)
  refine Stay.trans (b := unreg w i s.id) ?_ (Stay.of_nodes rfl)
  unfold unreg
  refine Stay.setNode _ _ _ _ ⟨fun x hx => ?_, SubKeep.refl _ _⟩
  rw [sess_filter_ne _ _ _ hx]

theorem st_teardown (w : World) (i : Nat) (s : Sess) : Stay s.id w (teardown w i s).1 := by
  rw [teardown_eq]
  split
  · exact (st_tdBase w i s).trans (st_sessDelete _ _ _ _)
  · exact st_tdBase w i s

theorem st_shutdown (w : World) (i : Nat) (sid : String) : Stay sid w (w.shutdownSession i sid) := by
  cases hs : (w.node i).sess sid with
  | none =>
    have : w.shutdownSession i sid = w := by unfold World.shutdownSession; simp only [hs]
    rw [this]
    exact Stay.refl _ w
  | some s =>
    rw [shutdown_eq w i sid s hs]
    obtain ⟨_, hid⟩ := sess_some hs
    subst hid
    split
    · exact st_teardown w i s
    · split
      · exact st_teardown w i s
      · split
        · exact st_teardown w i s
        · exact (st_teardown w i s).trans (st_publishJob _ _ _ _ _ (fun w => Stay.refl _ w))

theorem st_clientPacket (w : World) (c : String) (pkt : CPkt) : Stay ("S" ++ c) w (w.clientPacket c pkt) := by
  unfold World.clientPacket
  split
  · exact Stay.refl _ w
  · rename_i _ i' _
    simp only
    split
    · exact Stay.refl _ w
    · have hp := st_process w i' ("S" ++ c) pkt
      generalize (w.process i' ("S" ++ c) pkt) = r at hp
      obtain ⟨w1, res⟩ := r
      simp only at hp ⊢
      cases res with
      | ok => exact hp.trans (st_extendDeadline _ w1 i' _)
      | disconnected =>
        refine hp.trans (Stay.trans ?_ (st_shutdown _ _ _))
        split
        · rename_i s hs
          exact Stay.setNode _ _ _ _ (NStay.setSess _ (s' := { s with disconnected := true }) hs rfl rfl rfl)
        · exact Stay.refl _ _
      | error => exact hp.trans (st_shutdown _ _ _)

theorem st_connPre (sid : String) (w : World) (c : String) (i : Nat) (client mount : String) :
    Stay sid w (connPre w c i client mount) := by
  unfold connPre
  simp only
  split
  · st_back (st_sessDelete _ _ _ _)
    exact Stay.of_nodes rfl
  · exact Stay.of_nodes rfl

theorem st_connMid (sid : String) (w : World) (c : String) (i : Nat) (client mount : String) (will : Option Will) :
    Stay sid w (connMid w c i client mount will) := by
  unfold connMid
  simp only
  split
  · st_back (st_broadcast _ _ _ _)
    refine Stay.trans ?_ (Stay.setNode_same _ _ _ _ rfl (sessCreate_subs _ _ _ _ _ _ _))
    exact (st_connPre _ w c i client mount).trans (st_tick _ _)
  · refine Stay.trans ?_ (Stay.setNode_same _ _ _ _ rfl (sessCreate_subs _ _ _ _ _ _ _))
    exact (st_connPre _ w c i client mount).trans (st_tick _ _)

theorem sess_append_ne (n : Node) (s0 : Sess) (x : String) (hx : x ≠ s0.id) :
    Node.sess { n with reg := n.reg ++ [s0] } x = n.sess x := by
  unfold Node.sess
  have : (s0.id == x) = false := by simpa using fun h => hx h.symm
  simp [List.find?_append, this]

theorem st_connect (w : World) (c : String) (i : Nat) (client mount : String) (authOk : Bool) (ka : Nat)
    (will : Option Will) : Stay ("S" ++ c) w (w.connect c i client mount authOk ka will) := by
  cases authOk with
  | false =>
    unfold World.connect
    simp only [Bool.not_false, if_true]
    exact Stay.of_nodes rfl
  | true =>
    rw [connect_eq]
    split
    · exact ((st_connPre _ w c i client mount).trans (st_tick _ _)).trans (st_emit _ _ _ _)
    · simp only
      refine (st_connMid _ w c i client mount will).trans ?_
      generalize connMid w c i client mount will = W
      st_emit
      refine Stay.setNode _ _ _ _ ⟨fun x hx => ?_, SubKeep.refl _ _⟩
      rw [sess_append_ne _ _ _ hx]

theorem st_failConn (w : World) (c : String) : Stay ("S" ++ c) w (failConn w c) := by
  unfold failConn
  split
  · exact Stay.refl _ w
  · split
    · exact st_shutdown w _ _
    · exact Stay.of_nodes rfl

theorem st_applyDecoded (w : World) (c : String) (r : DRes) : Stay ("S" ++ c) w (applyDecoded w c r) := by
  unfold applyDecoded
  split
  · exact Stay.refl _ w
  · split
    · cases r with
      | pkt p => exact st_clientPacket w c p
      | connect => exact st_clientPacket w c _
      | err => exact st_failConn w c
      | panic => exact st_failConn w c
    · cases r with
      | connect client user pass ka will =>
        simp only
        split
        · exact st_connect _ _ _ _ _ _ _ _
        · exact st_connect _ _ _ _ _ _ _ _
      | pkt p => exact st_failConn w c
      | err => exact st_failConn w c
      | panic => exact st_failConn w c

theorem st_setBuf (sid : String) (w : World) (c' : String) (b : Wire.Bytes) : Stay sid w (setBuf w c' b) :=
  Stay.of_nodes rfl

theorem st_pump (fuel : Nat) (w : World) (c : String) : Stay ("S" ++ c) w (pump fuel w c).1 := by
  induction fuel generalizing w with
  | zero => simp only [pump]; exact Stay.refl _ w
  | succ n ih =>
    simp only [pump]
    split
    · exact st_setBuf _ w c []
    · split
      · exact st_setBuf _ w c []
      · split
        · exact Stay.refl _ w
        · exact (st_setBuf _ w c []).trans (st_failConn _ c)
        · exact ((st_setBuf _ w c _).trans (st_applyDecoded _ c _)).trans (ih _)

theorem st_rawBytes (w : World) (c : String) (b : Wire.Bytes) : Stay ("S" ++ c) w (rawBytes w c b).1 := by
  unfold rawBytes
  split
  · exact Stay.refl _ w
  · exact (st_setBuf _ w c _).trans (st_pump _ _ c)


/-! ### what `Stay` gives for one bystander -/

theorem stay_session {sid : String} {w w' : World} (hst : Stay sid w w') (i : Nat) (r : Sess)
    (hreg : (w.node i).sess r.id = some r) (hne : r.id ≠ sid) :
    ∃ r', (w'.node i).sess r.id = some r' ∧ r'.conn = r.conn ∧ r'.mount = r.mount ∧ r'.id = r.id := by
  have h := (hst.node i).reg r.id hne
  rw [hreg] at h
  cases hs : (w'.node i).sess r.id with
  | none => rw [hs] at h; cases h
  | some r' =>
    rw [hs] at h
    simp only [Option.map_some, cm, Option.some.injEq, Prod.mk.injEq] at h
    exact ⟨r', rfl, h.1, h.2, (sess_some hs).2⟩

end Wasp.Broker.AgentT11

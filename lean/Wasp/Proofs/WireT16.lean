import Wasp.Model.WireEnc
import Wasp.Proofs.BrokerT14
/-!
helper lemmas for Wasp/Properties/WireRoundTrip.lean (agent T16): the encoder of Wasp/Model/WireEnc.lean is a
right inverse of the decoder of Wasp/Model/Wire.lean, and the byte path of the model agrees with its packet path.
-/
namespace Wasp.Wire.AgentT16
open Wasp.Wire Wasp.Broker Wasp.Dist

/-! ### strings, 16-bit numbers, length-prefixed fields -/

theorem str_strBytes (s : String) : str (strBytes s) = s := by
  unfold str strBytes
  rw [List.map_map]
  have : (Char.ofNat ∘ Char.toNat) = id := by
    funext c
    simp [Char.ofNat_toNat]
  rw [this, List.map_id, String.ofList_toList]

theorem strBytes_length (s : String) : (strBytes s).length = s.length := by
  simp [strBytes, String.length_toList]

theorem be16_length (n : Nat) : (be16 n).length = 2 := rfl

theorem encStr_length (s : String) : (encStr s).length = 2 + s.length := by
  simp [encStr, be16_length, strBytes_length]

theorem u16_be16 (m : Nat) (rest : Bytes) : u16 (be16 m ++ rest) = some m := by
  simp only [be16, List.cons_append, List.nil_append, u16]
  congr 1
  omega

theorem be16_drop (m : Nat) (rest : Bytes) : (be16 m ++ rest).drop 2 = rest := rfl

theorem decodeLP_encBin (b rest : Bytes) :
    decodeLP (be16 b.length ++ b ++ rest) = some (b, rest) := by
  simp only [be16, List.cons_append, List.nil_append, decodeLP]
  have e : b.length / 256 * 256 + b.length % 256 = b.length := by omega
  rw [e]
  simp

theorem decodeLP_encStr (s : String) (rest : Bytes) :
    decodeLP (encStr s ++ rest) = some (strBytes s, rest) := by
  have := decodeLP_encBin (strBytes s) rest
  rw [strBytes_length] at this
  exact this

/-! ### hex payloads -/

/-- the character list `hexOf` builds -/
def hexChars (b : Bytes) : List Char :=
  b.foldr (fun x acc =>
    (if x / 16 < 10 then Char.ofNat (48 + x / 16) else Char.ofNat (87 + x / 16)) ::
    (if x % 16 < 10 then Char.ofNat (48 + x % 16) else Char.ofNat (87 + x % 16)) :: acc) []

theorem hexOf_eq (b : Bytes) : hexOf b = String.ofList (hexChars b) := rfl

theorem hexNibble_lt {c : Char} {x : Nat} (h : hexNibble c = some x) : x < 16 := by
  unfold hexNibble at h
  split at h
  · injection h; omega
  · split at h
    · injection h; omega
    · cases h

theorem hexDigit_hexNibble {c : Char} {x : Nat} (h : hexNibble c = some x) :
    (if x < 10 then Char.ofNat (48 + x) else Char.ofNat (87 + x)) = c := by
  unfold hexNibble at h
  split at h
  · injection h with h
    subst h
    rw [if_pos (by omega)]
    have : 48 + (c.toNat - 48) = c.toNat := by omega
    rw [this, Char.ofNat_toNat]
  · split at h
    · injection h with h
      subst h
      rw [if_neg (by omega)]
      have : 87 + (c.toNat - 87) = c.toNat := by omega
      rw [this, Char.ofNat_toNat]
    · cases h

theorem hexChars_unhex : ∀ (l : List Char) (b : Bytes), unhex l = some b → hexChars b = l := by
  intro l
  fun_induction unhex l with
  | case1 => intro b h; injection h with h; subst h; rfl
  | case2 => intro b h; cases h
  | case3 a c rest x y r hr hy hx ih =>
    intro b h
    injection h with h
    subst h
    have hx' := hexNibble_lt hx
    have hy' := hexNibble_lt hy
    simp only [hexChars, List.foldr_cons]
    have e1 : (x * 16 + y) / 16 = x := by omega
    have e2 : (x * 16 + y) % 16 = y := by omega
    rw [e1, e2, hexDigit_hexNibble hx, hexDigit_hexNibble hy]
    congr 2
    exact ih r hr
  | case4 a c rest hno ih =>
    intro b h
    cases h

theorem hexOf_payloadBytes (s : String) (h : (unhex s.toList).isSome) : hexOf (payloadBytes s) = s := by
  obtain ⟨b, hb⟩ := Option.isSome_iff_exists.mp h
  rw [hexOf_eq, payloadBytes, hb, Option.getD_some, hexChars_unhex _ _ hb, String.ofList_toList]

/-! ### remaining length -/

theorem pow128 (k : Nat) : 128 ^ (k + 1) = 128 ^ k * 128 := Nat.pow_succ 128 k

theorem encRemLenF_length_le (k n : Nat) : (encRemLenF k n).length ≤ k + 1 := by
  induction k generalizing n with
  | zero => simp [encRemLenF]
  | succ k ih =>
    unfold encRemLenF
    split
    · simp
    · have := ih (n / 128)
      simp only [List.length_cons]
      omega

theorem encRemLenF_pos (k n : Nat) : 0 < (encRemLenF k n).length := by
  cases k with
  | zero => simp [encRemLenF]
  | succ k =>
    unfold encRemLenF
    split <;> simp

theorem readRemLen_encF (k : Nat) : ∀ (n idx acc mult : Nat) (rest : Bytes), idx + k + 1 ≤ 4 → n < 128 ^ (k + 1) →
    readRemLen idx acc mult (encRemLenF k n ++ rest) = .ok (acc + n * mult) (idx + (encRemLenF k n).length) := by
  induction k with
  | zero =>
    intro n idx acc mult rest hi hn
    simp only [encRemLenF, List.cons_append, List.nil_append, List.length_cons, List.length_nil]
    rw [readRemLen, if_neg (by omega), if_pos (by omega)]
  | succ k ih =>
    intro n idx acc mult rest hi hn
    unfold encRemLenF
    split
    · rename_i h
      simp only [List.cons_append, List.nil_append, List.length_cons, List.length_nil]
      rw [readRemLen, if_neg (by omega), if_pos h]
    · rename_i h
      simp only [List.cons_append, List.length_cons]
      rw [readRemLen, if_neg (by omega), if_neg (by omega)]
      rw [ih (n / 128) (idx + 1) _ _ rest (by omega) (by rw [pow128] at hn; omega)]
      have e1 : (n % 128 + 128) % 128 = n % 128 := by omega
      have e2 : acc + n % 128 * mult + n / 128 * (mult * 128) = acc + n * mult := by
        have h3 : n / 128 * (mult * 128) = (128 * (n / 128)) * mult := by
          rw [Nat.mul_comm mult 128, ← Nat.mul_assoc, Nat.mul_comm (n / 128) 128]
        rw [h3, Nat.add_assoc, ← Nat.add_mul]
        congr 2
        omega
      rw [e1, e2]
      congr 1
      omega

theorem readRemLen_enc (n : Nat) (rest : Bytes) (h : n ≤ maxRemLen) :
    readRemLen 0 0 1 (encRemLen n ++ rest) = .ok n (encRemLen n).length := by
  have := readRemLen_encF 3 n 0 0 1 rest (by omega) (by unfold maxRemLen at h; omega)
  simpa [encRemLen] using this

/-- an incomplete remaining-length field: the reader waits -/
theorem readRemLen_encF_take (k : Nat) : ∀ (n idx acc mult j : Nat), idx + k + 1 ≤ 4 → j < (encRemLenF k n).length →
    readRemLen idx acc mult ((encRemLenF k n).take j) = .need := by
  induction k with
  | zero =>
    intro n idx acc mult j hi hj
    simp only [encRemLenF, List.length_cons, List.length_nil] at hj
    have : j = 0 := by omega
    subst this
    simp only [List.take_zero]
    rw [readRemLen, if_neg (by omega)]
  | succ k ih =>
    intro n idx acc mult j hi hj
    unfold encRemLenF at hj ⊢
    split at hj
    · simp only [List.length_cons, List.length_nil] at hj
      have : j = 0 := by omega
      subst this
      rename_i h
      rw [if_pos h]
      simp only [List.take_zero]
      rw [readRemLen, if_neg (by omega)]
    · rename_i h
      rw [if_neg h]
      cases j with
      | zero =>
        simp only [List.take_zero]
        rw [readRemLen, if_neg (by omega)]
      | succ j =>
        simp only [List.take_succ_cons]
        rw [readRemLen, if_neg (by omega), if_neg (by omega)]
        simp only [List.length_cons] at hj
        exact ih (n / 128) (idx + 1) _ _ j (by omega) (by omega)

theorem readRemLen_enc_take (n j : Nat) (hj : j < (encRemLen n).length) :
    readRemLen 0 0 1 ((encRemLen n).take j) = .need :=
  readRemLen_encF_take 3 n 0 0 1 j (by omega) hj

/-! ### one frame -/

theorem takeFrame_frameOf (t f : Nat) (body rest : Bytes) (hf : f < 16) (hl : body.length ≤ maxRemLen) :
    takeFrame (frameOf t f body ++ rest) = .frame t f body rest := by
  simp only [frameOf, List.cons_append, List.append_assoc, takeFrame]
  rw [readRemLen_enc _ _ hl]
  simp only [List.drop_left, List.length_append, List.take_left, List.drop_left]
  rw [if_neg (by omega)]
  congr 1 <;> omega

theorem frameOf_length (t f : Nat) (body : Bytes) :
    (frameOf t f body).length = 1 + (encRemLen body.length).length + body.length := by
  simp [frameOf]; omega

/-- a packet that has arrived only in part is not acted upon -/
theorem takeFrame_frameOf_take (t f : Nat) (body : Bytes) (k : Nat) (hl : body.length ≤ maxRemLen)
    (hk : k < (frameOf t f body).length) : takeFrame ((frameOf t f body).take k) = .need := by
  rw [frameOf_length] at hk
  cases k with
  | zero => rfl
  | succ k =>
    simp only [frameOf, List.take_succ_cons, takeFrame]
    rw [List.take_append]
    by_cases hlt : k < (encRemLen body.length).length
    · have : k - (encRemLen body.length).length = 0 := by omega
      rw [this, List.take_zero, List.append_nil, readRemLen_enc_take _ _ hlt]
    · rw [List.take_of_length_le (by omega), readRemLen_enc _ _ hl]
      simp only [List.drop_left, List.length_take]
      rw [if_pos (by omega)]

/-! ### PUBLISH flags -/

theorem pubFlags_lt (qos : Nat) (r d : Bool) (h : qos ≤ 2) : pubFlags qos r d < 16 := by
  cases r <;> cases d <;> simp [pubFlags] <;> omega

theorem pubFlags_retain (qos : Nat) (r d : Bool) {inst : Decidable (pubFlags qos r d % 2 = 1)} :
    @decide _ inst = r := by
  have h : (pubFlags qos r d % 2 = 1) ↔ r = true := by
    cases r <;> cases d <;> simp [pubFlags] <;> omega
  cases r
  · exact decide_eq_false (fun hc => Bool.noConfusion (h.mp hc))
  · exact decide_eq_true (h.mpr rfl)

theorem pubFlags_qos (qos : Nat) (r d : Bool) (h : qos ≤ 2) : pubFlags qos r d / 2 % 4 = qos := by
  cases r <;> cases d <;> simp [pubFlags] <;> omega

theorem pubFlags_dup (qos : Nat) (r d : Bool) (h : qos ≤ 2) {inst : Decidable (pubFlags qos r d / 8 % 2 = 1)} :
    @decide _ inst = d := by
  have h : (pubFlags qos r d / 8 % 2 = 1) ↔ d = true := by
    cases r <;> cases d <;> simp [pubFlags] <;> omega
  cases d
  · exact decide_eq_false (fun hc => Bool.noConfusion (h.mp hc))
  · exact decide_eq_true (h.mpr rfl)

/-! ### SUBSCRIBE / UNSUBSCRIBE filter lists -/

theorem encSubs_cons (tq : String × Nat) (rest : List (String × Nat)) :
    encSubs (tq :: rest) = (encStr tq.1 ++ [tq.2]) ++ encSubs rest := by
  simp [encSubs]

theorem encSubs_length_ge (ts : List (String × Nat)) : ts.length ≤ (encSubs ts).length := by
  induction ts with
  | nil => simp
  | cons tq rest ih =>
    rw [encSubs_cons]
    simp only [List.length_append, List.length_cons, List.length_nil, encStr_length]
    omega

theorem encSubs_pos (ts : List (String × Nat)) (h : ts ≠ []) : 0 < (encSubs ts).length := by
  have := encSubs_length_ge ts
  have : 0 < ts.length := List.length_pos_iff.mpr h
  omega

theorem countSub_enc : ∀ (ts : List (String × Nat)), ts ≠ [] → ∀ fuel, ts.length ≤ fuel →
    countSubTopics fuel (encSubs ts) = some ts.length := by
  intro ts
  induction ts with
  | nil => intro h; exact (h rfl).elim
  | cons tq rest ih =>
    intro _ fuel hf
    cases fuel with
    | zero => simp at hf
    | succ fuel =>
      have hlen : (encSubs (tq :: rest)).length = 2 + tq.1.length + 1 + (encSubs rest).length := by
        rw [encSubs_cons]
        simp only [List.length_append, List.length_cons, List.length_nil, encStr_length]
      have hshape : encSubs (tq :: rest) =
          (tq.1.length / 256) :: (tq.1.length % 256) :: (strBytes tq.1 ++ [tq.2] ++ encSubs rest) := by
        rw [encSubs_cons]
        simp [encStr, be16]
      have hnext : 2 + (tq.1.length / 256 * 256 + tq.1.length % 256) + 1 = 2 + tq.1.length + 1 := by omega
      rw [hshape, countSubTopics]
      simp only []
      rw [← hshape, hnext, hlen, if_neg (by omega)]
      by_cases hr : rest = []
      · subst hr
        simp [encSubs]
      · have hp := encSubs_pos rest hr
        rw [if_neg (by omega), if_neg (by omega)]
        have hd : (encSubs (tq :: rest)).drop (2 + tq.1.length + 1) = encSubs rest := by
          rw [encSubs_cons]
          have : 2 + tq.1.length + 1 = (encStr tq.1 ++ [tq.2]).length := by
            simp [encStr_length]
          rw [this, List.drop_left]
        rw [hd, ih hr fuel (by simp only [List.length_cons] at hf; omega)]
        simp

theorem readSub_enc : ∀ (ts : List (String × Nat)) (fuel : Nat), ts.length ≤ fuel →
    readSubTopics fuel (encSubs ts) = some ts := by
  intro ts
  induction ts with
  | nil =>
    intro fuel _
    cases fuel <;> simp [readSubTopics, encSubs]
  | cons tq rest ih =>
    intro fuel hf
    cases fuel with
    | zero => simp at hf
    | succ fuel =>
      have hne : (encSubs (tq :: rest)).isEmpty = false := by
        have := encSubs_pos (tq :: rest) (by simp)
        cases h : encSubs (tq :: rest) with
        | nil => rw [h] at this; simp at this
        | cons _ _ => rfl
      rw [readSubTopics, hne]
      simp only [Bool.false_eq_true, if_false]
      rw [encSubs_cons, List.append_assoc, decodeLP_encStr]
      simp only [List.cons_append, List.nil_append]
      rw [ih fuel (by simp only [List.length_cons] at hf; omega)]
      simp [str_strBytes]

theorem encUnsubs_cons (t : String) (rest : List String) : encUnsubs (t :: rest) = encStr t ++ encUnsubs rest := by
  simp [encUnsubs]

theorem encUnsubs_length_ge (ts : List String) : ts.length ≤ (encUnsubs ts).length := by
  induction ts with
  | nil => simp
  | cons t rest ih =>
    rw [encUnsubs_cons]
    simp only [List.length_append, List.length_cons, encStr_length]
    omega

theorem encUnsubs_pos (ts : List String) (h : ts ≠ []) : 0 < (encUnsubs ts).length := by
  have := encUnsubs_length_ge ts
  have : 0 < ts.length := List.length_pos_iff.mpr h
  omega

theorem countUnsub_enc : ∀ (ts : List String), ts ≠ [] → ∀ fuel, ts.length ≤ fuel →
    countUnsubTopics fuel (encUnsubs ts) = some ts.length := by
  intro ts
  induction ts with
  | nil => intro h; exact (h rfl).elim
  | cons t rest ih =>
    intro _ fuel hf
    cases fuel with
    | zero => simp at hf
    | succ fuel =>
      have hlen : (encUnsubs (t :: rest)).length = 2 + t.length + (encUnsubs rest).length := by
        rw [encUnsubs_cons]
        simp only [List.length_append, encStr_length]
      have hshape : encUnsubs (t :: rest) =
          (t.length / 256) :: (t.length % 256) :: (strBytes t ++ encUnsubs rest) := by
        rw [encUnsubs_cons]
        simp [encStr, be16]
      have hnext : 2 + (t.length / 256 * 256 + t.length % 256) = 2 + t.length := by omega
      rw [hshape, countUnsubTopics]
      rw [← hshape, hnext, hlen]
      by_cases hr : rest = []
      · subst hr
        simp [encUnsubs]
      · have hp := encUnsubs_pos rest hr
        rw [if_neg (by omega), if_neg (by omega)]
        have hd : (encUnsubs (t :: rest)).drop (2 + t.length) = encUnsubs rest := by
          rw [encUnsubs_cons]
          have : 2 + t.length = (encStr t).length := by
            simp [encStr_length]
          rw [this, List.drop_left]
        rw [hd, ih hr fuel (by simp only [List.length_cons] at hf; omega)]
        simp

theorem readUnsub_enc : ∀ (ts : List String) (fuel : Nat), ts.length ≤ fuel →
    readUnsubTopics fuel (encUnsubs ts) = some ts := by
  intro ts
  induction ts with
  | nil =>
    intro fuel _
    cases fuel <;> simp [readUnsubTopics, encUnsubs]
  | cons t rest ih =>
    intro fuel hf
    cases fuel with
    | zero => simp at hf
    | succ fuel =>
      have hne : (encUnsubs (t :: rest)).isEmpty = false := by
        have := encUnsubs_pos (t :: rest) (by simp)
        cases h : encUnsubs (t :: rest) with
        | nil => rw [h] at this; simp at this
        | cons _ _ => rfl
      rw [readUnsubTopics, hne]
      simp only [Bool.false_eq_true, if_false]
      rw [encUnsubs_cons, decodeLP_encStr]
      simp only []
      rw [ih fuel (by simp only [List.length_cons] at hf; omega)]
      simp [str_strBytes]

/-! ### the body of each packet type -/

theorem mid_cast {m : Int} (h : MidOk m) : ((m.toNat : Nat) : Int) = m := Int.toNat_of_nonneg h.1

theorem decodeBody_ack (t : Nat) (f : Nat) (m : Int) (h : MidOk m) (mk : Int → CPkt)
    (ht : ∀ body, decodeBody t f body = match u16 body with | none => .panic | some m => .pkt (mk m)) :
    decodeBody t f (be16 m.toNat) = .pkt (mk m) := by
  rw [ht]
  have := u16_be16 m.toNat []
  rw [List.append_nil] at this
  rw [this]
  simp only []
  rw [mid_cast h]

theorem decodeBody_publish (topic payload : String) (qos : Nat) (retain dup : Bool) (mid : Int)
    (hhex : (unhex payload.toList).isSome) (hq : qos ≤ 2) (hm : qos = 0 ∨ MidOk mid) :
    decodeBody 3 (pubFlags qos retain dup)
      (encStr topic ++ ((if qos = 0 then [] else be16 mid.toNat) ++ payloadBytes payload)) =
    .pkt (.publish topic payload qos retain dup (if qos = 0 then 0 else mid)) := by
  simp only [decodeBody]
  rw [decodeLP_encStr]
  simp only [pubFlags_qos qos retain dup hq, str_strBytes]
  by_cases h0 : qos = 0
  · subst h0
    simp only [Nat.lt_irrefl, if_false, if_true, List.nil_append, hexOf_payloadBytes payload hhex]
    rw [pubFlags_retain, pubFlags_dup 0 retain dup hq]
  · have hmid : MidOk mid := by
      rcases hm with hm | hm
      · exact (h0 hm).elim
      · exact hm
    rw [if_pos (by omega), if_neg h0, if_neg h0, u16_be16]
    simp only [be16_drop, hexOf_payloadBytes payload hhex, mid_cast hmid]
    rw [pubFlags_retain, pubFlags_dup qos retain dup hq]

theorem decodeBody_encode (p : CPkt) (h : WfPkt p) :
    decodeBody (ptypeOf p) (pflagsOf p) (bodyOf p) = .pkt p.normalise := by
  cases p with
  | connect => exact h.elim
  | other => exact h.elim
  | pingreq => rfl
  | disconnect => rfl
  | puback m => exact decodeBody_ack 4 0 m h .puback (fun _ => rfl)
  | pubrec m => exact decodeBody_ack 5 0 m h .pubrec (fun _ => rfl)
  | pubrel m => exact decodeBody_ack 6 2 m h .pubrel (fun _ => rfl)
  | pubcomp m => exact decodeBody_ack 7 0 m h .pubcomp (fun _ => rfl)
  | publish topic payload qos retain dup mid =>
    obtain ⟨_, hhex, hq, hm, _⟩ := h
    exact decodeBody_publish topic payload qos retain dup mid hhex hq hm
  | subscribe mid ts =>
    obtain ⟨hmid, hne, _, _⟩ := h
    simp only [ptypeOf, bodyOf, CPkt.normalise, decodeBody]
    rw [u16_be16]
    simp only [be16_drop]
    have hl := encSubs_length_ge ts
    rw [countSub_enc ts hne _ (by simp only [List.length_append]; omega)]
    simp only []
    rw [readSub_enc ts _ (by simp only [List.length_append]; omega)]
    simp only [mid_cast hmid]
  | unsubscribe mid ts =>
    obtain ⟨hmid, hne, _, _⟩ := h
    simp only [ptypeOf, bodyOf, CPkt.normalise, decodeBody]
    rw [u16_be16]
    simp only [be16_drop]
    have hl := encUnsubs_length_ge ts
    rw [countUnsub_enc ts hne _ (by simp only [List.length_append]; omega)]
    simp only []
    rw [readUnsub_enc ts _ (by simp only [List.length_append]; omega)]
    simp only [mid_cast hmid]

theorem pflagsOf_lt (p : CPkt) (h : WfPkt p) : pflagsOf p < 16 := by
  cases p <;> simp only [pflagsOf] <;> try omega
  exact pubFlags_lt _ _ _ h.2.2.1

theorem bodyOf_le (p : CPkt) (h : WfPkt p) : (bodyOf p).length ≤ maxRemLen := by
  cases p with
  | connect => exact h.elim
  | other => exact h.elim
  | publish topic payload qos retain dup mid => exact h.2.2.2.2
  | subscribe mid ts => exact h.2.2.2
  | unsubscribe mid ts => exact h.2.2.2
  | _ => simp [bodyOf, be16, maxRemLen]

theorem encode_eq {p : CPkt} {bs : Bytes} (h : encode p = some bs) :
    WfPkt p ∧ bs = frameOf (ptypeOf p) (pflagsOf p) (bodyOf p) := by
  unfold encode at h
  split at h
  · rename_i hw
    injection h with h
    exact ⟨hw, h.symm⟩
  · cases h

/-! ### the encoder produces bytes -/

def AllBytes (b : Bytes) : Prop := ∀ x ∈ b, x < 256

theorem AllBytes.append {a b : Bytes} (ha : AllBytes a) (hb : AllBytes b) : AllBytes (a ++ b) := by
  intro x hx
  rcases List.mem_append.mp hx with h | h
  · exact ha x h
  · exact hb x h

theorem AllBytes.nil : AllBytes [] := by intro x hx; cases hx

theorem AllBytes.cons {x : Nat} {b : Bytes} (hx : x < 256) (hb : AllBytes b) : AllBytes (x :: b) := by
  intro y hy
  rcases List.mem_cons.mp hy with h | h
  · rw [h]; exact hx
  · exact hb y h

theorem allBytes_be16 (n : Nat) (h : n < 65536) : AllBytes (be16 n) :=
  AllBytes.cons (by omega) (AllBytes.cons (by omega) AllBytes.nil)

theorem allBytes_mid {m : Int} (h : MidOk m) : AllBytes (be16 m.toNat) := by
  apply allBytes_be16
  have := h.1
  have := h.2
  omega

theorem allBytes_strBytes (s : String) (h : ValidStr s) : AllBytes (strBytes s) := by
  intro x hx
  simp only [strBytes, List.mem_map] at hx
  obtain ⟨c, hc, rfl⟩ := hx
  exact h.2 c hc

theorem allBytes_encStr (s : String) (h : ValidStr s) : AllBytes (encStr s) :=
  (allBytes_be16 _ h.1).append (allBytes_strBytes s h)

theorem allBytes_unhex : ∀ (l : List Char) (b : Bytes), unhex l = some b → AllBytes b := by
  intro l
  fun_induction unhex l with
  | case1 => intro b h; injection h with h; subst h; exact AllBytes.nil
  | case2 => intro b h; cases h
  | case3 a c rest x y r hr hy hx ih =>
    intro b h
    injection h with h
    subst h
    have hx' := hexNibble_lt hx
    have hy' := hexNibble_lt hy
    exact AllBytes.cons (by omega) (ih r hr)
  | case4 a c rest hno ih => intro b h; cases h

theorem allBytes_payloadBytes (s : String) : AllBytes (payloadBytes s) := by
  unfold payloadBytes
  cases h : unhex s.toList with
  | none => exact AllBytes.nil
  | some b => exact allBytes_unhex _ _ h

theorem allBytes_encRemLenF (k : Nat) : ∀ n, n < 128 ^ (k + 1) → AllBytes (encRemLenF k n) := by
  induction k with
  | zero =>
    intro n hn
    simp only [encRemLenF]
    exact AllBytes.cons (by omega) AllBytes.nil
  | succ k ih =>
    intro n hn
    unfold encRemLenF
    split
    · exact AllBytes.cons (by omega) AllBytes.nil
    · exact AllBytes.cons (by omega) (ih _ (by rw [pow128] at hn; omega))

theorem allBytes_encRemLen (n : Nat) (h : n ≤ maxRemLen) : AllBytes (encRemLen n) :=
  allBytes_encRemLenF 3 n (by unfold maxRemLen at h; omega)

theorem allBytes_encSubs (ts : List (String × Nat)) (h : ∀ tq ∈ ts, ValidStr tq.1 ∧ tq.2 ≤ 2) :
    AllBytes (encSubs ts) := by
  induction ts with
  | nil => exact AllBytes.nil
  | cons tq rest ih =>
    rw [encSubs_cons]
    have h1 := h tq (List.mem_cons_self ..)
    exact ((allBytes_encStr _ h1.1).append (AllBytes.cons (by omega) AllBytes.nil)).append
      (ih (fun x hx => h x (List.mem_cons_of_mem _ hx)))

theorem allBytes_encUnsubs (ts : List String) (h : ∀ t ∈ ts, ValidStr t) : AllBytes (encUnsubs ts) := by
  induction ts with
  | nil => exact AllBytes.nil
  | cons t rest ih =>
    rw [encUnsubs_cons]
    exact (allBytes_encStr _ (h t (List.mem_cons_self ..))).append
      (ih (fun x hx => h x (List.mem_cons_of_mem _ hx)))

theorem allBytes_bodyOf (p : CPkt) (h : WfPkt p) : AllBytes (bodyOf p) := by
  cases p with
  | connect => exact h.elim
  | other => exact h.elim
  | pingreq => exact AllBytes.nil
  | disconnect => exact AllBytes.nil
  | puback m => exact allBytes_mid h
  | pubrec m => exact allBytes_mid h
  | pubrel m => exact allBytes_mid h
  | pubcomp m => exact allBytes_mid h
  | publish topic payload qos retain dup mid =>
    obtain ⟨ht, _, _, hm, _⟩ := h
    simp only [bodyOf]
    refine (allBytes_encStr _ ht).append (AllBytes.append ?_ (allBytes_payloadBytes _))
    split
    · exact AllBytes.nil
    · rename_i h0
      rcases hm with hm | hm
      · exact (h0 hm).elim
      · exact allBytes_mid hm
  | subscribe mid ts => exact (allBytes_mid h.1).append (allBytes_encSubs ts h.2.2.1)
  | unsubscribe mid ts => exact (allBytes_mid h.1).append (allBytes_encUnsubs ts h.2.2.1)

theorem ptypeOf_le (p : CPkt) : ptypeOf p ≤ 14 := by
  cases p <;> simp [ptypeOf]

theorem allBytes_frameOf (t f : Nat) (body : Bytes) (ht : t ≤ 15) (hf : f < 16) (hl : body.length ≤ maxRemLen)
    (hb : AllBytes body) : AllBytes (frameOf t f body) :=
  AllBytes.cons (by omega) ((allBytes_encRemLen _ hl).append hb)

/-! ### the broker's packet path never touches the connections' byte buffers -/

section Bufs
open Wasp.Broker.AgentD Wasp.Broker.AgentT5 Wasp.Topic

/-- `bufs` is untouched -/
def BStep (w w' : World) : Prop := w'.bufs = w.bufs

theorem BStep.refl (w : World) : BStep w w := rfl
theorem BStep.trans {a b c : World} (h1 : BStep a b) (h2 : BStep b c) : BStep a c := Eq.trans h2 h1

theorem BStep.foldl {α : Type} (f : World → α → World) (l : List α) (w : World)
    (hs : ∀ w a, BStep w (f w a)) : BStep w (l.foldl f w) :=
  foldl_inv (fun w' => BStep w w') f l w (BStep.refl w) (fun b a _ hb => hb.trans (hs b a))

theorem BStep.foldl' {α : Type} (f : World → α → World) (l : List α) (w b : World) (h0 : BStep w b)
    (hs : ∀ w a, BStep w (f w a)) : BStep w (l.foldl f b) := h0.trans (BStep.foldl f l b hs)

macro "b_back " t:term : tactic => `(tactic| refine BStep.trans ?_ $t)

theorem b_setNode (w : World) (i : Nat) (n : Node) : BStep w (w.setNode i n) := rfl
theorem b_emit (w : World) (c : String) (p : Pkt) : BStep w (w.emit c p) := rfl
theorem b_tick (w : World) : BStep w w.tick.1 := rfl

theorem b_broadcast (w : World) (i : Nat) (ev : Event) : BStep w (w.broadcast i ev) := rfl

theorem b_extendDeadline (w : World) (i : Nat) (sid : String) : BStep w (w.extendDeadline i sid) := by
  unfold World.extendDeadline
  simp only []
  split
  · exact b_setNode _ _ _
  · exact BStep.refl w

theorem b_subCreate (w : World) (i : Nat) (sid pat : String) (qos : Int) : BStep w (w.subCreate i sid pat qos) := rfl

theorem b_subDelete (w : World) (i : Nat) (sid pat : String) : BStep w (w.subDelete i sid pat) := rfl

theorem b_sessDelete (w : World) (i : Nat) (sid : String) : BStep w (w.sessDelete i sid) := by
  unfold World.sessDelete
  simp only []
  split <;> rfl

theorem b_poolPut (w : World) (i : Nat) (mid : Int) : BStep w (w.poolPut i mid) := rfl

theorem b_armAndSend (w : World) (i : Nat) (st : Stored) : BStep w (w.armAndSend i st) := by
  unfold World.armAndSend
  cases st with
  | out1 sid topic payload retain dup mid =>
    simp only []
    split
    · exact BStep.refl w
    · split
      · b_back (b_emit _ _ _)
        exact (b_extendDeadline w i sid).trans (b_setNode _ i _)
      · exact b_extendDeadline w i sid
  | out2 sid topic payload retain dup mid =>
    simp only []
    split
    · exact BStep.refl w
    · split
      · b_back (b_emit _ _ _)
        exact (b_extendDeadline w i sid).trans (b_setNode _ i _)
      · exact b_extendDeadline w i sid
  | rel sid mid =>
    simp only []
    split
    · exact BStep.refl w
    · b_back (b_emit _ _ _)
      exact (b_extendDeadline w i sid).trans (b_setNode _ i _)
  | inbound a b c d => exact BStep.refl w

theorem b_sendArmed (w : World) (i : Nat) (st : Stored) (sid : String) (mid : Int) :
    BStep w (w.sendArmed i st sid mid) := by
  unfold World.sendArmed
  simp only
  split
  · exact (b_armAndSend w i st).trans (b_poolPut _ _ _)
  · exact b_armAndSend w i st

theorem b_send (w : World) (i : Nat) (l : List (String × Int)) (p : Pub) : BStep w (w.send i l p) := by
  induction l generalizing w with
  | nil => simp only [World.send]; exact BStep.refl w
  | cons x rest ih =>
    obtain ⟨sid, qos⟩ := x
    simp only [World.send]
    split
    · exact ih w
    · split
      · refine BStep.trans ?_ (ih _)
        b_back (b_emit _ _ _)
        exact b_extendDeadline w i sid
      · split
        · split
          · exact BStep.refl w
          · refine BStep.trans ?_ (ih _)
            b_back (b_sendArmed _ _ _ _ _)
            exact b_setNode w i _
        · exact ih w

theorem b_onResolved (w : World) (i : Nat) (ev : Ack.Resolved) (st : Stored) : BStep w (w.onResolved i ev st) := by
  unfold World.onResolved
  cases st <;> simp only <;> repeat' split
  all_goals first | exact b_armAndSend _ _ _ | exact b_poolPut _ _ _ | exact BStep.refl _

theorem b_deliverLocal (w : World) (j : Nat) (p : Pub) : BStep w (w.deliverLocal j p) := by
  unfold World.deliverLocal
  exact b_send _ _ _ _

theorem b_distribute (w : World) (i : Nat) (p : Pub) : BStep w (w.distribute i p).1 := by
  unfold World.distribute
  simp only
  apply foldl_inv (P := fun (acc : World × Bool) => BStep w acc.1)
  · exact BStep.refl w
  · intro acc peer _ hacc
    split
    · exact hacc
    · split
      · exact hacc
      · split
        · refine hacc.trans ?_
          b_back (b_deliverLocal _ _ _)
          exact b_setNode _ _ _
        · exact hacc.trans (b_setNode _ _ _)

theorem b_retainStep (w : World) (i : Nat) (p : Pub) : BStep w (retainStep w i p) := by
  unfold retainStep
  split
  · rfl
  · exact BStep.refl w

theorem b_publishJob (w : World) (i : Nat) (p : Pub) (onOk : World → World) (h : ∀ w, BStep w (onOk w)) :
    BStep w (w.publishJob i p onOk) := by
  rw [publishJob_eq]
  split
  · exact ((b_retainStep w i p).trans (b_distribute _ _ _)).trans (h _)
  · exact (b_retainStep w i p).trans (b_distribute _ _ _)

theorem b_ackStep_rest (i : Nat) (w : World) (ev : Ack.Resolved) (st : Stored) :
    BStep w (match st with
      | .inbound _ conn pub imid => w.publishJob i pub (fun w => w.emit conn (.pubcomp imid))
      | _ => w.onResolved i ev st) := by
  cases st with
  | inbound a conn pub imid => exact b_publishJob _ _ _ _ (fun w => b_emit _ _ _)
  | out1 a b c d e f => exact b_onResolved _ _ _ _
  | out2 a b c d e f => exact b_onResolved _ _ _ _
  | rel a b => exact b_onResolved _ _ _ _

theorem b_ackStep (i : Nat) (w : World) (ev : Ack.Resolved) : BStep w (AgentT13.ackStep i w ev) := by
  unfold AgentT13.ackStep
  split
  · exact BStep.refl w
  · exact (b_setNode w i { w.node i with stored := storedErase ev.key (w.node i).stored }).trans
      (b_ackStep_rest i _ ev _)

theorem b_ackFrom (w : World) (i : Nat) (pfx : String) (kind : Ack.PType) (mid : Int) :
    BStep w (w.ackFrom i pfx kind mid) := by
  rw [AgentT13.ackFrom_eq]
  exact BStep.foldl' _ _ _ _ (b_setNode w i _) (fun b ev => b_ackStep i b ev)

theorem b_process (w : World) (i : Nat) (sid : String) (pkt : CPkt) : BStep w (w.process i sid pkt).1 := by
  unfold World.process
  simp only
  split
  · exact BStep.refl w
  · rename_i s hs
    cases pkt with
    | connect => exact BStep.refl w
    | publish topic payload qos retain dup mid =>
      simp only
      split
      · exact b_publishJob _ _ _ _ (fun w => BStep.refl w)
      · split
        · exact b_publishJob _ _ _ _ (fun w => b_emit _ _ _)
        · split
          · split
            · b_back (b_emit _ _ _)
              exact b_setNode w i _
            · exact BStep.refl w
          · exact BStep.refl w
    | subscribe mid topics =>
      simp only
      refine BStep.foldl' _ _ _ _ ?_ ?_
      · b_back (b_emit _ _ _)
        refine BStep.foldl' _ _ _ _ (BStep.refl w) ?_
        intro w tq
        refine (b_subCreate w i sid tq.1 tq.2).trans ?_
        split
        · split
          · exact BStep.refl _
          · exact b_setNode _ i _
        · exact BStep.refl _
      · intro w tq
        refine BStep.foldl' _ _ _ _ (BStep.refl w) ?_
        intro w r
        exact b_send _ _ _ _
    | unsubscribe mid topics =>
      simp only
      b_back (b_emit _ _ _)
      refine BStep.foldl' _ _ _ _ (BStep.refl w) ?_
      intro w t
      refine (b_subDelete w i sid (prefixMountPoint s.mount t)).trans ?_
      split
      · exact b_setNode _ i _
      · exact BStep.refl _
    | puback mid => exact b_ackFrom _ _ _ _ _
    | pubrec mid => exact b_ackFrom _ _ _ _ _
    | pubrel mid => exact b_ackFrom _ _ _ _ _
    | pubcomp mid => exact b_ackFrom _ _ _ _ _
    | pingreq =>
      simp only
      split
      · split
        · exact b_emit _ _ _
        · exact BStep.refl w
      · exact BStep.refl w
      · split
        · exact b_emit _ _ _
        · exact BStep.refl w
    | disconnect => exact BStep.refl w
    | other => exact BStep.refl w

theorem b_tdBase (w : World) (i : Nat) (s : Sess) : BStep w (tdBase w i s) := by
  unfold tdBase
  simp only
  exact BStep.foldl' _ _ _ _ rfl (fun w t => b_subDelete w i s.id t)

theorem b_teardown (w : World) (i : Nat) (s : Sess) : BStep w (teardown w i s).1 := by
  rw [teardown_eq]
  split
  · exact (b_tdBase w i s).trans (b_sessDelete _ _ _)
  · exact b_tdBase w i s

theorem b_shutdown (w : World) (i : Nat) (sid : String) : BStep w (w.shutdownSession i sid) := by
  cases hs : (w.node i).sess sid with
  | none =>
    have : w.shutdownSession i sid = w := by unfold World.shutdownSession; simp only [hs]
    rw [this]
    exact BStep.refl w
  | some s =>
    rw [shutdown_eq w i sid s hs]
    split
    · exact b_teardown w i s
    · split
      · exact b_teardown w i s
      · split
        · exact b_teardown w i s
        · exact (b_teardown w i s).trans (b_publishJob _ _ _ _ (fun w => BStep.refl w))

theorem clientPacket_bufs (w : World) (conn : String) (pkt : CPkt) : (w.clientPacket conn pkt).bufs = w.bufs := by
  show BStep w (w.clientPacket conn pkt)
  unfold World.clientPacket
  split
  · exact BStep.refl w
  · rename_i c i hc
    simp only []
    split
    · exact BStep.refl w
    · have hp := b_process w i ("S" ++ conn) pkt
      generalize w.process i ("S" ++ conn) pkt = r at hp
      obtain ⟨w', res⟩ := r
      simp only at hp ⊢
      cases res with
      | ok => exact hp.trans (b_extendDeadline _ _ _)
      | disconnected =>
        simp only []
        refine hp.trans (BStep.trans ?_ (b_shutdown _ _ _))
        split
        · exact b_setNode _ i _
        · exact BStep.refl _
      | error => exact hp.trans (b_shutdown _ _ _)

end Bufs

/-! ### the connection loop -/

theorem find_filter_ne (l : List (String × Bytes)) (c : String) :
    (l.filter (fun e => e.1 != c)).find? (fun e => e.1 == c) = none := by
  rw [List.find?_eq_none]
  intro x hx
  have := (List.mem_filter.mp hx).2
  simp only [bne_iff_ne, ne_eq] at this
  simp [this]

theorem bufOf_setBuf_nil (w : World) (c : String) : bufOf (setBuf w c []) c = [] := by
  simp only [bufOf, setBuf, List.isEmpty_nil, if_true, List.append_nil, find_filter_ne]
  rfl

theorem bufOf_setBuf (w : World) (c : String) (b : Bytes) : bufOf (setBuf w c b) c = b := by
  cases b with
  | nil => exact bufOf_setBuf_nil w c
  | cons x b =>
    simp only [bufOf, setBuf, List.isEmpty_cons, Bool.false_eq_true, if_false, List.find?_append, find_filter_ne]
    simp

theorem setBuf_setBuf (w : World) (c : String) (b b' : Bytes) : setBuf (setBuf w c b) c b' = setBuf w c b' := by
  simp only [setBuf]
  congr 2
  rw [List.filter_append, List.filter_filter]
  simp only [Bool.and_self]
  split
  · simp
  · simp

/-- a world whose buffers are those of a world in which `c`'s buffer was cleared: `c` has no buffer -/
theorem bufOf_of_cleared {w w2 : World} {c : String} (h : w2.bufs = (setBuf w c []).bufs) : bufOf w2 c = [] := by
  have := bufOf_setBuf_nil w c
  unfold bufOf at this ⊢
  rw [h]
  exact this

theorem setBuf_nil_of_cleared {w w2 : World} {c : String} (h : w2.bufs = (setBuf w c []).bufs) :
    setBuf w2 c [] = w2 := by
  have e : w2.bufs.filter (fun e => e.1 != c) ++ [] = w2.bufs := by
    rw [h]
    simp only [setBuf, List.isEmpty_nil, if_true, List.append_nil, List.filter_filter, Bool.and_self]
  simp only [setBuf, List.isEmpty_nil, if_true]
  rw [e]

/-- no entry for `c` at all: clearing `c`'s buffer changes nothing -/
theorem setBuf_nil_of_noEntry {w : World} {c : String} (h : ∀ e ∈ w.bufs, e.1 ≠ c) : setBuf w c [] = w := by
  have e : w.bufs.filter (fun e => e.1 != c) ++ [] = w.bufs := by
    rw [List.append_nil, List.filter_eq_self]
    intro x hx
    simp [h x hx]
  simp only [setBuf, List.isEmpty_nil, if_true]
  rw [e]

theorem bufOf_nil_of_noEntry {w : World} {c : String} (h : ∀ e ∈ w.bufs, e.1 ≠ c) : bufOf w c = [] := by
  rw [← setBuf_nil_of_noEntry h]
  exact bufOf_setBuf_nil w c

/-- the model never stores an empty buffer (`setBuf` drops it), so on worlds that keep that discipline an empty
    buffer means no entry -/
theorem noEntry_of_bufOf_nil {w : World} {c : String} (hinv : ∀ e ∈ w.bufs, e.2 ≠ []) (h : bufOf w c = []) :
    ∀ e ∈ w.bufs, e.1 ≠ c := by
  intro e he hc
  unfold bufOf at h
  cases hf : w.bufs.find? (fun e => e.1 == c) with
  | none =>
    have := List.find?_eq_none.mp hf e he
    simp [hc] at this
  | some x =>
    rw [hf] at h
    simp only [Option.map_some, Option.getD_some] at h
    exact hinv x (List.mem_of_find?_eq_some hf) h

theorem any_of_hasSession {w : World} {c : String} (h : hasSession w c = true) :
    w.conns.any (fun e => e.1 == c) = true := by
  unfold hasSession at h
  cases hf : w.conns.find? (fun e => e.1 == c) with
  | none => rw [hf] at h; cases h
  | some x =>
    rw [List.any_eq_true]
    exact ⟨x, List.mem_of_find?_eq_some hf, List.find?_some (p := fun (e : String × Nat) => e.1 == c) hf⟩

theorem applyDecoded_pkt (w : World) (c : String) (p : CPkt) (h : hasSession w c = true) :
    applyDecoded w c (.pkt p) = w.clientPacket c p := by
  unfold applyDecoded
  split
  · rename_i hf
    unfold hasSession at h
    rw [hf] at h
    cases h
  · rw [if_pos h]

/-- after a packet went through the packet path on a world without buffered bytes for `c`, the loop stops -/
theorem pump_idle (fuel : Nat) (w w2 : World) (c : String) (h : w2.bufs = (setBuf w c []).bufs) :
    pump fuel w2 c = (w2, true) := by
  cases fuel with
  | zero => rfl
  | succ fuel =>
    rw [pump]
    simp only [bufOf_of_cleared h, setBuf_nil_of_cleared h, takeFrame]
    split
    · rfl
    · split <;> rfl

/-- one complete frame in an otherwise empty buffer: exactly one packet goes down the packet path -/
theorem rawBytes_frame (w : World) (c : String) (t f : Nat) (body : Bytes) (p : CPkt)
    (hs : hasSession w c = true) (hd : w.deaf.contains c = false) (hb : bufOf w c = [])
    (hf : f < 16) (hl : body.length ≤ maxRemLen) (hdec : decodeBody t f body = .pkt p) :
    rawBytes w c (frameOf t f body) = ((setBuf w c []).clientPacket c p, true) := by
  have hany := any_of_hasSession hs
  unfold rawBytes
  rw [hany, hb]
  simp only [Bool.not_true, Bool.false_eq_true, if_false, List.nil_append]
  have hlen : (frameOf t f body).length + 1 = ((frameOf t f body).length - 1 + 1) + 1 := by
    simp [frameOf]
  rw [hlen, pump]
  have h1 : (setBuf w c (frameOf t f body)).conns.any (fun e => e.1 == c) = true := hany
  have h2 : (setBuf w c (frameOf t f body)).deaf.contains c = false := hd
  rw [h1, h2, bufOf_setBuf]
  simp only [Bool.not_true, Bool.false_eq_true, if_false]
  have htf := takeFrame_frameOf t f body [] hf hl
  rw [List.append_nil] at htf
  rw [htf]
  simp only [setBuf_setBuf, hdec]
  have hs' : hasSession (setBuf w c []) c = true := hs
  rw [applyDecoded_pkt _ _ _ hs']
  exact pump_idle _ w _ c (clientPacket_bufs _ _ _)

/-- a packet arriving in two pieces: after the first piece nothing has happened except that the bytes are buffered,
    and the second piece completes exactly what the whole write would have done -/
theorem rawBytes_split (w : World) (c : String) (bs : Bytes) (k : Nat)
    (hany : w.conns.any (fun e => e.1 == c) = true) (hd : w.deaf.contains c = false) (hb : bufOf w c = [])
    (hneed : takeFrame (bs.take k) = .need) :
    rawBytes w c (bs.take k) = (setBuf w c (bs.take k), true) ∧
    rawBytes (setBuf w c (bs.take k)) c (bs.drop k) = rawBytes w c bs := by
  constructor
  · unfold rawBytes
    rw [hany, hb]
    simp only [Bool.not_true, Bool.false_eq_true, if_false, List.nil_append]
    rw [pump]
    have h1 : (setBuf w c (bs.take k)).conns.any (fun e => e.1 == c) = true := hany
    have h2 : (setBuf w c (bs.take k)).deaf.contains c = false := hd
    rw [h1, h2, bufOf_setBuf, hneed]
    simp
  · unfold rawBytes
    have h1 : (setBuf w c (bs.take k)).conns.any (fun e => e.1 == c) = true := hany
    rw [h1, hany, hb, bufOf_setBuf, List.take_append_drop]
    simp only [Bool.not_true, Bool.false_eq_true, if_false, List.nil_append, setBuf_setBuf]

/-! ### the packet path does not look at the packet id of a QoS 0 publish -/

theorem normalise_of_ne (p : CPkt) (h : ∀ t pl r d m, p ≠ .publish t pl 0 r d m) : p.normalise = p := by
  cases p with
  | publish t pl q r d m =>
    simp only [CPkt.normalise]
    by_cases h0 : q = 0
    · subst h0
      exact (h t pl r d m rfl).elim
    · rw [if_neg h0]
  | _ => rfl

theorem process_normalise (w : World) (i : Nat) (sid : String) (p : CPkt) :
    w.process i sid p.normalise = w.process i sid p := by
  cases p with
  | publish t pl q r d m =>
    simp only [CPkt.normalise]
    by_cases h0 : q = 0
    · subst h0
      unfold World.process
      simp only []
      split
      · rfl
      · simp only [if_true]
    · rw [if_neg h0]
  | _ => rfl

theorem clientPacket_normalise (w : World) (c : String) (p : CPkt) :
    w.clientPacket c p.normalise = w.clientPacket c p := by
  unfold World.clientPacket
  simp only [process_normalise]

/-! ### CONNECT -/

theorem decide_eq_bool {P : Prop} {inst : Decidable P} {b : Bool} (h : P ↔ b = true) : @decide P inst = b := by
  cases b
  · exact decide_eq_false (fun hc => Bool.noConfusion (h.mp hc))
  · exact decide_eq_true (h.mpr rfl)

theorem connectFlags_user (u p : Bool) (will : Option Will) (hw : ∀ wl, will = some wl → wl.qos ≤ 2) :
    connectFlags u p will / 128 % 2 = 1 ↔ u = true := by
  cases will with
  | none => cases u <;> cases p <;> simp [connectFlags]
  | some wl =>
    have := hw wl rfl
    cases u <;> cases p <;> cases hr : wl.retain <;> simp [connectFlags, hr] <;> omega

theorem connectFlags_pass (u p : Bool) (will : Option Will) (hw : ∀ wl, will = some wl → wl.qos ≤ 2) :
    connectFlags u p will / 64 % 2 = 1 ↔ p = true := by
  cases will with
  | none => cases u <;> cases p <;> simp [connectFlags]
  | some wl =>
    have := hw wl rfl
    cases u <;> cases p <;> cases hr : wl.retain <;> simp [connectFlags, hr] <;> omega

theorem connectFlags_noWill (u p : Bool) : ¬ (connectFlags u p none / 4 % 2 = 1) := by
  cases u <;> cases p <;> simp [connectFlags]

theorem connectFlags_will (u p : Bool) (wl : Will) (hq : wl.qos ≤ 2) :
    connectFlags u p (some wl) / 4 % 2 = 1 ∧ connectFlags u p (some wl) / 8 % 4 = wl.qos ∧
    (connectFlags u p (some wl) / 32 % 2 = 1 ↔ wl.retain = true) := by
  cases u <;> cases p <;> cases hr : wl.retain <;> simp [connectFlags, hr] <;> omega

theorem strBytes_isEmpty (s : String) (h : s ≠ "") : (strBytes s).isEmpty = false := by
  cases hl : strBytes s with
  | cons _ _ => rfl
  | nil =>
    exfalso
    apply h
    have := str_strBytes s
    rw [hl] at this
    rw [← this]
    rfl

theorem decodeLP_encBin' (b rest : Bytes) : decodeLP (encBin b ++ rest) = some (b, rest) := by
  unfold encBin
  exact decodeLP_encBin b rest

theorem strBytes_empty : strBytes "" = [] := by decide

/-- an optional string field (user name, password): present exactly when its flag is set -/
theorem optField (cond : Prop) {inst : Decidable cond} (s : String) (rest : Bytes) (h : cond ↔ (s != "") = true) :
    (@ite _ cond inst (decodeLP ((if (s != "") = true then encStr s else []) ++ rest))
      (some ([], (if (s != "") = true then encStr s else []) ++ rest))) = some (strBytes s, rest) := by
  by_cases hs : (s != "") = true
  · rw [if_pos (h.mpr hs), if_pos hs, decodeLP_encStr]
  · rw [if_neg (fun hc => hs (h.mp hc)), if_neg hs]
    have : s = "" := by simpa using hs
    rw [this, strBytes_empty]
    rfl

theorem optField_last (cond : Prop) {inst : Decidable cond} (s : String) (h : cond ↔ (s != "") = true) :
    (@ite _ cond inst (decodeLP (if (s != "") = true then encStr s else []))
      (some ([], (if (s != "") = true then encStr s else [])))) = some (strBytes s, []) := by
  have := optField cond (inst := inst) s [] h
  simpa using this

theorem decodeConnect_body (client user pass : String) (ka : Nat) (will : Option Will)
    (h : WfConnect client user pass ka will) :
    decodeConnect (connectBody client user pass ka will) = .connect client user pass ka will := by
  obtain ⟨_, _, _, hka0, _, hwill, _⟩ := h
  have hq : ∀ wl, will = some wl → wl.qos ≤ 2 := by
    intro wl e
    subst e
    exact hwill.2.2.2.2
  have hu := connectFlags_user (user != "") (pass != "") will hq
  have hp := connectFlags_pass (user != "") (pass != "") will hq
  unfold decodeConnect connectBody
  rw [decodeLP_encStr]
  simp only []
  rw [if_neg (by simp [str_strBytes])]
  rw [u16_be16]
  simp only [be16_drop]
  rw [decodeLP_encStr]
  simp only []
  cases will with
  | none =>
    rw [if_neg (connectFlags_noWill _ _)]
    simp only [List.nil_append]
    rw [optField _ user _ hu]
    simp only []
    rw [optField_last _ pass hp]
    simp only [str_strBytes]
    rw [if_neg (by omega)]
  | some wl =>
    obtain ⟨h4, h8, h32⟩ := connectFlags_will (user != "") (pass != "") wl (hq wl rfl)
    rw [if_pos h4]
    simp only [List.append_assoc]
    rw [decodeLP_encStr]
    simp only []
    rw [decodeLP_encBin']
    simp only []
    rw [optField _ user _ hu]
    simp only []
    rw [optField_last _ pass hp]
    simp only [str_strBytes, strBytes_isEmpty wl.topic hwill.2.1, Bool.false_eq_true, if_false]
    rw [if_neg (by omega), h8, decide_eq_bool h32, hexOf_payloadBytes _ hwill.2.2.1]

theorem connectFlags_lt (u p : Bool) (will : Option Will) (hw : ∀ wl, will = some wl → wl.qos ≤ 2) :
    connectFlags u p will < 256 := by
  cases will with
  | none => cases u <;> cases p <;> simp [connectFlags]
  | some wl =>
    have := hw wl rfl
    cases u <;> cases p <;> cases hr : wl.retain <;> simp [connectFlags, hr] <;> omega

theorem allBytes_connectBody (client user pass : String) (ka : Nat) (will : Option Will)
    (h : WfConnect client user pass ka will) : AllBytes (connectBody client user pass ka will) := by
  obtain ⟨hc, hu, hp, _, hka, hwill, _⟩ := h
  have hq : ∀ wl, will = some wl → wl.qos ≤ 2 := by
    intro wl e
    subst e
    exact hwill.2.2.2.2
  unfold connectBody
  refine (allBytes_encStr "MQTT" (by decide)).append (AllBytes.cons (by omega) (AllBytes.cons (connectFlags_lt _ _ _ hq)
    ((allBytes_be16 _ hka).append ((allBytes_encStr _ hc).append (AllBytes.append ?_ (AllBytes.append ?_ ?_))))))
  · cases will with
    | none => exact AllBytes.nil
    | some wl =>
      exact (allBytes_encStr _ hwill.1).append ((allBytes_be16 _ hwill.2.2.2.1).append (allBytes_payloadBytes _))
  · split
    · exact allBytes_encStr _ hu
    · exact AllBytes.nil
  · split
    · exact allBytes_encStr _ hp
    · exact AllBytes.nil

/-! ### CONNECT on the byte path -/

theorem connPre_bufs (w : World) (c : String) (i : Nat) (client mount : String) :
    (Wasp.Broker.AgentD.connPre w c i client mount).bufs = w.bufs := by
  unfold Wasp.Broker.AgentD.connPre
  simp only
  split
  · exact b_sessDelete _ _ _
  · rfl

theorem connMid_bufs (w : World) (c : String) (i : Nat) (client mount : String) (will : Option Will) :
    (Wasp.Broker.AgentD.connMid w c i client mount will).bufs = w.bufs := by
  unfold Wasp.Broker.AgentD.connMid
  simp only
  split
  · exact connPre_bufs w c i client mount
  · exact connPre_bufs w c i client mount

theorem connect_bufs (w : World) (c : String) (i : Nat) (client mount : String) (ok : Bool) (ka : Nat)
    (will : Option Will) : (w.connect c i client mount ok ka will).bufs = w.bufs := by
  cases ok with
  | false =>
    unfold World.connect
    rfl
  | true =>
    rw [Wasp.Broker.AgentD.connect_eq]
    split
    · exact connPre_bufs w c i client mount
    · exact connMid_bufs w c i client mount will

theorem applyDecoded_connect (w : World) (c c' : String) (i : Nat) (client user pass : String) (ka : Nat)
    (will : Option Will) (hf : w.conns.find? (fun e => e.1 == c) = some (c', i)) (hs : hasSession w c = false) :
    applyDecoded w c (.connect client user pass ka will) =
      w.connect c i client user (decide (pass = "ok")) ka will := by
  unfold applyDecoded
  rw [hf]
  simp only [hs, Bool.false_eq_true, if_false]
  split
  · rename_i h; simp [h]
  · rename_i h; simp [h]

/-- the CONNECT packet of a client on a fresh connection: the byte path performs `World.connect` -/
theorem rawBytes_connectFrame (w : World) (c c' : String) (i : Nat) (body : Bytes) (client user pass : String)
    (ka : Nat) (will : Option Will)
    (hf : w.conns.find? (fun e => e.1 == c) = some (c', i)) (hs : hasSession w c = false)
    (hd : w.deaf.contains c = false) (hb : bufOf w c = [])
    (hl : body.length ≤ maxRemLen) (hdec : decodeBody 1 0 body = .connect client user pass ka will) :
    rawBytes w c (frameOf 1 0 body) =
      ((setBuf w c []).connect c i client user (decide (pass = "ok")) ka will, true) := by
  have hany : w.conns.any (fun e => e.1 == c) = true := by
    rw [List.any_eq_true]
    exact ⟨(c', i), List.mem_of_find?_eq_some hf, List.find?_some (p := fun (e : String × Nat) => e.1 == c) hf⟩
  unfold rawBytes
  rw [hany, hb]
  simp only [Bool.not_true, Bool.false_eq_true, if_false, List.nil_append]
  have hlen : (frameOf 1 0 body).length + 1 = ((frameOf 1 0 body).length - 1 + 1) + 1 := by
    simp [frameOf]
  rw [hlen, pump]
  have h1 : (setBuf w c (frameOf 1 0 body)).conns.any (fun e => e.1 == c) = true := hany
  have h2 : (setBuf w c (frameOf 1 0 body)).deaf.contains c = false := hd
  rw [h1, h2, bufOf_setBuf]
  simp only [Bool.not_true, Bool.false_eq_true, if_false]
  have htf := takeFrame_frameOf 1 0 body [] (by omega) hl
  rw [List.append_nil] at htf
  rw [htf]
  simp only [setBuf_setBuf, hdec]
  have hf' : (setBuf w c []).conns.find? (fun e => e.1 == c) = some (c', i) := hf
  have hs' : hasSession (setBuf w c []) c = false := hs
  rw [applyDecoded_connect _ c c' i _ _ _ _ _ hf' hs']
  exact pump_idle _ w _ c (connect_bufs _ _ _ _ _ _ _ _)

/-! ### body sizes -/

theorem unhex_length : ∀ (l : List Char) (b : Bytes), unhex l = some b → b.length * 2 = l.length := by
  intro l
  fun_induction unhex l with
  | case1 => intro b h; injection h with h; subst h; rfl
  | case2 => intro b h; cases h
  | case3 a c rest x y r hr hy hx ih =>
    intro b h
    injection h with h
    subst h
    have := ih r hr
    simp only [List.length_cons]
    omega
  | case4 a c rest hno ih => intro b h; cases h

theorem payloadBytes_length (s : String) (h : (unhex s.toList).isSome) : (payloadBytes s).length = s.length / 2 := by
  obtain ⟨b, hb⟩ := Option.isSome_iff_exists.mp h
  have := unhex_length _ _ hb
  rw [payloadBytes, hb, Option.getD_some]
  rw [String.length_toList] at this
  omega

theorem encSubs_length (ts : List (String × Nat)) :
    (encSubs ts).length = (ts.map (fun tq => tq.1.length + 3)).sum := by
  induction ts with
  | nil => rfl
  | cons tq rest ih =>
    rw [encSubs_cons]
    simp only [List.length_append, List.length_cons, List.length_nil, encStr_length, List.map_cons, List.sum_cons, ih]
    omega

theorem encUnsubs_length (ts : List String) :
    (encUnsubs ts).length = (ts.map (fun t => t.length + 2)).sum := by
  induction ts with
  | nil => rfl
  | cons t rest ih =>
    rw [encUnsubs_cons]
    simp only [List.length_append, encStr_length, List.map_cons, List.sum_cons, ih]
    omega

theorem decodeBody_connectBody (client user pass : String) (ka : Nat) (will : Option Will)
    (h : WfConnect client user pass ka will) :
    decodeBody 1 0 (connectBody client user pass ka will) = .connect client user pass ka will := by
  have e : ∀ body, decodeBody 1 0 body = decodeConnect body := by
    intro body
    simp only [decodeBody]
  rw [e]
  exact decodeConnect_body client user pass ka will h

/-- one complete frame in an otherwise empty buffer, whatever it decodes to: it is handed to `applyDecoded` once
    (provided that leaves the buffers alone, which every branch does) -/
theorem rawBytes_frame_gen (w : World) (c : String) (t f : Nat) (body : Bytes)
    (hany : w.conns.any (fun e => e.1 == c) = true) (hd : w.deaf.contains c = false) (hb : bufOf w c = [])
    (hf : f < 16) (hl : body.length ≤ maxRemLen)
    (hbufs : (applyDecoded (setBuf w c []) c (decodeBody t f body)).bufs = (setBuf w c []).bufs) :
    rawBytes w c (frameOf t f body) = (applyDecoded (setBuf w c []) c (decodeBody t f body), true) := by
  unfold rawBytes
  rw [hany, hb]
  simp only [Bool.not_true, Bool.false_eq_true, if_false, List.nil_append]
  have hlen : (frameOf t f body).length + 1 = ((frameOf t f body).length - 1 + 1) + 1 := by
    simp [frameOf]
  rw [hlen, pump]
  have h1 : (setBuf w c (frameOf t f body)).conns.any (fun e => e.1 == c) = true := hany
  have h2 : (setBuf w c (frameOf t f body)).deaf.contains c = false := hd
  rw [h1, h2, bufOf_setBuf]
  simp only [Bool.not_true, Bool.false_eq_true, if_false]
  have htf := takeFrame_frameOf t f body [] hf hl
  rw [List.append_nil] at htf
  rw [htf]
  simp only [setBuf_setBuf]
  exact pump_idle _ w _ c hbufs

theorem applyDecoded_connect_again (w : World) (c : String) (client user pass : String) (ka : Nat)
    (will : Option Will) (hs : hasSession w c = true) :
    applyDecoded w c (.connect client user pass ka will) = w.clientPacket c .connect := by
  unfold applyDecoded
  split
  · rename_i hf
    unfold hasSession at hs
    rw [hf] at hs
    cases hs
  · rw [if_pos hs]

end Wasp.Wire.AgentT16

import Wasp.Model.MsgLog
/-! Helper lemmas for the message-log model: truncation arithmetic, `exec` over appended
    step lists, per-step frame facts. -/
namespace Wasp.MsgLog
open Wasp.Generated

theorem truncateBefore_next (l : Log) (o : Nat) : (l.truncateBefore o).next = l.next := rfl

theorem maybeTruncate_next (l : Log) (cur : Nat) : (maybeTruncate l cur).next = l.next := by
  unfold maybeTruncate
  split <;> rfl

theorem maybeTruncate_base_ge (l : Log) (cur : Nat) : l.base ≤ (maybeTruncate l cur).base := by
  unfold maybeTruncate
  split
  · simp only [Log.truncateBefore]; omega
  · exact Nat.le_refl _

theorem maybeTruncate_base (l : Log) (cur : Nat) :
    (maybeTruncate l cur).base = l.base ∨ (maybeTruncate l cur).base + truncKeep ≤ cur := by
  unfold maybeTruncate
  split
  · rename_i hc
    simp only [Log.truncateBefore]
    generalize l.lastSegBase = b
    simp only [truncAfter, truncEvery, truncKeep, segmentSize, Facts.truncAfter, Facts.truncEvery,
      Facts.truncKeep, Facts.segmentSize] at hc ⊢
    omega
  · exact Or.inl rfl

theorem exec_append (s : State) (xs ys : List Step) :
    exec s (xs ++ ys) =
      ((exec (exec s xs).1 ys).1, (exec s xs).2 ++ (exec (exec s xs).1 ys).2) := by
  induction xs generalizing s with
  | nil => simp [exec]
  | cons x xs ih => simp [exec, ih]

theorem exec_nil (s : State) : exec s [] = (s, []) := rfl

theorem exec_cons (s : State) (x : Step) (xs : List Step) :
    exec s (x :: xs) = ((exec (step s x).1 xs).1, (step s x).2 :: (exec (step s x).1 xs).2) := rfl

/-- only `deliver` produces an observation -/
theorem step_obs_none (s : State) (x : Step) (hx : x ≠ .deliver) : (step s x).2 = none := by
  cases x <;> simp [step] at hx ⊢ <;> repeat (split <;> try rfl)

/-- `next` only grows -/
theorem step_next_mono (s : State) (x : Step) : s.log.next ≤ (step s x).1.log.next := by
  cases x <;> simp only [step] <;> (repeat' split) <;> simp [maybeTruncate_next]


/-! ### equations of `step`, one per enabledness case -/

theorem step_append (s : State) :
    step s .append = ({ s with log := { s.log with next := s.log.next + 1 } }, none) := rfl

theorem step_crash (s : State) : step s .crash = ({ s with run := none }, none) := rfl

theorem step_start_some {s : State} {r : Run} (h : s.run = some r) : step s .start = (s, none) := by
  simp only [step, h]

theorem step_start_none {s : State} (h : s.run = none) :
    step s .start =
      ({ s with log := maybeTruncate s.log s.st, run := some ⟨s.st, none, false⟩ }, none) := by
  simp only [step, h]

theorem step_norun {s : State} (h : s.run = none) (x : Step)
    (hx : x = .deliver ∨ x = .commit ∨ x = .truncate ∨ x = .stop) : step s x = (s, none) := by
  rcases hx with rfl | rfl | rfl | rfl <;> simp only [step, h]

theorem step_deliver_en {s : State} {r : Run} (h : s.run = some r) (hp : r.pending = none)
    (hn : r.needTrunc = false) (h1 : r.cur < s.log.next) (h2 : s.log.base ≤ r.cur) :
    step s .deliver = ({ s with run := some { r with pending := some r.cur } }, some r.cur) := by
  simp [step, h, hp, hn, h1, h2]

theorem step_deliver_dis {s : State} {r : Run} (h : s.run = some r)
    (hc : ¬ (r.pending = none ∧ r.needTrunc = false ∧ r.cur < s.log.next ∧ s.log.base ≤ r.cur)) :
    step s .deliver = (s, none) := by
  simp only [step, h]
  split
  · rename_i hc'
    simp only [Option.isNone_iff_eq_none, Bool.not_eq_eq_eq_not, Bool.not_true] at hc'
    exact absurd hc' hc
  · rfl

theorem step_commit_en {s : State} {r : Run} {o : Nat} (h : s.run = some r) (hp : r.pending = some o) :
    step s .commit = ({ s with st := o + 1, run := some ⟨o + 1, none, true⟩ }, none) := by
  simp only [step, h, hp]

theorem step_commit_dis {s : State} {r : Run} (h : s.run = some r) (hp : r.pending = none) :
    step s .commit = (s, none) := by
  simp only [step, h, hp]

theorem step_truncate_en {s : State} {r : Run} (h : s.run = some r) (hn : r.needTrunc = true) :
    step s .truncate =
      ({ s with log := maybeTruncate s.log s.st, run := some { r with needTrunc := false } }, none) := by
  simp [step, h, hn]

theorem step_truncate_dis {s : State} {r : Run} (h : s.run = some r) (hn : r.needTrunc = false) :
    step s .truncate = (s, none) := by
  simp [step, h, hn]

theorem step_stop_en {s : State} {r : Run} (h : s.run = some r) (hp : r.pending = none) :
    step s .stop = ({ s with run := none }, none) := by
  simp [step, h, hp]

theorem step_stop_dis {s : State} {r : Run} {o : Nat} (h : s.run = some r) (hp : r.pending = some o) :
    step s .stop = (s, none) := by
  simp [step, h, hp]

end Wasp.MsgLog

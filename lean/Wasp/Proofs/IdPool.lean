import Wasp.Model.IdPool
/-! Helper lemmas for the identifier pool: free-set semantics and the
    structural invariant of the interval list. -/
namespace Wasp.IdPool

/-- `x` is free in the interval list: it lies in some (from, to] -/
def freeIn : List Iv → Int → Prop
  | [], _ => False
  | (f, t) :: rest, x => (f < x ∧ x ≤ t) ∨ freeIn rest x

instance : (l : List Iv) → (x : Int) → Decidable (freeIn l x)
  | [], _ => isFalse (by simp [freeIn])
  | (f, t) :: rest, x =>
    have : Decidable (freeIn rest x) := instDecidableFreeIn rest x
    by unfold freeIn; exact inferInstance

/-- every interval is non-empty and lies in (lo, hi]; the list is sorted and
    consecutive intervals are strictly separated (never touching) -/
def Sep (hi : Int) : Int → List Iv → Prop
  | _, [] => True
  | lo, (f, t) :: rest => lo ≤ f ∧ f < t ∧ t ≤ hi ∧ Sep hi (t + 1) rest

theorem freeIn_bounds {hi lo : Int} {l : List Iv} (h : Sep hi lo l) {x : Int} (hx : freeIn l x) :
    lo < x ∧ x ≤ hi := by
  induction l generalizing lo with
  | nil => exact absurd hx (by simp [freeIn])
  | cons iv rest ih =>
    obtain ⟨f, t⟩ := iv
    simp only [Sep] at h
    simp only [freeIn] at hx
    rcases hx with hx | hx
    · omega
    · have := ih h.2.2.2 hx
      omega

/-- Put on the interval list: keeps the invariant and frees exactly `mid` -/
theorem putIvs_spec (hi : Int) (mid : Int) (l : List Iv) (lo : Int)
    (hs : Sep hi lo l) (hlo : lo < mid) (hhi : mid ≤ hi) :
    Sep hi lo (putIvs mid l) ∧ ∀ x, freeIn (putIvs mid l) x ↔ (freeIn l x ∨ x = mid) := by
  fun_induction putIvs mid l generalizing lo <;> simp only [Sep, freeIn] at * <;> grind [freeIn_bounds]

/-- the pool invariant -/
def Inv (p : Pool) : Prop := Sep p.max (p.min - 1) p.ivs

def Pool.free (p : Pool) (x : Int) : Prop := freeIn p.ivs x

theorem new_inv (min max : Int) (h : min ≤ max) : Inv (new min max) := by
  simp only [Inv, new, Sep]; exact ⟨by omega, by omega, by omega, trivial⟩

theorem new_free (min max x : Int) : (new min max).free x ↔ (min ≤ x ∧ x ≤ max) := by
  simp only [Pool.free, new, freeIn, or_false]; omega

theorem get_min_max (p : Pool) : (get p).1.min = p.min ∧ (get p).1.max = p.max := by
  unfold get; split
  · simp
  · split <;> simp

theorem put_min_max (p : Pool) (m : Int) : (put p m).min = p.min ∧ (put p m).max = p.max := by
  unfold put; split <;> simp

/-- Get on a non-empty pool: the result is free, in range, and exactly it stops being free -/
theorem get_spec (p : Pool) (h : Inv p) (hne : p.ivs ≠ []) :
    Inv (get p).1 ∧ p.free (get p).2 ∧ p.min ≤ (get p).2 ∧ (get p).2 ≤ p.max ∧
    ∀ x, (get p).1.free x ↔ (p.free x ∧ x ≠ (get p).2) := by
  obtain ⟨mn, mx, ivs⟩ := p
  cases ivs with
  | nil => exact absurd rfl hne
  | cons iv rest =>
    obtain ⟨f, t⟩ := iv
    simp only [Inv, Sep] at h
    obtain ⟨h1, h2, h3, h4⟩ := h
    simp only [get]
    split
    · simp only [Inv, Pool.free, freeIn]
      refine ⟨?_, by omega, by omega, by omega, fun x => ?_⟩
      · cases rest with
        | nil => trivial
        | cons iv2 r2 => obtain ⟨f2, t2⟩ := iv2; simp only [Sep] at *; grind
      · have := fun (hx : freeIn rest x) => freeIn_bounds h4 hx
        grind
    · simp only [Inv, Pool.free, freeIn, Sep]
      refine ⟨⟨by omega, by omega, by omega, h4⟩, by omega, by omega, by omega, fun x => ?_⟩
      have := fun (hx : freeIn rest x) => freeIn_bounds h4 hx
      grind

/-- Get on an exhausted pool reports -1 and changes nothing -/
theorem get_empty (p : Pool) (h : p.ivs = []) : get p = (p, -1) := by
  unfold get; rw [h]

theorem free_of_ne_nil (p : Pool) (h : Inv p) (hne : p.ivs ≠ []) : ∃ x, p.free x := by
  obtain ⟨mn, mx, ivs⟩ := p
  cases ivs with
  | nil => exact absurd rfl hne
  | cons iv rest =>
    obtain ⟨f, t⟩ := iv
    simp only [Inv, Sep] at h
    exact ⟨t, by simp only [Pool.free, freeIn]; omega⟩

/-- Put: keeps the invariant; frees `mid` when it is in range, nothing else changes -/
theorem put_spec (p : Pool) (h : Inv p) (mid : Int) :
    Inv (put p mid) ∧
    ∀ x, (put p mid).free x ↔ (p.free x ∨ (x = mid ∧ p.min ≤ mid ∧ mid ≤ p.max)) := by
  unfold put
  split
  · refine ⟨h, fun x => ?_⟩
    constructor
    · intro hx; left; exact hx
    · rintro (hx | hx)
      · exact hx
      · omega
  · have := putIvs_spec p.max mid p.ivs (p.min - 1) h (by omega) (by omega)
    refine ⟨this.1, fun x => ?_⟩
    simp only [Pool.free]
    rw [this.2 x]
    constructor
    · rintro (hx | hx)
      · left; exact hx
      · right; omega
    · rintro (hx | hx)
      · left; exact hx
      · right; omega

theorem free_in_range (p : Pool) (h : Inv p) {x : Int} (hx : p.free x) : p.min ≤ x ∧ x ≤ p.max := by
  have := freeIn_bounds h hx; omega

end Wasp.IdPool

import Wasp.Model.BrokerOps
import Wasp.Proofs.BrokerT5
import Wasp.Proofs.BrokerT6
/-! helper lemmas for Wasp/Properties/Reachable2.lean (agent T7) -/

namespace Wasp.Broker
open Wasp.Dist

/-- `GlobalInv` plus the facts about peers. The first four fields are the ones the corollaries use; `pendPeers`
    (gossip not yet delivered only carries subscriptions naming a peer of the cluster) makes it inductive, as
    `GlobalInv.pendClock` does for the stamps. -/
structure GlobalInv2 (w : World) : Prop where
  base : GlobalInv w
  peers : ∀ k, k < w.nodes.length → (w.node k).peer = k + 1
  distPeer : ∀ k, k < w.nodes.length → (w.node k).dist.peer = (w.node k).peer
  subPeers : ∀ k, ∀ kl ∈ (w.node k).dist.subs, ∀ u ∈ kl.2, 1 ≤ u.peer ∧ u.peer ≤ w.nodes.length
  pendPeers : ∀ k, ∀ e ∈ (w.node k).pending, ∀ u ∈ e.2.subs, 1 ≤ u.peer ∧ u.peer ≤ w.nodes.length

end Wasp.Broker

namespace Wasp.Broker.AgentT7
open Wasp.Broker Wasp.Dist Wasp.Topic Wasp.Wire Wasp.Broker.AgentD

/-! ### subscription stores -/

/-- every subscription of the list names a peer in 1..N -/
def Bnd (N : Nat) (l : List Sub) : Prop := ∀ u ∈ l, 1 ≤ u.peer ∧ u.peer ≤ N

def SubsBnd (N : Nat) (m : List (String × List Sub)) : Prop := ∀ kl ∈ m, Bnd N kl.2

theorem bnd_nil (N : Nat) : Bnd N [] := fun _ h => by cases h

theorem subsSet_bnd {N : Nat} (s : Sub) (m : List (String × List Sub)) (hm : SubsBnd N m)
    (hs : 1 ≤ s.peer ∧ s.peer ≤ N) : SubsBnd N (subsSet s m) :=
  subsSet_forall (fun _ x => 1 ≤ x.peer ∧ x.peer ≤ N) s m hm hs

theorem foldl_subsSet_bnd {N : Nat} (vs : List Sub) (m : List (String × List Sub)) (hm : SubsBnd N m)
    (hv : Bnd N vs) : SubsBnd N (vs.foldl (fun acc s => subsSet s acc) m) :=
  foldl_subsSet_forall (fun _ x => 1 ≤ x.peer ∧ x.peer ≤ N) vs m hm hv

theorem mergeSubs_bnd {N : Nat} (vs : List Sub) (m : List (String × List Sub)) (hm : SubsBnd N m)
    (hv : Bnd N vs) : SubsBnd N (mergeSubs vs m) := by
  induction vs generalizing m with
  | nil => exact hm
  | cons v rest ih =>
    simp only [mergeSubs]
    split
    · exact hm
    · exact ih _ (subsSet_bnd v m hm (hv v (by simp))) (fun u hu => hv u (by simp [hu]))

/-- the store's own peer is a peer of the cluster -/
def PeerOK (N : Nat) (d : State) : Prop := 1 ≤ d.peer ∧ d.peer ≤ N

/-- a write to the replicated state: the peer stays, the subscriptions keep naming peers of the cluster -/
structure DStep (N : Nat) (d d' : State) : Prop where
  peer : d'.peer = d.peer
  subs : PeerOK N d → SubsBnd N d.subs → SubsBnd N d'.subs

/-- the broadcast a write queues -/
def EvOK (N : Nat) (d : State) (ev : Event) : Prop := PeerOK N d → SubsBnd N d.subs → Bnd N ev.subs

theorem DStep.refl (N : Nat) (d : State) : DStep N d d := ⟨rfl, fun _ h => h⟩

theorem DStep.of_eq {N : Nat} {d d' : State} (hp : d'.peer = d.peer) (hs : d'.subs = d.subs) : DStep N d d' :=
  ⟨hp, fun _ h => by rw [hs]; exact h⟩

theorem DStep.trans {N : Nat} {a b c : State} (h1 : DStep N a b) (h2 : DStep N b c) : DStep N a c :=
  ⟨h2.peer.trans h1.peer, fun hp hs => h2.subs (by unfold PeerOK; rw [h1.peer]; exact hp) (h1.subs hp hs)⟩

theorem evOK_nil {N : Nat} {d : State} {ev : Event} (h : ev.subs = []) : EvOK N d ev := by
  intro _ _; rw [h]; exact bnd_nil N

theorem merge_dstep {N : Nat} (d : State) (ev : Event) (he : Bnd N ev.subs) : DStep N d (merge d ev) :=
  ⟨rfl, fun _ hs => mergeSubs_bnd ev.subs d.subs hs he⟩

theorem foldl_merge_dstep {N : Nat} (evs : List Event) (d : State) (he : ∀ ev ∈ evs, Bnd N ev.subs) :
    DStep N d (evs.foldl merge d) := by
  induction evs generalizing d with
  | nil => exact DStep.refl N d
  | cons ev rest ih =>
    simp only [List.foldl_cons]
    exact (merge_dstep d ev (he ev (by simp))).trans (ih _ (fun e hm => he e (by simp [hm])))

theorem subCreate_dstep {N : Nat} (st : State) (now : Int) (sid pat : String) (qos : Int) :
    DStep N st (Wasp.Dist.subCreate st now sid pat qos).1 ∧ EvOK N st (Wasp.Dist.subCreate st now sid pat qos).2 := by
  refine ⟨⟨rfl, fun hp hs => subsSet_bnd _ _ hs hp⟩, fun hp _ u hu => ?_⟩
  simp only [Wasp.Dist.subCreate, List.mem_singleton] at hu
  subst hu; exact hp

theorem subDelete_dstep {N : Nat} (st : State) (now : Int) (sid pat : String) :
    DStep N st (Wasp.Dist.subDelete st now sid pat).1 ∧ EvOK N st (Wasp.Dist.subDelete st now sid pat).2 := by
  refine ⟨⟨rfl, fun hp hs => subsSet_bnd _ _ hs hp⟩, fun hp _ u hu => ?_⟩
  simp only [Wasp.Dist.subDelete, List.mem_singleton] at hu
  subst hu; exact hp

theorem subBulkDelete_dstep {N : Nat} (st : State) (now : Int) (f : Sub → Bool) :
    DStep N st (subBulkDelete st now f).1 ∧ EvOK N st (subBulkDelete st now f).2 := by
  have ho : SubsBnd N st.subs → Bnd N ((subFilter st f).map (fun s => { s with deleted := now })) := by
    intro hm u hu
    simp only [List.mem_map, subFilter, List.mem_flatMap, List.mem_filter] at hu
    obtain ⟨x, ⟨kl, hkl, hx, _⟩, rfl⟩ := hu
    exact hm kl hkl x hx
  exact ⟨⟨rfl, fun _ hs => foldl_subsSet_bnd _ _ hs (ho hs)⟩, fun _ hs => ho hs⟩

theorem sessDelete_peer (st : State) (now : Int) (id : String) : (Wasp.Dist.sessDelete st now id).1.peer = st.peer := by
  unfold Wasp.Dist.sessDelete
  split
  · rfl
  · split <;> rfl

theorem sessCreate_peer (st : State) (now : Int) (id client : String) (ca : Int) (lwt : Option Will) (mount : String) :
    (sessCreate st now id client ca lwt mount).1.peer = st.peer := by
  unfold sessCreate
  split
  · split <;> rfl
  · rfl

theorem topic_peer (st : State) (now : Int) (p : Pub) :
    (if p.payload = "" then topicDelete st now p.topic else topicSet st now p.topic p.payload p.qos true p.dup).1.peer = st.peer := by
  split <;> rfl

/-! ### the invariant, relative to the number of nodes -/

/-- node i of a cluster of N nodes -/
structure PN (N i : Nat) (n : Node) : Prop where
  peer : n.peer = i + 1
  distPeer : n.dist.peer = i + 1
  subs : SubsBnd N n.dist.subs
  pend : ∀ e ∈ n.pending, Bnd N e.2.subs

structure PInv (N : Nat) (w : World) : Prop where
  len : w.nodes.length = N
  node : ∀ i, i < N → PN N i (w.node i)

theorem PN.peerOK {N i : Nat} {n : Node} (h : PN N i n) (hi : i < N) : PeerOK N n.dist := by
  unfold PeerOK; rw [h.distPeer]; omega

theorem pinv_frame {N : Nat} {w w' : World} (h : PInv N w) (hn : w'.nodes = w.nodes) : PInv N w' :=
  ⟨by rw [hn]; exact h.len, fun i hi => by rw [node_congr hn]; exact h.node i hi⟩

theorem pinv_emit {N : Nat} {w : World} (h : PInv N w) (c : String) (p : Pkt) : PInv N (w.emit c p) := pinv_frame h rfl

theorem pinv_tick {N : Nat} {w : World} (h : PInv N w) : PInv N w.tick.1 := pinv_frame h rfl

theorem pinv_setNode {N : Nat} {w : World} (h : PInv N w) (i : Nat) (n' : Node) (hn : i < N → PN N i n') :
    PInv N (w.setNode i n') := by
  refine ⟨by rw [setNode_length]; exact h.len, fun j hj => ?_⟩
  rw [node_setNode]
  split
  · rename_i hc
    rw [hc.1]
    exact hn (hc.1 ▸ hj)
  · exact h.node j hj

/-- the peer, the replicated state and the pending gossip of the node are untouched -/
theorem pinv_setNode_same {N : Nat} {w : World} (h : PInv N w) (i : Nat) (n' : Node)
    (hp : n'.peer = (w.node i).peer := by rfl) (hd : n'.dist = (w.node i).dist := by rfl)
    (hq : n'.pending = (w.node i).pending := by rfl) : PInv N (w.setNode i n') := by
  refine pinv_setNode h i n' (fun hi => ?_)
  have hn := h.node i hi
  exact ⟨by rw [hp]; exact hn.peer, by rw [hd]; exact hn.distPeer, by rw [hd]; exact hn.subs, by rw [hq]; exact hn.pend⟩

theorem pinv_setDist {N : Nat} {w : World} (h : PInv N w) (i : Nat) (d : State) (hd : DStep N (w.node i).dist d) :
    PInv N (w.setNode i { w.node i with dist := d }) := by
  refine pinv_setNode h i _ (fun hi => ?_)
  have hn := h.node i hi
  exact ⟨hn.peer, hd.peer.trans hn.distPeer, hd.subs (hn.peerOK hi) hn.subs, hn.pend⟩

theorem pinv_setPending {N : Nat} {w : World} (h : PInv N w) (i : Nat) (p : List (Nat × Event))
    (hp : ∀ e ∈ p, e ∈ (w.node i).pending) : PInv N (w.setNode i { w.node i with pending := p }) := by
  refine pinv_setNode h i _ (fun hi => ?_)
  have hn := h.node i hi
  exact ⟨hn.peer, hn.distPeer, hn.subs, fun e he => hn.pend e (hp e he)⟩

theorem pinv_broadcast {N : Nat} {w : World} (h : PInv N w) (i : Nat) (ev : Event) (he : i < N → Bnd N ev.subs) :
    PInv N (w.broadcast i ev) := by
  unfold World.broadcast
  refine pinv_setNode h i _ (fun hi => ?_)
  have hn := h.node i hi
  refine ⟨hn.peer, hn.distPeer, hn.subs, ?_⟩
  intro e hme
  simp only [List.mem_append, List.mem_map] at hme
  rcases hme with hme | ⟨j, _, rfl⟩
  · exact hn.pend e hme
  · exact he hi

/-- tick, write the replicated state, queue the broadcast -/
theorem pinv_distWrite {N : Nat} {w : World} (h : PInv N w) (i : Nat) (d : State) (ev : Event)
    (hd : DStep N (w.node i).dist d) (he : EvOK N (w.node i).dist ev) :
    PInv N ((w.tick.1.setNode i { w.tick.1.node i with dist := d }).broadcast i ev) :=
  pinv_broadcast (pinv_setDist (pinv_tick h) i d hd) i ev
    (fun hi => he ((h.node i hi).peerOK hi) (h.node i hi).subs)

theorem pinv_setSess {N : Nat} {w : World} (h : PInv N w) (i : Nat) (s' : Sess) :
    PInv N (w.setNode i ((w.node i).setSess s')) := pinv_setNode_same h i _

/-! ### writer, publish pipeline, packets -/

theorem pinv_extendDeadline {N : Nat} {w : World} (h : PInv N w) (i : Nat) (sid : String) :
    PInv N (w.extendDeadline i sid) := by
  unfold World.extendDeadline
  simp only []
  split
  · exact pinv_setSess h i _
  · exact h

theorem pinv_subCreate {N : Nat} {w : World} (h : PInv N w) (i : Nat) (sid pat : String) (qos : Int) :
    PInv N (w.subCreate i sid pat qos) := by
  have hs := subCreate_dstep (N := N) (w.node i).dist w.clock sid pat qos
  exact pinv_distWrite h i _ _ hs.1 hs.2

theorem pinv_subDelete {N : Nat} {w : World} (h : PInv N w) (i : Nat) (sid pat : String) :
    PInv N (w.subDelete i sid pat) := by
  have hs := subDelete_dstep (N := N) (w.node i).dist w.clock sid pat
  exact pinv_distWrite h i _ _ hs.1 hs.2

theorem pinv_sessDelete {N : Nat} {w : World} (h : PInv N w) (i : Nat) (sid : String) : PInv N (w.sessDelete i sid) := by
  unfold World.sessDelete
  simp only []
  have h1 : PInv N (w.tick.1.setNode i { w.tick.1.node i with dist := (Wasp.Dist.sessDelete (w.tick.1.node i).dist w.tick.2 sid).1 }) :=
    pinv_setDist (pinv_tick h) i _ (DStep.of_eq (sessDelete_peer _ _ _) (AgentT5.sessDelete_subs _ _ _))
  split
  · rename_i e he
    refine pinv_broadcast h1 i e (fun _ => ?_)
    rw [AgentT5.sessDelete_ev _ _ _ e he]
    exact bnd_nil _
  · exact h1

theorem pinv_poolPut {N : Nat} {w : World} (h : PInv N w) (i : Nat) (mid : Int) : PInv N (w.poolPut i mid) := by
  unfold World.poolPut
  exact pinv_setNode_same h i _ rfl rfl rfl

theorem pinv_armAndSend {N : Nat} {w : World} (h : PInv N w) (i : Nat) (st : Stored) : PInv N (w.armAndSend i st) := by
  unfold World.armAndSend
  cases st with
  | out1 sid topic payload retain dup mid =>
    simp only []
    split
    · exact h
    · split
      · exact pinv_emit (pinv_setNode_same (pinv_extendDeadline h i sid) i _) _ _
      · exact pinv_extendDeadline h i sid
  | out2 sid topic payload retain dup mid =>
    simp only []
    split
    · exact h
    · split
      · exact pinv_emit (pinv_setNode_same (pinv_extendDeadline h i sid) i _) _ _
      · exact pinv_extendDeadline h i sid
  | rel sid mid =>
    simp only []
    split
    · exact h
    · refine pinv_emit (pinv_setNode_same (pinv_extendDeadline h i sid) i _ ?_ ?_ ?_) _ _ <;> split <;> rfl
  | inbound a b c d => exact h

theorem pinv_sendArmed {N : Nat} {w : World} (h : PInv N w) (i : Nat) (st : Stored) (sid : String) (mid : Int) :
    PInv N (w.sendArmed i st sid mid) := by
  unfold World.sendArmed
  simp only []
  split
  · exact pinv_poolPut (pinv_armAndSend h i st) i mid
  · exact pinv_armAndSend h i st

theorem pinv_send {N : Nat} (i : Nat) (p : Pub) (rcpt : List (String × Int)) :
    ∀ w : World, PInv N w → PInv N (w.send i rcpt p) := by
  induction rcpt with
  | nil => intro w h; exact h
  | cons hd rest ih =>
    intro w h
    obtain ⟨sid, qos⟩ := hd
    unfold World.send
    simp only []
    split
    · exact ih w h
    · split
      · exact ih _ (pinv_emit (pinv_extendDeadline h i sid) _ _)
      · split
        · split
          · exact h
          · exact ih _ (pinv_sendArmed (pinv_setNode_same h i _) i _ sid _)
        · exact ih w h

theorem pinv_onResolved {N : Nat} {w : World} (h : PInv N w) (i : Nat) (ev : Ack.Resolved) (st : Stored) :
    PInv N (w.onResolved i ev st) := by
  unfold World.onResolved
  cases st <;> simp only <;> repeat' split
  all_goals first | exact pinv_armAndSend h _ _ | exact pinv_poolPut h _ _ | exact h

theorem pinv_deliverLocal {N : Nat} {w : World} (h : PInv N w) (j : Nat) (p : Pub) : PInv N (w.deliverLocal j p) := by
  unfold World.deliverLocal
  exact pinv_send _ _ _ _ h

theorem appendLog_peer (n : Node) (p : Pub) : (n.appendLog p).1.peer = n.peer := by
  unfold Node.appendLog
  simp only []
  split <;> rfl

theorem pinv_appendLog {N : Nat} {w : World} (h : PInv N w) (j : Nat) (p : Pub) :
    PInv N (w.setNode j ((w.node j).appendLog p).1) := by
  have := AgentT5.appendLog_same (w.node j) p
  exact pinv_setNode_same h j _ (appendLog_peer _ _) this.2.1 this.2.2

theorem pinv_distribute {N : Nat} {w : World} (h : PInv N w) (i : Nat) (p : Pub) : PInv N (w.distribute i p).1 := by
  unfold World.distribute
  simp only
  apply foldl_inv (P := fun (acc : World × Bool) => PInv N acc.1)
  · exact h
  · intro acc peer _ hacc
    split
    · exact hacc
    · split
      · exact hacc
      · split
        · exact pinv_deliverLocal (pinv_appendLog hacc _ _) _ _
        · exact pinv_appendLog hacc _ _

theorem pinv_retainStep {N : Nat} {w : World} (h : PInv N w) (i : Nat) (p : Pub) : PInv N (retainStep w i p) := by
  unfold retainStep
  split
  · have ht := AgentT5.topic_step (w.node i).dist w.clock p
    exact pinv_distWrite h i _ _ (DStep.of_eq (topic_peer _ _ _) ht.1) (evOK_nil ht.2)
  · exact h

theorem pinv_publishJob {N : Nat} {w : World} (h : PInv N w) (i : Nat) (p : Pub) (onOk : World → World)
    (hok : ∀ w, PInv N w → PInv N (onOk w)) : PInv N (w.publishJob i p onOk) := by
  rw [publishJob_eq]
  have h1 := pinv_distribute (pinv_retainStep h i p) i { p with retain := false }
  split
  · exact hok _ h1
  · exact h1

theorem pinv_ackFrom {N : Nat} {w : World} (h : PInv N w) (i : Nat) (pfx : String) (kind : Ack.PType) (mid : Int) :
    PInv N (w.ackFrom i pfx kind mid) := by
  unfold World.ackFrom
  simp only
  refine foldl_inv (PInv N) _ _ _ (pinv_setNode_same h i _) ?_
  intro b ev _ hb
  split
  · exact hb
  · rename_i st _
    have hb1 := pinv_setNode_same hb i { b.node i with stored := storedErase ev.key (b.node i).stored } rfl rfl rfl
    cases st with
    | inbound a conn pub imid => exact pinv_publishJob hb1 _ _ _ (fun w hw => pinv_emit hw _ _)
    | out1 a b c d e f => exact pinv_onResolved hb1 _ _ _
    | out2 a b c d e f => exact pinv_onResolved hb1 _ _ _
    | rel a b => exact pinv_onResolved hb1 _ _ _

theorem pinv_sweep {N : Nat} {w : World} (h : PInv N w) (i : Nat) : PInv N (w.sweep i) := by
  unfold World.sweep
  simp only
  have h0 : PInv N ({ w with epoch := w.epoch + 1 } : World) := pinv_frame h rfl
  refine foldl_inv (PInv N) _ _ _ (pinv_setNode_same h0 i _) ?_
  intro b ev _ hb
  split
  · exact hb
  · exact pinv_onResolved (pinv_setNode_same hb i _) _ _ _

theorem pinv_process {N : Nat} {w : World} (h : PInv N w) (i : Nat) (sid : String) (pkt : CPkt) :
    PInv N (w.process i sid pkt).1 := by
  unfold World.process
  simp only []
  split
  · exact h
  · rename_i s hs
    cases pkt with
    | connect => exact h
    | publish topic payload qos retain dup mid =>
      simp only []
      split
      · exact pinv_publishJob h _ _ _ (fun _ h => h)
      · split
        · exact pinv_publishJob h _ _ _ (fun w h => pinv_emit h _ _)
        · split
          · split
            · exact pinv_emit (pinv_setNode_same h i _) _ _
            · exact h
          · exact h
    | subscribe mid topics =>
      simp only []
      refine foldl_inv (PInv N) _ _ _ ?_ ?_
      · apply pinv_emit
        refine foldl_inv (PInv N) _ _ _ h ?_
        intro b a _ hb
        have hb1 := pinv_subCreate hb i sid a.1 a.2
        split
        · split
          · exact hb1
          · exact pinv_setSess hb1 i _
        · exact hb1
      · intro b a _ hb
        refine foldl_inv (PInv N) _ _ _ hb ?_
        intro b' r _ hb'
        exact pinv_send _ _ _ _ hb'
    | unsubscribe mid topics =>
      simp only []
      apply pinv_emit
      refine foldl_inv (PInv N) _ _ _ h ?_
      intro b a _ hb
      have hb1 := pinv_subDelete hb i sid (prefixMountPoint s.mount a)
      split
      · exact pinv_setSess hb1 i _
      · exact hb1
    | puback mid => exact pinv_ackFrom h _ _ _ _
    | pubrec mid => exact pinv_ackFrom h _ _ _ _
    | pubrel mid => exact pinv_ackFrom h _ _ _ _
    | pubcomp mid => exact pinv_ackFrom h _ _ _ _
    | pingreq =>
      simp only
      split
      · split
        · exact pinv_emit h _ _
        · exact h
      · exact h
      · split
        · exact pinv_emit h _ _
        · exact h
    | disconnect => exact h
    | other => exact h

/-! ### session end, connections -/

theorem pinv_tdBase {N : Nat} {w : World} (h : PInv N w) (i : Nat) (s : Sess) : PInv N (tdBase w i s) := by
  unfold tdBase
  simp only
  refine foldl_inv (PInv N) _ _ _ ?_ (fun b a _ hb => pinv_subDelete hb i s.id a)
  have h1 : PInv N (w.setNode i { w.node i with reg := (w.node i).reg.filter (fun x => x.id != s.id) }) :=
    pinv_setNode_same h i _
  exact pinv_frame h1 rfl

theorem pinv_teardown {N : Nat} {w : World} (h : PInv N w) (i : Nat) (s : Sess) : PInv N (teardown w i s).1 := by
  rw [teardown_eq]
  have hb := pinv_tdBase h i s
  split
  · exact pinv_sessDelete hb _ _
  · exact hb

theorem pinv_shutdown {N : Nat} {w : World} (h : PInv N w) (i : Nat) (sid : String) :
    PInv N (w.shutdownSession i sid) := by
  cases hs : (w.node i).sess sid with
  | none => unfold World.shutdownSession; simp only [hs]; exact h
  | some s =>
    rw [shutdown_eq w i sid s hs]
    have ht := pinv_teardown h i s
    split
    · exact ht
    · split
      · exact ht
      · split
        · exact ht
        · exact pinv_publishJob ht _ _ _ (fun _ h => h)

theorem pinv_clientPacket {N : Nat} {w : World} (h : PInv N w) (conn : String) (pkt : CPkt) :
    PInv N (w.clientPacket conn pkt) := by
  unfold World.clientPacket
  split
  · exact h
  · rename_i c i hc
    simp only []
    split
    · exact h
    · have hp := pinv_process h i ("S" ++ conn) pkt
      generalize w.process i ("S" ++ conn) pkt = r at hp
      obtain ⟨w', res⟩ := r
      simp only at hp ⊢
      cases res with
      | ok => exact pinv_extendDeadline hp _ _
      | disconnected =>
        simp only []
        apply pinv_shutdown
        split
        · exact pinv_setSess hp i _
        · exact hp
      | error => exact pinv_shutdown hp _ _

theorem pinv_connPre {N : Nat} {w : World} (h : PInv N w) (c : String) (i : Nat) (client mount : String) :
    PInv N (connPre w c i client mount) := by
  unfold connPre
  simp only
  have h0 : PInv N ({ w with conns := (w.conns.filter (fun (c' : String × Nat) => c'.1 != c)) ++ [(c, i)] } : World) :=
    pinv_frame h rfl
  split
  · exact pinv_sessDelete h0 _ _
  · exact h0

theorem pinv_connMid {N : Nat} {w : World} (h : PInv N w) (c : String) (i : Nat) (client mount : String)
    (will : Option Will) : PInv N (connMid w c i client mount will) := by
  unfold connMid
  simp only
  have h1 : PInv N (connPre w c i client mount).tick.1 := pinv_tick (pinv_connPre h c i client mount)
  have h2 := pinv_setDist h1 i (sessCreate ((connPre w c i client mount).tick.1.node i).dist (connPre w c i client mount).clock
      ("S" ++ c) client 0 will mount).1 (DStep.of_eq (sessCreate_peer _ _ _ _ _ _ _) (AgentT5.sessCreate_subs _ _ _ _ _ _ _))
  split
  · rename_i e he
    refine pinv_broadcast h2 i e (fun _ => ?_)
    rw [AgentT5.sessCreate_ev _ _ _ _ _ _ _ e he]
    exact bnd_nil _
  · exact h2

theorem pinv_connect {N : Nat} {w : World} (h : PInv N w) (c : String) (i : Nat) (client mount : String) (authOk : Bool)
    (keepalive : Nat) (will : Option Will) : PInv N (w.connect c i client mount authOk keepalive will) := by
  cases authOk with
  | false =>
    unfold World.connect
    simp only [Bool.not_false, if_true]
    exact pinv_frame h rfl
  | true =>
    rw [connect_eq]
    split
    · exact pinv_emit (pinv_tick (pinv_connPre h c i client mount)) _ _
    · simp only
      apply pinv_emit
      exact pinv_setNode_same (pinv_connMid h c i client mount will) i _

theorem pinv_drop {N : Nat} {w : World} (h : PInv N w) (c : String) : PInv N (w.drop c) := by
  unfold World.drop
  split
  · exact h
  · simp only []
    have h0 : PInv N ({ w with conns := w.conns.filter (fun e => e.1 != c) } : World) := pinv_frame h rfl
    split
    · exact pinv_shutdown h0 _ _
    · exact pinv_emit h0 _ _

/-! ### gossip, node failure, time -/

theorem pinv_mergeInto {N : Nat} {w : World} (h : PInv N w) (t : Nat) (evs : List Event)
    (he : ∀ ev ∈ evs, Bnd N ev.subs) :
    PInv N (w.setNode t { w.node t with dist := evs.foldl merge (w.node t).dist }) :=
  pinv_setDist h t _ (foldl_merge_dstep evs _ he)

/-- what is pending anywhere names peers of the cluster (also beyond the last node: nothing is pending there) -/
theorem pinv_pend {N : Nat} {w : World} (h : PInv N w) (k : Nat) : ∀ e ∈ (w.node k).pending, Bnd N e.2.subs := by
  by_cases hk : k < N
  · exact (h.node k hk).pend
  · intro e he
    rw [node_oob w k (by rw [h.len]; omega)] at he
    cases he

theorem pinv_subs {N : Nat} {w : World} (h : PInv N w) (k : Nat) : SubsBnd N (w.node k).dist.subs := by
  by_cases hk : k < N
  · exact (h.node k hk).subs
  · intro e he
    rw [node_oob w k (by rw [h.len]; omega)] at he
    cases he

theorem pinv_deliverGossip {N : Nat} {w : World} (h : PInv N w) (src dst : Nat) : PInv N (w.deliverGossip src dst) := by
  unfold World.deliverGossip
  simp only []
  have h1 : PInv N (w.setNode src { w.node src with pending := (w.node src).pending.filter (fun e => e.1 != dst) }) :=
    pinv_setPending h src _ (fun e he => (List.mem_filter.mp he).1)
  split
  · exact h1
  · refine pinv_mergeInto h1 dst _ ?_
    intro ev hev
    obtain ⟨e, he, rfl⟩ := List.mem_map.mp hev
    exact pinv_pend h src e (List.mem_filter.mp he).1

theorem pinv_gossipRound {N : Nat} {w : World} (h : PInv N w) : PInv N w.gossipRound := by
  unfold World.gossipRound
  simp only []
  refine foldl_inv (PInv N) _ _ _ h ?_
  intro b a _ hb
  refine foldl_inv (PInv N) _ _ _ hb ?_
  intro b' a' _ hb'
  split
  · exact pinv_deliverGossip hb' _ _
  · exact hb'

theorem pinv_gossipAll {N : Nat} {w : World} (h : PInv N w) : PInv N w.gossipAll := by
  unfold World.gossipAll
  exact foldl_inv (PInv N) _ _ _ h (fun b _ _ hb => pinv_gossipRound hb)

theorem pinv_leavePrefix {N : Nat} {w : World} (h : PInv N w) (i : Nat) (peer : Nat) :
    PInv N (AgentA.leavePrefix w i peer) := by
  unfold AgentA.leavePrefix
  have hs := subBulkDelete_dstep (N := N) (w.node i).dist w.clock (fun s => s.peer == peer)
  exact pinv_distWrite h i _ _ hs.1 hs.2

theorem pinv_leaveStep {N : Nat} {w : World} (h : PInv N w) (i : Nat) (s : SessionMD) :
    PInv N (AgentA.leaveStep i w s) := by
  unfold AgentA.leaveStep
  split
  · exact h
  · simp only []
    split
    · exact pinv_deliverLocal (pinv_appendLog h _ _) _ _
    · exact pinv_appendLog h _ _

theorem pinv_notifyLeave {N : Nat} {w : World} (h : PInv N w) (i : Nat) (peer : Nat) : PInv N (w.notifyLeave i peer) := by
  rw [AgentA.notifyLeave_eq]
  simp only
  refine pinv_setNode_same ?_ i _
  exact foldl_inv (PInv N) _ _ _ (pinv_leavePrefix h i peer) (fun b a _ hb => pinv_leaveStep hb i a)

theorem pinv_nodeFail {N : Nat} {w : World} (h : PInv N w) (f : Nat) : PInv N (w.nodeFail f) := by
  unfold World.nodeFail
  simp only []
  refine foldl_inv (PInv N) _ _ _ ?_ ?_
  · refine foldl_inv (PInv N) _ _ _ ?_ (fun b a _ hb => pinv_emit hb _ _)
    have h1 : PInv N (w.setNode f { w.node f with failed := true, reg := [], pending := [] }) := by
      refine pinv_setNode h f _ (fun hf => ?_)
      have hn := h.node f hf
      exact ⟨hn.peer, hn.distPeer, hn.subs, fun e he => by cases he⟩
    exact pinv_frame h1 rfl
  · intro b a _ hb
    split
    · exact pinv_notifyLeave hb _ _
    · exact hb

theorem pinv_idleTimers {N : Nat} {w : World} (h : PInv N w) (i : Nat) : PInv N (idleTimers w i) := by
  unfold idleTimers
  simp only []
  refine foldl_inv (PInv N) _ _ _ (pinv_setNode_same h i _) ?_
  intro b a _ hb
  exact pinv_distWrite hb i (sessDeletePeer (b.node i).dist b.clock a.2).1 (sessDeletePeer (b.node i).dist b.clock a.2).2
    (DStep.of_eq rfl rfl) (evOK_nil rfl)

theorem pinv_idleNode {N : Nat} {w : World} (h : PInv N w) (i : Nat) : PInv N (idleNode w i) := by
  unfold idleNode
  split
  · exact h
  · refine foldl_inv (PInv N) _ _ _ (pinv_idleTimers h i) ?_
    intro b a _ hb
    split
    · split
      · exact pinv_shutdown hb _ _
      · exact hb
    · exact hb

theorem pinv_idle {N : Nat} {w : World} (h : PInv N w) (ms : Int) : PInv N (w.idle ms) := by
  rw [idle_eq]
  refine foldl_inv (PInv N) _ _ _ (pinv_frame (w := w) h rfl) ?_
  intro b a _ hb
  exact pinv_idleNode hb a

/-! ### the byte-level path (Wasp/Model/Wire.lean) -/

theorem pinv_setBuf {N : Nat} {w : World} (h : PInv N w) (c : String) (b : Wire.Bytes) : PInv N (setBuf w c b) :=
  pinv_frame h rfl

theorem pinv_failConn {N : Nat} {w : World} (h : PInv N w) (c : String) : PInv N (failConn w c) := by
  unfold failConn
  split
  · exact h
  · split
    · exact pinv_shutdown h _ _
    · exact pinv_frame h rfl

theorem pinv_applyDecoded {N : Nat} {w : World} (h : PInv N w) (c : String) (r : DRes) : PInv N (applyDecoded w c r) := by
  unfold applyDecoded
  split
  · exact h
  · split
    · cases r with
      | pkt p => exact pinv_clientPacket h _ _
      | connect a b c d e => exact pinv_clientPacket h _ _
      | err => exact pinv_failConn h _
      | panic => exact pinv_failConn h _
    · cases r with
      | connect client user pass ka will =>
        simp only []
        split
        · exact pinv_connect h _ _ _ _ _ _ _
        · exact pinv_connect h _ _ _ _ _ _ _
      | pkt p => exact pinv_failConn h _
      | err => exact pinv_failConn h _
      | panic => exact pinv_failConn h _

theorem pinv_pump {N : Nat} (c : String) (fuel : Nat) : ∀ w : World, PInv N w → PInv N (pump fuel w c).1 := by
  induction fuel with
  | zero => intro w h; exact h
  | succ fuel ih =>
    intro w h
    unfold pump
    split
    · exact pinv_setBuf h _ _
    · split
      · exact pinv_setBuf h _ _
      · split
        · exact h
        · exact pinv_failConn (pinv_setBuf h _ _) _
        · exact ih _ (pinv_applyDecoded (pinv_setBuf h _ _) _ _)

theorem pinv_rawBytes {N : Nat} {w : World} (h : PInv N w) (c : String) (b : Wire.Bytes) : PInv N (rawBytes w c b).1 := by
  unfold rawBytes
  split
  · exact h
  · exact pinv_pump c _ _ (pinv_setBuf h _ _)

theorem pinv_closeFin {N : Nat} {w : World} (h : PInv N w) (c : String) : PInv N (AgentT1.closeFin w c) := by
  unfold AgentT1.closeFin
  split
  · split
    · exact pinv_drop h c
    · exact pinv_frame h rfl
  · exact pinv_emit h _ _

theorem pinv_closeRaw {N : Nat} {w : World} (h : PInv N w) (c : String) : PInv N (closeFromClientRaw w c) := by
  rw [AgentT1.closeRaw_eq]
  apply pinv_closeFin
  split
  · exact pinv_setBuf h _ _
  · split
    · exact pinv_applyDecoded (pinv_setBuf h _ _) _ _
    · exact pinv_setBuf h _ _

theorem pinv_closeFromClient {N : Nat} {w : World} (h : PInv N w) (c : String) : PInv N (closeFromClient w c) := by
  unfold closeFromClient
  exact pinv_frame (pinv_closeRaw h c) rfl

theorem pinv_openConn {N : Nat} {w : World} (h : PInv N w) (c : String) (i : Nat) : PInv N (openConn w c i) :=
  pinv_frame h rfl

theorem pinv_hsStep {N : Nat} {w : World} (h : PInv N w) (e : String × Int) : PInv N (AgentT1.hsStep w e) := by
  unfold AgentT1.hsStep
  split
  · exact pinv_closeRaw (pinv_frame (w' := { w with hs := w.hs.filter (fun x => x.1 != e.1) }) h rfl) _
  · exact h

theorem pinv_expireHandshakes {N : Nat} {w : World} (h : PInv N w) : PInv N (expireHandshakes w) := by
  rw [AgentT1.expire_eq]
  exact foldl_inv (PInv N) _ _ _ h (fun b a _ hb => pinv_hsStep hb a)

theorem pinv_wireIdle {N : Nat} {w : World} (h : PInv N w) (ms : Int) : PInv N (Wasp.Wire.idle w ms) := by
  unfold Wasp.Wire.idle
  exact pinv_expireHandshakes (pinv_idle h ms)

theorem pinv_elapse {N : Nat} {w : World} (h : PInv N w) (ms : Int) : PInv N (Wasp.Wire.elapse w ms) := by
  unfold Wasp.Wire.elapse
  apply pinv_wireIdle
  refine ⟨by simp only [List.length_map]; exact h.len, fun j hj => ?_⟩
  rw [AgentT5.shift_node]
  have hn := h.node j hj
  exact ⟨hn.peer, hn.distPeer, hn.subs, hn.pend⟩

/-! ### the operations of `applyOp`, one lemma per operation -/

theorem pinv_init (n : Nat) : PInv n (World.init n) := by
  refine ⟨by simp [World.init], fun i hi => ?_⟩
  have hnode : (World.init n).node i = { peer := i + 1, dist := { peer := i + 1 }, pool := initPool } := by
    unfold World.node World.init
    simp [List.getD_eq_getElem?_getD, hi]
  rw [hnode]
  exact ⟨rfl, rfl, (fun kl hkl => by cases hkl), (fun e he => by cases he)⟩

theorem pinv_op_connect {N : Nat} {w : World} (h : PInv N w) (c : String) (node : Nat) (client mount : String)
    (authOk : Bool) (ka : Nat) (will : Option Will) : PInv N (applyOp w (.connect c node client mount authOk ka will)) := by
  simp only [applyOp]
  have h1 : PInv N (if w.conns.any (fun e => e.1 == c) then w.drop c else w) := by
    split
    · exact pinv_drop h c
    · exact h
  generalize (if w.conns.any (fun e => e.1 == c) then w.drop c else w) = w1 at h1
  exact pinv_connect (pinv_frame (w' := { w1 with out := w1.out.filter (fun e => e.1 != c), deaf := w1.deaf.filter (· != c) }) h1 rfl) _ _ _ _ _ _ _

theorem pinv_op_packet {N : Nat} {w : World} (h : PInv N w) (c : String) (pkt : CPkt) :
    PInv N (applyOp w (.packet c pkt)) := by
  simp only [applyOp]
  split
  · exact pinv_clientPacket h _ _
  · exact h

theorem pinv_op_drop {N : Nat} {w : World} (h : PInv N w) (c : String) : PInv N (applyOp w (.drop c)) :=
  pinv_closeFromClient h c

theorem pinv_op_openConn {N : Nat} {w : World} (h : PInv N w) (c : String) (node : Nat) :
    PInv N (applyOp w (.openConn c node)) := by
  simp only [applyOp]
  have h1 : PInv N (if w.conns.any (fun e => e.1 == c) then closeFromClient w c else w) := by
    split
    · exact pinv_closeFromClient h c
    · exact h
  generalize (if w.conns.any (fun e => e.1 == c) then closeFromClient w c else w) = w1 at h1
  exact pinv_openConn (pinv_frame (w' := { w1 with deaf := w1.deaf.filter (· != c) }) h1 rfl) c node

theorem pinv_op_raw {N : Nat} {w : World} (h : PInv N w) (c : String) (b : List Nat) : PInv N (applyOp w (.raw c b)) :=
  pinv_rawBytes h c b

theorem pinv_op_gossipAll {N : Nat} {w : World} (h : PInv N w) : PInv N (applyOp w .gossipAll) := pinv_gossipAll h

theorem pinv_op_gossip {N : Nat} {w : World} (h : PInv N w) (f t : Nat) : PInv N (applyOp w (.gossip f t)) :=
  pinv_deliverGossip h f t

theorem pinv_op_gossipOne {N : Nat} {w : World} (h : PInv N w) (f t k : Nat) : PInv N (applyOp w (.gossipOne f t k)) := by
  simp only [applyOp]
  split
  · exact h
  · rename_i e he
    have hmem : e ∈ (w.node f).pending := (List.mem_filter.mp (List.mem_of_getElem? he)).1
    have h1 : PInv N (w.setNode f { w.node f with pending := dropKth t (w.node f).pending k }) :=
      pinv_setPending h f _ (AgentT5.dropKth_mem t _ k)
    split
    · exact h1
    · exact pinv_setDist h1 t _ (merge_dstep _ _ (pinv_pend h f e hmem))

theorem pinv_op_loseGossip {N : Nat} {w : World} (h : PInv N w) (f t : Nat) : PInv N (applyOp w (.loseGossip f t)) := by
  simp only [applyOp]
  exact pinv_setPending h f _ (fun e he => (List.mem_filter.mp he).1)

theorem pinv_op_sync {N : Nat} {w : World} (h : PInv N w) (f t : Nat) : PInv N (applyOp w (.sync f t)) := by
  simp only [applyOp]
  refine pinv_setDist h t _ (merge_dstep _ _ ?_)
  intro u hu
  simp only [snapshot, List.mem_flatMap] at hu
  obtain ⟨kl, hkl, hukl⟩ := hu
  exact pinv_subs h f kl hkl u hukl

theorem pinv_op_unreachable {N : Nat} {w : World} (h : PInv N w) (n : Nat) (b : Bool) :
    PInv N (applyOp w (.unreachable n b)) := pinv_setNode_same h n _ rfl rfl rfl

theorem pinv_op_logFailAll {N : Nat} {w : World} (h : PInv N w) (n : Nat) (b : Bool) :
    PInv N (applyOp w (.logFailAll n b)) := pinv_setNode_same h n _ rfl rfl rfl

theorem pinv_op_logFailAt {N : Nat} {w : World} (h : PInv N w) (n k : Nat) : PInv N (applyOp w (.logFailAt n k)) :=
  pinv_setNode_same h n _ rfl rfl rfl

theorem pinv_op_logFailNone {N : Nat} {w : World} (h : PInv N w) (n : Nat) : PInv N (applyOp w (.logFailNone n)) :=
  pinv_setNode_same h n _ rfl rfl rfl

theorem pinv_op_nodeFail {N : Nat} {w : World} (h : PInv N w) (n : Nat) : PInv N (applyOp w (.nodeFail n)) :=
  pinv_nodeFail h n

theorem pinv_op_sweep {N : Nat} {w : World} (h : PInv N w) (n : Nat) : PInv N (applyOp w (.sweep n)) := pinv_sweep h n

theorem pinv_op_idle {N : Nat} {w : World} (h : PInv N w) (ms : Int) : PInv N (applyOp w (.idle ms)) := pinv_wireIdle h ms

theorem pinv_op_elapse {N : Nat} {w : World} (h : PInv N w) (ms : Int) : PInv N (applyOp w (.elapse ms)) :=
  pinv_elapse h ms

theorem pinv_op_setPool {N : Nat} {w : World} (h : PInv N w) (n : Nat) (lo hi : Int) :
    PInv N (applyOp w (.setPool n lo hi)) := by
  simp only [applyOp]
  split
  · exact pinv_setNode_same h n _
  · exact h

theorem pinv_op_rpcPublish {N : Nat} {w : World} (h : PInv N w) (n : Nat) (topic payload : String) :
    PInv N (applyOp w (.rpcPublish n topic payload)) := pinv_distribute h n _

/-- every operation of the harness preserves the peer invariant -/
theorem pinv_step {N : Nat} {w : World} (h : PInv N w) (op : BOp) : PInv N (applyOp w op) := by
  cases op with
  | connect c node client mount authOk ka will => exact pinv_op_connect h c node client mount authOk ka will
  | packet c pkt => exact pinv_op_packet h c pkt
  | drop c => exact pinv_op_drop h c
  | openConn c node => exact pinv_op_openConn h c node
  | raw c b => exact pinv_op_raw h c b
  | gossipAll => exact pinv_op_gossipAll h
  | gossip f t => exact pinv_op_gossip h f t
  | gossipOne f t k => exact pinv_op_gossipOne h f t k
  | loseGossip f t => exact pinv_op_loseGossip h f t
  | sync f t => exact pinv_op_sync h f t
  | unreachable n b => exact pinv_op_unreachable h n b
  | logFailAll n b => exact pinv_op_logFailAll h n b
  | logFailAt n k => exact pinv_op_logFailAt h n k
  | logFailNone n => exact pinv_op_logFailNone h n
  | nodeFail n => exact pinv_op_nodeFail h n
  | sweep n => exact pinv_op_sweep h n
  | idle ms => exact pinv_op_idle h ms
  | elapse ms => exact pinv_op_elapse h ms
  | setPool n lo hi => exact pinv_op_setPool h n lo hi
  | rpcPublish n topic payload => exact pinv_op_rpcPublish h n topic payload

/-! ### `GlobalInv2` as `GlobalInv` and the peer invariant -/

theorem globalInv2_iff (w : World) : GlobalInv2 w ↔ GlobalInv w ∧ PInv w.nodes.length w := by
  constructor
  · intro h
    refine ⟨h.base, rfl, fun i hi => ⟨h.peers i hi, (h.distPeer i hi).trans (h.peers i hi), h.subPeers i, h.pendPeers i⟩⟩
  · rintro ⟨hb, hp⟩
    exact ⟨hb, fun k hk => (hp.node k hk).peer, fun k hk => (hp.node k hk).distPeer.trans (hp.node k hk).peer.symm,
      fun k => pinv_subs hp k, fun k => pinv_pend hp k⟩

theorem pinv_len {N : Nat} {w : World} (h : PInv N w) (op : BOp) : (applyOp w op).nodes.length = w.nodes.length :=
  (pinv_step h op).len.trans h.len.symm

end Wasp.Broker.AgentT7

import Wasp.Model.BrokerOps
import Wasp.Proofs.BrokerT14
import Wasp.Proofs.BrokerT12
/-! helper lemmas for Wasp/Properties/C03C14E2E.lean (agent T18) -/
namespace Wasp.Broker.AgentT18
open Wasp.Broker Wasp.Dist Wasp.Topic Wasp.Broker.AgentC Wasp.Broker.AgentT6 Wasp.Broker.AgentT12

/-! ### the two in-flight entries of an outbound QoS 2 delivery -/

/-- the in-flight entry of a QoS 2 PUBLISH armed in a world of epoch `e` (acknowledged by PUBREC) -/
def msg2 (e : Nat) (mid : Int) : Ack.Msg := ⟨.pubrec, .publish, mid, (e : Int) * 10000 + 3000⟩

/-- the in-flight entry of a PUBREL armed in a world of epoch `e` (acknowledged by PUBCOMP) -/
def msgRel (e : Nat) (mid : Int) : Ack.Msg := ⟨.pubcomp, .pubrel, mid, (e : Int) * 10000 + 3000⟩

/-- what a successful `armAndSend` does to node i -/
structure SentG (w w' : World) (i : Nat) (sid : String) (mid : Int) (m : Ack.Msg) (st : Stored) : Prop where
  len : w'.nodes.length = w.nodes.length
  epoch : w'.epoch = w.epoch
  acks : (w'.node i).acks =
    { msgs := (w.node i).acks.msgs ++ [(Ack.hashKey sid mid, m)],
      timeouts := Ack.pqInsert (Ack.hashKey sid mid) m.deadline (w.node i).acks.timeouts }
  stored : (w'.node i).stored = (w.node i).stored ++ [(Ack.hashKey sid mid, st)]
  pool : (w'.node i).pool = (w.node i).pool
  cm : CM (w.node i) (w'.node i)

theorem armAndSend_sent2 (w : World) (i : Nat) (hi : i < w.nodes.length) (sid topic payload : String)
    (retain dup : Bool) (mid : Int) (s : Sess) (hs : (w.node i).sess sid = some s) (hmid : mid ≠ 0)
    (hfree : Ack.msgFind (Ack.hashKey sid mid) (w.node i).acks.msgs = none) :
    SentG w (w.armAndSend i (.out2 sid topic payload retain dup mid)) i sid mid (msg2 w.epoch mid)
      (.out2 sid topic payload retain dup mid) ∧
    (w.armAndSend i (.out2 sid topic payload retain dup mid)).out = w.out ++ [(s.conn, .publish topic payload 2 retain dup mid)] := by
  have hn := extendDeadline_node w i hi sid s hs
  have hins := insert_ok ((w.extendDeadline i sid).node i).acks sid .publish 2 mid
    (ackDeadline (w.extendDeadline i sid)) .pubrec hmid (by rw [hn]; exact hfree) rfl
  have hi' : i < (w.extendDeadline i sid).nodes.length := by simpa using hi
  have hcm : CM (w.node i) ((w.node i).setSess (bumped w s)) := CM.setSess hs rfl rfl rfl
  simp only [World.armAndSend, hs, hins, if_true]
  refine ⟨⟨?_, ?_, ?_, ?_, ?_, ?_⟩, ?_⟩
  · simp
  · exact extendDeadline_epoch w i sid
  · simp [node_setNode_self _ _ _ hi', hn, Node.setSess, msg2, ackDeadline, extendDeadline_epoch]
  · simp [node_setNode_self _ _ _ hi', hn, Node.setSess]
  · simp [node_setNode_self _ _ _ hi', hn, Node.setSess]
  · rw [emit_node, node_setNode_self _ _ _ hi', hn]
    exact hcm.trans (CM.of_reg_eq rfl)
  · simp

theorem armAndSend_sentRel (w : World) (i : Nat) (hi : i < w.nodes.length) (sid : String)
    (mid : Int) (s : Sess) (hs : (w.node i).sess sid = some s) (hmid : mid ≠ 0)
    (hfree : Ack.msgFind (Ack.hashKey sid mid) (w.node i).acks.msgs = none) :
    SentG w (w.armAndSend i (.rel sid mid)) i sid mid (msgRel w.epoch mid) (.rel sid mid) ∧
    (w.armAndSend i (.rel sid mid)).out = w.out ++ [(s.conn, .pubrel mid)] := by
  have hn := extendDeadline_node w i hi sid s hs
  have hins := insert_ok ((w.extendDeadline i sid).node i).acks sid .pubrel 0 mid
    (ackDeadline (w.extendDeadline i sid)) .pubcomp hmid (by rw [hn]; exact hfree) rfl
  have hi' : i < (w.extendDeadline i sid).nodes.length := by simpa using hi
  have hcm : CM (w.node i) ((w.node i).setSess (bumped w s)) := CM.setSess hs rfl rfl rfl
  simp only [World.armAndSend, hs, hins, if_true]
  refine ⟨⟨?_, ?_, ?_, ?_, ?_, ?_⟩, ?_⟩
  · simp
  · exact extendDeadline_epoch w i sid
  · simp [node_setNode_self _ _ _ hi', hn, Node.setSess, msgRel, ackDeadline, extendDeadline_epoch]
  · simp [node_setNode_self _ _ _ hi', hn, Node.setSess]
  · simp [node_setNode_self _ _ _ hi', hn, Node.setSess]
  · rw [emit_node, node_setNode_self _ _ _ hi', hn]
    exact hcm.trans (CM.of_reg_eq rfl)
  · simp

theorem send_one2 (w : World) (i : Nat) (hi : i < w.nodes.length) (sid : String) (s : Sess)
    (hs : (w.node i).sess sid = some s) (p : Pub)
    (hget : 0 < (IdPool.get (w.node i).pool).2)
    (hfresh : Ack.msgFind (Ack.hashKey sid (IdPool.get (w.node i).pool).2) (w.node i).acks.msgs = none) :
    w.send i [(sid, 2)] p =
      (w.setNode i { w.node i with pool := (IdPool.get (w.node i).pool).1 }).armAndSend i
        (.out2 sid (trimMountPoint s.mount p.topic) p.payload p.retain p.dup (IdPool.get (w.node i).pool).2) := by
  have hle : ¬ (IdPool.get (w.node i).pool).2 ≤ 0 := by omega
  have hne : (IdPool.get (w.node i).pool).2 ≠ 0 := by omega
  simp only [World.send, hs]
  simp only [show ((2:Int) = 0) = False from by simp, show ((2:Int) = 1) = False from by simp,
    if_false, or_true, if_true, hle]
  generalize hw2 : w.setNode i _ = w2
  have hn2 : w2.node i = { w.node i with pool := (IdPool.get (w.node i).pool).1 } := by
    rw [← hw2, node_setNode_self _ _ _ hi]
  have hi2 : i < w2.nodes.length := by rw [← hw2]; simpa using hi
  have hA := (armAndSend_sent2 w2 i hi2 sid (trimMountPoint s.mount p.topic) p.payload p.retain p.dup
    (IdPool.get (w.node i).pool).2 s (by rw [hn2]; exact hs) hne (by rw [hn2]; exact hfresh)).1
  unfold World.sendArmed
  simp only
  rw [if_neg]
  rintro ⟨h1, _⟩
  rw [hA.acks] at h1
  simp at h1

/-! ### the state of node 0 while one exchange of the delivery is in flight -/

/-- node 0 of `w'` is node 0 of `w` with the identifier drawn and exactly one more in-flight exchange, filed under the
    key of `(sid, mid)` with in-flight entry `m` and callback `st` -/
structure Flight (w w' : World) (sid : String) (mid : Int) (m : Ack.Msg) (st : Stored) : Prop where
  len : w'.nodes.length = w.nodes.length
  epoch : w'.epoch = w.epoch
  msgs : (w'.node 0).acks.msgs = (w.node 0).acks.msgs ++ [(Ack.hashKey sid mid, m)]
  stored : (w'.node 0).stored = (w.node 0).stored ++ [(Ack.hashKey sid mid, st)]
  pool : (w'.node 0).pool = (IdPool.get (w.node 0).pool).1
  cm : CM (w.node 0) (w'.node 0)

theorem storedErase_of_none {k : Ack.Key} {l : List (Ack.Key × Stored)} (h : storedFind k l = none) :
    storedErase k l = l := by
  induction l with
  | nil => rfl
  | cons x rest ih =>
    obtain ⟨k', s⟩ := x
    simp only [storedFind] at h
    split at h
    · cases h
    · rename_i hk
      have ih' := ih h
      simp only [storedErase] at ih' ⊢
      simp [hk, ih']

theorem storedErase_snoc_self {k : Ack.Key} {st : Stored} {l : List (Ack.Key × Stored)} (h : storedFind k l = none) :
    storedErase k (l ++ [(k, st)]) = l := by
  have := storedErase_of_none h
  simp only [storedErase] at this ⊢
  simp [List.filter_append, this]

/-- the QoS 1 publish whose only local recipient has a QoS 2 subscription -/
theorem publish2_flight (w : World) (hlen : w.nodes.length = 1)
    (hpeer : ∀ kl ∈ (w.node 0).dist.subs, ∀ u ∈ kl.2, u.peer = (w.node 0).peer)
    (p r : Sess) (hp : (w.node 0).sess p.id = some p) (hrr : (w.node 0).sess r.id = some r)
    (topic payload : String) (dup : Bool) (mid : Int)
    (hrc : localRecipients w (prefixMountPoint p.mount topic) = [(r.id, 2)])
    (hpool : 0 < (IdPool.get (w.node 0).pool).2)
    (hfresh : Ack.msgFind (Ack.hashKey r.id (IdPool.get (w.node 0).pool).2) (w.node 0).acks.msgs = none)
    (hlog : (w.node 0).logFailAll = false ∧ (w.node 0).logFailAt.contains (w.node 0).logCalls = false) :
    (w.process 0 p.id (.publish topic payload 1 false dup mid)).1.out =
      w.out ++ [(r.conn, Pkt.publish (trimMountPoint r.mount (prefixMountPoint p.mount topic)) payload 2 false dup (IdPool.get (w.node 0).pool).2),
                (p.conn, Pkt.puback mid)] ∧
    Flight w (w.process 0 p.id (.publish topic payload 1 false dup mid)).1 r.id (IdPool.get (w.node 0).pool).2
      (msg2 w.epoch (IdPool.get (w.node 0).pool).2)
      (.out2 r.id (trimMountPoint r.mount (prefixMountPoint p.mount topic)) payload false dup (IdPool.get (w.node 0).pool).2) := by
  have hi : 0 < w.nodes.length := by omega
  have hne : subByPattern (w.node 0).dist (prefixMountPoint p.mount topic) ≠ [] := by
    intro he
    simp [localRecipients, he] at hrc
  rw [process_publish1 w 0 p.id p hp,
    distribute_one w hlen ⟨prefixMountPoint p.mount topic, payload, 1, false, dup⟩ hpeer hne hlog]
  simp only [if_true]
  generalize hw1 : w.setNode 0 _ = w1
  have hn1 : w1.node 0 = { w.node 0 with logCalls := (w.node 0).logCalls + 1, log := (w.node 0).log ++ [⟨prefixMountPoint p.mount topic, payload, 1, false, dup⟩] } := by
    rw [← hw1, node_setNode_self _ _ _ hi]
  have hi1 : 0 < w1.nodes.length := by rw [← hw1]; simpa using hi
  have hout1 : w1.out = w.out := by rw [← hw1]; rfl
  have hep1 : w1.epoch = w.epoch := by rw [← hw1]; rfl
  have hlen1 : w1.nodes.length = w.nodes.length := by rw [← hw1]; simp
  have hdl : w1.deliverLocal 0 ⟨prefixMountPoint p.mount topic, payload, 1, false, dup⟩ =
      w1.send 0 [(r.id, 2)] ⟨prefixMountPoint p.mount topic, payload, 1, false, dup⟩ := by
    unfold World.deliverLocal
    simp only [hn1]
    exact congrArg (fun l => w1.send 0 l _) hrc
  rw [hdl, send_one2 w1 0 hi1 r.id r (by rw [hn1]; exact hrr) _ (by rw [hn1]; exact hpool) (by rw [hn1]; exact hfresh)]
  simp only [hn1]
  generalize hw2 : w1.setNode 0 _ = w2
  have hn2 : w2.node 0 = { w.node 0 with logCalls := (w.node 0).logCalls + 1, log := (w.node 0).log ++ [⟨prefixMountPoint p.mount topic, payload, 1, false, dup⟩], pool := (IdPool.get (w.node 0).pool).1 } := by
    rw [← hw2, node_setNode_self _ _ _ hi1]
  have hi2 : 0 < w2.nodes.length := by rw [← hw2]; simpa using hi1
  have hout2 : w2.out = w.out := by rw [← hw2]; exact hout1
  have hep2 : w2.epoch = w.epoch := by rw [← hw2]; exact hep1
  have hlen2 : w2.nodes.length = w.nodes.length := by rw [← hw2, setNode_length]; exact hlen1
  obtain ⟨hS, hO⟩ := armAndSend_sent2 w2 0 hi2 r.id (trimMountPoint r.mount (prefixMountPoint p.mount topic)) payload false dup
    (IdPool.get (w.node 0).pool).2 r (by rw [hn2]; exact hrr) (by omega) (by rw [hn2]; exact hfresh)
  refine ⟨?_, ?_⟩
  · rw [emit_out, hO, hout2]
    simp
  · refine ⟨?_, ?_, ?_, ?_, ?_, ?_⟩
    · rw [emit_length, hS.len, hlen2]
    · show (World.armAndSend _ _ _).epoch = _
      rw [hS.epoch, hep2]
    · rw [emit_node, hS.acks, hn2, hep2]
    · rw [emit_node, hS.stored, hn2]
    · rw [emit_node, hS.pool, hn2]
    · rw [emit_node]
      exact (CM.of_reg_eq (n := w.node 0) (n' := w2.node 0) (by rw [hn2])).trans hS.cm

/-! ### the recipient's PUBREC -/

theorem pubrec_flight (w w1 : World) (sid t pl : String) (rt d : Bool) (mid : Int) (m : Ack.Msg)
    (hF : Flight w w1 sid mid m (.out2 sid t pl rt d mid)) (hm : m.state = .pubrec) (hlen : w.nodes.length = 1)
    (s' : Sess) (hs' : (w1.node 0).sess sid = some s') (hmid : mid ≠ 0)
    (hfresh : Ack.msgFind (Ack.hashKey sid mid) (w.node 0).acks.msgs = none)
    (hsf : storedFind (Ack.hashKey sid mid) (w.node 0).stored = none) :
    (w1.process 0 sid (.pubrec mid)).1.out = w1.out ++ [(s'.conn, .pubrel mid)] ∧
    Flight w (w1.process 0 sid (.pubrec mid)).1 sid mid (msgRel w.epoch mid) (.rel sid mid) := by
  have hi : 0 < w1.nodes.length := by rw [hF.len]; omega
  have hfind : Ack.msgFind (Ack.hashKey sid mid) (w1.node 0).acks.msgs = some m := by
    rw [hF.msgs]; exact msgFind_snoc_self hfresh
  simp only [World.process, hs', World.ackFrom]
  have hack : Ack.ack (w1.node 0).acks sid .pubrec true mid = _ := Ack.ack_ok_eq hfind hm
  rw [hack]
  simp only [List.foldl_cons, List.foldl_nil]
  generalize hwa : w1.setNode 0 _ = wa
  have hna : wa.node 0 = { w1.node 0 with acks := { msgs := Ack.msgErase (Ack.hashKey sid mid) (w1.node 0).acks.msgs, timeouts := (Ack.pqDelete (Ack.hashKey sid mid) m.deadline (w1.node 0).acks.timeouts).1 } } := by
    rw [← hwa, node_setNode_self _ _ _ hi]
  have hia : 0 < wa.nodes.length := by rw [← hwa]; simpa using hi
  have houta : wa.out = w1.out := by rw [← hwa]; rfl
  have hepa : wa.epoch = w1.epoch := by rw [← hwa]; rfl
  have hlena : wa.nodes.length = w1.nodes.length := by rw [← hwa]; simp
  have hst : storedFind (Ack.hashKey sid mid) (wa.node 0).stored = some (.out2 sid t pl rt d mid) := by
    rw [hna]; show storedFind _ (w1.node 0).stored = _
    rw [hF.stored]; exact storedFind_snoc_self hsf
  simp only [hst]
  generalize hwb : wa.setNode 0 _ = wb
  have hnb : wb.node 0 = { wa.node 0 with stored := storedErase (Ack.hashKey sid mid) (wa.node 0).stored } := by
    rw [← hwb, node_setNode_self _ _ _ hia]
  have hib : 0 < wb.nodes.length := by rw [← hwb]; simpa using hia
  have houtb : wb.out = w1.out := by rw [← hwb]; exact houta
  have hepb : wb.epoch = w.epoch := by rw [← hwb, ← hF.epoch]; exact hepa
  have hlenb : wb.nodes.length = w.nodes.length := by rw [← hwb, setNode_length, hlena, hF.len]
  have hsb : (wb.node 0).sess sid = some s' := by rw [hnb, hna]; exact hs'
  have hmsgsb : (wb.node 0).acks.msgs = (w.node 0).acks.msgs := by
    rw [hnb, hna]
    show Ack.msgErase _ (w1.node 0).acks.msgs = _
    rw [hF.msgs]; exact msgErase_snoc_self hfresh
  have hstoredb : (wb.node 0).stored = (w.node 0).stored := by
    rw [hnb, hna]
    show storedErase _ (w1.node 0).stored = _
    rw [hF.stored]; exact storedErase_snoc_self hsf
  have hpoolb : (wb.node 0).pool = (IdPool.get (w.node 0).pool).1 := by
    rw [hnb, hna]; exact hF.pool
  have hcmb : CM (w.node 0) (wb.node 0) :=
    hF.cm.trans (CM.of_reg_eq (n := w1.node 0) (n' := wb.node 0) (by rw [hnb, hna]))
  have hr : wb.onResolved 0 ⟨Ack.hashKey sid mid, false, m.stored⟩ (.out2 sid t pl rt d mid) =
      wb.armAndSend 0 (.rel sid mid) := by
    simp [World.onResolved, hsb]
  rw [hr]
  obtain ⟨hS, hO⟩ := armAndSend_sentRel wb 0 hib sid mid s' hsb hmid (by rw [hmsgsb]; exact hfresh)
  refine ⟨by rw [hO, houtb], ?_, ?_, ?_, ?_, ?_, ?_⟩
  · rw [hS.len, hlenb]
  · rw [hS.epoch, hepb]
  · rw [hS.acks, hmsgsb, hepb]
  · rw [hS.stored, hstoredb]
  · rw [hS.pool, hpoolb]
  · exact hcmb.trans hS.cm

/-! ### the recipient's PUBCOMP -/

theorem pubcomp_flight (w w2 : World) (sid : String) (mid : Int) (m : Ack.Msg)
    (hF : Flight w w2 sid mid m (.rel sid mid)) (hm : m.state = .pubcomp) (hlen : w.nodes.length = 1)
    (hsess : ((w2.node 0).sess sid).isSome = true)
    (hfresh : Ack.msgFind (Ack.hashKey sid mid) (w.node 0).acks.msgs = none)
    (hsf : storedFind (Ack.hashKey sid mid) (w.node 0).stored = none) :
    ((w2.process 0 sid (.pubcomp mid)).1.node 0).acks.msgs = (w.node 0).acks.msgs ∧
    ((w2.process 0 sid (.pubcomp mid)).1.node 0).pool = IdPool.put (IdPool.get (w.node 0).pool).1 mid ∧
    (w2.process 0 sid (.pubcomp mid)).1.out = w2.out := by
  have hi : 0 < w2.nodes.length := by rw [hF.len]; omega
  obtain ⟨s', hs'⟩ := Option.isSome_iff_exists.mp hsess
  have hfind : Ack.msgFind (Ack.hashKey sid mid) (w2.node 0).acks.msgs = some m := by
    rw [hF.msgs]; exact msgFind_snoc_self hfresh
  simp only [World.process, hs', World.ackFrom]
  have hack : Ack.ack (w2.node 0).acks sid .pubcomp true mid = _ := Ack.ack_ok_eq hfind hm
  rw [hack]
  simp only [List.foldl_cons, List.foldl_nil]
  generalize hwa : w2.setNode 0 _ = wa
  have hna : wa.node 0 = { w2.node 0 with acks := { msgs := Ack.msgErase (Ack.hashKey sid mid) (w2.node 0).acks.msgs, timeouts := (Ack.pqDelete (Ack.hashKey sid mid) m.deadline (w2.node 0).acks.timeouts).1 } } := by
    rw [← hwa, node_setNode_self _ _ _ hi]
  have hia : 0 < wa.nodes.length := by rw [← hwa]; simpa using hi
  have houta : wa.out = w2.out := by rw [← hwa]; rfl
  have hst : storedFind (Ack.hashKey sid mid) (wa.node 0).stored = some (.rel sid mid) := by
    rw [hna]; show storedFind _ (w2.node 0).stored = _
    rw [hF.stored]; exact storedFind_snoc_self hsf
  simp only [hst]
  simp only [World.onResolved, Bool.false_eq_true, false_and, if_false, World.poolPut]
  generalize hwb : wa.setNode 0 _ = wb
  have hnb : wb.node 0 = { wa.node 0 with stored := storedErase (Ack.hashKey sid mid) (wa.node 0).stored } := by
    rw [← hwb, node_setNode_self _ _ _ hia]
  have hib : 0 < wb.nodes.length := by rw [← hwb]; simpa using hia
  have houtb : wb.out = w2.out := by rw [← hwb]; exact houta
  rw [node_setNode_self _ _ _ hib]
  refine ⟨?_, ?_, ?_⟩
  · rw [hnb, hna]
    show Ack.msgErase _ (w2.node 0).acks.msgs = _
    rw [hF.msgs]
    exact msgErase_snoc_self hfresh
  · rw [hnb, hna]
    show IdPool.put (w2.node 0).pool mid = _
    rw [hF.pool]
  · exact houtb

/-! ### the expiry sweep while the exchange is the only one in flight -/

/-- the sweep of an otherwise idle node resolves exactly the one exchange in flight, as expired -/
theorem sweep_flight (w w' : World) (sid : String) (mid : Int) (m : Ack.Msg) (st : Stored)
    (hF : Flight w w' sid mid m st) (hlen : w.nodes.length = 1)
    (hq : Ack.QInv (w'.node 0).acks) (hd : m.deadline = (w.epoch : Int) * 10000 + 3000)
    (hidle : (w.node 0).acks.msgs = [])
    (hsf : storedFind (Ack.hashKey sid mid) (w.node 0).stored = none) :
    ∃ w1 : World, w'.sweep 0 = w1.onResolved 0 ⟨Ack.hashKey sid mid, true, m.stored⟩ st ∧
      w1.out = w'.out ∧ 0 < w1.nodes.length ∧ (w1.node 0).reg = (w'.node 0).reg ∧ (w1.node 0).acks.msgs = [] := by
  have hi : 0 < w'.nodes.length := by rw [hF.len]; omega
  have hmsgs : (w'.node 0).acks.msgs = [(Ack.hashKey sid mid, m)] := by
    rw [hF.msgs, hidle]; rfl
  have hm : Ack.msgFind (Ack.hashKey sid mid) (w'.node 0).acks.msgs = some m := by
    rw [hmsgs]; simp [Ack.msgFind]
  have hk : Ack.hashKey sid mid ∈ (Ack.pqExpire (((w'.epoch : Int) + 1) * 10000) (w'.node 0).acks.timeouts).2 := by
    refine (hq.mem_expired_keys _ _).mpr ⟨_, hm, ?_⟩
    rw [hF.epoch, hd]
    exact Int.lt_of_le_of_lt (Ack.roundSec_bounds _).2
      (show ((w.epoch : Int) * 10000 + 3000) + 500 < ((w.epoch : Int) + 1) * 10000 by omega)
  have hexp : Ack.expire (w'.node 0).acks (((w'.epoch : Int) + 1) * 10000) =
      ({ msgs := [], timeouts := (w'.node 0).acks.timeouts.filter (fun kb => !decide (kb.1 < ((w'.epoch : Int) + 1) * 10000)) },
       [⟨Ack.hashKey sid mid, true, m.stored⟩]) := by
    rw [Ack.expire_eq, hmsgs, expireKeys_single _ hk]
  rw [AgentT3.sweep_eq, hexp]
  simp only [List.foldl_cons, List.foldl_nil, AgentT3.resolveStep]
  generalize hw0 : World.setNode _ 0 _ = w0
  have hn0 : w0.node 0 = { w'.node 0 with acks := { msgs := [], timeouts := (w'.node 0).acks.timeouts.filter (fun kb => !decide (kb.1 < ((w'.epoch : Int) + 1) * 10000)) } } := by
    rw [← hw0, node_setNode_self ({ w' with epoch := w'.epoch + 1 } : World) 0 _ hi]
  have hi0 : 0 < w0.nodes.length := by rw [← hw0]; simpa using hi
  have hout0 : w0.out = w'.out := by rw [← hw0]; rfl
  have hst : storedFind (Ack.hashKey sid mid) (w0.node 0).stored = some st := by
    rw [hn0]; show storedFind _ (w'.node 0).stored = _
    rw [hF.stored]; exact storedFind_snoc_self hsf
  simp only [hst]
  generalize hw1 : w0.setNode 0 _ = w1
  have hn1 : w1.node 0 = { w0.node 0 with stored := storedErase (Ack.hashKey sid mid) (w0.node 0).stored } := by
    rw [← hw1, node_setNode_self _ _ _ hi0]
  have hi1 : 0 < w1.nodes.length := by rw [← hw1]; simpa using hi0
  have hout1 : w1.out = w'.out := by rw [← hw1]; exact hout0
  exact ⟨w1, rfl, hout1, hi1, by rw [hn1, hn0], by rw [hn1, hn0]⟩

/-- silence after the PUBREL: the sweep writes the PUBREL again -/
theorem sweep_rel (w w' : World) (sid : String) (mid : Int) (m : Ack.Msg)
    (hF : Flight w w' sid mid m (.rel sid mid)) (hlen : w.nodes.length = 1)
    (hq : Ack.QInv (w'.node 0).acks) (hd : m.deadline = (w.epoch : Int) * 10000 + 3000)
    (s' : Sess) (hs' : (w'.node 0).sess sid = some s') (hmid : mid ≠ 0)
    (hidle : (w.node 0).acks.msgs = [])
    (hsf : storedFind (Ack.hashKey sid mid) (w.node 0).stored = none) :
    (w'.sweep 0).out = w'.out ++ [(s'.conn, .pubrel mid)] := by
  obtain ⟨w1, hsw, hout1, hi1, hreg1, hmsgs1⟩ := sweep_flight w w' sid mid m _ hF hlen hq hd hidle hsf
  have hs1 : (w1.node 0).sess sid = some s' := by
    simp only [Node.sess, hreg1]; exact hs'
  have hr : w1.onResolved 0 ⟨Ack.hashKey sid mid, true, m.stored⟩ (.rel sid mid) = w1.armAndSend 0 (.rel sid mid) := by
    simp [World.onResolved, hs1]
  rw [hsw, hr, (armAndSend_rel w1 0 hi1 sid mid s' hs1 hmid (by rw [hmsgs1]; rfl)).out, hout1]

/-- silence after the PUBLISH: the sweep writes the PUBLISH again -/
theorem sweep_out2 (w w' : World) (sid t pl : String) (rt d : Bool) (mid : Int) (m : Ack.Msg)
    (hF : Flight w w' sid mid m (.out2 sid t pl rt d mid)) (hlen : w.nodes.length = 1)
    (hq : Ack.QInv (w'.node 0).acks) (hd : m.deadline = (w.epoch : Int) * 10000 + 3000)
    (s' : Sess) (hs' : (w'.node 0).sess sid = some s') (hmid : mid ≠ 0)
    (hidle : (w.node 0).acks.msgs = [])
    (hsf : storedFind (Ack.hashKey sid mid) (w.node 0).stored = none) :
    (w'.sweep 0).out = w'.out ++ [(s'.conn, .publish t pl 2 rt d mid)] := by
  obtain ⟨w1, hsw, hout1, hi1, hreg1, hmsgs1⟩ := sweep_flight w w' sid mid m _ hF hlen hq hd hidle hsf
  have hs1 : (w1.node 0).sess sid = some s' := by
    simp only [Node.sess, hreg1]; exact hs'
  have hr : w1.onResolved 0 ⟨Ack.hashKey sid mid, true, m.stored⟩ (.out2 sid t pl rt d mid) =
      w1.armAndSend 0 (.out2 sid t pl rt d mid) := by
    simp [World.onResolved, hs1]
  rw [hsw, hr, (armAndSend_out2 w1 0 hi1 sid t pl rt d mid s' hs1 hmid (by rw [hmsgs1]; rfl)).out, hout1]

end Wasp.Broker.AgentT18

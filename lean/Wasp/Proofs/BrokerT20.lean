import Wasp.Model.BrokerOps
import Wasp.Proofs.BrokerT14
import Wasp.Proofs.BrokerT19
import Wasp.Proofs.DistSync
/-!
helper lemmas for Wasp/Properties/C11Reach.lean (agent T20): an invariant of every reachable world about the SESSION
records of the replicated stores (stamps below the crdt clock, unique ids per store, and: the newest incarnation of a
registered session's id is the one its CONNECT created).

`XStep w w'`: what every function of the model except the record-creating part of CONNECT does to registries, session
stores and pending gossip; it is a preorder and preserves the invariant `RI`.
-/
namespace Wasp.Broker.AgentT20
open Wasp.Broker Wasp.Dist Wasp.Crdt Wasp.Topic Wasp.Broker.AgentD Wasp.Broker.AgentT5

/-- what identifies a registered session -/
def skey (s : Sess) : String × String × String × String := (s.id, s.conn, s.client, s.mount)
/-- what identifies an incarnation of a session record (everything a later tombstone keeps) -/
def rkey (r : SessionMD) : String × Int × String × String := (r.id, r.added, r.client, r.mount)

/-- `r` is a session record of the cluster: stored on some node, or in gossip not yet delivered -/
def RecIn (w : World) (r : SessionMD) : Prop :=
  ∃ j, r ∈ (w.node j).dist.sessions ∨ ∃ e ∈ (w.node j).pending, r ∈ e.2.sessions

/-- last update of a record -/
def lu (r : SessionMD) : Int := if r.added > r.deleted then r.added else r.deleted

theorem lu_eq (r : SessionMD) : lastUpdate r.stamp = lu r := by
  simp [lastUpdate, Generated.getLastEntryUpdate, lu, SessionMD.stamp, Go.isNil, Go.getLastAdded, Go.getLastDeleted]

theorem outdated_iff (a b : SessionMD) : isOutdated a.stamp b.stamp = true ↔ lu a < lu b := by
  show decide (lastUpdate a.stamp < lastUpdate b.stamp) = true ↔ _
  rw [lu_eq, lu_eq]; simp

/-- node j of the successor world, relative to `w` -/
structure NStep (w : World) (j : Nat) (n' : Node) : Prop where
  reg : ∀ s' ∈ n'.reg, ∃ s ∈ (w.node j).reg, skey s = skey s'
  stored : ∀ r' ∈ n'.dist.sessions, ∃ r, RecIn w r ∧ rkey r = rkey r'
  pend : ∀ e ∈ n'.pending, ∀ r' ∈ e.2.sessions, ∃ r, RecIn w r ∧ rkey r = rkey r'
  nodup : ((w.node j).dist.sessions.map (·.id)).Nodup → (n'.dist.sessions.map (·.id)).Nodup
  mono : ∀ id loc, sessLookup id (w.node j).dist.sessions = some loc →
    ∃ loc', sessLookup id n'.dist.sessions = some loc' ∧ (lu loc ≤ lu loc' ∨ w.clock - 1 ≤ lu loc')

structure XStep (w w' : World) : Prop where
  clock : w.clock ≤ w'.clock
  node : ∀ j, NStep w j (w'.node j)

theorem NStep.same (w : World) (j : Nat) (n' : Node) (hr : ∀ s' ∈ n'.reg, ∃ s ∈ (w.node j).reg, skey s = skey s')
    (hd : n'.dist.sessions = (w.node j).dist.sessions) (hp : ∀ e ∈ n'.pending, e ∈ (w.node j).pending) : NStep w j n' := by
  refine ⟨hr, fun r' h => ⟨r', ⟨j, Or.inl (hd ▸ h)⟩, rfl⟩, fun e he r' h => ⟨r', ⟨j, Or.inr ⟨e, hp e he, h⟩⟩, rfl⟩,
    fun h => hd ▸ h, fun id loc h => ⟨loc, hd ▸ h, Or.inl (Int.le_refl _)⟩⟩

theorem NStep.refl (w : World) (j : Nat) : NStep w j (w.node j) :=
  NStep.same w j _ (fun s' h => ⟨s', h, rfl⟩) rfl (fun _ h => h)

theorem XStep.refl (w : World) : XStep w w := ⟨Int.le_refl _, fun j => NStep.refl w j⟩

theorem XStep.recs {w w' : World} (h : XStep w w') {r' : SessionMD} (hr : RecIn w' r') : ∃ r, RecIn w r ∧ rkey r = rkey r' := by
  obtain ⟨j, hj | ⟨e, he, hre⟩⟩ := hr
  · exact (h.node j).stored r' hj
  · exact (h.node j).pend e he r' hre

theorem XStep.trans {a b c : World} (h1 : XStep a b) (h2 : XStep b c) : XStep a c := by
  refine ⟨Int.le_trans h1.clock h2.clock, fun j => ⟨?_, ?_, ?_, ?_, ?_⟩⟩
  · intro s' hs'
    obtain ⟨s1, hs1, e1⟩ := (h2.node j).reg s' hs'
    obtain ⟨s0, hs0, e0⟩ := (h1.node j).reg s1 hs1
    exact ⟨s0, hs0, e0.trans e1⟩
  · intro r' hr'
    obtain ⟨r1, hr1, e1⟩ := (h2.node j).stored r' hr'
    obtain ⟨r0, hr0, e0⟩ := h1.recs hr1
    exact ⟨r0, hr0, e0.trans e1⟩
  · intro e he r' hr'
    obtain ⟨r1, hr1, e1⟩ := (h2.node j).pend e he r' hr'
    obtain ⟨r0, hr0, e0⟩ := h1.recs hr1
    exact ⟨r0, hr0, e0.trans e1⟩
  · intro h; exact (h2.node j).nodup ((h1.node j).nodup h)
  · intro id loc hl
    obtain ⟨l1, hl1, m1⟩ := (h1.node j).mono id loc hl
    obtain ⟨l2, hl2, m2⟩ := (h2.node j).mono id l1 hl1
    refine ⟨l2, hl2, ?_⟩
    have := h1.clock
    omega

theorem XStep.of_nodes_eq {w w' : World} (h : w'.nodes = w.nodes)
    (hc : w.clock ≤ w'.clock := by first | exact Int.le_refl _ | exact Int.le_add_one (Int.le_refl _)) : XStep w w' :=
  ⟨hc, fun j => by rw [node_congr h]; exact NStep.refl w j⟩

theorem XStep.setNode (w : World) (i : Nat) (n' : Node) (h : NStep w i n') : XStep w (w.setNode i n') := by
  refine ⟨Int.le_refl _, fun j => ?_⟩
  rw [node_setNode]
  split
  · rename_i hji; rw [hji.1]; exact h
  · exact NStep.refl w j

/-- registry, session store and gossip queue of the node are untouched -/
theorem x_setNode_same (w : World) (i : Nat) (n' : Node) (hr : n'.reg = (w.node i).reg := by rfl)
    (hd : n'.dist.sessions = (w.node i).dist.sessions := by rfl) (hp : n'.pending = (w.node i).pending := by rfl) :
    XStep w (w.setNode i n') :=
  XStep.setNode w i n' (NStep.same w i n' (fun s' hs' => ⟨s', hr ▸ hs', rfl⟩) hd (fun e he => hp ▸ he))

theorem XStep.foldl {α : Type} (f : World → α → World) (l : List α) (w : World)
    (hs : ∀ w a, XStep w (f w a)) : XStep w (l.foldl f w) :=
  foldl_inv (fun w' => XStep w w') f l w (XStep.refl w) (fun b a _ hb => hb.trans (hs b a))

theorem XStep.foldl' {α : Type} (f : World → α → World) (l : List α) (w b : World) (h0 : XStep w b)
    (hs : ∀ w a, XStep w (f w a)) : XStep w (l.foldl f b) := h0.trans (XStep.foldl f l b hs)

macro "x_back " t:term : tactic => `(tactic| refine XStep.trans ?_ $t)

theorem x_emit (w : World) (c : String) (p : Pkt) : XStep w (w.emit c p) := XStep.of_nodes_eq rfl

theorem x_tick (w : World) : XStep w w.tick.1 := XStep.of_nodes_eq rfl

/-! ### writes of the replicated state -/

/-- a write that leaves the session store alone -/
theorem x_setDist (w : World) (i : Nat) (d : State) (hd : d.sessions = (w.node i).dist.sessions := by rfl) :
    XStep w (w.setNode i { w.node i with dist := d }) :=
  x_setNode_same w i _ rfl hd rfl

/-- a broadcast whose session records are records of the cluster -/
theorem x_broadcast (w : World) (i : Nat) (ev : Event)
    (he : ∀ r' ∈ ev.sessions, ∃ r, RecIn w r ∧ rkey r = rkey r' := by exact fun _ h => (List.not_mem_nil h).elim) :
    XStep w (w.broadcast i ev) := by
  unfold World.broadcast
  refine XStep.setNode w i _ ⟨fun s' hs' => ⟨s', hs', rfl⟩, fun r' h => ⟨r', ⟨i, Or.inl h⟩, rfl⟩, ?_, fun h => h,
    fun id loc h => ⟨loc, h, Or.inl (Int.le_refl _)⟩⟩
  intro e hm r' hr'
  rcases List.mem_append.mp hm with hm | hm
  · exact ⟨r', ⟨i, Or.inr ⟨e, hm, hr'⟩⟩, rfl⟩
  · obtain ⟨j, _, rfl⟩ := List.mem_map.mp hm
    exact he r' hr'

/-- a registered session is replaced by one with the same identity -/
theorem x_setSess (w : World) (i : Nat) {sid : String} {s : Sess} (s' : Sess) (hs : (w.node i).sess sid = some s)
    (hc : skey s' = skey s := by rfl) : XStep w (w.setNode i ((w.node i).setSess s')) := by
  refine XStep.setNode w i _ (NStep.same w i _ ?_ rfl (fun _ h => h))
  intro x' hx'
  simp only [Node.setSess, List.mem_map] at hx'
  obtain ⟨x, hx, rfl⟩ := hx'
  split
  · exact ⟨s, (sess_some hs).1, hc.symm⟩
  · exact ⟨x, hx, rfl⟩

/-! ### session stores -/

def SStep (c : Int) (src : SessionMD → Prop) (l l' : List SessionMD) : Prop :=
  (∀ r' ∈ l', ∃ r, (r ∈ l ∨ src r) ∧ rkey r = rkey r') ∧ ((l.map (·.id)).Nodup → (l'.map (·.id)).Nodup) ∧
  (∀ id loc, sessLookup id l = some loc → ∃ loc', sessLookup id l' = some loc' ∧ (lu loc ≤ lu loc' ∨ c ≤ lu loc'))

theorem SStep.refl (c : Int) (src : SessionMD → Prop) (l : List SessionMD) : SStep c src l l :=
  ⟨fun r' h => ⟨r', Or.inl h, rfl⟩, fun h => h, fun _ loc h => ⟨loc, h, Or.inl (Int.le_refl _)⟩⟩

theorem SStep.trans {c : Int} {src : SessionMD → Prop} {l₁ l₂ l₃ : List SessionMD} (h1 : SStep c src l₁ l₂)
    (h2 : SStep c src l₂ l₃) : SStep c src l₁ l₃ := by
  refine ⟨fun r' hr' => ?_, fun h => h2.2.1 (h1.2.1 h), fun id loc hl => ?_⟩
  · obtain ⟨r1, hr1 | hr1, e1⟩ := h2.1 r' hr'
    · obtain ⟨r0, hr0, e0⟩ := h1.1 r1 hr1
      exact ⟨r0, hr0, e0.trans e1⟩
    · exact ⟨r1, Or.inr hr1, e1⟩
  · obtain ⟨a, ha, m1⟩ := h1.2.2 id loc hl
    obtain ⟨b, hb, m2⟩ := h2.2.2 id a ha
    exact ⟨b, hb, by omega⟩

theorem SStep.set {c : Int} {src : SessionMD → Prop} (x : SessionMD) (l : List SessionMD)
    (hx : ∃ r, (r ∈ l ∨ src r) ∧ rkey r = rkey x)
    (hm : ∀ loc, sessLookup x.id l = some loc → lu loc ≤ lu x ∨ c ≤ lu x) : SStep c src l (sessSet x l) := by
  refine ⟨fun r' hr' => ?_, sessSet_nodup x l, fun id loc hl => ?_⟩
  · rcases sessSet_mem hr' with rfl | h
    · exact hx
    · exact ⟨r', Or.inl h, rfl⟩
  · rw [sessLookup_sessSet]
    split
    · rename_i e; subst e; exact ⟨x, rfl, hm loc hl⟩
    · exact ⟨loc, hl, Or.inl (Int.le_refl _)⟩

theorem sstep_foldl_set {c : Int} {src : SessionMD → Prop} (vs : List SessionMD) : ∀ (l0 l : List SessionMD),
    SStep c src l0 l → (∀ v ∈ vs, (∃ r, (r ∈ l0 ∨ src r) ∧ rkey r = rkey v) ∧ c ≤ lu v) →
    SStep c src l0 (vs.foldl (fun acc s => sessSet s acc) l) := by
  induction vs with
  | nil => intro l0 l h _; exact h
  | cons v rest ih =>
    intro l0 l h hv
    simp only [List.foldl_cons]
    refine ih l0 _ ?_ (fun u hu => hv u (List.mem_cons_of_mem _ hu))
    obtain ⟨⟨r, hr, e⟩, hc⟩ := hv v List.mem_cons_self
    refine ⟨fun r' hr' => ?_, fun hn => sessSet_nodup v l (h.2.1 hn), fun id loc hl => ?_⟩
    · rcases sessSet_mem hr' with rfl | hm
      · exact ⟨r, hr, e⟩
      · exact h.1 r' hm
    · obtain ⟨a, ha, m⟩ := h.2.2 id loc hl
      rw [sessLookup_sessSet]
      split
      · exact ⟨v, rfl, Or.inr hc⟩
      · exact ⟨a, ha, m⟩

theorem lu_deleted (s : SessionMD) (now : Int) : now ≤ lu { s with deleted := now } := by
  unfold lu; simp only; split <;> omega

theorem rkey_deleted (s : SessionMD) (now : Int) : rkey s = rkey { s with deleted := now } := rfl

theorem sstep_sessDelete (src : SessionMD → Prop) (st : State) (now : Int) (id : String) :
    SStep now src st.sessions (Wasp.Dist.sessDelete st now id).1.sessions ∧
    ∀ e, (Wasp.Dist.sessDelete st now id).2 = some e → ∀ r' ∈ e.sessions, ∃ r ∈ st.sessions, rkey r = rkey r' := by
  unfold Wasp.Dist.sessDelete
  split
  · exact ⟨SStep.refl _ _ _, fun e he => by cases he⟩
  · rename_i s hs
    split
    · exact ⟨SStep.refl _ _ _, fun e he => by cases he⟩
    · refine ⟨SStep.set _ _ ⟨s, Or.inl (sessLookup_mem hs), rkey_deleted s now⟩ (fun _ _ => Or.inr (lu_deleted s now)), ?_⟩
      intro e he r' hr'
      simp only [Option.some.injEq] at he
      subst he
      simp only [List.mem_singleton] at hr'
      subst hr'
      exact ⟨s, sessLookup_mem hs, rkey_deleted s now⟩

theorem sstep_sessDeletePeer (src : SessionMD → Prop) (st : State) (now : Int) (p : Nat) :
    SStep now src st.sessions (sessDeletePeer st now p).1.sessions ∧
    ∀ r' ∈ (sessDeletePeer st now p).2.sessions, ∃ r ∈ st.sessions, rkey r = rkey r' := by
  have hv : ∀ v ∈ (sessByPeer st p).map (fun s => { s with deleted := now }),
      (∃ r ∈ st.sessions, rkey r = rkey v) ∧ now ≤ lu v := by
    intro v hv
    obtain ⟨s, hs, rfl⟩ := List.mem_map.mp hv
    have hm : s ∈ st.sessions := (List.mem_filter.mp hs).1
    exact ⟨⟨s, hm, rkey_deleted s now⟩, lu_deleted s now⟩
  refine ⟨?_, fun r' hr' => (hv r' hr').1⟩
  unfold sessDeletePeer
  simp only
  refine sstep_foldl_set _ _ _ (SStep.refl _ _ _) (fun v hvm => ?_)
  obtain ⟨⟨r, hr, e⟩, hc⟩ := hv v hvm
  exact ⟨⟨r, Or.inl hr, e⟩, hc⟩

theorem sstep_mergeSessions (c : Int) (src : SessionMD → Prop) (vs : List SessionMD) (hs : ∀ v ∈ vs, src v) :
    ∀ l, SStep c src l (mergeSessions vs l) := by
  induction vs with
  | nil => intro l; exact SStep.refl _ _ _
  | cons v rest ih =>
    intro l
    unfold mergeSessions
    split
    · exact SStep.refl _ _ _
    · have hrest := ih (fun u hu => hs u (List.mem_cons_of_mem _ hu))
      simp only
      cases hlk : sessLookup v.id l with
      | none =>
        simp only [if_true]
        exact SStep.trans (SStep.set v l ⟨v, Or.inr (hs v List.mem_cons_self), rfl⟩
          (fun loc hl => by rw [hlk] at hl; cases hl)) (hrest _)
      | some loc =>
        simp only
        by_cases ho : isOutdated loc.stamp v.stamp = true
        · simp only [ho, if_true]
          refine SStep.trans (SStep.set v l ⟨v, Or.inr (hs v List.mem_cons_self), rfl⟩ ?_) (hrest _)
          intro loc' hl
          rw [hlk] at hl
          cases hl
          exact Or.inl (Int.le_of_lt ((outdated_iff loc v).mp ho))
        · simp only [ho]
          exact hrest _

theorem sstep_merge (c : Int) (src : SessionMD → Prop) (d : State) (ev : Event) (hs : ∀ v ∈ ev.sessions, src v) :
    SStep c src d.sessions (merge d ev).sessions := sstep_mergeSessions c src _ hs _

theorem sstep_foldl_merge (c : Int) (src : SessionMD → Prop) (evs : List Event) (hs : ∀ ev ∈ evs, ∀ v ∈ ev.sessions, src v) :
    ∀ d : State, SStep c src d.sessions (evs.foldl merge d).sessions := by
  induction evs with
  | nil => intro d; exact SStep.refl _ _ _
  | cons ev rest ih =>
    intro d
    simp only [List.foldl_cons]
    exact (sstep_merge c src d ev (hs ev List.mem_cons_self)).trans (ih (fun e he => hs e (List.mem_cons_of_mem _ he)) _)

/-- node i replaces its session store -/
theorem nstep_store (w : World) (i : Nat) (n' : Node) (hr : n'.reg = (w.node i).reg)
    (h : SStep (w.clock - 1) (RecIn w) (w.node i).dist.sessions n'.dist.sessions)
    (hp : ∀ e ∈ n'.pending, ∀ r' ∈ e.2.sessions, ∃ r, RecIn w r ∧ rkey r = rkey r') : NStep w i n' := by
  refine ⟨fun s' hs' => ⟨s', hr ▸ hs', rfl⟩, fun r' hr' => ?_, hp, h.2.1, h.2.2⟩
  obtain ⟨r, hr | hr, e⟩ := h.1 r' hr'
  · exact ⟨r, ⟨i, Or.inl hr⟩, e⟩
  · exact ⟨r, hr, e⟩

theorem x_setStore (w : World) (i : Nat) (d : State)
    (h : SStep (w.clock - 1) (RecIn w) (w.node i).dist.sessions d.sessions) :
    XStep w (w.setNode i { w.node i with dist := d }) :=
  XStep.setNode w i _ (nstep_store w i _ rfl h (fun e he r' hr' => ⟨r', ⟨i, Or.inr ⟨e, he, hr'⟩⟩, rfl⟩))

/-- node i replaces its session store and queues records of the old store (possibly with a later tombstone) -/
theorem x_writeCast (w : World) (i : Nat) (d : State) (ev : Event)
    (h : SStep (w.clock - 1) (RecIn w) (w.node i).dist.sessions d.sessions)
    (hev : ∀ r' ∈ ev.sessions, ∃ r ∈ (w.node i).dist.sessions, rkey r = rkey r') :
    XStep w ((w.setNode i { w.node i with dist := d }).broadcast i ev) := by
  unfold World.broadcast
  refine ⟨Int.le_refl _, fun j => ?_⟩
  rw [node_setNode]
  split
  · rename_i hc
    obtain ⟨rfl, hlt⟩ := hc
    have hlt' : j < w.nodes.length := by simpa using hlt
    rw [node_setNode_self _ _ _ hlt']
    refine nstep_store w j _ rfl h ?_
    intro e hm r' hr'
    rcases List.mem_append.mp hm with hm | hm
    · exact ⟨r', ⟨j, Or.inr ⟨e, hm, hr'⟩⟩, rfl⟩
    · obtain ⟨k, _, rfl⟩ := List.mem_map.mp hm
      obtain ⟨r, hr, e⟩ := hev r' hr'
      exact ⟨r, ⟨j, Or.inl hr⟩, e⟩
  · rename_i hc
    rw [node_setNode]
    split
    · rename_i hc'; exact absurd ⟨hc'.1, by simpa using hc'.2⟩ hc
    · exact NStep.refl w j

theorem x_sessDelete (w : World) (i : Nat) (sid : String) : XStep w (w.sessDelete i sid) := by
  unfold World.sessDelete
  simp only []
  refine (x_tick w).trans ?_
  have hs := sstep_sessDelete (RecIn w.tick.1) (w.tick.1.node i).dist w.tick.2 sid
  have hc : w.tick.2 = w.tick.1.clock - 1 := by show w.clock = w.clock + 1 - 1; omega
  rw [hc] at hs
  split
  · rename_i e he
    exact x_writeCast w.tick.1 i _ e (hc ▸ hs.1) (hs.2 e (hc ▸ he))
  · exact x_setStore w.tick.1 i _ (hc ▸ hs.1)

theorem x_retainStep (w : World) (i : Nat) (p : Pub) : XStep w (retainStep w i p) := by
  unfold retainStep
  split
  · simp only [World.tick]
    refine XStep.trans (b := ({ w with clock := w.clock + 1 } : World)) (XStep.of_nodes_eq rfl) ?_
    split
    · exact (x_setDist _ _ _).trans (x_broadcast _ _ _)
    · exact (x_setDist _ _ _).trans (x_broadcast _ _ _)
  · exact XStep.refl w

theorem x_extendDeadline (w : World) (i : Nat) (sid : String) : XStep w (w.extendDeadline i sid) := by
  unfold World.extendDeadline
  simp only []
  split
  · rename_i s hs
    exact x_setSess w i _ hs
  · exact XStep.refl w

theorem x_subCreate (w : World) (i : Nat) (sid pat : String) (qos : Int) : XStep w (w.subCreate i sid pat qos) := by
  simp only [World.subCreate]
  x_back (x_broadcast _ _ _)
  x_back (x_setDist _ _ _)
  exact x_tick w

theorem x_subDelete (w : World) (i : Nat) (sid pat : String) : XStep w (w.subDelete i sid pat) := by
  simp only [World.subDelete]
  x_back (x_broadcast _ _ _)
  x_back (x_setDist _ _ _)
  exact x_tick w

theorem x_poolPut (w : World) (i : Nat) (mid : Int) : XStep w (w.poolPut i mid) := by
  unfold World.poolPut
  exact x_setNode_same w i _

/-! ### writer -/

theorem x_armAndSend (w : World) (i : Nat) (st : Stored) : XStep w (w.armAndSend i st) := by
  unfold World.armAndSend
  cases st with
  | out1 sid topic payload retain dup mid =>
    simp only []
    split
    · exact XStep.refl w
    · split
      · x_back (x_emit _ _ _)
        exact (x_extendDeadline w i sid).trans (x_setNode_same _ i _)
      · exact x_extendDeadline w i sid
  | out2 sid topic payload retain dup mid =>
    simp only []
    split
    · exact XStep.refl w
    · split
      · x_back (x_emit _ _ _)
        exact (x_extendDeadline w i sid).trans (x_setNode_same _ i _)
      · exact x_extendDeadline w i sid
  | rel sid mid =>
    simp only []
    split
    · exact XStep.refl w
    · x_back (x_emit _ _ _)
      refine (x_extendDeadline w i sid).trans (x_setNode_same _ i _ ?_ ?_ ?_) <;> (split <;> rfl)
  | inbound a b c d => exact XStep.refl w

theorem x_sendArmed (w : World) (i : Nat) (st : Stored) (sid : String) (mid : Int) :
    XStep w (w.sendArmed i st sid mid) := by
  unfold World.sendArmed
  simp only
  split
  · exact (x_armAndSend w i st).trans (x_poolPut _ _ _)
  · exact x_armAndSend w i st

theorem x_send (w : World) (i : Nat) (l : List (String × Int)) (p : Pub) : XStep w (w.send i l p) := by
  induction l generalizing w with
  | nil => simp only [World.send]; exact XStep.refl w
  | cons x rest ih =>
    obtain ⟨sid, qos⟩ := x
    simp only [World.send]
    split
    · exact ih w
    · split
      · refine XStep.trans ?_ (ih _)
        x_back (x_emit _ _ _)
        exact x_extendDeadline w i sid
      · split
        · split
          · exact XStep.refl w
          · refine XStep.trans ?_ (ih _)
            x_back (x_sendArmed _ _ _ _ _)
            exact x_setNode_same w i _
        · exact ih w

theorem x_onResolved (w : World) (i : Nat) (ev : Ack.Resolved) (st : Stored) : XStep w (w.onResolved i ev st) := by
  unfold World.onResolved
  cases st <;> simp only <;> repeat' split
  all_goals first | exact x_armAndSend _ _ _ | exact x_poolPut _ _ _ | exact XStep.refl _

theorem x_deliverLocal (w : World) (j : Nat) (p : Pub) : XStep w (w.deliverLocal j p) := by
  unfold World.deliverLocal
  exact x_send _ _ _ _

theorem x_appendLog (w : World) (j : Nat) (p : Pub) : XStep w (w.setNode j ((w.node j).appendLog p).1) :=
  x_setNode_same w j _ (appendLog_reg _ _) (by rw [AgentT10.appendLog_dist]) (by unfold Node.appendLog; simp only; split <;> rfl)

theorem x_distribute (w : World) (i : Nat) (p : Pub) : XStep w (w.distribute i p).1 := by
  unfold World.distribute
  simp only
  apply foldl_inv (P := fun (acc : World × Bool) => XStep w acc.1)
  · exact XStep.refl w
  · intro acc peer _ hacc
    split
    · exact hacc
    · split
      · exact hacc
      · split
        · refine hacc.trans ?_
          x_back (x_deliverLocal _ _ _)
          exact x_appendLog _ _ _
        · exact hacc.trans (x_appendLog _ _ _)

theorem x_publishJob (w : World) (i : Nat) (p : Pub) (onOk : World → World) (h : ∀ w, XStep w (onOk w)) :
    XStep w (w.publishJob i p onOk) := by
  rw [publishJob_eq]
  split
  · exact ((x_retainStep w i p).trans (x_distribute _ _ _)).trans (h _)
  · exact (x_retainStep w i p).trans (x_distribute _ _ _)

/-! ### resolutions -/

theorem x_ackStep_rest (i : Nat) (w : World) (ev : Ack.Resolved) (st : Stored) :
    XStep w (match st with
      | .inbound _ conn pub imid => w.publishJob i pub (fun w => w.emit conn (.pubcomp imid))
      | _ => w.onResolved i ev st) := by
  cases st with
  | inbound a conn pub imid => exact x_publishJob _ _ _ _ (fun w => x_emit _ _ _)
  | out1 a b c d e f => exact x_onResolved _ _ _ _
  | out2 a b c d e f => exact x_onResolved _ _ _ _
  | rel a b => exact x_onResolved _ _ _ _

theorem x_ackStep (i : Nat) (w : World) (ev : Ack.Resolved) : XStep w (AgentT13.ackStep i w ev) := by
  unfold AgentT13.ackStep
  split
  · exact XStep.refl w
  · exact (x_setNode_same w i { w.node i with stored := storedErase ev.key (w.node i).stored }).trans
      (x_ackStep_rest i _ ev _)

theorem x_resolveStep (i : Nat) (w : World) (ev : Ack.Resolved) : XStep w (AgentT3.resolveStep i w ev) := by
  unfold AgentT3.resolveStep
  split
  · exact XStep.refl w
  · exact (x_setNode_same w i _).trans (x_onResolved _ _ _ _)

theorem x_ackFrom (w : World) (i : Nat) (pfx : String) (kind : Ack.PType) (mid : Int) :
    XStep w (w.ackFrom i pfx kind mid) := by
  rw [AgentT13.ackFrom_eq]
  exact XStep.foldl' _ _ _ _ (x_setNode_same w i _) (fun b ev => x_ackStep i b ev)

theorem x_sweep (w : World) (i : Nat) : XStep w (w.sweep i) := by
  rw [AgentT3.sweep_eq]
  refine XStep.foldl' _ _ _ _ ?_ (fun b ev => x_resolveStep i b ev)
  exact (XStep.of_nodes_eq (w := w) (w' := { w with epoch := w.epoch + 1 }) rfl).trans (x_setNode_same _ i _)

/-! ### packets, session end -/

theorem x_process (w : World) (i : Nat) (sid : String) (pkt : CPkt) : XStep w (w.process i sid pkt).1 := by
  unfold World.process
  simp only
  split
  · exact XStep.refl w
  · rename_i s hs
    cases pkt with
    | connect => exact XStep.refl w
    | publish topic payload qos retain dup mid =>
      simp only
      split
      · exact x_publishJob _ _ _ _ (fun w => XStep.refl w)
      · split
        · exact x_publishJob _ _ _ _ (fun w => x_emit _ _ _)
        · split
          · split
            · x_back (x_emit _ _ _)
              exact x_setNode_same w i _
            · exact XStep.refl w
          · exact XStep.refl w
    | subscribe mid topics =>
      simp only
      refine XStep.foldl' _ _ _ _ ?_ ?_
      · x_back (x_emit _ _ _)
        refine XStep.foldl' _ _ _ _ (XStep.refl w) ?_
        intro w tq
        refine (x_subCreate w i sid tq.1 tq.2).trans ?_
        split
        · rename_i s' hs'
          split
          · exact XStep.refl _
          · exact x_setSess _ i _ hs'
        · exact XStep.refl _
      · intro w tq
        refine XStep.foldl' _ _ _ _ (XStep.refl w) ?_
        intro w r
        exact x_send _ _ _ _
    | unsubscribe mid topics =>
      simp only
      x_back (x_emit _ _ _)
      refine XStep.foldl' _ _ _ _ (XStep.refl w) ?_
      intro w t
      refine (x_subDelete w i sid (prefixMountPoint s.mount t)).trans ?_
      split
      · rename_i s' hs'
        exact x_setSess _ i _ hs'
      · exact XStep.refl _
    | puback mid => exact x_ackFrom _ _ _ _ _
    | pubrec mid => exact x_ackFrom _ _ _ _ _
    | pubrel mid => exact x_ackFrom _ _ _ _ _
    | pubcomp mid => exact x_ackFrom _ _ _ _ _
    | pingreq =>
      simp only
      split
      · split
        · exact x_emit _ _ _
        · exact XStep.refl w
      · exact XStep.refl w
      · split
        · exact x_emit _ _ _
        · exact XStep.refl w
    | disconnect => exact XStep.refl w
    | other => exact XStep.refl w


theorem x_tdBase (w : World) (i : Nat) (s : Sess) : XStep w (tdBase w i s) := by
  unfold tdBase
  simp only
  refine XStep.foldl' _ _ _ _ ?_ (fun w t => x_subDelete w i s.id t)
  refine (XStep.setNode w i { w.node i with reg := (w.node i).reg.filter (fun x => x.id != s.id) }
    (NStep.same w i _ (fun s' hs' => ⟨s', (List.mem_filter.mp hs').1, rfl⟩) rfl (fun _ h => h))).trans ?_
  exact XStep.of_nodes_eq rfl

theorem x_teardown (w : World) (i : Nat) (s : Sess) : XStep w (teardown w i s).1 := by
  rw [teardown_eq]
  split
  · exact (x_tdBase w i s).trans (x_sessDelete _ _ _)
  · exact x_tdBase w i s

theorem x_shutdown (w : World) (i : Nat) (sid : String) : XStep w (w.shutdownSession i sid) := by
  cases hs : (w.node i).sess sid with
  | none =>
    have : w.shutdownSession i sid = w := by unfold World.shutdownSession; simp only [hs]
    rw [this]
    exact XStep.refl w
  | some s =>
    rw [shutdown_eq w i sid s hs]
    split
    · exact x_teardown w i s
    · split
      · exact x_teardown w i s
      · split
        · exact x_teardown w i s
        · exact (x_teardown w i s).trans (x_publishJob _ _ _ _ (fun w => XStep.refl w))

theorem x_clientPacket (w : World) (conn : String) (pkt : CPkt) : XStep w (w.clientPacket conn pkt) := by
  unfold World.clientPacket
  split
  · exact XStep.refl w
  · rename_i c i hc
    simp only []
    split
    · exact XStep.refl w
    · have hp := x_process w i ("S" ++ conn) pkt
      generalize w.process i ("S" ++ conn) pkt = r at hp
      obtain ⟨w', res⟩ := r
      simp only at hp ⊢
      cases res with
      | ok => exact hp.trans (x_extendDeadline _ _ _)
      | disconnected =>
        simp only []
        refine hp.trans (XStep.trans ?_ (x_shutdown _ _ _))
        split
        · rename_i s' hs'
          exact x_setSess _ i _ hs'
        · exact XStep.refl _
      | error => exact hp.trans (x_shutdown _ _ _)

theorem x_connPre (w : World) (c : String) (i : Nat) (client mount : String) :
    XStep w (connPre w c i client mount) := by
  unfold connPre
  simp only
  split
  · x_back (x_sessDelete _ _ _)
    exact XStep.of_nodes_eq rfl
  · exact XStep.of_nodes_eq rfl

theorem x_drop (w : World) (c : String) : XStep w (w.drop c) := by
  unfold World.drop
  split
  · exact XStep.refl w
  · simp only []
    have h0 : XStep w ({ w with conns := w.conns.filter (fun e => e.1 != c) } : World) := XStep.of_nodes_eq rfl
    split
    · exact h0.trans (x_shutdown _ _ _)
    · exact h0.trans (x_emit _ _ _)

/-! ### gossip, node failure, time -/

/-- node src drops part of its gossip queue, node dst merges events whose session records were records of the cluster -/
theorem x_takeMerge (w : World) (src dst : Nat) (p' : List (Nat × Event)) (hp : ∀ e ∈ p', e ∈ (w.node src).pending)
    (evs : List Event) (hev : ∀ ev ∈ evs, ∀ v ∈ ev.sessions, RecIn w v) :
    XStep w ((w.setNode src { w.node src with pending := p' }).setNode dst
      { (w.setNode src { w.node src with pending := p' }).node dst with
        dist := evs.foldl merge ((w.setNode src { w.node src with pending := p' }).node dst).dist }) := by
  have hk : ∀ k, ((w.setNode src { w.node src with pending := p' }).node k).dist = (w.node k).dist ∧
      ((w.setNode src { w.node src with pending := p' }).node k).reg = (w.node k).reg ∧
      ∀ e ∈ ((w.setNode src { w.node src with pending := p' }).node k).pending, e ∈ (w.node k).pending := by
    intro k
    rw [node_setNode]
    split
    · rename_i hc; rw [hc.1]; exact ⟨rfl, rfl, hp⟩
    · exact ⟨rfl, rfl, fun _ h => h⟩
  have hck : (w.setNode src { w.node src with pending := p' }).clock = w.clock := rfl
  generalize w.setNode src { w.node src with pending := p' } = w1 at hk hck
  refine ⟨by rw [← hck]; exact Int.le_refl _, fun j => ?_⟩
  rw [node_setNode]
  split
  · rename_i hc
    rw [hc.1]
    refine nstep_store w dst _ (hk dst).2.1 ?_ ?_
    · show SStep _ _ _ (evs.foldl merge (w1.node dst).dist).sessions
      have := sstep_foldl_merge (w.clock - 1) (RecIn w) evs hev (w1.node dst).dist
      rw [(hk dst).1] at this
      rw [(hk dst).1]
      exact this
    · intro e he r' hr'
      exact ⟨r', ⟨dst, Or.inr ⟨e, (hk dst).2.2 e he, hr'⟩⟩, rfl⟩
  · exact NStep.same w j _ (fun s' hs' => ⟨s', (hk j).2.1 ▸ hs', rfl⟩) (by rw [(hk j).1]) (hk j).2.2

theorem x_setPending (w : World) (i : Nat) (p' : List (Nat × Event)) (hp : ∀ e ∈ p', e ∈ (w.node i).pending) :
    XStep w (w.setNode i { w.node i with pending := p' }) :=
  XStep.setNode w i _ (NStep.same w i _ (fun s' h => ⟨s', h, rfl⟩) rfl hp)

theorem x_deliverGossip (w : World) (src dst : Nat) : XStep w (w.deliverGossip src dst) := by
  unfold World.deliverGossip
  simp only []
  split
  · exact x_setPending w src _ (fun e he => (List.mem_filter.mp he).1)
  · refine x_takeMerge w src dst _ (fun e he => (List.mem_filter.mp he).1) _ ?_
    intro ev hev v hv
    obtain ⟨e, he, rfl⟩ := List.mem_map.mp hev
    exact ⟨src, Or.inr ⟨e, (List.mem_filter.mp he).1, hv⟩⟩

theorem x_gossipRound (w : World) : XStep w w.gossipRound := by
  unfold World.gossipRound
  simp only []
  refine XStep.foldl _ _ _ ?_
  intro b a
  refine XStep.foldl _ _ _ ?_
  intro b' a'
  split
  · exact x_deliverGossip _ _ _
  · exact XStep.refl _

theorem x_gossipAll (w : World) : XStep w w.gossipAll := by
  unfold World.gossipAll
  exact XStep.foldl _ _ _ (fun b _ => x_gossipRound b)

theorem x_leavePrefix (w : World) (i : Nat) (peer : Nat) : XStep w (AgentA.leavePrefix w i peer) := by
  unfold AgentA.leavePrefix
  simp only []
  x_back (x_broadcast _ _ _)
  x_back (x_setDist _ _ _)
  exact x_tick w

theorem x_leaveStep (i : Nat) (w : World) (s : SessionMD) : XStep w (AgentA.leaveStep i w s) := by
  unfold AgentA.leaveStep
  split
  · exact XStep.refl w
  · simp only []
    split
    · exact (x_appendLog _ _ _).trans (x_deliverLocal _ _ _)
    · exact x_appendLog _ _ _

theorem x_notifyLeave (w : World) (i : Nat) (peer : Nat) : XStep w (w.notifyLeave i peer) := by
  rw [AgentA.notifyLeave_eq]
  simp only
  x_back (x_setNode_same _ _ _)
  exact XStep.foldl' _ _ _ _ (x_leavePrefix w i peer) (fun b a => x_leaveStep i b a)

theorem x_nodeFail (w : World) (f : Nat) : XStep w (w.nodeFail f) := by
  unfold World.nodeFail
  simp only []
  refine XStep.foldl' _ _ _ _ ?_ ?_
  · refine XStep.foldl' _ _ _ _ ?_ (fun b a => x_emit b _ _)
    refine XStep.trans (b := w.setNode f { w.node f with failed := true, reg := [], pending := [] }) ?_
      (XStep.of_nodes_eq rfl)
    exact XStep.setNode w f _ (NStep.same w f _ (fun s' hs' => by cases hs') rfl (fun e he => by cases he))
  · intro b a
    split
    · exact x_notifyLeave _ _ _
    · exact XStep.refl _

theorem x_idleTimers (w : World) (i : Nat) : XStep w (idleTimers w i) := by
  unfold idleTimers
  simp only []
  refine XStep.foldl' _ _ _ _ (x_setNode_same w i _) ?_
  intro b a
  refine (x_tick b).trans ?_
  have hs := sstep_sessDeletePeer (RecIn b.tick.1) (b.tick.1.node i).dist b.tick.2 a.2
  have hc : b.tick.2 = b.tick.1.clock - 1 := by show b.clock = b.clock + 1 - 1; omega
  exact x_writeCast b.tick.1 i _ _ (hc ▸ hs.1) hs.2

theorem x_idleNode (w : World) (i : Nat) : XStep w (idleNode w i) := by
  unfold idleNode
  split
  · exact XStep.refl w
  · refine XStep.foldl' _ _ _ _ (x_idleTimers w i) ?_
    intro b a
    split
    · split
      · exact x_shutdown _ _ _
      · exact XStep.refl _
    · exact XStep.refl _

theorem x_idle (w : World) (ms : Int) : XStep w (w.idle ms) := by
  rw [idle_eq]
  exact XStep.foldl' _ _ _ _ (XStep.of_nodes_eq (w := w) rfl) (fun b a => x_idleNode b a)

/-! ### the invariant -/

/-- session records of a world: every `added` stamp is below the crdt clock; ids are unique per store; and for every
    registered session there is a birth stamp `t` — no record of the cluster under the session's id was added later,
    the records added at `t` carry the session's client identifier and mount point, and the record its own node stores
    under the id was last updated at or after `t` -/
structure RI (w : World) : Prop where
  clk : ∀ r, RecIn w r → r.added < w.clock
  nodup : ∀ j, ((w.node j).dist.sessions.map (·.id)).Nodup
  own : ∀ i, ∀ s ∈ (w.node i).reg, ∃ t, t < w.clock ∧
      (∀ r, RecIn w r → r.id = s.id → r.added ≤ t) ∧
      (∀ r, RecIn w r → r.id = s.id → r.added = t → r.client = s.client ∧ r.mount = s.mount) ∧
      (∃ loc, sessLookup s.id (w.node i).dist.sessions = some loc ∧ t ≤ lu loc)

theorem RI.step {w w' : World} (h : RI w) (hs : XStep w w') : RI w' := by
  have hck := hs.clock
  refine ⟨fun r' hr' => ?_, fun j => (hs.node j).nodup (h.nodup j), fun i s' hs' => ?_⟩
  · obtain ⟨r, hr, e⟩ := hs.recs hr'
    have := h.clk r hr
    have e2 : r.added = r'.added := congrArg (·.2.1) e
    omega
  · obtain ⟨s, hs0, ek⟩ := (hs.node i).reg s' hs'
    obtain ⟨t, ht, b1, b2, loc, hl, hlu⟩ := h.own i s hs0
    have eid : s.id = s'.id := congrArg (·.1) ek
    have ecl : s.client = s'.client := congrArg (·.2.2.1) ek
    have emt : s.mount = s'.mount := congrArg (·.2.2.2) ek
    refine ⟨t, by omega, ?_, ?_, ?_⟩
    · intro r' hr' hid
      obtain ⟨r, hr, e⟩ := hs.recs hr'
      have e1 : r.id = r'.id := congrArg (·.1) e
      have e2 : r.added = r'.added := congrArg (·.2.1) e
      have := b1 r hr (by rw [e1, hid, eid])
      omega
    · intro r' hr' hid hadd
      obtain ⟨r, hr, e⟩ := hs.recs hr'
      have e1 : r.id = r'.id := congrArg (·.1) e
      have e2 : r.added = r'.added := congrArg (·.2.1) e
      have e3 : r.client = r'.client := congrArg (·.2.2.1) e
      have e4 : r.mount = r'.mount := congrArg (·.2.2.2) e
      have := b2 r hr (by rw [e1, hid, eid]) (by omega)
      rw [← e3, ← e4, ← ecl, ← emt]; exact this
    · obtain ⟨loc', hl', m⟩ := (hs.node i).mono s.id loc hl
      exact ⟨loc', eid ▸ hl', by omega⟩

/-- what the invariant says about a registered session's node: the three hypotheses of
    `C11_teardown_removes_record_of_clock` -/
theorem RI.facts {w : World} (h : RI w) (i : Nat) (s : Sess) (hs : s ∈ (w.node i).reg) :
    ((w.node i).dist.sessions.map (·.id)).Nodup ∧
    (∀ md ∈ sessAll (w.node i).dist, md.id = s.id → md.mount = s.mount ∧ md.client = s.client) ∧
    (∀ md ∈ sessAll (w.node i).dist, md.id = s.id → md.added ≤ w.clock) := by
  refine ⟨h.nodup i, fun md hmd hid => ?_, fun md hmd _ => ?_⟩
  · obtain ⟨hm, ha⟩ := AgentT19.mem_sessAll.mp hmd
    obtain ⟨t, _, b1, b2, loc, hl, hlu⟩ := h.own i s hs
    have hrin : RecIn w md := ⟨i, Or.inl hm⟩
    have hl2 := (mem_iff_sessLookup _ (h.nodup i) md).mp hm
    rw [hid, hl] at hl2
    have e : loc = md := Option.some.inj hl2
    subst e
    have hle := b1 loc hrin hid
    have ha' : (decide (loc.added > 0) && decide (loc.added > loc.deleted)) = true := ha
    simp only [Bool.and_eq_true, decide_eq_true_eq] at ha'
    have hlu' : lu loc = loc.added := by unfold lu; simp [ha'.2]
    have := b2 loc hrin hid (by omega)
    exact ⟨this.2, this.1⟩
  · obtain ⟨hm, _⟩ := AgentT19.mem_sessAll.mp hmd
    exact Int.le_of_lt (h.clk md ⟨i, Or.inl hm⟩)

/-! ### CONNECT: a record is created and its session registered -/

theorem sessCreate_ok (st : State) (now : Int) (id client : String) (ca : Int) (lwt : Option Will) (mount : String)
    (h : (sessCreate st now id client ca lwt mount).2.2 = Err.none) :
    sessCreate st now id client ca lwt mount =
      ({ st with sessions := sessSet ⟨id, client, mount, st.peer, ca, lwt, now, 0⟩ st.sessions },
       some { sessions := [⟨id, client, mount, st.peer, ca, lwt, now, 0⟩] }, Err.none) := by
  unfold sessCreate at h ⊢
  split
  · split
    · rename_i h1 h2
      simp only [h1, h2, if_true] at h
      cases h
    · rfl
  · rfl

/-- the world after node i stored a fresh record `s'` (added at the clock), queued it and registered its session -/
theorem RI.create {w0 F : World} (h0 : RI w0) (i : Nat) (s' : SessionMD) (sn : Sess) (X : List (Nat × Event))
    (hclock : F.clock = w0.clock + 1)
    (hother : ∀ j, j ≠ i → F.node j = w0.node j)
    (hreg : (F.node i).reg = (w0.node i).reg ++ [sn])
    (hst : (F.node i).dist.sessions = sessSet s' (w0.node i).dist.sessions)
    (hpend : (F.node i).pending = (w0.node i).pending ++ X) (hX : ∀ e ∈ X, e.2.sessions = [s'])
    (hadd : s'.added = w0.clock) (hid : s'.id = sn.id) (hcl : s'.client = sn.client) (hmt : s'.mount = sn.mount)
    (hfresh : ∀ j, ∀ s ∈ (w0.node j).reg, s.id ≠ sn.id) : RI F := by
  have hrec : ∀ r, RecIn F r → r = s' ∨ RecIn w0 r := by
    intro r ⟨j, hj⟩
    by_cases hji : j = i
    · subst hji
      rcases hj with hj | ⟨e, he, hre⟩
      · rw [hst] at hj
        rcases sessSet_mem hj with e | hm
        · exact Or.inl e
        · exact Or.inr ⟨j, Or.inl hm⟩
      · rw [hpend] at he
        rcases List.mem_append.mp he with he | he
        · exact Or.inr ⟨j, Or.inr ⟨e, he, hre⟩⟩
        · rw [hX e he] at hre
          exact Or.inl (List.mem_singleton.mp hre)
    · rw [hother j hji] at hj
      exact Or.inr ⟨j, hj⟩
  have hold : ∀ j, ∀ s ∈ (w0.node j).reg, ∃ t, t < F.clock ∧
      (∀ r, RecIn F r → r.id = s.id → r.added ≤ t) ∧
      (∀ r, RecIn F r → r.id = s.id → r.added = t → r.client = s.client ∧ r.mount = s.mount) ∧
      (∃ loc, sessLookup s.id (F.node j).dist.sessions = some loc ∧ t ≤ lu loc) := by
    intro j s hs
    obtain ⟨t, ht, b1, b2, loc, hl, hlu⟩ := h0.own j s hs
    have hne : s'.id ≠ s.id := by rw [hid]; exact (hfresh j s hs).symm
    refine ⟨t, by omega, ?_, ?_, loc, ?_, hlu⟩
    · intro r hr hrid
      rcases hrec r hr with rfl | hr0
      · exact absurd hrid hne
      · exact b1 r hr0 hrid
    · intro r hr hrid
      rcases hrec r hr with rfl | hr0
      · exact absurd hrid hne
      · exact b2 r hr0 hrid
    · by_cases hji : j = i
      · subst hji
        rw [hst, sessLookup_sessSet, if_neg hne]; exact hl
      · rw [hother j hji]; exact hl
  refine ⟨fun r hr => ?_, fun j => ?_, fun j s hs => ?_⟩
  · rcases hrec r hr with rfl | hr0
    · omega
    · have := h0.clk r hr0; omega
  · by_cases hji : j = i
    · subst hji; rw [hst]; exact sessSet_nodup _ _ (h0.nodup j)
    · rw [hother j hji]; exact h0.nodup j
  · by_cases hji : j = i
    · subst hji
      rw [hreg] at hs
      rcases List.mem_append.mp hs with hs | hs
      · exact hold j s hs
      · have e : s = sn := List.mem_singleton.mp hs
        subst e
        refine ⟨w0.clock, by omega, ?_, ?_, s', ?_, ?_⟩
        · intro r hr _
          rcases hrec r hr with rfl | hr0
          · omega
          · exact Int.le_of_lt (h0.clk r hr0)
        · intro r hr _ ha
          rcases hrec r hr with rfl | hr0
          · exact ⟨hcl, hmt⟩
          · have := h0.clk r hr0; omega
        · rw [hst, sessLookup_sessSet, if_pos hid]
        · unfold lu; split <;> omega
    · rw [hother j hji] at hs
      exact hold j s hs

theorem ri_connect {w : World} (hg : RInv w) (h : RI w) (c : String) (i : Nat) (client mount : String) (authOk : Bool)
    (ka : Nat) (will : Option Will) (hno : NoConn c w) : RI (w.connect c i client mount authOk ka will) := by
  cases authOk with
  | false =>
    unfold World.connect
    simp only [Bool.not_false, if_true]
    exact h.step (XStep.of_nodes_eq rfl)
  | true =>
    rw [connect_eq]
    have hx0 := x_connPre w c i client mount
    have hg0 := rinv_connPre hg c i client mount hno
    have hno0 : NoConn c (connPre w c i client mount) := hno.of_sameReg hg hg0 (sr_connPre w c i client mount)
    have h0 := h.step hx0
    split
    · exact h0.step ((x_tick _).trans (x_emit _ _ _))
    · rename_i herr
      have herr' := Classical.not_not.mp herr
      have hsc := sessCreate_ok _ _ _ _ _ _ _ herr'
      simp only
      unfold connMid
      simp only
      rw [hsc]
      simp only
      generalize connPre w c i client mount = w0 at *
      by_cases hi : i < w0.nodes.length
      · have hi1 : i < w0.tick.1.nodes.length := hi
        refine RI.create h0 i ⟨"S" ++ c, client, mount, (w0.node i).dist.peer, 0, will, w0.clock, 0⟩
          (connSess w0.now c client mount ka will)
          (((List.range w0.nodes.length).filter (· != i)).map (fun j => (j, ({ sessions := [⟨"S" ++ c, client, mount, (w0.node i).dist.peer, 0, will, w0.clock, 0⟩] } : Event))))
          rfl ?_ ?_ ?_ ?_ ?_ rfl rfl rfl rfl ?_
        · intro j hji
          show (World.setNode _ i _).node j = _
          rw [node_setNode_ne _ _ _ _ hji]
          unfold World.broadcast
          rw [node_setNode_ne _ _ _ _ hji, node_setNode_ne _ _ _ _ hji]
          rfl
        · show ((World.setNode _ i _).node i).reg = _
          rw [node_setNode_self _ _ _ (by simp [World.broadcast]; exact hi1)]
          show ((World.broadcast _ i _).node i).reg ++ _ = _
          unfold World.broadcast
          rw [node_setNode_self _ _ _ (by simp; exact hi1), node_setNode_self _ _ _ hi1]
          rfl
        · show ((World.setNode _ i _).node i).dist.sessions = _
          rw [node_setNode_self _ _ _ (by simp [World.broadcast]; exact hi1)]
          show ((World.broadcast _ i _).node i).dist.sessions = _
          rw [broadcast_dist, node_setNode_self _ _ _ hi1]
          rfl
        · show ((World.setNode _ i _).node i).pending = _
          rw [node_setNode_self _ _ _ (by simp [World.broadcast]; exact hi1)]
          show ((World.broadcast _ i _).node i).pending = _
          unfold World.broadcast
          rw [node_setNode_self _ _ _ (by simp; exact hi1), node_setNode_self _ _ _ hi1]
          simp only [AgentA.length_setNode]
          rfl
        · intro e he
          obtain ⟨j, _, rfl⟩ := List.mem_map.mp he
          rfl
        · intro j s hs e
          have := (hg0.node j).regConn s hs
          rw [e] at this
          exact hno0 j s hs (S_inj this).symm
      · refine h0.step ⟨Int.le_add_one (Int.le_refl _), fun j => ?_⟩
        have hi' : ¬ i < w0.tick.1.nodes.length := hi
        show NStep w0 j ((World.setNode _ i _).node j)
        rw [AgentA.node_setNode_ge _ _ _ _ (by simpa [World.broadcast] using hi')]
        unfold World.broadcast
        rw [AgentA.node_setNode_ge _ _ _ _ (by simpa using hi'), AgentA.node_setNode_ge _ _ _ _ hi']
        exact NStep.refl w0 j

/-! ### the byte-level path, and the operations of `applyOp` -/
open Wasp.Wire

theorem x_setBuf (w : World) (c : String) (b : Wire.Bytes) : XStep w (setBuf w c b) := XStep.of_nodes_eq rfl

theorem x_failConn (w : World) (c : String) : XStep w (failConn w c) := by
  unfold failConn
  split
  · exact XStep.refl w
  · split
    · exact x_shutdown _ _ _
    · exact XStep.of_nodes_eq rfl

theorem x_closeFin (w : World) (c : String) : XStep w (AgentT1.closeFin w c) := by
  unfold AgentT1.closeFin
  split
  · split
    · exact x_drop w c
    · exact XStep.of_nodes_eq rfl
  · exact x_emit _ _ _

/-- `GlobalInv` (as `GI`) together with the record invariant -/
def J (w : World) : Prop := GI w ∧ RI w

theorem J.step {w w' : World} (h : J w) (hg : GI w') (hs : XStep w w') : J w' := ⟨hg, h.2.step hs⟩

theorem j_setBuf {w : World} (h : J w) (c : String) (b : Wire.Bytes) : J (setBuf w c b) :=
  h.step (gi_setBuf h.1 c b) (x_setBuf w c b)

theorem j_failConn {w : World} (h : J w) (c : String) : J (failConn w c) := h.step (gi_failConn h.1 c) (x_failConn w c)

theorem j_applyDecoded {w : World} (h : J w) (c : String) (r : DRes) : J (applyDecoded w c r) := by
  refine ⟨gi_applyDecoded h.1 c r, ?_⟩
  unfold applyDecoded
  cases hf : w.conns.find? (fun e => e.1 == c) with
  | none => exact h.2
  | some p =>
    obtain ⟨x, i⟩ := p
    simp only []
    split
    · cases r with
      | pkt p => exact h.2.step (x_clientPacket _ _ _)
      | connect a b c d e => exact h.2.step (x_clientPacket _ _ _)
      | err => exact h.2.step (x_failConn _ _)
      | panic => exact h.2.step (x_failConn _ _)
    · rename_i hhs
      rw [hasSession_of_find hf] at hhs
      have hno := noConn_of_noSess h.1.2 hf (sess_none_of_not_isSome hhs)
      cases r with
      | connect client user pass ka will =>
        simp only []
        split
        · exact ri_connect h.1.2 h.2 _ _ _ _ _ _ _ hno
        · exact ri_connect h.1.2 h.2 _ _ _ _ _ _ _ hno
      | pkt p => exact h.2.step (x_failConn _ _)
      | err => exact h.2.step (x_failConn _ _)
      | panic => exact h.2.step (x_failConn _ _)

theorem j_pump (c : String) (fuel : Nat) : ∀ w : World, J w → J (pump fuel w c).1 := by
  induction fuel with
  | zero => intro w h; exact h
  | succ fuel ih =>
    intro w h
    unfold pump
    split
    · exact j_setBuf h _ _
    · split
      · exact j_setBuf h _ _
      · split
        · exact h
        · exact j_failConn (j_setBuf h _ _) _
        · exact ih _ (j_applyDecoded (j_setBuf h _ _) _ _)

theorem j_rawBytes {w : World} (h : J w) (c : String) (b : Wire.Bytes) : J (rawBytes w c b).1 := by
  unfold rawBytes
  split
  · exact h
  · exact j_pump c _ _ (j_setBuf h _ _)

theorem j_closeRaw {w : World} (h : J w) (c : String) : J (closeFromClientRaw w c) := by
  refine ⟨(gi_closeRaw h.1 c).1, ?_⟩
  rw [AgentT1.closeRaw_eq]
  refine RI.step ?_ (x_closeFin _ c)
  split
  · exact (j_setBuf h _ _).2
  · split
    · exact (j_applyDecoded (j_setBuf h _ _) _ _).2
    · exact (j_setBuf h _ _).2

theorem j_closeFromClient {w : World} (h : J w) (c : String) : J (closeFromClient w c) := by
  refine ⟨(gi_closeFromClient h.1 c).1, ?_⟩
  unfold closeFromClient
  exact (j_closeRaw h c).2.step (XStep.of_nodes_eq rfl)

theorem j_hsStep {w : World} (h : J w) (e : String × Int) : J (AgentT1.hsStep w e) := by
  refine ⟨gi_hsStep h.1 e, ?_⟩
  unfold AgentT1.hsStep
  split
  · exact (j_closeRaw (w := { w with hs := w.hs.filter (fun x => x.1 != e.1) })
      ⟨gi_frame h.1 rfl rfl rfl, h.2.step (XStep.of_nodes_eq rfl)⟩ _).2
  · exact h.2

theorem j_expireHandshakes {w : World} (h : J w) : J (expireHandshakes w) := by
  rw [AgentT1.expire_eq]
  exact foldl_inv J _ _ _ h (fun b a _ hb => j_hsStep hb a)

theorem j_idle {w : World} (h : J w) (ms : Int) : J (Wasp.Wire.idle w ms) := by
  unfold Wasp.Wire.idle
  exact j_expireHandshakes ⟨⟨AgentT3.idle_inv w ms h.1.1, rinv_idle h.1.2 ms⟩, h.2.step (x_idle w ms)⟩

theorem j_elapse {w : World} (h : J w) (ms : Int) : J (Wasp.Wire.elapse w ms) := by
  have hg := gi_elapse h.1 ms
  unfold Wasp.Wire.elapse at hg ⊢
  refine ⟨hg, ?_⟩
  have hs : XStep w { w with nodes := w.nodes.map (fun n => { n with timers := n.timers.map (fun t => (t.1 + ms, t.2)) }) } := by
    refine ⟨Int.le_refl _, fun j => ?_⟩
    rw [shift_node]
    exact NStep.same w j _ (fun s' hs' => ⟨s', hs', rfl⟩) rfl (fun _ he => he)
  have hj : J { w with nodes := w.nodes.map (fun n => { n with timers := n.timers.map (fun t => (t.1 + ms, t.2)) }) } := by
    refine ⟨?_, h.2.step hs⟩
    constructor
    · intro j
      rw [shift_node]
      exact PoolInv.congr (n := w.node j) rfl (h.1.1 j)
    · refine ⟨h.1.2.clockPos, fun j => ?_, fun j s hs => ?_⟩
      · rw [shift_node]
        have hn := h.1.2.node j
        exact ⟨hn.regNodup, hn.regConn, hn.subsWF, hn.subsClock, hn.pendClock⟩
      · rw [shift_node] at hs
        exact h.1.2.conns j s hs
  exact (j_idle hj ms).2

theorem j_init (n : Nat) : J (World.init n) := by
  refine ⟨gi_init n, ?_⟩
  have hnode : ∀ j, (World.init n).node j = { peer := (World.init n).node j |>.peer, dist := { peer := ((World.init n).node j).dist.peer }, pool := initPool } := by
    intro j
    simp only [World.init, World.node, List.getD_eq_getElem?_getD, List.getElem?_map]
    cases (List.range n)[j]? <;> rfl
  have hs : ∀ j, ((World.init n).node j).dist.sessions = [] := fun j => by rw [hnode j]
  have hp : ∀ j, ((World.init n).node j).pending = [] := fun j => by rw [hnode j]
  have hr : ∀ j, ((World.init n).node j).reg = [] := fun j => by rw [hnode j]
  refine ⟨fun r ⟨j, hj⟩ => ?_, fun j => by rw [hs j]; exact List.nodup_nil, fun i s hsm => by rw [hr i] at hsm; cases hsm⟩
  rcases hj with hj | ⟨e, he, _⟩
  · rw [hs j] at hj; cases hj
  · rw [hp j] at he; cases he

theorem j_step {w : World} (h : J w) (op : BOp) : J (applyOp w op) := by
  refine ⟨gi_step h.1 op, ?_⟩
  cases op with
  | connect c node client mount authOk ka will =>
    simp only [applyOp]
    have h1 : J (if w.conns.any (fun e => e.1 == c) then w.drop c else w) ∧
        NoConn c (if w.conns.any (fun e => e.1 == c) then w.drop c else w) := by
      split
      · exact ⟨⟨(gi_drop h.1 c).1, h.2.step (x_drop w c)⟩, (gi_drop h.1 c).2⟩
      · rename_i hany
        exact ⟨h, noConn_of_find_none h.1.2 (any_false_find hany)⟩
    generalize (if w.conns.any (fun e => e.1 == c) then w.drop c else w) = w1 at h1
    exact ri_connect (w := { w1 with out := w1.out.filter (fun e => e.1 != c), deaf := w1.deaf.filter (· != c) })
      (gi_frame (w' := { w1 with out := w1.out.filter (fun e => e.1 != c), deaf := w1.deaf.filter (· != c) }) h1.1.1 rfl rfl rfl).2 (h1.1.2.step (XStep.of_nodes_eq rfl)) _ _ _ _ _ _ _ (noConn_congr h1.2 rfl)
  | packet c pkt =>
    simp only [applyOp]
    split
    · exact h.2.step (x_clientPacket _ _ _)
    · exact h.2
  | drop c => exact (j_closeFromClient h c).2
  | openConn c node =>
    simp only [applyOp]
    have h1 : J (if w.conns.any (fun e => e.1 == c) then closeFromClient w c else w) := by
      split
      · exact j_closeFromClient h c
      · exact h
    exact h1.2.step (XStep.of_nodes_eq rfl)
  | raw c b => exact (j_rawBytes h c b).2
  | gossipAll => exact h.2.step (x_gossipAll w)
  | gossip f t => exact h.2.step (x_deliverGossip w f t)
  | gossipOne f t k =>
    simp only [applyOp]
    split
    · exact h.2
    · rename_i e he
      have hmem : e ∈ (w.node f).pending := (List.mem_filter.mp (List.mem_of_getElem? he)).1
      split
      · exact h.2.step (x_setPending w f _ (dropKth_mem t _ k))
      · refine h.2.step (x_takeMerge w f t _ (dropKth_mem t _ k) [e.2] ?_)
        intro ev hev v hv
        rw [List.mem_singleton.mp hev] at hv
        exact ⟨f, Or.inr ⟨e, hmem, hv⟩⟩
  | loseGossip f t =>
    simp only [applyOp]
    exact h.2.step (x_setPending w f _ (fun e he => (List.mem_filter.mp he).1))
  | sync f t =>
    simp only [applyOp]
    refine h.2.step (x_setStore w t _ (sstep_merge _ _ _ _ ?_))
    intro v hv
    exact ⟨f, Or.inl hv⟩
  | unreachable n b => exact h.2.step (x_setNode_same w n _)
  | logFailAll n b => exact h.2.step (x_setNode_same w n _)
  | logFailAt n k => exact h.2.step (x_setNode_same w n _)
  | logFailNone n => exact h.2.step (x_setNode_same w n _)
  | nodeFail n => exact h.2.step (x_nodeFail w n)
  | sweep n => exact h.2.step (x_sweep w n)
  | idle ms => exact (j_idle h ms).2
  | elapse ms => exact (j_elapse h ms).2
  | setPool n lo hi =>
    simp only [applyOp]
    split
    · exact h.2.step (x_setNode_same w n _)
    · exact h.2
  | rpcPublish n topic payload => exact h.2.step (x_distribute w n _)

theorem j_run (ops : List BOp) : ∀ w : World, J w → J (run w ops) := by
  induction ops with
  | nil => intro w h; exact h
  | cons op rest ih => intro w h; exact ih _ (j_step h op)

end Wasp.Broker.AgentT20

import Wasp.Model.BrokerOps
import Wasp.Proofs.BrokerT7
/-! helper lemmas for Wasp/Properties/C17E2E.lean (agent T8) -/

namespace Wasp.Broker
open Wasp.Dist Wasp.Topic Wasp.Crdt

/-- live subscriptions of registered sessions are stored under a filter inside the session's mount point -/
def SubSessInv (w : World) : Prop :=
  ∀ i, (w.node i).failed = false → ∀ kl ∈ (w.node i).dist.subs, ∀ u ∈ kl.2, isAdded u.stamp = true → u.peer = (w.node i).peer →
    ∀ r, (w.node i).sess u.session = some r → ∃ f, kl.1 = prefixMountPoint r.mount f

end Wasp.Broker

namespace Wasp.Broker.AgentT8
open Wasp.Broker Wasp.Dist Wasp.Topic Wasp.Crdt Wasp.Wire Wasp.Broker.AgentD Wasp.Broker.AgentT5

/-! ### the invariant of a one-node world

Node 0 (the only node): nothing is pending; while the node has not failed, every LIVE stored subscription belongs to a
registered session and its key is one of that session's `topics` (up to the exceptions `ex session key`, used in the
middle of SUBSCRIBE and of the session teardown); every element of a registered session's `topics` lies inside the
session's mount point. -/

/-- the subscription `u` stored under key `k`: if live, its session is registered and remembers `k` -/
def QLx (ex : String → String → Prop) (n : Node) (k : String) (u : Sub) : Prop :=
  isAdded u.stamp = true → (∃ r, n.sess u.session = some r ∧ k ∈ r.topics) ∨ ex u.session k

structure TNx (ex : String → String → Prop) (n : Node) : Prop where
  pend : n.pending = []
  live : n.failed = false → ∀ kl ∈ n.dist.subs, ∀ u ∈ kl.2, QLx ex n kl.1 u
  tops : ∀ r ∈ n.reg, ∀ t ∈ r.topics, ∃ f, t = prefixMountPoint r.mount f

structure Tx (ex : String → String → Prop) (w : World) : Prop where
  len : w.nodes.length = 1
  node : TNx ex (w.node 0)

def noEx : String → String → Prop := fun _ _ => False

abbrev T (w : World) : Prop := Tx noEx w

/-- registry invariant (`RInv`, Wasp/Proofs/BrokerT5.lean) and the one-node invariant together -/
structure TI (w : World) : Prop where
  r : RInv w
  t : T w

/-! ### generic -/

theorem default_pending : ({ peer := 0, dist := { peer := 0 }, pool := initPool } : Node).pending = [] := rfl

theorem pend_nil {ex : String → String → Prop} {w : World} (h : Tx ex w) (k : Nat) : (w.node k).pending = [] := by
  by_cases hk : k = 0
  · subst hk; exact h.node.pend
  · rw [node_oob w k (by rw [h.len]; omega)]

theorem subs_oob {ex : String → String → Prop} {w : World} (h : Tx ex w) (k : Nat) (hk : k ≠ 0) :
    (w.node k).dist.subs = [] := by
  rw [node_oob w k (by rw [h.len]; omega)]

theorem idx_zero {ex : String → String → Prop} {w : World} (h : Tx ex w) {i : Nat} {sid : String} {s : Sess}
    (hs : (w.node i).sess sid = some s) : i = 0 := by
  by_cases hi : i = 0
  · exact hi
  · exfalso
    have hmem := (sess_some hs).1
    rw [reg_oob w i (by rw [h.len]; omega)] at hmem
    cases hmem

theorem tx_mono {ex ex' : String → String → Prop} {w : World} (h : Tx ex w) (hsub : ∀ a k, ex a k → ex' a k) : Tx ex' w := by
  refine ⟨h.len, h.node.pend, fun hf kl hkl u hu hadd => ?_, h.node.tops⟩
  rcases h.node.live hf kl hkl u hu hadd with hh | hh
  · exact Or.inl hh
  · exact Or.inr (hsub _ _ hh)

theorem tx_frame {ex : String → String → Prop} {w w' : World} (h : Tx ex w) (hn : w'.nodes = w.nodes) : Tx ex w' :=
  ⟨by rw [hn]; exact h.len, by rw [node_congr hn]; exact h.node⟩

theorem tx_emit {ex : String → String → Prop} {w : World} (h : Tx ex w) (c : String) (p : Pkt) : Tx ex (w.emit c p) :=
  tx_frame h rfl

theorem tx_tick {ex : String → String → Prop} {w : World} (h : Tx ex w) : Tx ex w.tick.1 := tx_frame h rfl

theorem tx_setNode {ex : String → String → Prop} {w : World} (h : Tx ex w) (i : Nat) (n' : Node) (hn : i = 0 → TNx ex n') :
    Tx ex (w.setNode i n') := by
  refine ⟨by rw [setNode_length]; exact h.len, ?_⟩
  rw [node_setNode]
  split
  · rename_i hc
    exact hn hc.1.symm
  · exact h.node

/-- the registry, the subscriptions, the pending gossip and the failure flag of the node are untouched -/
theorem tx_setNode_same {ex : String → String → Prop} {w : World} (h : Tx ex w) (i : Nat) (n' : Node)
    (hr : n'.reg = (w.node i).reg := by rfl) (hd : n'.dist.subs = (w.node i).dist.subs := by rfl)
    (hf : n'.failed = (w.node i).failed := by rfl) (hp : n'.pending = (w.node i).pending := by rfl) :
    Tx ex (w.setNode i n') := by
  refine tx_setNode h i n' (fun hi => ?_)
  subst hi
  have hn := h.node
  refine ⟨by rw [hp]; exact hn.pend, ?_, by rw [hr]; exact hn.tops⟩
  intro hf' kl hkl u hu hadd
  rw [hd] at hkl
  rw [hf] at hf'
  have := hn.live hf' kl hkl u hu hadd
  unfold Node.sess at this ⊢
  rw [hr]
  exact this

theorem tx_broadcast {ex : String → String → Prop} {w : World} (h : Tx ex w) (i : Nat) (ev : Event) :
    Tx ex (w.broadcast i ev) := by
  unfold World.broadcast
  refine tx_setNode h i _ (fun hi => ?_)
  subst hi
  have hn := h.node
  refine ⟨?_, hn.live, hn.tops⟩
  show (w.node 0).pending ++ _ = _
  rw [h.len, hn.pend]
  have : (List.filter (fun x => x != 0) (List.range 1)) = [] := by decide
  rw [this]
  rfl

/-- the replicated state of the node is written -/
theorem tx_setDist {ex : String → String → Prop} {w : World} (h : Tx ex w) (i : Nat) (d : State)
    (hd : i = 0 → (w.node 0).failed = false → (∀ kl ∈ (w.node 0).dist.subs, ∀ u ∈ kl.2, QLx ex (w.node 0) kl.1 u) →
      ∀ kl ∈ d.subs, ∀ u ∈ kl.2, QLx ex (w.node 0) kl.1 u) :
    Tx ex (w.setNode i { w.node i with dist := d }) := by
  refine tx_setNode h i _ (fun hi => ?_)
  subst hi
  exact ⟨h.node.pend, fun hf => hd rfl hf (h.node.live hf), h.node.tops⟩

theorem tx_setDist_same {ex : String → String → Prop} {w : World} (h : Tx ex w) (i : Nat) (d : State)
    (hs : d.subs = (w.node i).dist.subs) : Tx ex (w.setNode i { w.node i with dist := d }) :=
  tx_setDist h i d (fun hi _ hl => by subst hi; rw [hs]; exact hl)

/-- tick, write the replicated state, queue the broadcast -/
theorem tx_distWrite {ex : String → String → Prop} {w : World} (h : Tx ex w) (i : Nat) (d : State) (ev : Event)
    (hd : i = 0 → (w.node 0).failed = false → (∀ kl ∈ (w.node 0).dist.subs, ∀ u ∈ kl.2, QLx ex (w.node 0) kl.1 u) →
      ∀ kl ∈ d.subs, ∀ u ∈ kl.2, QLx ex (w.node 0) kl.1 u) :
    Tx ex ((w.tick.1.setNode i { w.tick.1.node i with dist := d }).broadcast i ev) :=
  tx_broadcast (tx_setDist (tx_tick h) i d hd) i ev

theorem tx_distWrite_same {ex : String → String → Prop} {w : World} (h : Tx ex w) (i : Nat) (d : State) (ev : Event)
    (hs : d.subs = (w.node i).dist.subs) :
    Tx ex ((w.tick.1.setNode i { w.tick.1.node i with dist := d }).broadcast i ev) :=
  tx_broadcast (tx_setDist_same (tx_tick h) i d hs) i ev

/-! ### sessions -/

theorem find_setSess_fwd (l : List Sess) (s' : Sess) (x : String) (r : Sess) (h : l.find? (fun s => s.id == x) = some r) :
    (l.map (fun y => if y.id == s'.id then s' else y)).find? (fun s => s.id == x) = some (if r.id == s'.id then s' else r) := by
  rw [List.find?_map]
  have hcomp : ((fun (s : Sess) => s.id == x) ∘ fun y => if (y.id == s'.id) = true then s' else y) = (fun s => s.id == x) := by
    funext y
    simp only [Function.comp]
    split
    · rename_i h; rw [beq_iff_eq.mp h]
    · rfl
  rw [hcomp, h]
  rfl

theorem sess_setSess_fwd (n : Node) (s' : Sess) (x : String) (r : Sess) (h : n.sess x = some r) :
    (n.setSess s').sess x = some (if r.id == s'.id then s' else r) :=
  find_setSess_fwd n.reg s' x r h

theorem mem_setSess {n : Node} {s' x : Sess} (hx : x ∈ (n.setSess s').reg) : x = s' ∨ x ∈ n.reg := by
  simp only [Node.setSess, List.mem_map] at hx
  obtain ⟨y, hy, rfl⟩ := hx
  split
  · exact Or.inl rfl
  · exact Or.inr hy

/-- the session found under `sid` is replaced by one with the same id and mount point whose new `topics` lie inside the
    mount point and still contain the key of every live subscription of the session -/
theorem tx_setSess {ex : String → String → Prop} {w : World} (h : Tx ex w) (i : Nat) (sid : String) (s s2 : Sess)
    (hs : (w.node i).sess sid = some s) (hid : s2.id = s.id) (hm : s2.mount = s.mount)
    (htop : ∀ t ∈ s2.topics, t ∈ s.topics ∨ ∃ f, t = prefixMountPoint s.mount f)
    (hkeep : (w.node i).failed = false → ∀ kl ∈ (w.node i).dist.subs, ∀ u ∈ kl.2, isAdded u.stamp = true → u.session = sid →
      kl.1 ∈ s.topics → kl.1 ∈ s2.topics) :
    Tx ex (w.setNode i ((w.node i).setSess s2)) := by
  refine tx_setNode h i _ (fun hi => ?_)
  subst hi
  have hn := h.node
  obtain ⟨hmem, hsid⟩ := sess_some hs
  refine ⟨hn.pend, ?_, ?_⟩
  · intro hf kl hkl u hu hadd
    have hf' : (w.node 0).failed = false := hf
    rcases hn.live hf' kl hkl u hu hadd with ⟨r, hr, hk⟩ | hh
    · left
      refine ⟨_, sess_setSess_fwd _ s2 _ r hr, ?_⟩
      split
      · rename_i hc
        have e1 : r.id = s2.id := beq_iff_eq.mp hc
        have e2 : u.session = sid := by rw [← (sess_some hr).2, e1, hid, hsid]
        have e3 : r = s := by
          rw [e2, hs] at hr
          exact (Option.some.inj hr).symm
        subst e3
        exact hkeep hf' kl hkl u hu hadd e2 hk
      · exact hk
    · exact Or.inr hh
  · intro x hx t ht
    rcases mem_setSess hx with e | hx
    · subst e
      rw [hm]
      rcases htop t ht with h1 | h1
      · exact hn.tops s hmem t h1
      · exact h1
    · exact hn.tops x hx t ht

/-- `setSess` with the same `topics` -/
theorem tx_setSess_same {ex : String → String → Prop} {w : World} (h : Tx ex w) (i : Nat) (sid : String) (s s2 : Sess)
    (hs : (w.node i).sess sid = some s) (hid : s2.id = s.id := by rfl) (hm : s2.mount = s.mount := by rfl)
    (ht : s2.topics = s.topics := by rfl) : Tx ex (w.setNode i ((w.node i).setSess s2)) :=
  tx_setSess h i sid s s2 hs hid hm (fun t h1 => Or.inl (by rw [← ht]; exact h1))
    (fun _ _ _ _ _ _ _ hk => by rw [ht]; exact hk)

/-! ### writer, publish pipeline -/

theorem tx_extendDeadline {ex : String → String → Prop} {w : World} (h : Tx ex w) (i : Nat) (sid : String) :
    Tx ex (w.extendDeadline i sid) := by
  unfold World.extendDeadline
  simp only []
  split
  · rename_i s hs
    exact tx_setSess_same h i sid s _ hs
  · exact h

theorem tx_sessDelete {ex : String → String → Prop} {w : World} (h : Tx ex w) (i : Nat) (sid : String) :
    Tx ex (w.sessDelete i sid) := by
  unfold World.sessDelete
  simp only []
  have h1 : Tx ex (w.tick.1.setNode i { w.tick.1.node i with dist := (Wasp.Dist.sessDelete (w.tick.1.node i).dist w.tick.2 sid).1 }) :=
    tx_setDist_same (tx_tick h) i _ (sessDelete_subs _ _ _)
  split
  · exact tx_broadcast h1 i _
  · exact h1

theorem tx_poolPut {ex : String → String → Prop} {w : World} (h : Tx ex w) (i : Nat) (mid : Int) : Tx ex (w.poolPut i mid) := by
  unfold World.poolPut
  exact tx_setNode_same h i _

theorem tx_armAndSend {ex : String → String → Prop} {w : World} (h : Tx ex w) (i : Nat) (st : Stored) :
    Tx ex (w.armAndSend i st) := by
  unfold World.armAndSend
  cases st with
  | out1 sid topic payload retain dup mid =>
    simp only []
    split
    · exact h
    · split
      · exact tx_emit (tx_setNode_same (tx_extendDeadline h i sid) i _) _ _
      · exact tx_extendDeadline h i sid
  | out2 sid topic payload retain dup mid =>
    simp only []
    split
    · exact h
    · split
      · exact tx_emit (tx_setNode_same (tx_extendDeadline h i sid) i _) _ _
      · exact tx_extendDeadline h i sid
  | rel sid mid =>
    simp only []
    split
    · exact h
    · refine tx_emit (tx_setNode_same (tx_extendDeadline h i sid) i _ ?_ ?_ ?_ ?_) _ _ <;> split <;> rfl
  | inbound a b c d => exact h

theorem tx_sendArmed {ex : String → String → Prop} {w : World} (h : Tx ex w) (i : Nat) (st : Stored) (sid : String) (mid : Int) :
    Tx ex (w.sendArmed i st sid mid) := by
  unfold World.sendArmed
  simp only []
  split
  · exact tx_poolPut (tx_armAndSend h i st) i mid
  · exact tx_armAndSend h i st

theorem tx_send {ex : String → String → Prop} (i : Nat) (p : Pub) (rcpt : List (String × Int)) :
    ∀ w : World, Tx ex w → Tx ex (w.send i rcpt p) := by
  induction rcpt with
  | nil => intro w h; exact h
  | cons hd rest ih =>
    intro w h
    obtain ⟨sid, qos⟩ := hd
    unfold World.send
    simp only []
    split
    · exact ih w h
    · split
      · exact ih _ (tx_emit (tx_extendDeadline h i sid) _ _)
      · split
        · split
          · exact h
          · exact ih _ (tx_sendArmed (tx_setNode_same h i _) i _ sid _)
        · exact ih w h

theorem tx_onResolved {ex : String → String → Prop} {w : World} (h : Tx ex w) (i : Nat) (ev : Ack.Resolved) (st : Stored) :
    Tx ex (w.onResolved i ev st) := by
  unfold World.onResolved
  cases st <;> simp only <;> repeat' split
  all_goals first | exact tx_armAndSend h _ _ | exact tx_poolPut h _ _ | exact h

theorem tx_deliverLocal {ex : String → String → Prop} {w : World} (h : Tx ex w) (j : Nat) (p : Pub) :
    Tx ex (w.deliverLocal j p) := by
  unfold World.deliverLocal
  exact tx_send _ _ _ _ h

theorem tx_appendLog {ex : String → String → Prop} {w : World} (h : Tx ex w) (j : Nat) (p : Pub) :
    Tx ex (w.setNode j ((w.node j).appendLog p).1) := by
  have := appendLog_same (w.node j) p
  exact tx_setNode_same h j _ this.1 (by rw [this.2.1]) (AgentT1.appendLog_failed _ _) this.2.2

theorem tx_distribute {ex : String → String → Prop} {w : World} (h : Tx ex w) (i : Nat) (p : Pub) :
    Tx ex (w.distribute i p).1 := by
  unfold World.distribute
  simp only
  apply foldl_inv (P := fun (acc : World × Bool) => Tx ex acc.1)
  · exact h
  · intro acc peer _ hacc
    split
    · exact hacc
    · split
      · exact hacc
      · split
        · exact tx_deliverLocal (tx_appendLog hacc _ _) _ _
        · exact tx_appendLog hacc _ _

theorem tx_retainStep {ex : String → String → Prop} {w : World} (h : Tx ex w) (i : Nat) (p : Pub) :
    Tx ex (retainStep w i p) := by
  unfold retainStep
  split
  · exact tx_distWrite_same h i _ _ (topic_step (w.node i).dist w.clock p).1
  · exact h

theorem tx_publishJob {ex : String → String → Prop} {w : World} (h : Tx ex w) (i : Nat) (p : Pub) (onOk : World → World)
    (hok : ∀ w, Tx ex w → Tx ex (onOk w)) : Tx ex (w.publishJob i p onOk) := by
  rw [publishJob_eq]
  have h1 := tx_distribute (tx_retainStep h i p) i { p with retain := false }
  split
  · exact hok _ h1
  · exact h1

theorem tx_ackFrom {ex : String → String → Prop} {w : World} (h : Tx ex w) (i : Nat) (pfx : String) (kind : Ack.PType) (mid : Int) :
    Tx ex (w.ackFrom i pfx kind mid) := by
  unfold World.ackFrom
  simp only
  refine foldl_inv (Tx ex) _ _ _ (tx_setNode_same h i _) ?_
  intro b ev _ hb
  split
  · exact hb
  · rename_i st _
    have hb1 := tx_setNode_same hb i { b.node i with stored := storedErase ev.key (b.node i).stored } rfl rfl rfl rfl
    cases st with
    | inbound a conn pub imid => exact tx_publishJob hb1 _ _ _ (fun w hw => tx_emit hw _ _)
    | out1 a b c d e f => exact tx_onResolved hb1 _ _ _
    | out2 a b c d e f => exact tx_onResolved hb1 _ _ _
    | rel a b => exact tx_onResolved hb1 _ _ _

theorem tx_sweep {ex : String → String → Prop} {w : World} (h : Tx ex w) (i : Nat) : Tx ex (w.sweep i) := by
  unfold World.sweep
  simp only
  have h0 : Tx ex ({ w with epoch := w.epoch + 1 } : World) := tx_frame h rfl
  refine foldl_inv (Tx ex) _ _ _ (tx_setNode_same h0 i _) ?_
  intro b ev _ hb
  split
  · exact hb
  · exact tx_onResolved (tx_setNode_same hb i _) _ _ _

/-! ### subscriptions -/

theorem tx_discharge {ex ex' : String → String → Prop} {w : World} (h : Tx ex' w)
    (hd : (w.node 0).failed = false → ∀ kl ∈ (w.node 0).dist.subs, ∀ u ∈ kl.2, isAdded u.stamp = true → ex' u.session kl.1 →
      (∃ r, (w.node 0).sess u.session = some r ∧ kl.1 ∈ r.topics) ∨ ex u.session kl.1) : Tx ex w := by
  refine ⟨h.len, h.node.pend, fun hf kl hkl u hu hadd => ?_, h.node.tops⟩
  rcases h.node.live hf kl hkl u hu hadd with hh | hh
  · exact Or.inl hh
  · exact hd hf kl hkl u hu hadd hh

theorem tx_subCreate {ex : String → String → Prop} {w : World} (h : Tx ex w) (i : Nat) (sid pat : String) (qos : Int) :
    Tx (fun a k => ex a k ∨ (a = sid ∧ k = pat)) (w.subCreate i sid pat qos) := by
  have h' : Tx (fun a k => ex a k ∨ (a = sid ∧ k = pat)) w := tx_mono h (fun a k hh => Or.inl hh)
  refine tx_distWrite h' i (Wasp.Dist.subCreate (w.node i).dist w.clock sid pat qos).1
    (Wasp.Dist.subCreate (w.node i).dist w.clock sid pat qos).2 (fun hi _ hl => ?_)
  subst hi
  exact subsSet_forall (fun k u => QLx _ (w.node 0) k u) _ _ hl (fun _ => Or.inr (Or.inr ⟨rfl, rfl⟩))

theorem tx_subDelete {ex : String → String → Prop} {w : World} (h : Tx ex w) (i : Nat) (sid pat : String) :
    Tx ex (w.subDelete i sid pat) := by
  refine tx_distWrite h i (Wasp.Dist.subDelete (w.node i).dist w.clock sid pat).1
    (Wasp.Dist.subDelete (w.node i).dist w.clock sid pat).2 (fun hi _ hl => ?_)
  subst hi
  refine subsSet_forall (fun k u => QLx _ (w.node 0) k u) _ _ hl (fun hadd => ?_)
  have := tomb_not_added sid pat (w.node 0).dist.peer w.clock
  unfold tomb at this
  rw [this] at hadd
  cases hadd

theorem sinv_of_ninv {c : Int} {n : Node} (h : NInv c n) : SInv c n.dist.subs :=
  ⟨h.subsWF.1, fun kl hkl => (h.subsWF.2 kl hkl).1, fun kl hkl => (h.subsWF.2 kl hkl).2,
    fun kl hkl u hu _ => h.subsClock kl hkl u hu⟩

/-- the store-and-remember step of SUBSCRIBE for one filter inside the session's mount point -/
theorem t_subStep {w : World} (h : T w) (i : Nat) (sid : String) (s : Sess) (hs : (w.node i).sess sid = some s)
    (tq : String × Nat) (hpat : ∃ f, tq.1 = prefixMountPoint s.mount f) :
    T (AgentT6.subStep w i sid tq) ∧ ∃ s2, ((AgentT6.subStep w i sid tq).node i).sess sid = some s2 ∧ s2.mount = s.mount := by
  have hi := idx_zero h hs
  subst hi
  have hlt : 0 < w.nodes.length := by rw [h.len]; omega
  obtain ⟨hreg, _, _, hlen⟩ := AgentT6.subCreate_frame w 0 hlt sid tq.1 tq.2
  have hb1 := tx_subCreate h 0 sid tq.1 tq.2
  have hs1 : ((w.subCreate 0 sid tq.1 tq.2).node 0).sess sid = some s := by
    unfold Node.sess at hs ⊢
    rw [hreg]; exact hs
  unfold AgentT6.subStep
  simp only [hs1]
  split
  · rename_i hc
    refine ⟨tx_discharge hb1 (fun _ kl _ u _ _ hex => ?_), s, hs1, rfl⟩
    rcases hex with hex | ⟨e1, e2⟩
    · exact absurd hex (fun hh => hh)
    · left
      rw [e1, e2]
      exact ⟨s, hs1, by simpa using hc⟩
  · have hlt1 : 0 < (w.subCreate 0 sid tq.1 tq.2).nodes.length := by rw [hlen]; exact hlt
    have hb2 := tx_setSess hb1 0 sid s { s with topics := s.topics ++ [tq.1] } hs1 rfl rfl
      (fun t ht => by
        rcases List.mem_append.mp ht with ht | ht
        · exact Or.inl ht
        · right
          rw [List.mem_singleton.mp ht]
          exact hpat)
      (fun _ _ _ _ _ _ _ hk => List.mem_append_left _ hk)
    have hs2 : (((w.subCreate 0 sid tq.1 tq.2).setNode 0
        (((w.subCreate 0 sid tq.1 tq.2).node 0).setSess { s with topics := s.topics ++ [tq.1] })).node 0).sess sid =
          some { s with topics := s.topics ++ [tq.1] } := by
      rw [node_setNode_self _ _ _ hlt1, sess_setSess_fwd _ _ _ s hs1]
      simp
    refine ⟨tx_discharge hb2 (fun _ kl _ u _ _ hex => ?_), _, hs2, rfl⟩
    rcases hex with hex | ⟨e1, e2⟩
    · exact absurd hex (fun hh => hh)
    · left
      rw [e1, e2]
      exact ⟨_, hs2, by simp⟩

/-- the delete-and-forget step of UNSUBSCRIBE for one filter -/
theorem ti_unsubStep {w : World} (h : TI w) (i : Nat) (sid pt : String) :
    TI (match ((w.subDelete i sid pt).node i).sess sid with
        | some s' => (w.subDelete i sid pt).setNode i
            (((w.subDelete i sid pt).node i).setSess { s' with topics := s'.topics.filter (· != pt) })
        | none => w.subDelete i sid pt) := by
  have hr1 := rinv_subDelete h.r i sid pt
  have ht1 := tx_subDelete h.t i sid pt
  split
  · rename_i s' hs'
    refine ⟨rinv_setSess hr1 i sid s' _ hs' rfl rfl, ?_⟩
    have hi := idx_zero ht1 hs'
    subst hi
    have hlt : 0 < w.nodes.length := by rw [h.t.len]; omega
    have hgone : Gone sid pt ((w.subDelete 0 sid pt).node 0).dist.subs := by
      rw [subDelete_node_subs w 0 hlt]
      exact gone_after_subDelete (sinv_of_ninv (h.r.node 0)) (Int.le_refl _) sid pt _
    refine tx_setSess ht1 0 sid s' _ hs' rfl rfl (fun t ht => Or.inl (List.mem_filter.mp ht).1) ?_
    intro _ kl hkl u hu hadd hus hk
    refine List.mem_filter.mpr ⟨hk, ?_⟩
    simp only [bne_iff_ne, ne_eq]
    intro e
    exact hgone kl hkl u hu hadd ⟨hus, by rw [((hr1.node 0).subsWF.2 kl hkl).2 u hu, e]⟩
  · exact ⟨hr1, ht1⟩

/-! ### packets -/

theorem ti_publishJob {w : World} (h : TI w) (i : Nat) (p : Pub) (onOk : World → World)
    (hok : ∀ w, TI w → TI (onOk w)) : TI (w.publishJob i p onOk) := by
  rw [publishJob_eq]
  have h1 : TI ((retainStep w i p).distribute i { p with retain := false }).1 :=
    ⟨rinv_distribute (rinv_retainStep h.r i p) i _, tx_distribute (tx_retainStep h.t i p) i _⟩
  split
  · exact hok _ h1
  · exact h1

theorem ti_emit {w : World} (h : TI w) (c : String) (p : Pkt) : TI (w.emit c p) := ⟨rinv_emit h.r c p, tx_emit h.t c p⟩

theorem ti_process {w : World} (h : TI w) (i : Nat) (sid : String) (pkt : CPkt) : TI (w.process i sid pkt).1 := by
  refine ⟨rinv_process h.r i sid pkt, ?_⟩
  unfold World.process
  simp only []
  split
  · exact h.t
  · rename_i s hs
    cases pkt with
    | connect => exact h.t
    | publish topic payload qos retain dup mid =>
      simp only []
      split
      · exact tx_publishJob h.t _ _ _ (fun _ h => h)
      · split
        · exact tx_publishJob h.t _ _ _ (fun w h => tx_emit h _ _)
        · split
          · split
            · exact tx_emit (tx_setNode_same h.t i _) _ _
            · exact h.t
          · exact h.t
    | subscribe mid topics =>
      simp only []
      refine foldl_inv T _ _ _ ?_ ?_
      · apply tx_emit
        have key := foldl_inv (fun b : World => T b ∧ ∃ s2, (b.node i).sess sid = some s2 ∧ s2.mount = s.mount)
          (fun w tq => AgentT6.subStep w i sid tq) (topics.map (fun tq => (prefixMountPoint s.mount tq.1, tq.2))) w
          ⟨h.t, s, hs, rfl⟩ (by
            intro b a ha hb
            obtain ⟨hbT, s2, hs2, hm2⟩ := hb
            obtain ⟨x, _, rfl⟩ := List.mem_map.mp ha
            have := t_subStep hbT i sid s2 hs2 (prefixMountPoint s.mount x.1, x.2) ⟨x.1, by rw [hm2]⟩
            exact ⟨this.1, by obtain ⟨s3, h3, hm3⟩ := this.2; exact ⟨s3, h3, hm3.trans hm2⟩⟩)
        exact key.1
      · intro b a _ hb
        refine foldl_inv T _ _ _ hb ?_
        intro b' r _ hb'
        exact tx_send _ _ _ _ hb'
    | unsubscribe mid topics =>
      simp only []
      apply tx_emit
      have key := foldl_inv TI
        (fun w t => match ((w.subDelete i sid (prefixMountPoint s.mount t)).node i).sess sid with
          | some s' => (w.subDelete i sid (prefixMountPoint s.mount t)).setNode i
              (((w.subDelete i sid (prefixMountPoint s.mount t)).node i).setSess
                { s' with topics := s'.topics.filter (· != prefixMountPoint s.mount t) })
          | none => w.subDelete i sid (prefixMountPoint s.mount t)) topics w h
        (fun b a _ hb => ti_unsubStep hb i sid (prefixMountPoint s.mount a))
      exact key.t
    | puback mid => exact tx_ackFrom h.t _ _ _ _
    | pubrec mid => exact tx_ackFrom h.t _ _ _ _
    | pubrel mid => exact tx_ackFrom h.t _ _ _ _
    | pubcomp mid => exact tx_ackFrom h.t _ _ _ _
    | pingreq =>
      simp only
      split
      · split
        · exact tx_emit h.t _ _
        · exact h.t
      · exact h.t
      · split
        · exact tx_emit h.t _ _
        · exact h.t
    | disconnect => exact h.t
    | other => exact h.t

/-! ### session end -/

theorem sess_unreg_ne (n : Node) (sid x : String) (hne : x ≠ sid) :
    Node.sess { n with reg := n.reg.filter (fun y => y.id != sid) } x = n.sess x := by
  unfold Node.sess
  simp only
  rw [List.find?_filter]
  congr 1
  funext y
  by_cases hyx : y.id = x
  · subst hyx
    simp [hne]
  · simp [hyx]

theorem fold_subDelete_patkey (i : Nat) (sid : String) (topics : List String) (w : World) (hi : i < w.nodes.length)
    (h : ∀ kl ∈ (w.node i).dist.subs, ∀ u ∈ kl.2, u.pattern = kl.1) :
    ∀ kl ∈ ((topics.foldl (fun w t => w.subDelete i sid t) w).node i).dist.subs, ∀ u ∈ kl.2, u.pattern = kl.1 := by
  induction topics generalizing w with
  | nil => exact h
  | cons t rest ih =>
    simp only [List.foldl_cons]
    apply ih _ (by simpa using hi)
    rw [subDelete_node_subs w i hi]
    exact subsSet_forall (fun k x => x.pattern = k) _ _ h rfl

theorem t_tdBase {w : World} (i : Nat) (s : Sess) (hn : NInv w.clock (w.node i)) (h : T w)
    (hs : (w.node i).sess s.id = some s) : T (tdBase w i s) := by
  have hi := idx_zero h hs
  subst hi
  have hlt : 0 < w.nodes.length := by rw [h.len]; omega
  -- the session is unregistered: its live subscriptions are the exceptions
  have h0 : Tx (fun a k => a = s.id ∧ k ∈ s.topics)
      (w.setNode 0 { w.node 0 with reg := (w.node 0).reg.filter (fun x => x.id != s.id) }) := by
    refine tx_setNode (tx_mono h (fun _ _ hh => absurd hh (fun x => x))) 0 _ (fun _ => ?_)
    refine ⟨h.node.pend, ?_, fun r hr => h.node.tops r (List.mem_filter.mp hr).1⟩
    intro hf kl hkl u hu hadd
    rcases h.node.live hf kl hkl u hu hadd with ⟨r, hr, hk⟩ | hh
    · by_cases hus : u.session = s.id
      · right
        rw [hus, hs] at hr
        cases hr
        exact ⟨hus, hk⟩
      · left
        exact ⟨r, by rw [sess_unreg_ne _ _ _ hus]; exact hr, hk⟩
    · exact absurd hh (fun x => x)
  have h1 : Tx (fun a k => a = s.id ∧ k ∈ s.topics) (tdBase w 0 s) := by
    unfold tdBase
    simp only
    exact foldl_inv (Tx _) _ _ _ (tx_frame h0 rfl) (fun b a _ hb => tx_subDelete hb 0 s.id a)
  refine tx_discharge h1 (fun _ kl hkl u hu hadd hex => ?_)
  exfalso
  have hpk : u.pattern = kl.1 := by
    have := fold_subDelete_patkey 0 s.id s.topics
      ({ (w.setNode 0 { w.node 0 with reg := (w.node 0).reg.filter (fun x => x.id != s.id) }).emit s.conn .closed with
          conns := ((w.setNode 0 { w.node 0 with reg := (w.node 0).reg.filter (fun x => x.id != s.id) }).emit s.conn .closed).conns.filter
            (fun (c : String × Nat) => c.1 != s.conn) } : World)
      (by show 0 < (w.setNode 0 _).nodes.length; simpa using hlt)
      (by
        show ∀ kl ∈ ((w.setNode 0 _).node 0).dist.subs, _
        rw [node_setNode_self _ _ _ hlt]
        exact fun kl hkl => (hn.subsWF.2 kl hkl).2)
    exact this kl hkl u hu
  exact tdBase_gone w 0 hlt s (sinv_of_ninv hn) kl.1 hex.2 kl hkl u hu hadd ⟨hex.1, hpk⟩

theorem t_teardown {w : World} (i : Nat) (s : Sess) (hn : NInv w.clock (w.node i)) (h : T w)
    (hs : (w.node i).sess s.id = some s) : T (teardown w i s).1 := by
  rw [teardown_eq]
  have hb := t_tdBase i s hn h hs
  split
  · exact tx_sessDelete hb _ _
  · exact hb

theorem t_shutdown {w : World} (i : Nat) (sid : String) (hn : NInv w.clock (w.node i)) (h : T w) :
    T (w.shutdownSession i sid) := by
  cases hs : (w.node i).sess sid with
  | none => unfold World.shutdownSession; simp only [hs]; exact h
  | some s =>
    rw [shutdown_eq w i sid s hs]
    have hs' : (w.node i).sess s.id = some s := by rw [(sess_some hs).2]; exact hs
    have ht := t_teardown i s hn h hs'
    split
    · exact ht
    · split
      · exact ht
      · split
        · exact ht
        · exact tx_publishJob ht _ _ _ (fun _ h => h)

theorem ti_shutdown {w : World} (h : TI w) (i : Nat) (sid : String) : TI (w.shutdownSession i sid) :=
  ⟨rinv_shutdown h.r i sid, t_shutdown i sid (h.r.node i) h.t⟩

theorem ti_clientPacket {w : World} (h : TI w) (conn : String) (pkt : CPkt) : TI (w.clientPacket conn pkt) := by
  unfold World.clientPacket
  split
  · exact h
  · rename_i c i hc
    simp only []
    split
    · exact h
    · have hp := ti_process h i ("S" ++ conn) pkt
      generalize w.process i ("S" ++ conn) pkt = r at hp
      obtain ⟨w', res⟩ := r
      simp only at hp ⊢
      cases res with
      | ok => exact ⟨rinv_extendDeadline hp.r _ _, tx_extendDeadline hp.t _ _⟩
      | disconnected =>
        simp only []
        apply ti_shutdown
        split
        · rename_i s hs
          exact ⟨rinv_setSess hp.r i _ s _ hs rfl rfl, tx_setSess_same hp.t i _ s _ hs⟩
        · exact hp
      | error => exact ti_shutdown hp _ _

/-! ### CONNECT, the client closes -/

theorem t_connPre {w : World} (h : T w) (c : String) (i : Nat) (client mount : String) : T (connPre w c i client mount) := by
  unfold connPre
  simp only
  have h0 : T ({ w with conns := (w.conns.filter (fun (c' : String × Nat) => c'.1 != c)) ++ [(c, i)] } : World) :=
    tx_frame h rfl
  split
  · exact tx_sessDelete h0 _ _
  · exact h0

theorem t_connMid {w : World} (h : T w) (c : String) (i : Nat) (client mount : String) (will : Option Will) :
    T (connMid w c i client mount will) := by
  unfold connMid
  simp only
  have h1 : T (connPre w c i client mount).tick.1 := tx_tick (t_connPre h c i client mount)
  have h2 := tx_setDist_same h1 i (sessCreate ((connPre w c i client mount).tick.1.node i).dist (connPre w c i client mount).clock
      ("S" ++ c) client 0 will mount).1 (sessCreate_subs _ _ _ _ _ _ _)
  split
  · exact tx_broadcast h2 i _
  · exact h2

theorem sess_append_keep (n : Node) (s0 : Sess) (x : String) (r : Sess) (h : n.sess x = some r) :
    Node.sess { n with reg := n.reg ++ [s0] } x = some r := by
  unfold Node.sess at h ⊢
  simp only [List.find?_append, h]
  rfl

theorem t_connect {w : World} (h : T w) (c : String) (i : Nat) (client mount : String) (authOk : Bool)
    (keepalive : Nat) (will : Option Will) : T (w.connect c i client mount authOk keepalive will) := by
  cases authOk with
  | false =>
    unfold World.connect
    simp only [Bool.not_false, if_true]
    exact tx_frame h rfl
  | true =>
    rw [connect_eq]
    split
    · exact tx_emit (tx_tick (t_connPre h c i client mount)) _ _
    · simp only
      apply tx_emit
      have hM := t_connMid h c i client mount will
      generalize connMid w c i client mount will = W at hM
      refine tx_setNode hM i _ (fun hi => ?_)
      subst hi
      refine ⟨hM.node.pend, ?_, ?_⟩
      · intro hf kl hkl u hu hadd
        rcases hM.node.live hf kl hkl u hu hadd with ⟨r, hr, hk⟩ | hh
        · exact Or.inl ⟨r, sess_append_keep _ _ _ r hr, hk⟩
        · exact Or.inr hh
      · intro x hx t ht
        simp only [List.mem_append, List.mem_singleton] at hx
        rcases hx with hx | rfl
        · exact hM.node.tops x hx t ht
        · cases ht

theorem ti_connect {w : World} (h : TI w) (c : String) (i : Nat) (client mount : String) (authOk : Bool)
    (keepalive : Nat) (will : Option Will) (hno : NoConn c w) : TI (w.connect c i client mount authOk keepalive will) :=
  ⟨rinv_connect h.r c i client mount authOk keepalive will hno, t_connect h.t c i client mount authOk keepalive will⟩

theorem ti_drop {w : World} (h : TI w) (c : String) : TI (w.drop c) ∧ NoConn c (w.drop c) := by
  refine ⟨⟨(rinv_drop h.r c).1, ?_⟩, (rinv_drop h.r c).2⟩
  unfold World.drop
  split
  · exact h.t
  · rename_i x i hf
    simp only []
    have h0 : T ({ w with conns := w.conns.filter (fun e => e.1 != c) } : World) := tx_frame h.t rfl
    split
    · exact t_shutdown i _ (h.r.node i) h0
    · exact tx_emit h0 _ _

/-! ### gossip, node failure, time -/

theorem t_deliverGossip {w : World} (h : T w) (src dst : Nat) : T (w.deliverGossip src dst) := by
  unfold World.deliverGossip
  simp only [pend_nil h src, List.filter_nil, List.map_nil, List.foldl_nil]
  have h1 : T (w.setNode src { w.node src with pending := [] }) :=
    tx_setNode_same h src _ rfl rfl rfl (pend_nil h src).symm
  split
  · exact h1
  · exact tx_setNode_same h1 dst _

theorem ti_deliverGossip {w : World} (h : TI w) (src dst : Nat) : TI (w.deliverGossip src dst) :=
  ⟨rinv_deliverGossip h.r src dst, t_deliverGossip h.t src dst⟩

theorem ti_gossipRound {w : World} (h : TI w) : TI w.gossipRound := by
  unfold World.gossipRound
  simp only []
  refine foldl_inv TI _ _ _ h ?_
  intro b a _ hb
  refine foldl_inv TI _ _ _ hb ?_
  intro b' a' _ hb'
  split
  · exact ti_deliverGossip hb' _ _
  · exact hb'

theorem ti_gossipAll {w : World} (h : TI w) : TI w.gossipAll := by
  unfold World.gossipAll
  exact foldl_inv TI _ _ _ h (fun b _ _ hb => ti_gossipRound hb)

theorem t_leavePrefix {w : World} (h : T w) (i : Nat) (peer : Nat) (hwf : SubsWF (w.node i).dist.subs) :
    T (AgentA.leavePrefix w i peer) := by
  unfold AgentA.leavePrefix
  refine tx_distWrite h i (subDeletePeer (w.node i).dist w.clock peer).1 (subDeletePeer (w.node i).dist w.clock peer).2
    (fun hi _ hl => ?_)
  subst hi
  unfold subDeletePeer subBulkDelete
  simp only
  refine foldl_subsSet_forall (fun k u => QLx _ (w.node 0) k u) _ _ hl ?_
  intro v hv
  simp only [List.mem_map, subFilter, List.mem_flatMap, List.mem_filter] at hv
  obtain ⟨x, ⟨kl, hkl, hx, hxa⟩, rfl⟩ := hv
  simp only [Bool.and_eq_true] at hxa
  intro _
  have := hl kl hkl x hx hxa.1
  rw [← (hwf.2 kl hkl).2 x hx] at this
  exact this

theorem t_leaveStep {w : World} (h : T w) (i : Nat) (s : SessionMD) : T (AgentA.leaveStep i w s) := by
  unfold AgentA.leaveStep
  split
  · exact h
  · simp only []
    split
    · exact tx_deliverLocal (tx_appendLog h _ _) _ _
    · exact tx_appendLog h _ _

theorem t_notifyLeave {w : World} (h : T w) (i : Nat) (peer : Nat) (hwf : SubsWF (w.node i).dist.subs) :
    T (w.notifyLeave i peer) := by
  rw [AgentA.notifyLeave_eq]
  simp only
  refine tx_setNode_same ?_ i _
  exact foldl_inv T _ _ _ (t_leavePrefix h i peer hwf) (fun b a _ hb => t_leaveStep hb i a)

theorem nodeFail_loop (W0 : World) (hT : T W0) (hW : ∀ j, SubsWF (W0.node j).dist.subs) (f p : Nat) :
    T ((List.range W0.nodes.length).foldl (fun w i => if i ≠ f ∧ !(w.node i).failed then w.notifyLeave i p else w) W0) := by
  rw [hT.len]
  show T ([0].foldl _ W0)
  simp only [List.foldl_cons, List.foldl_nil]
  split
  · exact t_notifyLeave hT 0 _ (hW 0)
  · exact hT

theorem t_nodeFail {w : World} (hr : RInv w) (h : T w) (f : Nat) : T (w.nodeFail f) := by
  unfold World.nodeFail
  simp only []
  have h1 : T (w.setNode f { w.node f with failed := true, reg := [], pending := [] }) := by
    refine tx_setNode h f _ (fun _ => ⟨rfl, fun hf => (by cases hf), fun r hr => (by cases hr)⟩)
  have hwf1 : ∀ j, SubsWF ((w.setNode f { w.node f with failed := true, reg := [], pending := [] }).node j).dist.subs := by
    intro j
    rw [node_setNode]
    split
    · exact (hr.node f).subsWF
    · exact (hr.node j).subsWF
  refine nodeFail_loop _ ?_ ?_ f _
  · exact foldl_inv T _ _ _ (tx_frame h1 rfl) (fun b a _ hb => tx_emit hb _ _)
  · exact foldl_inv (fun b : World => ∀ j, SubsWF (b.node j).dist.subs) _ _ _ hwf1 (fun b a _ hb => hb)

theorem ti_nodeFail {w : World} (h : TI w) (f : Nat) : TI (w.nodeFail f) := ⟨rinv_nodeFail h.r f, t_nodeFail h.r h.t f⟩

theorem t_idleTimers {w : World} (h : T w) (i : Nat) : T (idleTimers w i) := by
  unfold idleTimers
  simp only []
  refine foldl_inv T _ _ _ (tx_setNode_same h i _) ?_
  intro b a _ hb
  exact tx_distWrite_same hb i (sessDeletePeer (b.node i).dist b.clock a.2).1 (sessDeletePeer (b.node i).dist b.clock a.2).2 rfl

theorem ti_idleNode {w : World} (h : TI w) (i : Nat) : TI (idleNode w i) := by
  unfold idleNode
  split
  · exact h
  · refine foldl_inv TI _ _ _ ⟨rinv_idleTimers h.r i, t_idleTimers h.t i⟩ ?_
    intro b a _ hb
    split
    · split
      · exact ti_shutdown hb _ _
      · exact hb
    · exact hb

theorem ti_frame {w w' : World} (h : TI w) (hn : w'.nodes = w.nodes) (hc : w'.conns = w.conns) (hk : w'.clock = w.clock) :
    TI w' :=
  ⟨rinv_frame h.r hn hc (by rw [hk]; exact Int.le_refl _), tx_frame h.t hn⟩

theorem ti_idle {w : World} (h : TI w) (ms : Int) : TI (w.idle ms) := by
  rw [idle_eq]
  refine foldl_inv TI _ _ _ (ti_frame (w := w) h rfl rfl rfl) ?_
  intro b a _ hb
  exact ti_idleNode hb a

/-! ### the byte-level path (Wasp/Model/Wire.lean) -/

theorem ti_setBuf {w : World} (h : TI w) (c : String) (b : Wire.Bytes) : TI (setBuf w c b) := ti_frame h rfl rfl rfl

theorem ti_failConn {w : World} (h : TI w) (c : String) : TI (failConn w c) := by
  unfold failConn
  cases hf : w.conns.find? (fun e => e.1 == c) with
  | none => exact h
  | some p =>
    obtain ⟨x, i⟩ := p
    simp only []
    split
    · exact ti_shutdown h _ _
    · rename_i hhs
      rw [hasSession_of_find hf] at hhs
      have hno := noConn_of_noSess h.r hf (sess_none_of_not_isSome hhs)
      exact ⟨rinv_filterConns h.r c hno rfl rfl rfl, tx_frame h.t rfl⟩

theorem ti_applyDecoded {w : World} (h : TI w) (c : String) (r : DRes) : TI (applyDecoded w c r) := by
  unfold applyDecoded
  cases hf : w.conns.find? (fun e => e.1 == c) with
  | none => exact h
  | some p =>
    obtain ⟨x, i⟩ := p
    simp only []
    split
    · cases r with
      | pkt p => exact ti_clientPacket h _ _
      | connect a b c d e => exact ti_clientPacket h _ _
      | err => exact ti_failConn h _
      | panic => exact ti_failConn h _
    · rename_i hhs
      rw [hasSession_of_find hf] at hhs
      have hno := noConn_of_noSess h.r hf (sess_none_of_not_isSome hhs)
      cases r with
      | connect client user pass ka will =>
        simp only []
        split
        · exact ti_connect h _ _ _ _ _ _ _ hno
        · exact ti_connect h _ _ _ _ _ _ _ hno
      | pkt p => exact ti_failConn h _
      | err => exact ti_failConn h _
      | panic => exact ti_failConn h _

theorem ti_pump (c : String) (fuel : Nat) : ∀ w : World, TI w → TI (pump fuel w c).1 := by
  induction fuel with
  | zero => intro w h; exact h
  | succ fuel ih =>
    intro w h
    unfold pump
    split
    · exact ti_setBuf h _ _
    · split
      · exact ti_setBuf h _ _
      · split
        · exact h
        · exact ti_failConn (ti_setBuf h _ _) _
        · exact ih _ (ti_applyDecoded (ti_setBuf h _ _) _ _)

theorem ti_rawBytes {w : World} (h : TI w) (c : String) (b : Wire.Bytes) : TI (rawBytes w c b).1 := by
  unfold rawBytes
  split
  · exact h
  · exact ti_pump c _ _ (ti_setBuf h _ _)

theorem ti_closeFin {w : World} (h : TI w) (c : String) : TI (AgentT1.closeFin w c) ∧ NoConn c (AgentT1.closeFin w c) := by
  unfold AgentT1.closeFin
  split
  · rename_i hany
    split
    · exact ti_drop h c
    · rename_i hhs
      cases hf : w.conns.find? (fun e => e.1 == c) with
      | none =>
        have hno := noConn_of_find_none h.r hf
        exact ⟨⟨rinv_filterConns h.r c hno rfl rfl rfl, tx_frame h.t rfl⟩, noConn_congr hno rfl⟩
      | some p =>
        obtain ⟨x, i⟩ := p
        rw [hasSession_of_find hf] at hhs
        have hno := noConn_of_noSess h.r hf (sess_none_of_not_isSome hhs)
        exact ⟨⟨rinv_filterConns h.r c hno rfl rfl rfl, tx_frame h.t rfl⟩, noConn_congr hno rfl⟩
  · rename_i hany
    have hno := noConn_of_find_none h.r (any_false_find hany)
    exact ⟨ti_emit h _ _, noConn_congr hno rfl⟩

theorem ti_closeRaw {w : World} (h : TI w) (c : String) :
    TI (closeFromClientRaw w c) ∧ NoConn c (closeFromClientRaw w c) := by
  rw [AgentT1.closeRaw_eq]
  apply ti_closeFin
  split
  · exact ti_setBuf h _ _
  · split
    · exact ti_applyDecoded (ti_setBuf h _ _) _ _
    · exact ti_setBuf h _ _

theorem ti_closeFromClient {w : World} (h : TI w) (c : String) :
    TI (closeFromClient w c) ∧ NoConn c (closeFromClient w c) := by
  unfold closeFromClient
  have := ti_closeRaw h c
  exact ⟨ti_frame this.1 rfl rfl rfl, noConn_congr this.2 rfl⟩

theorem ti_openConn {w : World} (h : TI w) (c : String) (i : Nat) (hno : NoConn c w) : TI (openConn w c i) :=
  ⟨rinv_reassign h.r c i hno rfl rfl rfl, tx_frame h.t rfl⟩

theorem ti_hsStep {w : World} (h : TI w) (e : String × Int) : TI (AgentT1.hsStep w e) := by
  unfold AgentT1.hsStep
  split
  · exact (ti_closeRaw (ti_frame (w' := { w with hs := w.hs.filter (fun x => x.1 != e.1) }) h rfl rfl rfl) _).1
  · exact h

theorem ti_expireHandshakes {w : World} (h : TI w) : TI (expireHandshakes w) := by
  rw [AgentT1.expire_eq]
  exact foldl_inv TI _ _ _ h (fun b a _ hb => ti_hsStep hb a)

theorem ti_wireIdle {w : World} (h : TI w) (ms : Int) : TI (Wasp.Wire.idle w ms) := by
  unfold Wasp.Wire.idle
  exact ti_expireHandshakes (ti_idle h ms)

theorem ti_elapse {w : World} (h : TI w) (ms : Int) : TI (Wasp.Wire.elapse w ms) := by
  unfold Wasp.Wire.elapse
  apply ti_wireIdle
  refine ⟨⟨h.r.clockPos, fun j => ?_, fun j s hs => ?_⟩, ⟨by simp only [List.length_map]; exact h.t.len, ?_⟩⟩
  · rw [shift_node]
    have hn := h.r.node j
    exact ⟨hn.regNodup, hn.regConn, hn.subsWF, hn.subsClock, hn.pendClock⟩
  · rw [shift_node] at hs
    exact h.r.conns j s hs
  · rw [shift_node]
    exact ⟨h.t.node.pend, h.t.node.live, h.t.node.tops⟩

/-! ### the operations of `applyOp`, one lemma per operation -/

theorem ti_init : TI (World.init 1) := by
  refine ⟨(gi_init 1).2, ⟨rfl, ?_⟩⟩
  have hnode : (World.init 1).node 0 = { peer := 1, dist := { peer := 1 }, pool := initPool } := rfl
  rw [hnode]
  exact ⟨rfl, fun _ kl hkl => (by cases hkl), fun r hr => (by cases hr)⟩

theorem ti_op_connect {w : World} (h : TI w) (c : String) (node : Nat) (client mount : String) (authOk : Bool)
    (ka : Nat) (will : Option Will) : TI (applyOp w (.connect c node client mount authOk ka will)) := by
  simp only [applyOp]
  have h1 : TI (if w.conns.any (fun e => e.1 == c) then w.drop c else w) ∧
      NoConn c (if w.conns.any (fun e => e.1 == c) then w.drop c else w) := by
    split
    · exact ti_drop h c
    · rename_i hany
      exact ⟨h, noConn_of_find_none h.r (any_false_find hany)⟩
  generalize (if w.conns.any (fun e => e.1 == c) then w.drop c else w) = w1 at h1
  exact ti_connect (ti_frame (w' := { w1 with out := w1.out.filter (fun e => e.1 != c), deaf := w1.deaf.filter (· != c) }) h1.1 rfl rfl rfl) _ _ _ _ _ _ _
    (noConn_congr h1.2 rfl)

theorem ti_op_packet {w : World} (h : TI w) (c : String) (pkt : CPkt) : TI (applyOp w (.packet c pkt)) := by
  simp only [applyOp]
  split
  · exact ti_clientPacket h _ _
  · exact h

theorem ti_op_drop {w : World} (h : TI w) (c : String) : TI (applyOp w (.drop c)) := (ti_closeFromClient h c).1

theorem ti_op_openConn {w : World} (h : TI w) (c : String) (node : Nat) : TI (applyOp w (.openConn c node)) := by
  simp only [applyOp]
  have h1 : TI (if w.conns.any (fun e => e.1 == c) then closeFromClient w c else w) ∧
      NoConn c (if w.conns.any (fun e => e.1 == c) then closeFromClient w c else w) := by
    split
    · exact ti_closeFromClient h c
    · rename_i hany
      exact ⟨h, noConn_of_find_none h.r (any_false_find hany)⟩
  generalize (if w.conns.any (fun e => e.1 == c) then closeFromClient w c else w) = w1 at h1
  exact ti_openConn (ti_frame (w' := { w1 with deaf := w1.deaf.filter (· != c) }) h1.1 rfl rfl rfl) c node (noConn_congr h1.2 rfl)

theorem ti_op_raw {w : World} (h : TI w) (c : String) (b : List Nat) : TI (applyOp w (.raw c b)) := ti_rawBytes h c b

theorem ti_op_gossipOne {w : World} (h : TI w) (f t k : Nat) : TI (applyOp w (.gossipOne f t k)) := by
  simp only [applyOp, pend_nil h.t f, List.filter_nil, List.getElem?_nil]
  exact h

theorem ti_op_loseGossip {w : World} (h : TI w) (f t : Nat) : TI (applyOp w (.loseGossip f t)) := by
  simp only [applyOp]
  exact ⟨rinv_setPending h.r f _ (fun e he => (List.mem_filter.mp he).1),
    tx_setNode_same h.t f _ rfl rfl rfl (by rw [pend_nil h.t f]; rfl)⟩

theorem mergeSubs_forall (Q : String → Sub → Prop) (vs : List Sub) (m : List (String × List Sub))
    (hm : ∀ kl ∈ m, ∀ x ∈ kl.2, Q kl.1 x) (hv : ∀ v ∈ vs, Q v.pattern v) :
    ∀ kl ∈ mergeSubs vs m, ∀ x ∈ kl.2, Q kl.1 x := by
  induction vs generalizing m with
  | nil => exact hm
  | cons v rest ih =>
    simp only [mergeSubs]
    split
    · exact hm
    · exact ih _ (subsSet_forall Q v m hm (hv v (by simp))) (fun u hu => hv u (by simp [hu]))

theorem ti_op_sync {w : World} (h : TI w) (f t : Nat) : TI (applyOp w (.sync f t)) := by
  simp only [applyOp]
  constructor
  · refine rinv_setDist h.r t _ (merge_step _ _ _ ?_)
    intro u hu
    simp only [snapshot, List.mem_flatMap] at hu
    obtain ⟨kl, hkl, hukl⟩ := hu
    exact (h.r.node f).subsClock kl hkl u hukl
  · refine tx_setDist h.t t _ (fun ht _ hl => ?_)
    subst ht
    show ∀ kl ∈ mergeSubs (snapshot (w.node f).dist).subs (w.node 0).dist.subs, _
    refine mergeSubs_forall (fun k u => QLx _ (w.node 0) k u) _ _ hl ?_
    intro v hv
    simp only [snapshot, List.mem_flatMap] at hv
    obtain ⟨kl, hkl, hv⟩ := hv
    by_cases hf0 : f = 0
    · subst hf0
      have := hl kl hkl v hv
      rw [← ((h.r.node 0).subsWF.2 kl hkl).2 v hv] at this
      exact this
    · rw [subs_oob h.t f hf0] at hkl
      cases hkl

theorem ti_setFlags {w : World} (h : TI w) (i : Nat) (n' : Node)
    (hr : n'.reg = (w.node i).reg := by rfl) (hs : n'.dist.subs = (w.node i).dist.subs := by rfl)
    (hf : n'.failed = (w.node i).failed := by rfl) (hp : n'.pending = (w.node i).pending := by rfl) : TI (w.setNode i n') :=
  ⟨rinv_setNode_same h.r i n' hr hs hp, tx_setNode_same h.t i n' hr hs hf hp⟩

theorem ti_op_setPool {w : World} (h : TI w) (n : Nat) (lo hi : Int) : TI (applyOp w (.setPool n lo hi)) := by
  simp only [applyOp]
  split
  · exact ti_setFlags h n _
  · exact h

/-- every operation of the harness preserves the invariant of a one-node world -/
theorem ti_step {w : World} (h : TI w) (op : BOp) : TI (applyOp w op) := by
  cases op with
  | connect c node client mount authOk ka will => exact ti_op_connect h c node client mount authOk ka will
  | packet c pkt => exact ti_op_packet h c pkt
  | drop c => exact ti_op_drop h c
  | openConn c node => exact ti_op_openConn h c node
  | raw c b => exact ti_op_raw h c b
  | gossipAll => exact ti_gossipAll h
  | gossip f t => exact ti_deliverGossip h f t
  | gossipOne f t k => exact ti_op_gossipOne h f t k
  | loseGossip f t => exact ti_op_loseGossip h f t
  | sync f t => exact ti_op_sync h f t
  | unreachable n b => exact ti_setFlags h n _
  | logFailAll n b => exact ti_setFlags h n _
  | logFailAt n k => exact ti_setFlags h n _
  | logFailNone n => exact ti_setFlags h n _
  | nodeFail n => exact ti_nodeFail h n
  | sweep n => exact ⟨rinv_sweep h.r n, tx_sweep h.t n⟩
  | idle ms => exact ti_wireIdle h ms
  | elapse ms => exact ti_elapse h ms
  | setPool n lo hi => exact ti_op_setPool h n lo hi
  | rpcPublish n topic payload => exact ⟨rinv_distribute h.r n _, tx_distribute h.t n _⟩

theorem ti_run (ops : List BOp) : ∀ w : World, TI w → TI (run w ops) := by
  induction ops with
  | nil => intro w h; exact h
  | cons op rest ih => intro w h; exact ih _ (ti_step h op)

theorem pinv_run {N : Nat} (ops : List BOp) : ∀ w : World, AgentT7.PInv N w → AgentT7.PInv N (run w ops) := by
  induction ops with
  | nil => intro w h; exact h
  | cons op rest ih => intro w h; exact ih _ (AgentT7.pinv_step h op)

/-- every reachable one-node world satisfies the invariant -/
theorem ti_reachable (w : World) (hr : Reachable w) (hlen : w.nodes.length = 1) : TI w := by
  obtain ⟨n, ops, rfl⟩ := hr
  have hn : n = 1 := by
    rw [← (pinv_run ops _ (AgentT7.pinv_init n)).len]
    exact hlen
  subst hn
  exact ti_run ops _ ti_init

theorem subSessInv_of_ti {w : World} (h : TI w) : SubSessInv w := by
  intro i hf kl hkl u hu hadd _ r hr
  by_cases hi : i = 0
  · subst hi
    rcases h.t.node.live hf kl hkl u hu hadd with ⟨r', hr', hk⟩ | hh
    · rw [hr] at hr'
      cases hr'
      exact h.t.node.tops r (sess_some hr).1 kl.1 hk
    · exact absurd hh (fun x => x)
  · rw [subs_oob h.t i hi] at hkl
    cases hkl

end Wasp.Broker.AgentT8

import Wasp.Generated.Translated
import Wasp.Generated.Facts
import Wasp.Model.Topic
/-! The tie (a): the definitions REGENERATED from the Go source on every run coincide with
    the hand-written model definitions the theorems use. A changed operator in the Go
    source changes `Wasp.Generated.*`, and these equations stop type-checking. -/
namespace Wasp.Tie
open Wasp

theorem indexByte_nonneg_or (t : List Char) (c : Char) : Go.indexByte t c = -1 ∨ 0 ≤ Go.indexByte t c := by
  induction t with
  | nil => left; rfl
  | cons a as ih =>
    unfold Go.indexByte
    split
    · right; omega
    · simp only []
      split
      · left; rfl
      · right; omega

/-- format.Topic.Next as translated from the source = the model's `Topic.next` -/
theorem topicNext_eq (t : List Char) : Generated.topicNext t = Topic.next t := by
  induction t with
  | nil => simp [Generated.topicNext, Topic.next, Go.indexByte]
  | cons c cs ih =>
    unfold Generated.topicNext at ih ⊢
    unfold Topic.next
    by_cases hc : c = '/'
    · subst hc
      simp [Go.indexByte, Go.sliceFrom, Go.sliceTo]
    · simp only [hc, if_false]
      rw [← ih]
      have hidx : Go.indexByte (c :: cs) '/' = if Go.indexByte cs '/' < 0 then -1 else Go.indexByte cs '/' + 1 := by
        conv => lhs; unfold Go.indexByte
        simp [hc]
      rcases indexByte_nonneg_or cs '/' with h | h
      · simp [hidx, h]
      · have h2 : ¬ (Go.indexByte cs '/' < 0) := by omega
        have h3 : ¬ (Go.indexByte cs '/' + 1 < 0) := by omega
        simp only [hidx, h2, h3, if_false, decide_false, Bool.false_eq_true]
        have e1 : (Go.indexByte cs '/' + 1 + 1).toNat = (Go.indexByte cs '/' + 1).toNat + 1 := by omega
        have e2 : (Go.indexByte cs '/' + 1).toNat = (Go.indexByte cs '/').toNat + 1 := by omega
        simp [Go.sliceFrom, Go.sliceTo, e1, e2]

/-- sessions.trimMountPoint as translated = dropping the mount point and one separator -/
theorem trimMountPoint_eq (mp t : String) :
    String.ofList (Generated.trimMountPoint mp.toList t.toList) = Topic.trimMountPoint mp t := by
  simp [Generated.trimMountPoint, Topic.trimMountPoint, Go.sliceFrom, Go.len]
  congr 1

end Wasp.Tie
